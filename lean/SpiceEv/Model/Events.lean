/-
Model of spice_ev/events.py, transliterated statement by statement.

Times are `Int` microseconds.  All datetimes of one scenario are either all timezone-aware or all
naive (a mixed comparison raises `TypeError` in Python and is outside this model); the harness
sends aware datetimes normalised to UTC (CPython compares and subtracts aware datetimes by their UTC
instant) and naive ones as they are.  The CSV schedule reader needs wall-clock fields (`.hour`,
`.replace(hour=9,…)`), there a time is a pair (local µs, UTC offset µs).

Generic in the number type `α` of the carried values (run on `Rat` in the driver).
-/
import SpiceEv.Py
namespace SpiceEv

/-- a connector's / a signal's `cost` dict.  Only its truthiness (`{}` is falsy) and its identity
matter to the event loop; non-empty dicts other than the two documented shapes are not modelled
(they are truthy and behave like `fixed`/`poly` for every statement of `Strategy.step`). -/
inductive Cost (α : Type) where
  | empty
  | fixed (value : α)
  | poly (coeffs : List α)
  deriving Repr, BEq

/-- `event_type` of a `VehicleEvent`; every string other than the two the code tests for
(e.g. `"schedule"`) behaves the same -/
inductive VehKind where
  | arrival | departure | other
  deriving Repr, DecidableEq

/-- the `update` dict of a `VehicleEvent` (after the constructor's conversions).  Outer `none` =
key absent.  `estimated_time_of_*` and `connected_charging_station` may be present with value
`None`; `float(None)` raises in the constructor, so the numeric keys cannot.  Keys other than these
six are `setattr`ed on the vehicle too, but no statement of `Strategy.step` reads any other
attribute, so they are not modelled (a key that replaces `battery` or `vehicle_type` is outside the
model). -/
structure VehUpdate (α : Type) where
  eta : Option (Option Int) := none
  etd : Option (Option Int) := none
  desired : Option α := none
  socDelta : Option α := none
  station : Option (Option String) := none
  schedule : Option α := none
  deriving Repr

/-- the four event classes with their payload -/
inductive EvKind (α : Type) where
  | fixedLoad (name gc : String) (value : α)
  | localGen (name gc : String) (value : α)
  | gridSignal (gc : String) (maxPower : Option α) (cost : Option (Cost α)) (target : Option α)
      (window : Option Bool)
  | vehicle (vid : String) (kind : VehKind) (upd : VehUpdate α)
  deriving Repr

structure Event (α : Type) where
  signal : Int
  start : Int
  kind : EvKind α
  deriving Repr

/-- `EnergyValuesList` after its constructor: `stepUs` is `timedelta(seconds=step_duration_s)` in µs
(the float → timedelta rounding is CPython's and is done by the harness) -/
structure ValuesList (α : Type) where
  start : Int
  stepUs : Int
  gc : String
  values : List α
  factor : α
  deriving Repr

section
variable {α : Type} [Mul α] [OfNat α 0]

/-- loop body of `EnergyValuesList.get_events` for the element `value` at position `idx` -/
def ValuesList.eventAt (l : ValuesList α) (name : String) (gen foresight : Bool) (idx : Nat)
    (value : α) : Event α :=
  let idxTime := l.start + l.stepUs * (idx : Int)
  { signal := if foresight then l.start else idxTime
    start := idxTime
    kind := if gen then .localGen name l.gc (value * l.factor)
            else .fixedLoad name l.gc (value * l.factor) }

/-- `for idx, value in enumerate(...)` from position `idx` on -/
def ValuesList.eventsFrom (l : ValuesList α) (name : String) (gen foresight : Bool) :
    Nat → List α → List (Event α)
  | _, [] => []
  | idx, v :: vs => l.eventAt name gen foresight idx v :: l.eventsFrom name gen foresight (idx + 1) vs

/-- `EnergyValuesList.get_events(name, value_class, has_perfect_foresight)`:
one event per element of `self.values + [0]`. `gen` = `value_class is LocalEnergyGeneration`. -/
def ValuesList.getEvents (l : ValuesList α) (name : String) (gen foresight : Bool) : List (Event α) :=
  l.eventsFrom name gen foresight 0 (l.values ++ [0])
end

/-- the `Events` object after its constructor (CSV-derived signals already appended to
`gridSignals` in the constructor's order: JSON signals, price list, schedule) -/
structure Events (α : Type) where
  fixedLoads : List (String × ValuesList α)
  localGen : List (String × ValuesList α)
  gridSignals : List (Event α)
  vehicleEvents : List (Event α)

section
variable {α : Type} [Mul α] [OfNat α 0]

/-- the order in which `get_event_steps` assembles `all_events` -/
def Events.allEvents (e : Events α) : List (Event α) :=
  e.vehicleEvents ++ e.gridSignals
    ++ e.fixedLoads.flatMap (fun (name, l) => l.getEvents name false false)
    ++ e.localGen.flatMap (fun (name, l) => l.getEvents name true true)
end

/-- `index = -((start_time - event.signal_time) // interval)` (Python floor division) -/
def bucketIndex (start signal interval : Int) : Int := -(Int.fdiv (start - signal) interval)

structure Steps (α : Type) where
  steps : List (List (Event α))
  moved : Nat
  ignored : Nat

/-- loop body of `get_event_steps` -/
def placeEvent {α : Type} (start : Int) (n : Nat) (interval : Int) (acc : Steps α) (e : Event α) :
    Py (Steps α) :=
  if interval = 0 then .error .zeroDivision
  else
    let index := bucketIndex start e.signal interval
    if index < 0 then
      match acc.steps with
      | [] => .error .indexError                         -- `steps[0]` with `n_intervals == 0`
      | s0 :: rest => .ok { acc with steps := (s0 ++ [e]) :: rest, moved := acc.moved + 1 }
    else if (n : Int) ≤ index then .ok { acc with ignored := acc.ignored + 1 }
    else .ok { acc with steps := acc.steps.modify index.toNat (· ++ [e]) }

/-- `Events.get_event_steps` on the assembled `all_events` -/
def getEventSteps {α : Type} (start : Int) (n : Nat) (interval : Int) (all : List (Event α)) :
    Py (Steps α) :=
  all.foldlM (placeEvent start n interval) { steps := List.replicate n [], moved := 0, ignored := 0 }

/-! ### CSV readers (on parsed rows) -/

/-- `get_energy_price_list_from_csv`: `vals` = `float(row[column])` per row, `stepUs` =
`timedelta(seconds=obj["step_duration_s"])`; `obj` falsy is handled by the caller (`[]`). -/
def priceListFrom {α : Type} (start stepUs : Int) (gc : String) : Nat → List α → List (Event α)
  | _, [] => []
  | idx, v :: vs =>
    let startTime := (idx : Int) * stepUs + start
    let yesterday : Int := 86400000000
    -- `max(start, start_time - yesterday)`
    let eventTime := if start < startTime - yesterday then startTime - yesterday else start
    { signal := eventTime, start := startTime
      kind := .gridSignal gc none (some (.fixed v)) none none } :: priceListFrom start stepUs gc (idx + 1) vs

def priceList {α : Type} (start stepUs : Int) (gc : String) (vals : List α) : List (Event α) :=
  priceListFrom start stepUs gc 0 vals

/-- wall-clock datetime: local µs since the epoch and UTC offset in µs (`none` = naive) -/
structure DT where
  loc : Int
  off : Option Int
  deriving Repr

/-- the instant used when the datetime is compared / exported: UTC for aware, wall clock for naive -/
def DT.utc (t : DT) : Int := t.loc - t.off.getD 0

/-- `a < b` on datetimes; comparing an aware with a naive datetime raises `TypeError` -/
def DT.lt (a b : DT) : Py Bool :=
  if a.off.isSome == b.off.isSome then .ok (decide (a.utc < b.utc)) else .error .typeError

def usDay : Int := 86400000000
def usHour : Int := 3600000000
def usSecond : Int := 1000000

/-- `.replace(hour=9, minute=0, second=0)` — the microsecond field is kept -/
def DT.atNine (t : DT) : DT :=
  { t with loc := t.loc - t.loc.emod usDay + 9 * usHour + t.loc.emod usSecond }

/-- one parsed row of the schedule CSV: first column as a datetime if `fromisoformat` accepts it,
target, window flag (meaningful only when the file has a window column), and the last
`len(vehicle_names)` cells of the row in file order -/
structure SchedRow (α : Type) where
  time : Option DT
  target : α
  window : Bool
  perVehicle : List α

structure SchedState (α : Type) where
  start : Option DT
  lastTarget : Option α
  lastWindow : Option Bool                 -- `None` initially and when the file has no window column
  vehSched : List (Option α)               -- `vehicle_schedules`, index i ↔ reversed(vehicle_names)[i]
  out : List (Event α)

section
variable {α : Type} [LT α] [DecidableLT α]

/-- time part of one row: `start_time`, `signal_time` and the possibly initialised `start`. -/
def schedTimes (start : Option DT) (stepUs : Int) (idx : Nat) (rowTime : Option DT) :
    Py (DT × DT × DT) :=
  let st : Py (DT × DT) :=
    match rowTime, start with
    | some t, some s =>
      -- `if (start is None or start.tzinfo) and not start_time.tzinfo:` make aware (+02:00)
      .ok (if s.off.isSome && t.off.isNone then { t with off := some (2 * usHour) } else t, s)
    | some t, none =>
      let t' : DT := if t.off.isNone then { t with off := some (2 * usHour) } else t
      .ok (t', t')                                          -- `start = start or start_time`
    | none, some s => .ok ({ s with loc := (idx : Int) * stepUs + s.loc }, s)
    | none, none => .error .typeError                       -- `idx * interval + None`
  st.bind fun (startTime, start') =>
    let sig0 : DT :=
      if startTime.loc.emod usDay < 12 * usHour then { startTime with loc := startTime.loc - 2 * usDay }
      else { startTime with loc := startTime.loc - usDay }
    let sig1 := sig0.atNine
    -- `max(start, signal_time)`: the second argument only if it is greater
    (start'.lt sig1).bind fun b =>
      .ok (startTime, if b then sig1 else start', start')

/-- per-vehicle loop of one row: `for i, vid in enumerate(reversed(vehicle_names))`, reading
`row[-1 - i]` and `vehicle_schedules[i]` -/
def schedVehicles (startTime sig : DT) :
    List String → List α → List (Option α) → List (Event α) × List (Option α)
  | vid :: vids, v :: vs, old :: olds =>
    let changed := match old with
      | none => true
      | some o => decide (o < v) || decide (v < o)
    let r := schedVehicles startTime sig vids vs olds
    if changed then
      ({ signal := sig.utc, start := startTime.utc,
         kind := .vehicle vid .other { schedule := some v } } :: r.1, some v :: r.2)
    else (r.1, old :: r.2)
  | _, _, olds => ([], olds)

/-- one row of `get_schedule_from_csv` **with the repair fixes/D8.diff applied**: the row's
`start_time`/`signal_time` are computed for every row (the pinned code computed them only inside the
`if target != last_target or window != last_window:` block, so per-vehicle events of a row without a
connector change carried the times of the last row that had one). -/
def schedRow (gc : String) (hasWindow : Bool) (names : List String) (stepUs : Int)
    (st : SchedState α) (idx : Nat) (row : SchedRow α) : Py (SchedState α) :=
  let window : Option Bool := if hasWindow then some row.window else none
  (schedTimes st.start stepUs idx row.time).bind fun (startTime, sig, start') =>
    let targetChanged := match st.lastTarget with
      | none => true
      | some t => decide (t < row.target) || decide (row.target < t)
    let changed := targetChanged || (st.lastWindow != window)
    -- `assert signal_time <= start_time` — in the repair committed to /repo (67d8e5f) the assertion is
    -- evaluated for every row, like the time computation it guards (TypeError if naive/aware are mixed)
    let chk : Py Unit :=
      (sig.lt startTime).bind fun _ =>
        if sig.utc ≤ startTime.utc then .ok () else .error .assertion
    let conn : Py (List (Event α)) :=
      chk.bind fun _ =>
        if changed then
          .ok [{ signal := sig.utc, start := startTime.utc,
                 kind := .gridSignal gc none none (some row.target) window }]
        else .ok []
    conn.bind fun connEv =>
      let r := schedVehicles startTime sig names.reverse row.perVehicle.reverse st.vehSched
      .ok { start := some start'
            lastTarget := if changed then some row.target else st.lastTarget
            lastWindow := if changed then window else st.lastWindow
            vehSched := r.2
            out := st.out ++ connEv ++ r.1 }

def schedRows (gc : String) (hasWindow : Bool) (names : List String) (stepUs : Int) :
    SchedState α → Nat → List (SchedRow α) → Py (SchedState α)
  | st, _, [] => .ok st
  | st, idx, row :: rows =>
    (schedRow gc hasWindow names stepUs st idx row).bind fun st' =>
      schedRows gc hasWindow names stepUs st' (idx + 1) rows

/-- `get_schedule_from_csv` (repaired, see `schedRow`) on parsed rows. `names` = `header[7:]` in
individual mode, `[]` otherwise. -/
def scheduleFromRows (start : Option DT) (stepUs : Int) (gc : String) (hasWindow : Bool)
    (names : List String) (rows : List (SchedRow α)) : Py (List (Event α)) :=
  (schedRows gc hasWindow names stepUs
    { start := start, lastTarget := none, lastWindow := none,
      vehSched := List.replicate names.length none, out := [] } 0 rows).map (·.out)
end

end SpiceEv
