/-
C18 — Reports are faithful to the simulation.

Property theorems only (helper lemmas and the reference specs `namedRow`, `SocEntryOk`,
`minuteOfDay`, `batEnergySpec` live in SpiceEv/Proofs/Report.lean).  All statements are about the
executable model SpiceEv/Model/Report.lean — the definitions the driver runs on exact rationals
against the files written by the real `generate_reports` — instantiated at an arbitrary linearly
ordered field, with `round(·, 3)` an arbitrary function `rnd` (and, for the two statements that need
it, the driver's round-half-even on ℚ).  The model is the REPAIRED behaviour for D9, D11, O2, N2;
the pinned variants appear in the counterexamples at the end.
-/
import SpiceEv.Proofs.Report
set_option linter.unusedSectionVars false
set_option linter.unusedSimpArgs false
set_option linter.unusedVariables false
namespace SpiceEv
open SpiceEv.Report
variable {α : Type} [Field α] [LinearOrder α] [IsStrictOrderedRing α]

/-! ## split_feedin -/

/-- **Feed-in split**, for ALL real triples (grid feed-in, generation, station sum).  The three
parts before rounding are non-negative; generation takes as much of the feed-in `max grid 0` as it
can (`max (-generation) 0`), V2G as much of the remainder as it can, the battery part is the rest;
they sum to `max grid 0`; a later part is positive only if every earlier one is exhausted; the
function returns the three parts, each passed through `round`. -/
theorem C18_split (grid gen cs : α) :
    ∃ g v b, splitFeedinRaw grid gen cs = (g, v, b) ∧
      0 ≤ g ∧ 0 ≤ v ∧ 0 ≤ b ∧
      g = min (max (-gen) 0) (max grid 0) ∧
      v = min (max (-cs) 0) (max grid 0 - g) ∧
      b = max grid 0 - g - v ∧
      g + v + b = max grid 0 ∧
      (0 < v → g = max (-gen) 0) ∧
      (0 < b → g = max (-gen) 0 ∧ v = max (-cs) 0) ∧
      ∀ rnd : α → α, splitFeedin rnd grid gen cs = [rnd g, rnd v, rnd b] := by
  refine ⟨_, _, _, splitFeedinRaw_eq grid gen cs, ?_⟩
  have hg' : max (min (-gen) grid) 0 = min (max (-gen) 0) (max grid 0) := by
    simp only [max_def, min_def]; split_ifs <;> linarith
  set g := max (min (-gen) grid) 0 with hg
  have g0 : 0 ≤ g := le_max_right _ _
  have gle : g ≤ max grid 0 := by rw [hg']; exact min_le_right _ _
  have hv' : max (min (-cs) (grid - g)) 0 = min (max (-cs) 0) (max grid 0 - g) := by
    have := gle
    simp only [max_def, min_def] at this ⊢; split_ifs at this ⊢ <;> linarith
  set v := max (min (-cs) (grid - g)) 0 with hv
  have v0 : 0 ≤ v := le_max_right _ _
  have vle : v ≤ max grid 0 - g := by rw [hv']; exact min_le_right _ _
  have hb' : max (grid - g - v) 0 = max grid 0 - g - v := by
    have h1 := gle; have h2 := vle
    simp only [max_def, min_def] at h1 h2 ⊢; split_ifs at h1 h2 ⊢ <;> linarith
  refine ⟨g0, v0, le_max_right _ _, hg', hv', hb', ?_, ?_, ?_, ?_⟩
  · rw [hb']; ring
  · intro hpos
    have h1 : g < max grid 0 := by linarith
    rw [hg'] at h1 ⊢
    rcases le_total (max (-gen) 0) (max grid 0) with h | h
    · exact min_eq_left h
    · rw [min_eq_right h] at h1; exact absurd h1 (lt_irrefl _)
  · intro hpos
    rw [hb'] at hpos
    have h1 : g < max grid 0 := by linarith
    have h2 : v < max grid 0 - g := by linarith
    constructor
    · rw [hg'] at h1 ⊢
      rcases le_total (max (-gen) 0) (max grid 0) with h | h
      · exact min_eq_left h
      · rw [min_eq_right h] at h1; exact absurd h1 (lt_irrefl _)
    · rw [hv'] at h2 ⊢
      rcases le_total (max (-cs) 0) (max grid 0 - g) with h | h
      · exact min_eq_left h
      · rw [min_eq_right h] at h2; exact absurd h2 (lt_irrefl _)
  · intro rnd
    simp [splitFeedin, splitFeedinRaw_eq, hg, hv]

/-- **Rounded split** (the driver's `round`: half-even at `p` decimals on exact rationals): every
returned part is non-negative and within `1/(2·10^p)` of the exact part, hence the returned parts
sum to the total feed-in up to `3/(2·10^p)` (1.5 W for `p = 3`). -/
theorem C18_split_rounded (p : Nat) (grid gen cs : ℚ) :
    ∃ g v b, splitFeedinRaw grid gen cs = (g, v, b) ∧
      splitFeedin (pyRoundRat p) grid gen cs = [pyRoundRat p g, pyRoundRat p v, pyRoundRat p b] ∧
      0 ≤ pyRoundRat p g ∧ 0 ≤ pyRoundRat p v ∧ 0 ≤ pyRoundRat p b ∧
      |pyRoundRat p g - g| ≤ 1 / (2 * 10 ^ p) ∧ |pyRoundRat p v - v| ≤ 1 / (2 * 10 ^ p) ∧
      |pyRoundRat p b - b| ≤ 1 / (2 * 10 ^ p) ∧
      |pyRoundRat p g + pyRoundRat p v + pyRoundRat p b - max grid 0| ≤ 3 / (2 * 10 ^ p) := by
  obtain ⟨g, v, b, hraw, g0, v0, b0, _, _, _, hsum, _, _, hr⟩ := C18_split grid gen cs
  refine ⟨g, v, b, hraw, hr _, pyRoundRat_nonneg p g g0, pyRoundRat_nonneg p v v0,
    pyRoundRat_nonneg p b b0, pyRoundRat_close p g, pyRoundRat_close p v, pyRoundRat_close p b, ?_⟩
  have e : pyRoundRat p g + pyRoundRat p v + pyRoundRat p b - max grid 0
      = (pyRoundRat p g - g) + (pyRoundRat p v - v) + (pyRoundRat p b - b) := by rw [← hsum]; ring
  rw [e]
  have h1 := pyRoundRat_close p g; have h2 := pyRoundRat_close p v; have h3 := pyRoundRat_close p b
  have t : (3 : ℚ) / (2 * 10 ^ p) = 1 / (2 * 10 ^ p) + 1 / (2 * 10 ^ p) + 1 / (2 * 10 ^ p) := by ring
  rw [t]
  exact le_trans (abs_add_three _ _ _) (add_le_add (add_le_add h1 h2) h3)

/-! ## aggregate_timeseries -/

/-- **Header and rows are aligned for every presence combination**: whatever the eight presence
flags, the use-case groups and the station list, a row that is produced has exactly as many cells
as the header has names. -/
theorem C18_header_rows_aligned (rnd : α → α) (R : RunData α) (f : Flags) (csIds : List String)
    (cbu : List (String × List String)) (idx : Nat) (s : StepData α) (row : List (Cell α))
    (h : tsRow rnd R f csIds cbu idx s = .ok row) :
    row.length = (tsHeader f (cbu.map (·.1)) csIds).length := by
  obtain ⟨bat, flex, hb, hf, rfl⟩ := tsRow_ok h
  exact tsRowWith_length rnd R f csIds cbu idx s bat flex (batCells_length hb) (flexCells_length hf)

/-- **Rows.**  If `aggregate_timeseries` returns, then there is exactly one row per reported step,
the header is the one determined by the presence flags, every row is as long as the header, and
pairing header and row (what `csv.DictReader` does) gives exactly the reference row `namedRow`
(Proofs/Report.lean): `timestep` = index, `time`, `price` = the price series (unrounded),
`grid supply [kW]` = `-round(connector power)`, `fixed load [kW]` = round of the Σ of the loads that
come from fixed-load lists, `local generation [kW]` = `-round(generation)`, the schedule and window
signals, the three feed-in parts of `C18_split` applied to `(-load, -generation | 0, min(Σ cs, 0))`
filtered by presence, `sum CS power [kW]` = round of the Σ of this connector's station commands,
per-use-case sums and occupation counts, `# occupied CS` = number of plugged-in stations, `# CS in
use` = those with non-zero power, one column `round(command)` (0 if none) per station; the battery
and flex cells are characterised in `C18_rows_battery_flex`. -/
theorem C18_rows (rnd : α → α) (R : RunData α) (header : List String) (rows : List (List (Cell α)))
    (h : aggregateTimeseries rnd R = .ok (header, rows)) :
    rows.length = R.steps.length ∧
    header = tsHeader (flagsOf R) ((csByUc (csIdsOf R)).map (·.1)) (csIdsOf R) ∧
    ∀ (i : Nat) (hi : i < R.steps.length), ∃ row bat flex,
      rows[i]? = some row ∧ row.length = header.length ∧
      batCells rnd R (flagsOf R) i R.steps[i] = .ok bat ∧
      flexCells rnd R (flagsOf R) i R.steps[i] = .ok flex ∧
      header.zip row
        = namedRow rnd R (flagsOf R) (csIdsOf R) (csByUc (csIdsOf R)) i R.steps[i] bat flex := by
  obtain ⟨hlen, hrow⟩ := rows_at h
  obtain ⟨hh, _⟩ := aggregateTimeseries_ok h
  refine ⟨hlen, hh, ?_⟩
  intro i hi
  obtain ⟨row, hri, hrow⟩ := hrow i hi
  obtain ⟨bat, flex, hb, hf, rfl⟩ := tsRow_ok hrow
  refine ⟨_, bat, flex, hri, ?_, hb, hf, ?_⟩
  · rw [hh]
    exact tsRowWith_length rnd R _ _ _ i _ bat flex (batCells_length hb) (flexCells_length hf)
  · rw [hh]
    exact zip_header_row rnd R _ _ _ i _ bat flex (batCells_length hb) (flexCells_length hf)

/-- **Battery and flex cells of a row** (the two segments that index further series):
battery power = round of the Σ of the step's loads whose key is a stationary battery, stored energy
= round of the Σ of `batteryLevels[b][idx]` over this connector's batteries; the flex cells are the
rounded band values and the rounded `max_flex_energy`, or four integer zeros when no band exists. -/
theorem C18_rows_battery_flex (rnd : α → α) (R : RunData α) (f : Flags) (idx : Nat)
    (s : StepData α) :
    (∀ bat, batCells rnd R f idx s = .ok bat →
      (f.hasBatteries = false ∧ bat = []) ∨
      (f.hasBatteries = true ∧ ∃ stored, batteryStored R idx = .ok stored ∧
        bat = [Cell.num (rnd (batteryPower R s)), Cell.num (rnd stored)])) ∧
    (∀ flex, flexCells rnd R f idx s = .ok flex →
      (f.hasFlex = false ∧ flex = []) ∨
      (f.hasFlex = true ∧ ∃ mfe, maxFlexEnergy R s = .ok mfe ∧
        ((∃ mn base mx ivs a b c, R.flex = .band mn base mx ivs ∧ mn[idx]? = some a ∧
            base[idx]? = some b ∧ mx[idx]? = some c ∧
            flex = [Cell.num (rnd a), Cell.num (rnd b), Cell.num (rnd c), Cell.num (rnd mfe)]) ∨
         ((R.flex = .skipped ∨ R.flex = .failed) ∧
            flex = [Cell.int 0, Cell.int 0, Cell.int 0, Cell.int 0])))) :=
  ⟨fun _ h => batCells_ok h, fun _ h => flexCells_ok h⟩

/-- **Which rows fail.**  A row is produced iff its two indexed segments are (a battery level or
flex-band list shorter than the run, an unknown battery id, a connected vehicle without SoC are the
only error sources — `IndexError`, `KeyError`, `TypeError` in the source); the whole table is
produced iff every row is. -/
theorem C18_rows_errors (rnd : α → α) (R : RunData α) :
    (∀ (f : Flags) csIds cbu idx (s : StepData α),
      (∃ row, tsRow rnd R f csIds cbu idx s = .ok row) ↔
        ((∃ bat, batCells rnd R f idx s = .ok bat) ∧ (∃ flex, flexCells rnd R f idx s = .ok flex))) ∧
    ((∃ t, aggregateTimeseries rnd R = .ok t) ↔
      ∀ p ∈ R.steps.zipIdx, ∃ row,
        tsRow rnd R (flagsOf R) (csIdsOf R) (csByUc (csIdsOf R)) p.2 p.1 = .ok row) := by
  constructor
  · intro f csIds cbu idx s
    constructor
    · rintro ⟨row, h⟩
      obtain ⟨bat, flex, hb, hf, _⟩ := tsRow_ok h
      exact ⟨⟨bat, hb⟩, ⟨flex, hf⟩⟩
    · rintro ⟨⟨bat, hb⟩, ⟨flex, hf⟩⟩
      exact ⟨_, by unfold tsRow; rw [hb, hf]; rfl⟩
  · constructor
    · rintro ⟨⟨hd, rows⟩, h⟩
      obtain ⟨_, hf⟩ := aggregateTimeseries_ok h
      intro p hp
      obtain ⟨i, hi, rfl⟩ := List.getElem_of_mem hp
      have hlen := hf.length_eq
      exact ⟨rows[i]'(hlen ▸ hi), (List.forall₂_iff_get.mp hf).2 i hi (hlen ▸ hi)⟩
    · intro hall
      obtain ⟨rows, hr⟩ := mapM_ok_of_forall
        (fun (p : StepData α × Nat) =>
          tsRow rnd R (flagsOf R) (csIdsOf R) (csByUc (csIdsOf R)) p.2 p.1) _ hall
      exact ⟨_, by unfold aggregateTimeseries; simp only [hr]; rfl⟩

/-- **CS sum = Σ of the per-station columns before rounding**: for a step whose commands form a
dict (distinct keys) and distinct station ids, the value rounded into `sum CS power [kW]` is the sum
of the values rounded into the station columns. -/
theorem C18_rows_cs_sum (csIds : List String) (s : StepData α)
    (hc : (s.commands.map (·.1)).Nodup) (hs : csIds.Nodup) :
    csSumOf csIds s = (csIds.map (fun cs => ((gcCommands csIds s).lookup cs).getD 0)).sum :=
  csSum_eq_sum_perCs csIds s hc hs

/-! ## generate_soc_timeseries -/

/-- **SoC series** (repaired, D9).  If the series is produced there is one column per vehicle in
sorted id order, one entry per step in each, and the entry of vehicle `i` at step `t` is the
connected SoC `socs[t][i]` whenever that is not `None` — including the value 0 — and the
disconnected SoC `disconnect[t][i]` otherwise (`socEntry`). -/
theorem C18_soc_series (R : RunData α) (cols : List (String × List (Option α)))
    (h : socSeries R = .ok cols) :
    cols.map (·.1) = sortedStr (R.vehicles.map (·.1)) ∧
    (∀ c ∈ cols, c.2.length = R.steps.length) ∧
    ∀ (i : Nat) (hi : i < cols.length) (t : Nat) (ht : t < R.steps.length),
      ∃ e, (cols[i]).2[t]? = some e ∧ SocEntryOk i R.steps[t] e ∧
        ∀ a d, (R.steps[t]).socs[i]? = some a → (R.steps[t]).disconnect[i]? = some d →
          e = socEntry a d := by
  have hf := socSeries_ok h
  have hlen := hf.length_eq
  rw [List.length_zipIdx] at hlen
  refine ⟨?_, ?_, ?_⟩
  · have : ((sortedStr (R.vehicles.map (·.1))).zipIdx).map (·.1) = cols.map (·.1) :=
      forall₂_map_eq hf (fun a b hab => hab.1.symm)
    rw [← this, zipIdx_map_fst]
  · intro c hc
    obtain ⟨i, hi, rfl⟩ := List.getElem_of_mem hc
    have := (List.forall₂_iff_get.mp hf).2 i (by rw [List.length_zipIdx]; omega) hi
    exact this.2.length_eq.symm
  · intro i hi t ht
    have hcol := (List.forall₂_iff_get.mp hf).2 i (by rw [List.length_zipIdx]; omega) hi
    simp only [List.get_eq_getElem, List.getElem_zipIdx, Nat.zero_add] at hcol
    have hl := hcol.2.length_eq
    have ht' : t < (cols[i]).2.length := hl ▸ ht
    have he := (List.forall₂_iff_get.mp hcol.2).2 t ht ht'
    simp only [List.get_eq_getElem] at he
    exact ⟨_, List.getElem?_eq_getElem ht', he, fun a d ha hd => socEntryOk_entry he ha hd⟩

/-! ## aggregate_local_results -/

/-- **Report windows.**  Step `idx` is counted in window 0 iff it starts at 04:00–09:59 local time,
1 iff 10:00–15:59, 2 iff 16:00–21:59, 3 iff 22:00–03:59 (`minuteOfDay` = hour·60 + minute of the
naive local start of the step; seconds are ignored exactly as `replace(hour=0, minute=0)` does). -/
theorem C18_window_index (startLocal interval : Int) (idx : Nat) :
    0 ≤ minuteOfDay startLocal interval idx ∧ minuteOfDay startLocal interval idx < 1440 ∧
    ((240 ≤ minuteOfDay startLocal interval idx ∧ minuteOfDay startLocal interval idx < 600 ∧
        windowIndex startLocal interval idx = 0) ∨
     (600 ≤ minuteOfDay startLocal interval idx ∧ minuteOfDay startLocal interval idx < 960 ∧
        windowIndex startLocal interval idx = 1) ∨
     (960 ≤ minuteOfDay startLocal interval idx ∧ minuteOfDay startLocal interval idx < 1320 ∧
        windowIndex startLocal interval idx = 2) ∨
     ((minuteOfDay startLocal interval idx < 240 ∨ 1320 ≤ minuteOfDay startLocal interval idx) ∧
        windowIndex startLocal interval idx = 3)) :=
  windowIndex_spec startLocal interval idx

/-- **Aggregates** (energy sums, peaks, averages, battery cycles).  If `aggregate_local_results`
returns (stationary batteries finite), then with `L` the connector-power series and `h` =
steps per hour (necessarily ≠ 0):
* sum of energy = ΣL / h;  the four per-window energies are Σ over the steps of that window / h and
  add up to the sum of energy (no step lost or counted twice);
* average drawn power = ΣL / number of steps (0 for no steps);  local generation energy =
  Σ generation / h;  feed-in energies = Σ of the written (rounded) feed-in columns / h;
* power peaks are reported iff some load is non-zero; then total = the maximum of L (attained),
  fixed = the running maximum from 0 of the per-step Σ of fixed-load/generation loads, variable =
  the running maximum from 0 of (load − that Σ);
* peak-load-window threshold (repaired, O2) = (max L − peak)/max L · 100, and 0 when max L = 0;
* stationary battery cycles = (Σ_steps Σ_own batteries max(load, 0)/h) / Σ capacities, absent when
  the capacity sum is 0;
* vehicle battery cycles = Σ_steps Σ_commands max(power, 0) / Σ vehicle capacities, 0 without
  capacity — as coded this is a sum of POWERS, not divided by `h` (finding N3; the oracle of the
  check uses energy).
The standing-time aggregates (average single/total standing time, share per window), the average flex
range per window, the average needed energy, the per-battery maxima, and totality of the aggregation
on well-shaped run records are stated in Properties/C18_Aggregates.lean (`C18_agg_*`). -/
theorem C18_aggregates (R : RunData α)
    (ts : Option (List String × List (List (Cell α)))) (res : LocalResults α)
    (hfin : ∀ b ∈ myBatteries R, b.2.2 ≤ ((2 ^ 63 : Nat) : α))
    (h : aggregateLocal R ts = .ok res) :
    R.stepsPerHour ≠ 0 ∧
    res.sumEnergy = (loadsOf R).sum / R.stepsPerHour ∧
    (res.sumEnergyPerWindow.length = 4 ∧
      (∀ w, w < 4 → res.sumEnergyPerWindow[w]? = some
        (((R.steps.zipIdx.filter (fun p => windowIndex R.startLocal R.interval p.2 = w)).map
          (·.1.totalLoad)).sum / R.stepsPerHour)) ∧
      res.sumEnergyPerWindow.sum = res.sumEnergy) ∧
    res.avgDrawn = (if R.steps.length = 0 then (0 : α) else (loadsOf R).sum / ((R.steps.length : ℕ) : α)) ∧
    res.localGenEnergy = (R.steps.map (·.localGen)).sum / R.stepsPerHour ∧
    res.feedIn = ts.map (fun t =>
        ((columnNums t.1 t.2 "generation feed-in [kW]").sum / R.stepsPerHour,
         (columnNums t.1 t.2 "V2G feed-in [kW]").sum / R.stepsPerHour,
         (columnNums t.1 t.2 "battery feed-in [kW]").sum / R.stepsPerHour)) ∧
    ((res.powerPeaks = none ∧ ∀ x ∈ loadsOf R, x = 0) ∨
      (∃ m, res.powerPeaks = some
          ((R.steps.map (fun s => fixedLoadOf R s)).foldl max 0,
           (R.steps.map (fun s => s.totalLoad - fixedLoadOf R s)).foldl max 0, m) ∧
        m ∈ loadsOf R ∧ ∀ x ∈ loadsOf R, x ≤ m)) ∧
    ((R.isPlw = false ∧ res.plwThreshold = none) ∨
      (R.isPlw = true ∧ ∃ m, m ∈ loadsOf R ∧ (∀ x ∈ loadsOf R, x ≤ m) ∧
        res.plwThreshold = some (if m = 0 then 0 else (m - R.peakPower) / m * 100))) ∧
    res.batCycles = (if ((myBatteries R).map (·.2.2)).sum = 0 then none
      else some (batEnergySpec R / ((myBatteries R).map (·.2.2)).sum)) ∧
    res.vehicleCycles = (if 0 < (R.vehicles.map (·.2.1)).sum then
        (R.steps.map (fun s => (s.commands.map (fun kv => max kv.2 0)).sum)).sum
          / (R.vehicles.map (·.2.1)).sum
      else 0) := by
  obtain ⟨st, hst, _, hE, hW, _, _, _, _, hplw, hpk, hD, hG, hF, _, hB, hV, _, _⟩ :=
    aggregateLocal_ok h
  have hE' := pydiv_ok_inv hE
  have hsph : R.stepsPerHour ≠ 0 := hE'.1
  have hsum : res.sumEnergy = (loadsOf R).sum / R.stepsPerHour := by rw [hE'.2, pysum_eq_sum]
  obtain ⟨hW4, hWw⟩ := fSumPerWindow_ok hst hW
  refine ⟨hsph, hsum, ⟨hW4, hWw, ?_⟩, ?_, ?_, ?_, ?_, fPlw_ok hplw, fBatCycles_ok hfin hB, ?_⟩
  · -- the four windows partition the steps
    have h0 := hWw 0 (by norm_num); have h1 := hWw 1 (by norm_num)
    have h2 := hWw 2 (by norm_num); have h3 := hWw 3 (by norm_num)
    generalize res.sumEnergyPerWindow = L at hW4 h0 h1 h2 h3 ⊢
    obtain ⟨a, l1, rfl⟩ : ∃ a l, L = a :: l := by
      cases L with
      | nil => simp at hW4
      | cons a l => exact ⟨a, l, rfl⟩
    obtain ⟨b, l2, rfl⟩ : ∃ a l, l1 = a :: l := by
      cases l1 with
      | nil => simp at hW4
      | cons a l => exact ⟨a, l, rfl⟩
    obtain ⟨c, l3, rfl⟩ : ∃ a l, l2 = a :: l := by
      cases l2 with
      | nil => simp at hW4
      | cons a l => exact ⟨a, l, rfl⟩
    obtain ⟨d, l4, rfl⟩ : ∃ a l, l3 = a :: l := by
      cases l3 with
      | nil => simp at hW4
      | cons a l => exact ⟨a, l, rfl⟩
    have : l4 = [] := by
      cases l4 with
      | nil => rfl
      | cons a l => simp at hW4
    subst this
    simp only [List.getElem?_cons_zero, List.getElem?_cons_succ, Option.some.injEq] at h0 h1 h2 h3
    rw [hsum, h0, h1, h2, h3]
    have hp := filter_window_partition (α := α)
      (fun p => windowIndex R.startLocal R.interval p.2)
      (fun p => windowIndex_lt R.startLocal R.interval p.2) R.steps.zipIdx
    have hz : (R.steps.zipIdx.map (·.1.totalLoad)) = loadsOf R :=
      zipIdx_map_comp (fun s : StepData α => s.totalLoad) R.steps 0
    rw [hz] at hp
    simp only [List.sum_cons, List.sum_nil, add_zero]
    rw [← hp]; field_simp; ring
  · unfold fAvgDrawn at hD
    by_cases hn : R.steps.length = 0
    · simp [hn, pure, Except.pure] at hD; rw [if_pos hn]; exact hD.symm
    · have : R.steps.length > 0 := Nat.pos_of_ne_zero hn
      simp only [this, if_true] at hD
      rw [if_neg hn, (pydiv_ok_inv hD).2, pysum_eq_sum]
  · unfold fGenEnergy at hG
    rw [(pydiv_ok_inv hG).2, pysum_eq_sum]
  · unfold fFeedIn at hF
    cases ts with
    | none => simp [pure, Except.pure] at hF; rw [← hF]; rfl
    | some t =>
      obtain ⟨hd, rows⟩ := t
      simp only at hF
      obtain ⟨g, hg, hF⟩ := bind_ok hF
      obtain ⟨v, hv, hF⟩ := bind_ok hF
      obtain ⟨b, hb, hF⟩ := bind_ok hF
      simp [pure, Except.pure] at hF
      rw [← hF, (pydiv_ok_inv hg).2, (pydiv_ok_inv hv).2, (pydiv_ok_inv hb).2]
      simp
  · unfold aggLoop at hst
    obtain ⟨_, _, hmf, hmv⟩ := aggFold_ok R _ _ _ hst
    have e1 : (R.steps.zipIdx.map (fun p => fixedLoadOf R p.1)) = R.steps.map (fun s => fixedLoadOf R s) :=
      zipIdx_map_comp (fun s : StepData α => fixedLoadOf R s) R.steps 0
    have e2 : (R.steps.zipIdx.map (fun p => p.1.totalLoad - fixedLoadOf R p.1))
        = R.steps.map (fun s => s.totalLoad - fixedLoadOf R s) :=
      zipIdx_map_comp (fun s : StepData α => s.totalLoad - fixedLoadOf R s) R.steps 0
    rw [e1] at hmf; rw [e2] at hmv
    rcases fPeaks_ok hpk with ⟨hn, hz⟩ | ⟨m, hm, h1, h2⟩
    · exact Or.inl ⟨hn, hz⟩
    · refine Or.inr ⟨m, ?_, h1, h2⟩
      rw [hm, hmf, hmv]; rfl
  · unfold fVehicleCycles at hV
    unfold vehicleCapOf vehicleEnergyOf at hV
    simp only [pysum_eq_sum, pymax_eq] at hV
    by_cases hc : 0 < (R.vehicles.map (·.2.1)).sum
    · simp only [hc, if_true] at hV ⊢
      rw [(pydiv_ok_inv hV).2]
    · simp only [hc] at hV ⊢
      simp [pure, Except.pure] at hV; exact hV.symm

/-! ## read-back of the window column (D11) -/

/-- **Window column round trip** (repaired reader): the cell the report writes for a window signal
`w` (`True`/`False`/`None`) is read back as `w`; the legacy 0/1 encoding is still accepted. -/
theorem C18_window_cell_roundtrip (w : Option Bool) :
    cellWindow (α := α) (match w with | some b => Cell.bool b | none => Cell.none) = .ok w ∧
    cellWindow (α := α) (Cell.int 1) = .ok (some true) ∧
    cellWindow (α := α) (Cell.int 0) = .ok (some false) := by
  refine ⟨?_, rfl, rfl⟩
  cases w <;> rfl

/-! ## counterexamples kept as documentation: the pinned behaviour -/

/-- D9: with `socs[v] or disconnect[…]` a connected vehicle at SoC exactly 0 is reported with the
disconnected value (`None`), whereas the repaired entry is the SoC. -/
example : socEntryPinned (some (0 : ℚ)) none = none ∧ socEntry (some (0 : ℚ)) none = some 0 := by
  constructor
  · simp [socEntryPinned, truthy, isZero]
  · rfl

/-- D11: the pinned reader raises `ValueError` on the cell the writer produces. -/
example : cellWindowPinned (α := ℚ) (Cell.bool true) = .error .valueError := rfl

/-- O2: the pinned threshold divides by the maximum load, `ZeroDivisionError` for all-zero load. -/
example : plwThresholdPinned ([0, 0] : List ℚ) 0 = .error .zeroDivision := by
  simp [plwThresholdPinned, pymaxList, pydiv, isZero, bind, Except.bind]

/-- N2: the pinned schedule cell raises `TypeError` for a step without schedule. -/
example : schedCellPinned (fun x : ℚ => x) none = .error .typeError := rfl

/-! ## non-vacuity -/

/-- The hypotheses of `C18_rows`, `C18_soc_series` and `C18_aggregates` are satisfiable: on
the two-step example run (Proofs/Report.lean: one station, V2G vehicle at SoC 0, battery, fixed
load, generation, schedule, window; second step feeds in) the model returns a 19-column header and
two 19-cell rows, whose second row shows grid supply 6, generation feed-in 5, V2G feed-in 1 and
battery feed-in 0; the SoC series starts with the SoC 0 of the connected vehicle; the aggregation
succeeds with 1.5 kWh drawn. -/
example :
    okAnd (aggregateTimeseries (pyRoundRat 3) exRun) (fun t =>
      decide (t.1.length = 19 ∧ t.2.map (·.length) = [19, 19] ∧
        (t.1.zip (t.2.getD 1 [])).lookup "grid supply [kW]" = some (Cell.num 6) ∧
        (t.1.zip (t.2.getD 1 [])).lookup "generation feed-in [kW]" = some (Cell.num 5) ∧
        (t.1.zip (t.2.getD 1 [])).lookup "V2G feed-in [kW]" = some (Cell.num 1) ∧
        (t.1.zip (t.2.getD 1 [])).lookup "battery feed-in [kW]" = some (Cell.num 0) ∧
        (t.1.zip (t.2.getD 1 [])).lookup "sum UC home" = some (Cell.num (-4)))) = true ∧
    okAnd (socSeries exRun) (fun c => decide (c = [("car", [some 0, some (1 / 4)])])) = true ∧
    okAnd (aggregateLocal exRun none) (fun r =>
      decide (r.sumEnergy = 3 / 2 ∧ r.sumEnergyPerWindow = [0, 0, 0, 3 / 2] ∧
        r.plwThreshold = some 100 ∧ r.batCycles = some 0)) = true ∧
    (∀ b ∈ myBatteries exRun, b.2.2 ≤ ((2 ^ 63 : Nat) : ℚ)) := by
  decide +kernel

/-- the test-suite triple `(6, -3, -2)` splits into `3, 2, 1` -/
example : splitFeedinRaw (6 : ℚ) (-3) (-2) = (3, 2, 1) := by
  norm_num [splitFeedinRaw, pymin, pymax]

/-- a tie is rounded to even: 0.0625 ↦ 0.062, 0.1875 ↦ 0.188 -/
example : pyRoundRat 3 (1 / 16) = 31 / 500 ∧ pyRoundRat 3 (3 / 16) = 47 / 250 := by
  have h1 : ((1 / 16 : ℚ) * ((10 ^ 3 : ℕ) : ℚ)).floor = 62 := by
    show ⌊(1 / 16 : ℚ) * ((10 ^ 3 : ℕ) : ℚ)⌋ = 62
    rw [Int.floor_eq_iff]; constructor <;> norm_num
  have h2 : ((3 / 16 : ℚ) * ((10 ^ 3 : ℕ) : ℚ)).floor = 187 := by
    show ⌊(3 / 16 : ℚ) * ((10 ^ 3 : ℕ) : ℚ)⌋ = 187
    rw [Int.floor_eq_iff]; constructor <;> norm_num
  constructor
  · unfold pyRoundRat roundHalfEven; simp only [h1]; norm_num
  · unfold pyRoundRat roundHalfEven; simp only [h2]; norm_num

end SpiceEv
