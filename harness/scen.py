"""Scenario generator and instrumented real runs shared by the run-level checks
(C04, C05, C06, C09, C10, C11, C14, C16, C17).

`gen_scenario(rng, …)` builds a scenario JSON dict (the real input format) from a structured
grammar; `run_real(case)` loads it with the real `spice_ev.scenario.Scenario`, wraps the real
classes at run time (no source hooks) to obtain a per-step trace, runs the real
`Scenario.run(strategy, options)` and returns all public result series plus the trace.
"""
import contextlib
import copy
import datetime
import io
import json
import os
import signal
import tempfile
import warnings

import engine

engine.use_repo()

STRATEGIES = ['greedy', 'balanced', 'balanced_market', 'distributed',
              'peak_load_window', 'peak_shaving', 'flex_window', 'schedule']
EPS = 1e-5
T0 = datetime.datetime(2020, 1, 6, 0, 0, tzinfo=datetime.timezone(datetime.timedelta(hours=2)))  # a Monday


class WatchdogTimeout(BaseException):
    """not an Exception on purpose: Scenario.run swallows Exception inside the strategy step"""


def iso(dt):
    return dt.isoformat()


CURVES = [
    ("const11", [[0, 11], [1, 11]]),
    ("const22", [[0, 22], [1, 22]]),
    ("taper", [[0, 11], [0.8, 11], [1, 2]]),
    ("taper50", [[0, 50], [0.5, 50], [0.8, 30], [1, 5]]),
    ("rise", [[0, 4], [0.2, 11], [1, 11]]),
    ("const3_7", [[0, 3.7], [1, 3.7]]),
]


def gen_scenario(rng, strategy=None, n_gc=None, feasible=True, features=None, max_steps=None):
    """returns a case dict: {"scenario": json, "strategy": name, "options": {...}, "meta": {...}}"""
    strategy = strategy or rng.choice(STRATEGIES)
    single_gc = strategy in ("flex_window", "schedule")
    if n_gc is None:
        n_gc = 1 if single_gc else rng.choice([1, 1, 2])
    interval = rng.choice([5, 10, 15, 15, 30, 60, 45, 20])
    n_steps = rng.randint(16, max_steps or 56)
    f = features or {}

    def feat(name, p):
        return f[name] if f.get(name) is not None else (rng.random() < p)
    start = T0 + datetime.timedelta(days=rng.choice([0, 1, 4, 5, 6]), hours=rng.choice([0, 6, 13, 21]))
    dt = datetime.timedelta(minutes=interval)
    stop = start + n_steps * dt
    comp = {"vehicle_types": {}, "vehicles": {}, "grid_connectors": {}, "charging_stations": {}, "batteries": {}}
    ev = {"fixed_load": {}, "local_generation": {}, "grid_operator_signals": [], "vehicle_events": []}
    meta = {"interval": interval, "n_steps": n_steps}

    def offgrid(t):
        # move a time off the step grid in ~half of the cases
        if rng.random() < 0.5:
            return t + datetime.timedelta(minutes=rng.choice([1, 2, interval // 2 or 1, interval - 1 or 1]))
        return t

    def overdue():
        # a fifth of the standing periods last 1-3 steps longer than announced: the vehicle is still connected (and may
        # still need energy) at and after its estimated time of departure (seeded change C05-h2: balanced's fallback
        # for overdue vehicles)
        if rng.random() < 0.2:
            return datetime.timedelta(minutes=interval * rng.choice([1, 2, 3]))
        return datetime.timedelta(0)

    # vehicle types
    n_types = rng.randint(1, 2)
    tnames = []
    for i in range(n_types):
        cname, pts = rng.choice(CURVES)
        tn = "vt%d" % i
        tnames.append(tn)
        v2g = feat("v2g", 0.35)
        comp["vehicle_types"][tn] = {
            "name": tn, "capacity": rng.choice([20, 40, 50, 76, 120]), "mileage": 20,
            "charging_curve": copy.deepcopy(pts),
            "min_charging_power": rng.choice([0, 0, 0, 0.5, 2]),
            "battery_efficiency": rng.choice([0.95, 0.95, 0.9, 1.0]),
            "v2g": v2g, "v2g_power_factor": rng.choice([0.5, 0.5, 1.0]),
            "discharge_limit": rng.choice([0.5, 0.3, 0.0]),
        }
    # grid connectors
    gcs = ["GC%d" % (i + 1) for i in range(n_gc)]
    st_type = {}
    for g in gcs:
        st_type[g] = rng.choice(["deps", "opps"])
        rating = rng.choice([5, 11, 20, 30, 50, 100, 630])
        gc = {"max_power": rating, "voltage_level": rng.choice(["MV", "LV", "HV"]),
              "cost": {"type": "fixed", "value": rng.choice([0.3, 0.3, 0.05, 0.0, -0.1])}}
        if strategy == "schedule":
            gc["target"] = rng.choice([0, rating / 4, rating / 2])
        if strategy == "distributed" and feat("number_cs", 0.4):
            gc["number_cs"] = rng.randint(1, 3)
        if strategy == "flex_window" or feat("window", 0.2):
            gc["window"] = rng.random() < 0.5
        comp["grid_connectors"][g] = gc
    # vehicles + stations
    n_veh = rng.randint(1, 6 if n_gc > 1 else 4)
    vids = ["v%s" % s for s in rng.sample(["10", "2", "03", "7", "1", "b", "a", "0"], n_veh)]
    for vid in vids:
        tn = rng.choice(tnames)
        vt = comp["vehicle_types"][tn]
        g = rng.choice(gcs)
        csid = "CS_%s_%s" % (vid, st_type[g])
        vmax = max(p[1] for p in vt["charging_curve"])
        comp["charging_stations"][csid] = {
            "max_power": rng.choice([vmax, vmax, vmax / 2, vmax * 2, 11, 3.7]),
            "min_power": 0, "parent": g}
        csmax = comp["charging_stations"][csid]["max_power"]
        comp["charging_stations"][csid]["min_power"] = rng.choice([0, 0, 0, 1.0, round(0.3 * csmax, 3), round(0.6 * csmax, 3)])
        # trips: alternate standing / driving
        t = start - datetime.timedelta(minutes=rng.choice([0, 0, interval, 3 * interval]))
        connected = rng.random() < 0.6
        soc = rng.choice([0.2, 0.4, 0.5, 0.8, 0.95, 1.0])
        veh = {"vehicle_type": tn, "soc": soc, "desired_soc": rng.choice([0.8, 0.8, 1.0, 0.6, 0.5])}
        if strategy == "schedule":
            veh["schedule"] = rng.choice([0, 2, 5, 11])
        cur = start
        if connected:
            stand = datetime.timedelta(minutes=interval * rng.randint(2, max(3, n_steps // 2)))
            dep = offgrid(cur + stand)
            veh["connected_charging_station"] = csid
            veh["estimated_time_of_departure"] = iso(dep)
            cur = dep + overdue()
        first = True
        while cur < stop + datetime.timedelta(hours=2):
            if connected or not first:
                # departure at cur, arrival later
                drive = datetime.timedelta(minutes=interval * rng.randint(1, 8))
                arr = offgrid(cur + drive)
                ev["vehicle_events"].append({
                    "signal_time": iso(cur - datetime.timedelta(minutes=rng.choice([0, 0, 60]))),
                    "start_time": iso(cur), "vehicle_id": vid, "event_type": "departure",
                    "update": {"estimated_time_of_arrival": iso(arr)}})
                cur = arr
            first = False
            stand = datetime.timedelta(minutes=interval * rng.randint(2, max(3, n_steps // 2)))
            dep = offgrid(cur + stand)
            if feasible:
                delta = -rng.choice([0.05, 0.1, 0.2, 0.3])
            else:
                delta = -rng.choice([0.1, 0.3, 0.6, 0.9])
            ev["vehicle_events"].append({
                "signal_time": iso(cur - datetime.timedelta(minutes=rng.choice([0, 0, 30]))),
                "start_time": iso(cur), "vehicle_id": vid, "event_type": "arrival",
                "update": {"connected_charging_station": csid, "estimated_time_of_departure": iso(dep),
                           "desired_soc": rng.choice([0.8, 0.8, 1.0, 0.6]), "soc_delta": delta}})
            cur = dep + overdue()
            connected = True
        comp["vehicles"][vid] = veh
    # fixed load / generation / batteries / signals per connector
    for g in gcs:
        rating = comp["grid_connectors"][g]["max_power"]
        has_limit = feat("limit_signal", 0.4)
        lim_factors = [rng.choice([0.5, 0.8, 1.0, 1.5]) for _ in range(rng.randint(1, 3))] if has_limit else []
        # in ~90 % of the scenarios fixed load and generation alone respect the lowest limit in force
        respect = rng.random() < 0.9
        floor = min([1.0] + lim_factors) * rating if respect else rating * 1.3
        if feat("fixed_load", 0.5):
            step_s = rng.choice([interval * 60, interval * 60, 900, 3600, 420])
            n = int(n_steps * interval * 60 / step_s) + rng.choice([-3, 0, 2])
            lvl = rng.choice([0.1, 0.3, 0.6, 0.9]) * floor
            ev["fixed_load"]["load_" + g] = {
                "start_time": iso(start + datetime.timedelta(minutes=rng.choice([0, 0, -30, 7]))),
                "step_duration_s": step_s, "grid_connector_id": g,
                "values": [round(max(0.0, lvl * rng.uniform(0.5, 1.0)), 3) for _ in range(max(n, 1))]}
        if feat("generation", 0.45):
            step_s = rng.choice([interval * 60, 900, 3600])
            n = int(n_steps * interval * 60 / step_s) + rng.choice([-2, 0, 2])
            lvl = rng.choice([0.2, 0.5, 0.9, 1.0]) * floor
            ev["local_generation"]["pv_" + g] = {
                "start_time": iso(start), "step_duration_s": step_s, "grid_connector_id": g,
                "values": [round(max(0.0, lvl * rng.choice([0, 0.3, 0.8, 1.0])), 3) for _ in range(max(n, 1))]}
        if feat("battery", 0.35):
            bp = rng.choice([5, 20, 50])
            comp["batteries"]["BAT_" + g] = {
                "parent": g, "charging_curve": [[0, bp], [1, bp]],
                "capacity": rng.choice([10, 50, 200, -1]), "soc": rng.choice([0, 0.5, 1.0]),
                "min_charging_power": rng.choice([0, 0, 1]), "efficiency": rng.choice([0.95, 1.0, 0.9])}
            if comp["batteries"]["BAT_" + g]["capacity"] > 0 and rng.random() < 0.3:
                # a discharge curve of its own that fades out towards an empty battery: the power a battery can still
                # contribute depends on its SoC (seeded change C10-i2: get_available_power by a closed form)
                comp["batteries"]["BAT_" + g]["discharge_curve"] = rng.choice(
                    [[[0, 0], [0.25, bp], [1, bp]], [[0, round(bp / 4, 3)], [0.5, bp], [1, bp]]])
                comp["batteries"]["BAT_" + g]["soc"] = rng.choice([0.2, 0.3, 0.5, 1.0])
            if rng.random() < 0.3:
                comp["batteries"]["BAT_" + g]["loss_rate"] = {
                    "relative": rng.choice([0, 0.5]), "fixed_relative": rng.choice([0, 0.1]),
                    "fixed_absolute": rng.choice([0, 0.05])}
            if rng.random() < 0.3:
                # a second battery at the same connector (insertion order differs from id order)
                bp2 = rng.choice([5, 20])
                comp["batteries"]["ABAT2_" + g] = {
                    "parent": g, "charging_curve": [[0, bp2], [1, bp2]],
                    "capacity": rng.choice([10, 50, 200]), "soc": rng.choice([0, 0.5, 1.0]),
                    "min_charging_power": rng.choice([0, 0, 1]), "efficiency": rng.choice([0.95, 1.0])}
        # operator signals: limits below/above the rating, prices, windows
        k = 0
        if has_limit:
            used_starts = set()
            for lf in lim_factors:
                # distinct start times: which of two simultaneous limits is "the latest" is not defined
                while True:
                    st = offgrid(start + datetime.timedelta(minutes=interval * rng.randint(-2, n_steps)))
                    if st not in used_starts:
                        used_starts.add(st)
                        break
                ev["grid_operator_signals"].append({
                    "signal_time": iso(st - datetime.timedelta(minutes=rng.choice([0, interval, 24 * 60]))),
                    "start_time": iso(st), "grid_connector_id": g,
                    "max_power": lf * rating})
                k += 1
        if interval >= 10 and feat("same_step_pair", 0.25):
            # two signals that take effect in the SAME step, the one with the earlier start announced LATER (signal time =
            # its start, i.e. delivered in the very step in which both become due): the one with the later start must end up
            # in force (seeded changes C10-i1 / C04-i1: due events applied in delivery order instead of start order)
            i = rng.randint(1, max(1, n_steps - 1))
            t_i = start + datetime.timedelta(minutes=interval * i)
            a_start = t_i - datetime.timedelta(minutes=rng.choice([1, 2, 4]))
            b_start = t_i - datetime.timedelta(minutes=rng.choice([5, 6, interval - 1]))
            if rng.random() < 0.5:
                va, vb = {"cost": {"type": "fixed", "value": 0.5}}, {"cost": {"type": "fixed", "value": -0.05}}
            else:
                va, vb = {"max_power": 0.4 * rating}, {"max_power": 1.0 * rating}
            if rng.random() < 0.5:
                va, vb = vb, va
            ev["grid_operator_signals"].append(dict(
                signal_time=iso(start - datetime.timedelta(hours=1)), start_time=iso(a_start), grid_connector_id=g, **va))
            ev["grid_operator_signals"].append(dict(
                signal_time=iso(b_start), start_time=iso(b_start), grid_connector_id=g, **vb))
        if feat("price_signal", 0.5) or strategy == "balanced_market":
            for i in range(0, n_steps, rng.choice([2, 4, 8])):
                st = start + datetime.timedelta(minutes=interval * i)
                ev["grid_operator_signals"].append({
                    "signal_time": iso(st - datetime.timedelta(hours=rng.choice([0, 1, 24]))),
                    "start_time": iso(st), "grid_connector_id": g,
                    "cost": {"type": "fixed", "value": rng.choice([0.3, 0.1, 0.05, 0.0, -0.05, 0.5])}})
        if strategy == "flex_window" or feat("window_signal", 0.25):
            w = rng.random() < 0.5
            for i in range(0, n_steps, rng.choice([3, 5, 8])):
                w = not w
                st = start + datetime.timedelta(minutes=interval * i)
                ev["grid_operator_signals"].append({
                    "signal_time": iso(st - datetime.timedelta(hours=rng.choice([0, 24]))),
                    "start_time": iso(st), "grid_connector_id": g, "window": w})
        if strategy == "schedule":
            for i in range(0, n_steps, rng.choice([2, 4, 8])):
                st = start + datetime.timedelta(minutes=interval * i)
                ev["grid_operator_signals"].append({
                    "signal_time": iso(start), "start_time": iso(st), "grid_connector_id": g,
                    "target": rng.choice([0, 0.2, 0.5, 0.8]) * rating, "window": rng.random() < 0.5})
    options = {}
    scn_cst = None
    if rng.random() < 0.3:
        options["CONCURRENCY"] = rng.choice([0.25, 0.5, 0.8, 1.0])
    if rng.random() < 0.3:
        options["PRICE_THRESHOLD"] = rng.choice([0.0, 0.1, 0.3])
    if not feasible or rng.random() < 0.2:
        options["ALLOW_NEGATIVE_SOC"] = rng.random() < 0.7
        options["RESET_NEGATIVE_SOC"] = rng.random() < 0.5
    if strategy == "schedule":
        collective = (f["collective"] if f.get("collective") is not None else rng.random() < 0.4)
        options["LOAD_STRAT"] = "collective" if collective else "individual"
        if collective:
            # core standing time: a window around the scenario (possibly over midnight) and/or no-drive days
            h0 = (start.hour + rng.choice([0, 1, 2])) % 24
            h1 = (h0 + rng.choice([3, 6, 9, 12])) % 24
            cst = {"times": [{"start": [h0, rng.choice([0, 30])], "end": [h1, 0]}]}
            if rng.random() < 0.3:
                cst["no_drive_days"] = rng.sample(range(7), rng.randint(1, 3))
            scn_cst = cst
            options["warn_core_standing_time"] = rng.random() < 0.8
        for vid in vids:
            if rng.random() < 0.7:
                ev["vehicle_events"].append({
                    "signal_time": iso(start), "start_time": iso(start + datetime.timedelta(
                        minutes=interval * rng.randint(0, n_steps // 2))),
                    "vehicle_id": vid, "event_type": "schedule",
                    "update": {"schedule": rng.choice([0, 2, 5, 11])}})
    if strategy == "flex_window":
        options["LOAD_STRAT"] = rng.choice(["balanced", "balanced", "greedy", "needy"])
    if strategy == "peak_load_window":
        options["time_windows"] = "@TIME_WINDOWS"
        meta["time_windows"] = {"default_grid_operator": {
            "s1": {"start": "2020-01-01", "end": "2020-12-31", "windows": {
                lvl: [[rng.choice(["08:15", "11:00"]), rng.choice(["12:30", "13:00"])],
                      [rng.choice(["16:30", "17:45"]), rng.choice(["19:00", "20:00"])],
                      ["23:00", "01:00"]] for lvl in ["HV", "MV", "LV"]}}}}
        # some scenarios have no window change ahead: a voltage level without windows, or a season that is over
        variant = rng.choice(["full", "full", "full", "full", "level_without_windows", "season_over"])
        s1 = meta["time_windows"]["default_grid_operator"]["s1"]
        if variant == "level_without_windows":
            del s1["windows"][rng.choice(["HV", "MV", "LV"])]
        elif variant == "season_over":
            s1["end"] = "2020-01-%02d" % rng.choice([5, 7, 11])
    if strategy == "distributed" and (f.get("sub_strategies") if f.get("sub_strategies") is not None else True):
        # the class's own options: which strategy runs at depots / opportunity stations, and options for it alone.
        # Drawn last, so that every other draw of the scenario is what it was before this block existed.
        # greedy / balanced / peak_shaving / peak_load_window are modelled and tied step by step
        # (harness/s_distributed.py).
        subs = ["greedy", "balanced", "peak_shaving", "peak_load_window"]
        for side in ("deps", "opps"):
            if rng.random() < 0.3:
                options["strategy_" + side] = rng.choice(subs)
            own = {}
            if options.get("strategy_" + side) == "peak_shaving":
                if rng.random() < 0.5:
                    own["HORIZON"] = rng.choice([0.5, 1, 2, 3, 6, 12])
                if rng.random() < 0.35:
                    own["perfect_foresight"] = False
            elif rng.random() < 0.15:
                own["PRICE_THRESHOLD"] = rng.choice([0.1, 0.3, -1.0])
            if options.get("strategy_" + side) == "peak_load_window":
                own = {}      # peak_load_window has no options of its own besides the time windows
            if own:
                options["strategy_options_" + side] = own
        if "peak_load_window" in (options.get("strategy_deps"), options.get("strategy_opps")):
            # the sub-strategy's constructor reads the parent's option time_windows (run_real writes the file)
            options["time_windows"] = "@TIME_WINDOWS"
            meta["time_windows"] = {"default_grid_operator": {
                "s1": {"start": "2020-01-01", "end": "2020-12-31", "windows": {
                    lvl: [[rng.choice(["08:15", "11:00"]), rng.choice(["12:30", "13:00"])],
                          [rng.choice(["16:30", "17:45"]), rng.choice(["19:00", "20:00"])],
                          ["23:00", "01:00"]] for lvl in ["HV", "MV", "LV"]}}}}
            if rng.random() < 0.2:
                meta["time_windows"]["default_grid_operator"]["s1"]["end"] = "2020-01-%02d" % rng.choice([5, 7, 11])
    scn = {"scenario": {"start_time": iso(start), "interval": interval, "n_intervals": n_steps},
           "components": comp, "events": ev}
    if scn_cst is not None:
        scn["scenario"]["core_standing_time"] = scn_cst
    return {"scenario": scn, "strategy": strategy, "options": options, "meta": meta}


# ------------------------------------------------------------------------------------------
# instrumented real run

def _snap_world(ws):
    gcs = {}
    for gid, gc in ws.grid_connectors.items():
        gcs[gid] = {"max_power": gc.max_power, "cur_max_power": gc.cur_max_power,
                    "loads": list(gc.current_loads.items()), "cost": copy.deepcopy(gc.cost),
                    "target": gc.target, "window": gc.window}
    css = {cid: {"current_power": cs.current_power, "max_power": cs.max_power, "parent": cs.parent}
           for cid, cs in ws.charging_stations.items()}
    vs = {vid: {"cs": v.connected_charging_station, "soc": v.battery.soc, "desired": v.desired_soc,
                "etd": v.estimated_time_of_departure.isoformat() if v.estimated_time_of_departure else None}
          for vid, v in ws.vehicles.items()}
    bs = {bid: {"soc": b.soc} for bid, b in ws.batteries.items()}
    import keeps
    return {"gcs": gcs, "css": css, "vehicles": vs, "batteries": bs,
            "keeps": {"attrs": keeps.gc_attrs(ws), "queue": keeps.queue_digest(ws), "vehicles": keeps.vehicle_attrs(ws)}}   # C07: event-set state + pending queue


def run_real(case, timeout_s=120, fault_step=None, scenario_obj=None, collect_ops=True):
    """run the real simulation; returns a dict of plain data (JSON-able apart from floats)"""
    from spice_ev import scenario as sc_mod, strategy as st_mod, battery as bat_mod
    warnings.simplefilter("ignore")
    options = dict(case["options"])
    tmp = None
    if options.get("time_windows") == "@TIME_WINDOWS":
        tmp = tempfile.NamedTemporaryFile("w", suffix=".json", delete=False)
        json.dump(case["meta"]["time_windows"], tmp)
        tmp.close()
        options["time_windows"] = tmp.name
    res = {"strategy": case["strategy"], "escaped": None, "timeout": False}
    trace = []          # per step: world after event processing, after strategy, after losses
    ops = []            # battery operations of the current step
    orig_losses = st_mod.Strategy.apply_battery_losses
    orig_base_step = st_mod.Strategy.step
    orig_load, orig_unload = bat_mod.Battery.load, bat_mod.Battery.unload
    strat_box = {}

    def base_step(self, event_list=[]):
        raised = True
        try:
            r = orig_base_step(self, event_list)
            raised = False
            return r
        finally:
            rec = {"t": self.current_time.isoformat(), "post_events": _snap_world(self.world_state),
                   "event_error": raised, "strat_error": False}
            strat_box.setdefault("recs", {})[id(self)] = rec

    def losses(self):
        rec = strat_box.get("recs", {}).get(id(self))
        if rec is None:
            rec = {"t": None, "post_events": None}
        rec = dict(rec)
        rec["post_strategy"] = _snap_world(self.world_state)
        idmap = {id(v.battery): "veh:" + vid for vid, v in self.world_state.vehicles.items()}
        idmap.update({id(b): "bat:" + bid for bid, b in self.world_state.batteries.items()})
        rec["ops"] = [(k, idmap[i], a, b, p) for (k, i, a, b, p) in ops if i in idmap]
        del ops[:]
        try:
            return orig_losses(self)
        finally:
            rec["post_losses"] = _snap_world(self.world_state)
            trace.append(rec)

    def load(self, *a, **k):
        s0 = self.soc
        r = orig_load(self, *a, **k)
        if collect_ops:
            ops.append(("load", id(self), s0, self.soc, r["avg_power"]))
        return r

    def unload(self, *a, **k):
        s0 = self.soc
        r = orig_unload(self, *a, **k)
        if collect_ops:
            ops.append(("unload", id(self), s0, self.soc, r["avg_power"]))
        return r

    def on_alarm(signum, frame):
        raise WatchdogTimeout()

    st_mod.Strategy.apply_battery_losses = losses
    st_mod.Strategy.step = base_step
    if collect_ops:
        bat_mod.Battery.load, bat_mod.Battery.unload = load, unload
    old_handler = signal.signal(signal.SIGALRM, on_alarm)
    signal.alarm(int(timeout_s))
    s = scenario_obj
    try:
        out_buf = io.StringIO()
        res["_out"] = out_buf
        with contextlib.redirect_stdout(out_buf):
            if s is None:
                import pathlib
                s = sc_mod.Scenario(copy.deepcopy(case["scenario"]), pathlib.Path(""))
            cls = st_mod.class_from_str(case["strategy"])
            orig_cls_step = cls.step
            counter = {"n": 0}

            def wrapped(self_, *a, **k):
                top = type(self_) is cls and not a and not k and id(self_) in strat_box.get("recs", {})
                if top:
                    counter["n"] += 1
                    if fault_step is not None and counter["n"] - 1 == fault_step:
                        strat_box["recs"][id(self_)]["strat_error"] = True
                        strat_box["recs"][id(self_)]["injected"] = True
                        raise RuntimeError("injected fault")
                try:
                    return orig_cls_step(self_, *a, **k)
                except Exception:
                    if top:
                        strat_box["recs"][id(self_)]["strat_error"] = True
                    raise
            cls.step = wrapped
            try:
                s.run(case["strategy"], options)
            finally:
                cls.step = orig_cls_step
    except WatchdogTimeout:
        res["timeout"] = True
    except Exception as e:  # escaped Scenario.run / constructor
        import traceback
        res["escaped"] = "%s: %s" % (type(e).__name__, e)
        res["escaped_tb"] = traceback.format_exc()[-1500:]
    finally:
        signal.alarm(0)
        signal.signal(signal.SIGALRM, old_handler)
        st_mod.Strategy.apply_battery_losses = orig_losses
        st_mod.Strategy.step = orig_base_step
        bat_mod.Battery.load, bat_mod.Battery.unload = orig_load, orig_unload
        if tmp is not None:
            os.unlink(tmp.name)
    out_txt = res.pop("_out").getvalue() if "_out" in res else ""
    i = out_txt.find("Aborting simulation")
    res["abort_text"] = out_txt[i:i + 3000] if i >= 0 else ""
    res["trace"] = trace
    res["scenario_obj"] = s
    if s is not None and hasattr(s, "step_i"):
        strat = s.strat
        res.update({
            "step_i": s.step_i, "n_intervals": s.n_intervals, "description": strat.description,
            "aborted": "(ABORTED)" in str(strat.description),
            "totalLoad": s.totalLoad, "fixedLoads": s.fixedLoads, "connChargeByTS": s.connChargeByTS,
            "socs": s.socs, "disconnect": s.disconnect, "connected": s.connected,
            "batteryLevels": s.batteryLevels, "localGenerationPower": s.localGenerationPower,
            "results": [{"commands": dict(r["commands"])} for r in s.results], "prices": s.prices,
            "gcPowerSchedule": s.gcPowerSchedule, "gcWindowSchedule": s.gcWindowSchedule,
            "negative_soc_tracker": dict(s.negative_soc_tracker),
            "desired_counter": strat.desired_counter, "margin_counter": strat.margin_counter,
            "vehicle_ids_sorted": sorted(strat.world_state.vehicles.keys()),
            "gen_keys": list(s.events.local_generation_lists.keys()),
            "cs_keys": list(s.components.charging_stations.keys()),
            "concurrency": options.get("CONCURRENCY", 1.0),
        })
    return res
