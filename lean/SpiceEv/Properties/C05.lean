/-
C05 — Charging-station and vehicle power limits hold for every command.
Monitor part for every strategy (run-loop model) and the `clamp_power` lemmas.
-/
import SpiceEv.Proofs.ScenarioRun
import SpiceEv.Model.StrategyUtil
import SpiceEv.Proofs.Strategies
set_option linter.unusedSectionVars false
namespace SpiceEv
variable {α : Type} [Field α] [LinearOrder α] [IsStrictOrderedRing α]

/-- **Station monitor.** For any strategy: at every reported step — except the last one of a run
flagged as aborted — every station with a connected vehicle carries at most
`station maximum + ε` in absolute value. -/
theorem C05_monitor (eps : α) (genKeys : List String) (n : Nat) (obs : List (StepObs α))
    (i : Nat) (hi : i < (run eps genKeys n obs).stepI)
    (hvalid : i + 1 < (run eps genKeys n obs).stepI ∨ (run eps genKeys n obs).aborted = false) :
    ∃ h : i < obs.length, ∀ g ∈ obs[i].gcs, ∀ c ∈ obs[i].stations, c.parent = g.id →
      |optVal (loadOf g.loads c.id)| ≤ c.maxPower + eps := by
  unfold run at hi hvalid
  simp only at hi hvalid
  obtain ⟨h, e⟩ := simLoop_getElem eps genKeys n obs i hi
  refine ⟨h, ?_⟩
  have hok : ((simLoop eps genKeys n obs)[i]'hi).ok = true := by
    rcases hvalid with hv | hv
    · exact simLoop_ok_before_last eps genKeys n obs i hv
    · rw [List.any_eq_false] at hv
      have := hv _ (List.getElem_mem hi)
      simpa using this
  rw [e] at hok
  intro g hg c hc hp
  exact ((stepReport_ok eps genKeys obs[i] hok).2.2 g hg).2.2 c hc hp

end SpiceEv

namespace SpiceEv
variable {α : Type} [Field α] [LinearOrder α] [IsStrictOrderedRing α]

/-- **Clamp.** `util.clamp_power` returns a power that is non-negative, never more than what was
offered (or 0), keeps the station within its maximum, is 0 whenever the resulting station power
would be below the station's or the vehicle's minimum, and is monotone in the offered power. -/
theorem C05_clamp (power cur mx mn vmin : α) :
    0 ≤ clampPower power cur mx mn vmin ∧
    clampPower power cur mx mn vmin ≤ max 0 power ∧
    (cur ≤ mx → cur + clampPower power cur mx mn vmin ≤ mx) ∧
    (min (cur + power) mx < mn ∨ min (cur + power) mx < vmin → clampPower power cur mx mn vmin = 0) := by
  unfold clampPower
  simp only [pymin_eq, pymax_eq]
  refine ⟨?_, ?_, ?_, ?_⟩
  · split
    · exact le_refl _
    · exact le_max_right _ _
  · split
    · exact le_max_left _ _
    · apply max_le
      · exact le_trans (min_le_left _ _) (le_max_right _ _)
      · exact le_max_left _ _
  · intro h
    split
    · simpa using h
    · rcases le_total (min power (mx - cur)) 0 with h0 | h0
      · rw [max_eq_right h0]; simpa using h
      · rw [max_eq_left h0]
        have := min_le_right power (mx - cur)
        linarith
  · intro h
    rw [if_pos h]

theorem C05_clamp_mono (p1 p2 cur mx mn vmin : α) (h : p1 ≤ p2) :
    clampPower p1 cur mx mn vmin ≤ clampPower p2 cur mx mn vmin := by
  unfold clampPower
  simp only [pymin_eq, pymax_eq]
  have ht : min (cur + p1) mx ≤ min (cur + p2) mx := min_le_min (by linarith) (le_refl _)
  split <;> rename_i h1 <;> split <;> rename_i h2
  · exact le_refl _
  · exact le_max_right _ _
  · exfalso
    apply h1
    rcases h2 with h2 | h2
    · exact Or.inl (lt_of_le_of_lt ht h2)
    · exact Or.inr (lt_of_le_of_lt ht h2)
  · exact max_le_max (min_le_min h (le_refl _)) (le_refl _)

/-- the allocation lemma every site should satisfy: a power within the connector headroom keeps
the connector within its limit, whatever the battery then actually takes (`0 ≤ avg ≤ p`). -/
theorem C05_headroom (load curMax p avg : α) (hp : p ≤ curMax - load) (ha : avg ≤ p) :
    load + avg ≤ curMax := by linarith

/-- **Greedy and balanced never charge a station above its maximum.** For any battery obeying
`BatLaw`, any number of vehicles, stations and connectors, with or without stationary batteries:
after `Greedy.step` / `Balanced.step` (allocation pass, surplus/V2G pass, battery pass) every
station's accumulated power is at most its (concurrency-scaled) maximum `≥ 0`. -/
theorem C05_greedy_balanced_station {B : Type} (rule : Rule) (ops : BatOps α B) (law : BatLaw ops)
    (env : StratEnv α) (w w' : SWorld α B) (cmds : List (String × α))
    (hmax : ∀ s ∈ w.stations, 0 ≤ s.maxPower)
    (h : ruleStep rule ops env w = .ok (w', cmds)) :
    ∀ s ∈ w'.stations, s.currentPower ≤ s.maxPower := by
  unfold ruleStep at h
  simp only [bind, Except.bind] at h
  split at h
  · cases h
  · rename_i avail _
    split at h
    · cases h
    · rename_i st1 hfold
      obtain ⟨w1, c1, a1⟩ := st1
      simp only at h
      split at h
      · cases h
      · rename_i st2 hsur
        obtain ⟨w2, c2⟩ := st2
        simp only at h
        split at h
        · cases h
        · rename_i w3 hub
          simp only [Except.ok.injEq, Prod.mk.injEq] at h
          obtain ⟨rfl, _⟩ := h
          have h0 : StationInv (resetStations w) := by
            intro s hs
            unfold resetStations at hs
            simp only [List.mem_map] at hs
            obtain ⟨x, hx, rfl⟩ := hs
            exact hmax x hx
          have h1 := allocFold_station rule ops law env _ _ (w1, c1, a1) h0 hfold
          have h2 := distributeSurplus_station ops law env w1 w2 c2 h1 hsur
          rw [updateBatteries_stations ops env w2 w3 hub]
          exact h2

/-- Non-vacuity of `C05_clamp`: station at 3 of 11 kW, 10 kW offered → 8 kW. -/
example : clampPower (10 : ℚ) 3 11 0 0 = 8 := by decide +kernel

end SpiceEv
