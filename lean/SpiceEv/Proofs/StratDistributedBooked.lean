/-
The bookkeeping invariant "a station's entry at its connector = the station's power" (`Booked`): preserved by every
booking of the vehicle pass, the surplus pass and the battery pass of the shared greedy / balanced model, hence
established by `ruleStep` from a world without station entries, and preserved by distributed's final surplus pass.
-/
import SpiceEv.Proofs.StratDistributedStation
set_option linter.unusedSectionVars false
set_option linter.unusedSimpArgs false
set_option linter.unusedVariables false
namespace SpiceEv.Distrib
open SpiceEv SpiceEv.Frame
variable {α B : Type} [Field α] [LinearOrder α] [IsStrictOrderedRing α]

/-- every station's entry at (every connector carrying the id of) its parent equals the station's power -/
def Booked (w : SWorld α B) : Prop :=
  ∀ s ∈ w.stations, ∀ g ∈ w.gcs, g.id = s.parent → (sdGet g.loads s.id).getD 0 = s.currentPower

/-- no stationary battery shares its id with a station (their loads are booked under these ids) -/
def Disj (w : SWorld α B) : Prop := ∀ s ∈ w.stations, ∀ b ∈ w.batteries, s.id ≠ b.id

theorem mem_setStation' (w : SWorld α B) (s' s : StationS α) (h : s ∈ (w.setStation s').stations) :
    s = s' ∨ (s ∈ w.stations ∧ s.id ≠ s'.id) := by
  unfold SWorld.setStation at h
  simp only [List.mem_map] at h
  obtain ⟨x, hx, rfl⟩ := h
  by_cases hid : x.id = s'.id
  · left; simp [hid]
  · right
    have : (x.id == s'.id) = false := by simpa using hid
    simp [this, hx, hid]

theorem sdGet_append_other {β : Type} (l : List (String × β)) (k k' : String) (v : β) (h : k' ≠ k) :
    sdGet (l ++ [(k, v)]) k' = sdGet l k' := by
  induction l with
  | nil =>
    have : (k == k') = false := by simpa using (Ne.symm h)
    simp [sdGet, this]
  | cons x xs ih =>
    obtain ⟨xk, xv⟩ := x
    by_cases hk : (xk == k') = true
    · simp [sdGet, hk]
    · have hk' : (xk == k') = false := by simpa using hk
      simp only [List.cons_append, sdGet, hk', Bool.false_eq_true, if_false]
      exact ih

/-- `add_load(k, v)` leaves every other entry alone -/
theorem addLoad_other (g : GcS α) (k k' : String) (v : α) (h : k' ≠ k) :
    sdGet (g.addLoad k v).1.loads k' = sdGet g.loads k' := by
  unfold GcS.addLoad
  cases hs : sdGet g.loads k with
  | none => simp [sdGet_append_other _ _ _ _ h]
  | some old => simp [sdGet_alSet_ne _ _ _ _ h]

/-- one booking of a vehicle's battery call keeps the invariant -/
theorem booked_book (w : SWorld α B) (v' : VehicleS α B) (csId : String) (cs : StationS α) (gc : GcS α) (d : α)
    (hcs : w.station? csId = some cs) (hgc : w.gc? cs.parent = some gc) (h : Booked w) :
    Booked (((w.setVehicle v').setGc (gc.addLoad csId d).1).setStation
      { cs with currentPower := cs.currentPower + d }) := by
  obtain ⟨hcsm, hcsid⟩ := station?_some' _ _ _ hcs
  obtain ⟨hgcm, hgcid⟩ := gc?_some' _ _ _ hgc
  intro s hs g hg hid
  have hg' : g ∈ ((w.setVehicle v').setGc (gc.addLoad csId d).1).gcs := hg
  have hgid' : (gc.addLoad csId d).1.id = gc.id := addLoad_id gc csId d
  rcases mem_setStation' _ _ s hs with rfl | ⟨hsm, hsne⟩
  · -- the station that was booked
    rcases mem_setGc (w.setVehicle v') _ g hg' with rfl | ⟨_, hne⟩
    · show (sdGet (gc.addLoad csId d).1.loads cs.id).getD 0 = cs.currentPower + d
      rw [hcsid, (addLoad_entry gc csId d).1, ← hcsid, h cs hcsm gc hgcm hgcid]
    · exact absurd (hid.trans (hgcid.symm.trans hgid'.symm)) hne
  · have hsm' : s ∈ w.stations := by simpa using hsm
    have hsne' : s.id ≠ csId := by rw [← hcsid]; exact hsne
    rcases mem_setGc (w.setVehicle v') _ g hg' with rfl | ⟨hgm, _⟩
    · rw [addLoad_other gc csId s.id d hsne']
      exact h s hsm' gc hgcm (hgid'.symm.trans hid)
    · exact h s hsm' g hgm hid

/-- one booking of a stationary battery keeps the invariant (battery ids are not station ids) -/
theorem booked_battery (w : SWorld α B) (b' : StatBatS α B) (gc : GcS α) (k : String) (d : α)
    (hgm : gc ∈ w.gcs) (hk : ∀ s ∈ w.stations, s.id ≠ k) (h : Booked w) :
    Booked ((w.setBattery b').setGc (gc.addLoad k d).1) := by
  intro s hs g hg hid
  have hs' : s ∈ w.stations := by simpa using hs
  have hg' : g ∈ ((w.setBattery b').setGc (gc.addLoad k d).1).gcs := hg
  rcases mem_setGc (w.setBattery b') _ g hg' with rfl | ⟨hgm', _⟩
  · rw [addLoad_other gc k s.id d (hk s hs')]
    exact h s hs' gc hgm ((addLoad_id gc k d).symm.trans hid)
  · exact h s hs' g hgm' hid

theorem disj_book (w : SWorld α B) (v' : VehicleS α B) (g' : GcS α) (cs : StationS α) (c : α)
    (hcs : cs ∈ w.stations) (h : Disj w) :
    Disj (((w.setVehicle v').setGc g').setStation { cs with currentPower := c }) := by
  intro s hs b hb
  have hb' : b ∈ w.batteries := by simpa using hb
  rcases mem_setStation' _ _ s hs with rfl | ⟨hsm, _⟩
  · exact h cs hcs b hb'
  · exact h s (by simpa using hsm) b hb'

/-! ### the three passes of the greedy / balanced step -/

theorem allocVehicle_booked (rule : Rule) (ops : BatOps α B) (env : StratEnv α)
    (st st' : SWorld α B × List (String × α) × List (String × α)) (vid : String)
    (hinv : Booked st.1 ∧ Disj st.1) (h : allocVehicle rule ops env st vid = .ok st') :
    Booked st'.1 ∧ Disj st'.1 := by
  obtain ⟨v, hv, hc⟩ := allocVehicle_cases rule ops env st st' vid h
  rcases hc with ⟨_, he⟩ | ⟨csId, cs, gc, cheap, power, used, bat', avg, hcs, hst, hgc, _, _, _, he⟩
  · rw [he]; exact hinv
  · rw [he]
    exact ⟨booked_book _ _ csId cs gc avg hst hgc hinv.1, disj_book _ _ _ cs _ (station?_some' _ _ _ hst).1 hinv.2⟩

theorem surplusVehicle_booked (ops : BatOps α B) (law : BatLaw ops) (env : StratEnv α) (cheap : List (String × Bool))
    (w w' : SWorld α B) (cmds cmds' : List (String × α)) (v : VehicleS α B) (hinv : Booked w ∧ Disj w)
    (h : surplusVehicle ops env cheap w cmds v = .ok (w', cmds')) : Booked w' ∧ Disj w' := by
  rcases surplusVehicle_shape ops law env cheap w w' cmds cmds' v h with ⟨rfl, _⟩ | ⟨csId, cs, gc, bat', d, _, hst, hgc, _, rfl, _⟩
  · exact hinv
  · exact ⟨booked_book _ _ csId cs gc d hst hgc hinv.1, disj_book _ _ _ cs _ (station?_some' _ _ _ hst).1 hinv.2⟩

theorem surplusBody_booked (ops : BatOps α B) (law : BatLaw ops) (env : StratEnv α) (cheap : List (String × Bool))
    (st st' : SWorld α B × List (String × α)) (v0 : VehicleS α B) (hinv : Booked st.1 ∧ Disj st.1)
    (h : surplusBody ops env cheap st v0 = .ok st') : Booked st'.1 ∧ Disj st'.1 := by
  unfold surplusBody at h
  split at h
  · simp only [Except.ok.injEq] at h; subst h; exact hinv
  · obtain ⟨w', c'⟩ := st'
    exact surplusVehicle_booked ops law env cheap st.1 w' st.2 c' _ hinv h

theorem batBody_booked (ops : BatOps α B) (env : StratEnv α) (cheap : List (String × Bool))
    (w w' : SWorld α B) (b0 : StatBatS α B) (hinv : Booked w ∧ Disj w)
    (h : batBody ops env cheap w b0 = .ok w') : Booked w' ∧ Disj w' := by
  rcases batBody_cases ops env cheap w w' b0 h with ⟨_, rfl⟩ | ⟨b, hb, hc⟩
  · exact hinv
  · rcases hc with ⟨_, rfl⟩ | ⟨gc, isCheap, r, hgc, _, _, rfl⟩
    · exact hinv
    · have hbm : b ∈ w.batteries := List.mem_of_find?_eq_some hb
      refine ⟨booked_battery w _ gc b.id r.2 (gc?_some' _ _ _ hgc).1 (fun s hs => hinv.2 s hs b hbm) hinv.1, ?_⟩
      intro s hs b2 hb2
      have hs' : s ∈ w.stations := by simpa using hs
      have hb2' : b2 ∈ (w.setBattery { b with bat := r.1 }).batteries := by simpa using hb2
      unfold SWorld.setBattery at hb2'
      simp only [List.mem_map] at hb2'
      obtain ⟨x, hx, rfl⟩ := hb2'
      split
      · exact hinv.2 s hs' b hbm
      · exact hinv.2 s hs' x hx

/-- **The greedy / balanced step books every station's power at its connector.** From a world in which no
connector carries an entry under a station id of its own (the base step removed them) and no battery id is a station
id, `Greedy.step` / `Balanced.step` ends with: entry of every station at its connector = the station's power. -/
theorem ruleStep_booked (rule : Rule) (ops : BatOps α B) (law : BatLaw ops) (env : StratEnv α) (w w' : SWorld α B)
    (cmds : List (String × α))
    (hno : ∀ s ∈ w.stations, ∀ g ∈ w.gcs, g.id = s.parent → (sdGet g.loads s.id).getD 0 = 0) (hd : Disj w)
    (h : ruleStep rule ops env w = .ok (w', cmds)) : Booked w' ∧ Disj w' := by
  unfold ruleStep at h
  cases ha : availBatPower ops w with
  | error e => simp [ha, bind, Except.bind] at h
  | ok avail =>
    simp only [ha, bind, Except.bind] at h
    cases hf : (sortedVehicleIds (resetStations w)).foldlM (allocVehicle rule ops env)
        (resetStations w, [], avail) with
    | error e => simp [hf] at h
    | ok st1 =>
      obtain ⟨w1, c1, a1⟩ := st1
      simp only [hf] at h
      have h0 : Booked (resetStations w) ∧ Disj (resetStations w) := by
        constructor
        · intro s hs g hg hid
          unfold resetStations at hs
          simp only [List.mem_map] at hs
          obtain ⟨x, hx, rfl⟩ := hs
          exact hno x hx g hg hid
        · intro s hs b hb
          unfold resetStations at hs
          simp only [List.mem_map] at hs
          obtain ⟨x, hx, rfl⟩ := hs
          exact hd x hx b hb
      have h1 : Booked w1 ∧ Disj w1 :=
        foldlM_inv (allocVehicle rule ops env) (fun s => Booked s.1 ∧ Disj s.1)
          (fun s x s' hi hs => allocVehicle_booked rule ops env s s' x hi hs) _ _ (w1, c1, a1) h0 hf
      cases hds : distributeSurplus ops env w1 with
      | error e => simp [hds] at h
      | ok r2 =>
        obtain ⟨w2, c2⟩ := r2
        simp only [hds] at h
        have h2 : Booked w2 ∧ Disj w2 := by
          rw [distributeSurplus_unfold] at hds
          cases hc : w1.gcs.mapM (cheapEntry env) with
          | error e => simp [hc, bind, Except.bind] at hds
          | ok cheap =>
            simp only [hc, bind, Except.bind] at hds
            exact foldlM_inv (surplusBody ops env cheap) (fun s => Booked s.1 ∧ Disj s.1)
              (fun s x s' hi hs => surplusBody_booked ops law env cheap s s' x hi hs)
              w1.vehicles (w1, []) (w2, c2) h1 hds
        cases hu : updateBatteries ops env w2 with
        | error e => simp [hu] at h
        | ok w3 =>
          simp only [hu, Except.ok.injEq, Prod.mk.injEq] at h
          obtain ⟨rfl, _⟩ := h
          rw [updateBatteries_unfold] at hu
          cases hc : w2.gcs.mapM (cheapEntry env) with
          | error e => simp [hc, bind, Except.bind] at hu
          | ok cheap =>
            simp only [hc, bind, Except.bind] at hu
            exact foldlM_inv (batBody ops env cheap) (fun s => Booked s ∧ Disj s)
              (fun s x s' hi hs => batBody_booked ops env cheap s s' x hi hs)
              w2.batteries w2 w3 h2 hu

/-- distributed's final surplus pass keeps the invariant -/
theorem distributeSurplusOn_booked (ops : BatOps α B) (law : BatLaw ops) (env : StratEnv α)
    (w w' : SWorld α B) (ids : List String) (cmds' : List (String × α)) (hinv : Booked w ∧ Disj w)
    (h : distributeSurplusOn ops env w ids = .ok (w', cmds')) : Booked w' ∧ Disj w' := by
  unfold distributeSurplusOn at h
  simp only [bind, Except.bind] at h
  split at h
  · cases h
  · rename_i cheap _
    refine foldlM_inv _ (fun (st : SWorld α B × List (String × α)) => Booked st.1 ∧ Disj st.1) ?_ ids (w, [])
      (w', cmds') hinv h
    intro st id st' hi hs
    split at hs
    · simp only [Except.ok.injEq] at hs; subst hs; exact hi
    · rename_i v _
      obtain ⟨w1, c1⟩ := st'
      exact surplusVehicle_booked ops law env cheap st.1 w1 st.2 c1 v hi hs

/-! ### the repair DIST2 (`syncStations`) -/

/-- after DIST2 every station of the virtual world carries exactly what is booked for it at the connector — whatever
the sub-strategy did (also a sub-strategy that never writes `cs.current_power`) -/
theorem syncStations_booked (vw : SWorld α B) (g : GcS α) (hg : vw.gcs = [g]) :
    ∀ s ∈ (syncStations vw).stations, (sdGet g.loads s.id).getD 0 = s.currentPower := by
  intro s hs
  unfold syncStations at hs
  simp only [hg, List.mem_map] at hs
  obtain ⟨x, _, rfl⟩ := hs
  rfl

/-- on a booked one-connector world whose stations all belong to that connector DIST2 changes nothing -/
theorem syncStations_noop (vw : SWorld α B) (g : GcS α) (hg : vw.gcs = [g]) (hb : Booked vw)
    (hp : ∀ s ∈ vw.stations, s.parent = g.id) : syncStations vw = vw := by
  have : vw.stations.map (fun s => { s with currentPower := (sdGet g.loads s.id).getD 0 }) = vw.stations := by
    conv_rhs => rw [← List.map_id vw.stations]
    apply List.map_congr_left
    intro s hs
    have := hb s hs g (by rw [hg]; simp) (hp s hs).symm
    simp only [id]
    rw [this]
  unfold syncStations
  simp only [hg, this]
  cases vw
  simp only at hg
  simp [hg]

/-! ### lower side of the station bound: `−(maximum + eps) < power` -/

def Lower (E : α) (w : SWorld α B) : Prop := ∀ s ∈ w.stations, -(s.maxPower + E) < s.currentPower

/-- the invariant of the surplus pass on the station side -/
def SInv (E : α) (w : SWorld α B) : Prop := (Booked w ∧ Disj w) ∧ MaxOK w.stations ∧ Lower E w

theorem lower_book (E : α) (w : SWorld α B) (v' : VehicleS α B) (g' : GcS α) (cs : StationS α) (d : α)
    (hcs : cs ∈ w.stations) (hmax : 0 ≤ cs.maxPower)
    (hd : 0 ≤ d ∨ (|cs.currentPower| < E ∧ -cs.maxPower ≤ d)) (h : Lower E w) :
    Lower E (((w.setVehicle v').setGc g').setStation { cs with currentPower := cs.currentPower + d }) := by
  intro s hs
  rcases mem_setStation' _ _ s hs with rfl | ⟨hsm, _⟩
  · show -(cs.maxPower + E) < cs.currentPower + d
    have h0 := h cs hcs
    rcases hd with hd | ⟨ha, hd⟩
    · linarith
    · have := (abs_lt.mp ha).1
      linarith
  · exact h s (by simpa using hsm)

theorem surplusVehicle_sinv (ops : BatOps α B) (law : BatLaw ops) (env : StratEnv α) (cheap : List (String × Bool))
    (w w' : SWorld α B) (cmds cmds' : List (String × α)) (v : VehicleS α B) (hinv : SInv env.eps w)
    (h : surplusVehicle ops env cheap w cmds v = .ok (w', cmds')) : SInv env.eps w' := by
  obtain ⟨hb, hm, hl⟩ := hinv
  have hb' := surplusVehicle_booked ops law env cheap w w' cmds cmds' v hb h
  rcases surplusVehicle_shape ops law env cheap w w' cmds cmds' v h with ⟨rfl, _⟩ | ⟨csId, cs, gc, bat', d, _, hst, hgc, hloc, rfl, _⟩
  · exact ⟨hb, hm, hl⟩
  · obtain ⟨hcsm, hcsid⟩ := station?_some' _ _ _ hst
    obtain ⟨hgcm, hgcid⟩ := gc?_some' _ _ _ hgc
    refine ⟨hb', maxOK_book _ _ _ cs _ hcsm hm, ?_⟩
    apply lower_book env.eps _ _ _ cs d hcsm (hm cs hcsm) _ hl
    obtain ⟨_, hsh⟩ := surplusLocal_shape ops law env _ v csId cs gc bat' d _ hloc
    rcases hsh with ⟨p, _, d0, _, _⟩ | ⟨p, ts, avg, _, rfl, g0, g1, g2, g3, g4, _⟩
    · exact Or.inl d0
    · right
      have hent : (sdGet gc.loads csId).getD 0 = cs.currentPower := by
        rw [← hcsid]; exact hb.1 cs hcsm gc hgcm hgcid
      rw [hent] at g4
      have : avg ≤ cs.maxPower := le_trans g1 (max_le g2 (hm cs hcsm))
      exact ⟨g4, by linarith⟩

/-- distributed's final surplus pass keeps the booking invariant and the two-sided station bound -/
theorem distributeSurplusOn_sinv (ops : BatOps α B) (law : BatLaw ops) (env : StratEnv α)
    (w w' : SWorld α B) (ids : List String) (cmds' : List (String × α)) (hinv : SInv env.eps w)
    (h : distributeSurplusOn ops env w ids = .ok (w', cmds')) : SInv env.eps w' := by
  unfold distributeSurplusOn at h
  simp only [bind, Except.bind] at h
  split at h
  · cases h
  · rename_i cheap _
    refine foldlM_inv _ (fun (st : SWorld α B × List (String × α)) => SInv env.eps st.1) ?_ ids (w, [])
      (w', cmds') hinv h
    intro st id st' hi hs
    split at hs
    · simp only [Except.ok.injEq] at hs; subst hs; exact hi
    · rename_i v _
      obtain ⟨w1, c1⟩ := st'
      exact surplusVehicle_sinv ops law env cheap st.1 w1 st.2 c1 v hi hs

end SpiceEv.Distrib
