/-
Model of spice_ev/battery.py (class Battery: load, unload, get_available_power, _adjust_soc) and of
the glue in spice_ev/components.py that builds a Battery (Vehicle, StationaryBattery),
transliterated statement by statement.  Core Lean only (no Mathlib) so that the driver links.

Generic in the number type `α`.  Beyond the field operations and comparisons the battery needs
`math.exp`, `math.log`, builtin `sum` and builtin `abs`; they come from the class `BatNum`
(instances: `Float` below — IEEE, CPython's error behaviour and CPython 3.12's compensated `sum`;
`ℝ` in `SpiceEv/Proofs/Battery.lean` — `Real.exp`, `Real.log`, `List.sum`, `|·|`).

The model is the behaviour of the REPAIRED `_adjust_soc` (fixes/D2D3.diff):
  * `if y1 < self.EPS: break`                    (pinned commit: `y1 < EPS and y2 < EPS`)
  * `if energy_delta <= 0: break`                (pinned commit: `assert energy_delta > 0`)
  * `assert self.soc <= 1 + self.EPS`            (pinned commit: `<`; `1 + EPS == 1.0` for 2**64 kWh)
-/
import SpiceEv.Model.Curve
namespace SpiceEv

/-- number-type operations of battery.py beyond `+ - * / < ≤` -/
class BatNum (α : Type) where
  /-- `math.exp`: `OverflowError` when the result overflows -/
  exp : α → Py α
  /-- `math.log`: `ValueError` for arguments ≤ 0 -/
  log : α → Py α
  /-- builtin `sum(list)` (start value 0) -/
  sum : List α → α
  /-- builtin `abs` -/
  abs : α → α

/-- `math.exp` on doubles: libm `exp`; CPython raises `OverflowError` iff the result is infinite for
a finite argument (underflow to 0 is silent, `exp(inf) = inf`, `exp(nan) = nan`). -/
def floatExp (x : Float) : Py Float :=
  let r := Float.exp x
  if r.isInf && x.isFinite then .error .overflow else .ok r

/-- `math.log` on doubles: `ValueError` for `x ≤ 0` (including `-inf`); `log(nan) = nan`,
`log(inf) = inf`. -/
def floatLog (x : Float) : Py Float :=
  if x ≤ 0 then .error .valueError else .ok (Float.log x)

/-- CPython 3.12 `sum()` over a list of floats with the integer start value `0`: the first item is
added to the int (`0 + x`), the rest is accumulated with Neumaier's compensated summation, the
compensation is added at the end if it is non-zero and finite.  (A `+=` loop is NOT compensated.) -/
def floatSum : List Float → Float
  | [] => 0
  | x :: rest =>
    let f0 : Float := 0 + x
    let fc := rest.foldl (fun (fc : Float × Float) (x : Float) =>
        let f := fc.1
        let t := f + x
        if Float.abs x ≤ Float.abs f then (t, fc.2 + ((f - t) + x))
        else (t, fc.2 + ((x - t) + f))) (f0, 0)
    if fc.2 != 0 && fc.2.isFinite then fc.1 + fc.2 else fc.1

instance : BatNum Float where
  exp := floatExp
  log := floatLog
  sum := floatSum
  abs := Float.abs

/-- `list[i]` with Python's negative-index rule; `IndexError` when out of range -/
def pyIndex {β : Type} (l : List β) (i : Int) : Py β :=
  let j : Int := if i < 0 then i + (l.length : Int) else i
  if j < 0 then .error .indexError
  else match l[j.toNat]? with
    | some v => .ok v
    | none => .error .indexError

/-- `Battery` object: the attributes the anchored methods read or write -/
structure Battery (α : Type) where
  capacity : α
  loadingCurve : Curve α
  unloadingCurve : Curve α
  soc : α
  efficiency : α
  /-- `self.EPS = 1e-5 / self.capacity` -/
  eps : α
  deriving Repr

/-- loop state of `_adjust_soc` (`self.soc`, `remaining_hours`, `boundary_idx`, `boundary_soc`,
`energies`) -/
structure AdjState (α : Type) where
  soc : α
  remaining : α
  bidx : Int
  bsoc : α
  energies : List α
  deriving Repr

section
variable {α : Type} [Add α] [Sub α] [Mul α] [Div α] [Neg α] [LT α] [LE α]
  [DecidableLT α] [DecidableLE α] [OfNat α 0] [OfNat α 1] [BatNum α]

/-- `x == 0`, phrased with `≤` so that it is false for a NaN (Python: `1.0/nan` is `nan`, no error) -/
@[inline] def eqZero (x : α) : Bool := decide (x ≤ 0) && decide (0 ≤ x)

/-- Python true division on numbers: `ZeroDivisionError` iff the divisor equals zero -/
@[inline] def fdiv (a b : α) : Py α := if eqZero b then .error .zeroDivision else .ok (a / b)

/-- `Battery.__init__`: `e5` is the literal `1e-5`; `unloading_curve=None` mirrors the loading curve -/
def Battery.new (e5 capacity : α) (loadingCurve : Curve α) (soc efficiency : α)
    (unloadingCurve : Option (Curve α)) : Py (Battery α) := do
  let ulc := match unloadingCurve with
    | none => loadingCurve
    | some u => u
  let eps ← fdiv e5 capacity
  .ok ⟨capacity, loadingCurve, ulc, soc, efficiency, eps⟩

/-- `(t > 0) - (t < 0)` as a number -/
def signum (t : α) : α := if 0 < t then 1 else if t < 0 then -1 else 0

/-- the boundary SoC for section index `i`: `max(target, points[i][0])` when discharging (and the
target itself once the index has left the curve: `boundary_idx < 0`), `min(target, points[i][0])`
when charging -/
def boundaryAt (pts : List (α × α)) (discharge : Bool) (target : α) (i : Int) : Py α :=
  if discharge then
    if 0 ≤ i then do
      let p ← pyIndex pts i
      .ok (pymax target p.1)
    else .ok target
  else do
    let p ← pyIndex pts i
    .ok (pymin target p.1)

/-- inner `while sign * (boundary_soc - self.soc) < self.EPS:` — advance to the next section -/
def advanceBoundary (pts : List (α × α)) (discharge : Bool) (eps target sign soc : α) :
    Nat → Int → α → Py (Int × α)
  | 0, _, _ => .error .fuel
  | fuel + 1, bidx, bsoc =>
    if sign * (bsoc - soc) < eps then do
      let bidx' := bidx + (if discharge then -1 else 1)
      let bsoc' ← boundaryAt pts discharge target bidx'
      advanceBoundary pts discharge eps target sign soc fuel bidx' bsoc'
    else .ok (bidx, bsoc)

/-- body of the `try:` — time to the breakpoint -/
def timeToBreakRaw (eps c soc x2 m n : α) : Py α :=
  if BatNum.abs m < eps then
    fdiv ((x2 - soc) * c) n
  else do
    let nm ← fdiv n m
    let q ← fdiv (x2 + nm) (soc + nm)
    let l ← BatNum.log q
    fdiv (l * c) m

/-- `try: … except (ValueError, ZeroDivisionError): t = sign * remaining_hours` -/
def timeToBreak (eps c soc x2 m n sign remaining : α) : Py α :=
  match timeToBreakRaw eps c soc x2 m n with
  | .ok t => .ok t
  | .error .valueError => .ok (sign * remaining)
  | .error .zeroDivision => .ok (sign * remaining)
  | .error e => .error e

/-- `new_soc`: linear for `abs(m) < EPS`, exponential otherwise (division errors and the
`OverflowError` of `exp` are not caught here) -/
def newSocOf (eps c soc m n t : α) : Py α :=
  if BatNum.abs m < eps then do
    let q ← fdiv n c
    .ok (soc + q * t)
  else do
    let a ← fdiv (-n) m
    let nm ← fdiv n m
    let mc ← fdiv m c
    let e ← BatNum.exp (mc * t)
    .ok (a + (nm + soc) * e)

/-- the arithmetic of one section: slope and intercept of the line through `(x1,y1)`, `(x2,y2)`,
time to the breakpoint (with the `except` fallback), the sign-preserving
`t = ((t > 0) - (t < 0)) * min(abs(t), remaining_hours)` and `new_soc`; returns `(t, new_soc)` -/
def sectionStep (c eps sign x1 x2 y1 y2 remaining : α) : Py (α × α) := do
  let dx := x2 - x1
  let dy := y2 - y1
  let m ← fdiv dy dx
  let n := y1 - m * x1
  let t0 ← timeToBreak eps c x1 x2 m n sign remaining
  let t := signum t0 * pymin (BatNum.abs t0) remaining
  let newSoc ← newSocOf eps c x1 m n t
  .ok (t, newSoc)

/-- one pass through the body of the outer `while`; `false` = left by `break` -/
def adjustIter (cv : Curve α) (discharge : Bool) (c eps target sign : α) (st : AdjState α) :
    Py (AdjState α × Bool) := do
  let b ← advanceBoundary cv.points discharge eps target sign st.soc
    (cv.points.length + 2) st.bidx st.bsoc
  let x1 := st.soc
  let x2 := b.2
  let y1 ← cv.powerFromSoc x1
  let y2 ← cv.powerFromSoc x2
  let st1 : AdjState α := { st with bidx := b.1, bsoc := b.2 }
  if y1 < eps then .ok (st1, false)                              -- repaired (D2)
  else do
    let r ← sectionStep c eps sign x1 x2 y1 y2 st.remaining
    let t := r.1
    let newSoc := r.2
    pyassert (if discharge then decide (newSoc ≤ st.soc) else decide (st.soc ≤ newSoc))
    let energyDelta := BatNum.abs (newSoc - st.soc) * c
    if energyDelta ≤ 0 then .ok (st1, false)                     -- repaired (D3)
    else do
      pyassert (decide (newSoc ≤ 1 + eps))                       -- repaired (D3): `<=`
      .ok ({ soc := pymin newSoc 1, remaining := st.remaining - BatNum.abs t, bidx := b.1,
             bsoc := b.2, energies := st.energies ++ [energyDelta] }, true)

/-- outer `while remaining_hours > EPS and sign * (target_soc - self.soc) > EPS:` -/
def adjustLoop (cv : Curve α) (discharge : Bool) (c eps target sign : α) :
    Nat → AdjState α → Py (AdjState α)
  | 0, _ => .error .fuel
  | fuel + 1, st =>
    if eps < st.remaining ∧ eps < sign * (target - st.soc) then do
      let r ← adjustIter cv discharge c eps target sign st
      if r.2 then adjustLoop cv discharge c eps target sign fuel r.1 else .ok r.1
    else .ok st

/-- fuel of the outer loop: every pass but the last one crosses a section boundary -/
def adjustFuel (cv : Curve α) : Nat := 2 * cv.points.length + 4

/-- `Battery._adjust_soc(timedelta, charging_curve, target_soc)`; `T` = `total_seconds()/3600` -/
def Battery.adjustSoc (b : Battery α) (T : α) (cv : Curve α) (target : α) : Py (Battery α × α) := do
  let discharge := decide (target < b.soc)
  let idx := cv.sectionBoundary b.soc
  let bidx : Int := if discharge then (idx.1 : Int) else (idx.2 : Int)
  let p ← pyIndex cv.points bidx
  let bsoc := if discharge then pymax target p.1 else pymin target p.1
  let sign : α := if discharge then -1 else 1
  let st ← adjustLoop cv discharge b.capacity b.eps target sign (adjustFuel cv)
    ⟨b.soc, T, bidx, bsoc, []⟩
  let avg := match fdiv (BatNum.sum st.energies) T with
    | .ok v => v
    | .error _ => 0
  .ok ({ b with soc := st.soc }, avg)

/-- first statement of `load`: the target SoC from `target_soc` / `target_power`
(`assert target_power is None` when a target SoC is given) -/
def Battery.loadRequest (b : Battery α) (T : α) (targetSoc targetPower : Option α) : Py α :=
  match targetSoc with
  | none => match targetPower with
    | none => .ok 1
    | some P => do
      let energyDelta := P * b.efficiency * T
      let socDelta ← fdiv energyDelta b.capacity
      .ok (b.soc + socDelta)
  | some t => do
    pyassert targetPower.isNone
    .ok t

/-- `Battery.load(timedelta, max_power, target_soc, target_power)` →
(battery after the call, `avg_power`, `soc_delta`) -/
def Battery.load (b : Battery α) (T : α) (maxPower targetSoc targetPower : Option α) :
    Py (Battery α × α × α) := do
  let target ← b.loadRequest T targetSoc targetPower
  if b.eps < b.soc - target then .ok (b, 0, 0)
  else do
    let maxPower := maxPower.getD b.loadingCurve.maxPower     -- `if max_power is None:`
    let target := pymin 1 target
    let oldSoc := b.soc
    let clamped ← b.loadingCurve.clamped maxPower 1 b.efficiency
    let r ← b.adjustSoc T clamped target
    let avg ← fdiv r.2 b.efficiency
    .ok (r.1, avg, r.1.soc - oldSoc)

/-- first statement of `unload`: the requested target SoC -/
def Battery.unloadRequest (b : Battery α) (T : α) (targetSoc targetPower : Option α) : Py α :=
  match targetSoc with
  | none => match targetPower with
    | none => .ok 0
    | some P => do
      let pe ← fdiv P b.efficiency
      let energyDelta := pe * T
      let socDelta ← fdiv energyDelta b.capacity
      .ok (b.soc - socDelta)
  | some t => do
    pyassert targetPower.isNone
    .ok t

/-- `Battery.unload(timedelta, max_power, target_soc, target_power)` -/
def Battery.unload (b : Battery α) (T : α) (maxPower targetSoc targetPower : Option α) :
    Py (Battery α × α × α) := do
  let target ← b.unloadRequest T targetSoc targetPower
  let target := pymax (pymin b.soc 0) target
  if b.eps < target - b.soc then .ok (b, 0, 0)
  else do
    let maxPower := maxPower.getD b.unloadingCurve.maxPower   -- `if max_power is None:`
    let oldSoc := b.soc
    let post ← fdiv 1 b.efficiency
    let clamped ← b.unloadingCurve.clamped maxPower 1 post
    let r ← b.adjustSoc T clamped target
    let avg := r.2 * b.efficiency
    .ok (r.1, avg, oldSoc - r.1.soc)

/-- `Battery.get_available_power(timedelta)`: probe `unload`, restore the SoC -/
def Battery.getAvailablePower (b : Battery α) (T : α) : Py (Battery α × α) := do
  let oldSoc := b.soc
  let r ← b.unload T none none none
  .ok ({ r.1 with soc := oldSoc }, r.2.1)

/-- `components.Vehicle.__init__`: the battery of a vehicle (capacity, curves and efficiency of its
vehicle type; the discharge curve is the configured one or `VehicleType`'s default
`charging_curve.clamped(max_power, pre_scale=v2g_power_factor)`). -/
def vehicleBattery (e5 capacity : α) (chargingCurve : Curve α) (soc efficiency : α)
    (dischargeCurve : Option (Curve α)) (v2gPowerFactor : α) : Py (Battery α) := do
  let dc ← match dischargeCurve with
    | some d => (.ok d : Py (Curve α))
    | none => defaultDischargeCurve chargingCurve v2gPowerFactor
  Battery.new e5 capacity chargingCurve soc efficiency (some dc)

/-- `components.StationaryBattery.__init__`: a negative capacity means unknown = `2**64` kWh;
without a discharge curve the charging curve is mirrored. -/
def stationaryBattery (e5 capacity unlimited : α) (chargingCurve : Curve α) (soc efficiency : α)
    (dischargeCurve : Option (Curve α)) : Py (Battery α) :=
  Battery.new e5 (if 0 ≤ capacity then capacity else unlimited) chargingCurve soc efficiency
    dischargeCurve

end

/-- What the rest of the simulation (strategies, run loop) uses of a battery: a state with an SoC
and three operations.  `load`/`unload` map a state and the call's arguments
(hours, `max_power`, `target_soc`, `target_power`) to the new state, the average power and the
reported SoC change; `availablePower` never changes the state. -/
structure BatteryContract (σ α : Type) where
  soc : σ → α
  load : σ → α → Option α → Option α → Option α → Py (σ × α × α)
  unload : σ → α → Option α → Option α → Option α → Py (σ × α × α)
  availablePower : σ → α → Py α

section
variable {α : Type} [Add α] [Sub α] [Mul α] [Div α] [Neg α] [LT α] [LE α]
  [DecidableLT α] [DecidableLE α] [OfNat α 0] [OfNat α 1] [BatNum α]

/-- the contract implemented by the model of `battery.py` -/
def batteryContract : BatteryContract (Battery α) α where
  soc := fun b => b.soc
  load := fun b T mp ts tp => b.load T mp ts tp
  unload := fun b T mp ts tp => b.unload T mp ts tp
  availablePower := fun b T => (b.getAvailablePower T).map (fun r => r.2)
end

end SpiceEv
