/-
Model of spice_ev/report.py (split_feedin, aggregate_timeseries, generate_soc_timeseries,
aggregate_local_results, aggregate_global_results) and of calculate_costs.read_simulation_csv's
column mapping, transliterated statement by statement.

Generic in the number type `α`; `round(x, 3)` is the parameter `rnd : α → α` (the driver passes
round-half-even on exact rationals, `pyRoundRat`).  Python dicts are insertion-ordered association
lists, `None` is `Option.none`, exceptions are `Py = Except PyErr`.  The series that
`Scenario.run` stores on the Scenario object are the fields of `RunData`/`StepData`: every per-step
list (`results`, `prices[gc]`, `totalLoad[gc]`, `fixedLoads[gc]`, `localGenerationPower[gc]`,
`gcPowerSchedule[gc]`, `gcWindowSchedule[gc]`, `connChargeByTS[gc]`, `socs`, `disconnect`,
`connected`) is appended once per simulated step by the run loop, so they are index-aligned by
construction and are kept as one record per step; `batteryLevels[*]` and the flex band (which has
`n_intervals` entries even for an aborted run) are indexed lists.

REPAIRED behaviour is modelled for D9 (`is not None` in generate_soc_timeseries), D11 (window
column read back as True/False/None), O2 (zero maximum load in the peak-load-window block),
N2 (schedule entry `None` is written as `None`, not rounded).  The pinned variants are kept next
to them (`socEntryPinned`, …) for the counterexamples in Properties/C18.lean.
-/
import SpiceEv.Py
namespace SpiceEv.Report
open SpiceEv

/-! ### rounding on exact rationals (driver instantiation of `rnd`) -/

/-- round-half-even of a rational to an integer (Python `round(Fraction)`). -/
def roundHalfEven (x : Rat) : Int :=
  let f := x.floor
  let d := x - (f : Rat)
  if d < 1 / 2 then f
  else if 1 / 2 < d then f + 1
  else if f % 2 = 0 then f else f + 1

/-- Python `round(x, places)` on the exact value (for floats CPython rounds the exact binary value
correctly, half-even, so this is also `round(float, places)` up to the final conversion to the
nearest double, which the harness applies when it compares). -/
def pyRoundRat (places : Nat) (x : Rat) : Rat :=
  (roundHalfEven (x * ((10 ^ places : Nat) : Rat)) : Rat) / ((10 ^ places : Nat) : Rat)

/-! ### cells of the written tables -/

/-- one cell of a CSV row as `str()` will print it: an `int`, a number that went through
`round(·, 3)` (`num`), a number written unrounded (`raw`), a naive timestamp (µs), a bool, `None` -/
inductive Cell (α : Type) where
  | int (n : Int)
  | num (x : α)
  | raw (x : α)
  | time (us : Int)
  | bool (b : Bool)
  | none
  deriving Repr, BEq, DecidableEq

/-- Python dict lookup on an insertion-ordered association list -/
def dget {β : Type} (d : List (String × β)) (k : String) : Option β := d.lookup k
def dhas {β : Type} (d : List (String × β)) (k : String) : Bool := (d.lookup k).isSome

/-- `pat in s` for Python strings -/
def isInfixL (p : List Char) : List Char → Bool
  | [] => p.isEmpty
  | c :: cs => p.isPrefixOf (c :: cs) || isInfixL p cs
def strIn (pat s : String) : Bool := isInfixL pat.toList s.toList

/-- `uc_keys` of aggregate_timeseries -/
def ucKeys : List String :=
  ["work", "business", "school", "shopping", "private/ridesharing", "leisure", "home", "hub"]

/-- `xs[i]` -/
def pyIndex {β : Type} (xs : List β) (i : Nat) : Py β :=
  match xs[i]? with
  | some v => .ok v
  | none => .error .indexError

section
variable {α : Type} [Add α] [Sub α] [Mul α] [Div α] [Neg α] [LT α] [LE α]
  [DecidableLT α] [DecidableLE α] [OfNat α 0] [OfNat α 1] [NatCast α]

/-- Python `sum(list)`: left fold from 0 -/
def pysum (l : List α) : α := l.foldl (· + ·) 0

/-- truthiness of a number (`if x`, `any(list)`, `bool(x)`) -/
def truthy (x : α) : Bool := !(isZero x)

/-! ### split_feedin -/

/-- the three parts before rounding -/
def splitFeedinRaw (grid generation csSum : α) : α × α × α :=
  let accumulated := grid
  -- feed-in is provided by local generation first
  let generationFeedin := pymax (pymin (-generation) accumulated) 0
  let accumulated := accumulated - generationFeedin
  -- feed-in not locally generated comes from discharging vehicles first
  let v2gFeedin := pymax (pymin (-csSum) accumulated) 0
  let accumulated := accumulated - v2gFeedin
  -- rest of feed-in must come from stationary battery
  let batteryFeedin := pymax accumulated 0
  (generationFeedin, v2gFeedin, batteryFeedin)

/-- `report.split_feedin(grid, generation, cs_sum, round_to_places)` -/
def splitFeedin (rnd : α → α) (grid generation csSum : α) : List α :=
  let p := splitFeedinRaw grid generation csSum
  [rnd p.1, rnd p.2.1, rnd p.2.2]

/-! ### the series stored by Scenario.run -/

/-- everything one simulated step contributes to the stored series, for one grid connector -/
structure StepData (α : Type) where
  time : Int                         -- results[idx]['current_time'].replace(tzinfo=None), µs
  commands : List (String × α)       -- results[idx]['commands']
  price : α                          -- prices[gc][idx]
  totalLoad : α                      -- totalLoad[gc][idx]  (connector power)
  fixedLoads : List (String × α)     -- fixedLoads[gc][idx] (all loads except charging stations)
  localGen : α                       -- localGenerationPower[gc][idx]
  schedule : Option α                -- gcPowerSchedule[gc][idx]
  window : Option Bool               -- gcWindowSchedule[gc][idx]
  connCharge : List (String × α)     -- connChargeByTS[gc][idx]
  socs : List (Option α)             -- socs[idx]
  disconnect : List (Option α)       -- disconnect[idx]
  connected : List (String × String) -- connected[idx] : vehicle id ↦ station id

/-- state of `scenario.flex_bands` as seen from one connector -/
inductive Flex (α : Type) where
  | skipped                                        -- scenario.flex_bands is None
  | failed                                         -- scenario.flex_bands[gc] is None
  | band (mn base mx : List α) (intervals : List (α × Nat))   -- needed, num_vehicles_present

structure RunData (α : Type) where
  gcId : String
  gcIds : List String                          -- components.grid_connectors.keys()
  steps : List (StepData α)
  stations : List (String × String)            -- components.charging_stations: id ↦ parent
  vehicles : List (String × α × Bool)          -- components.vehicles: id ↦ (capacity, type.v2g)
  batteries : List (String × String × α)       -- components.batteries: id ↦ (parent, capacity)
  batteryLevels : List (String × List α)       -- batteryLevels
  fixedLoadKeys : List String                  -- events.fixed_load_lists.keys()
  localGenKeys : List String                   -- events.local_generation_lists.keys()
  flex : Flex α
  stepsPerHour : α
  startLocal : Int                             -- start_time.replace(tzinfo=None), µs
  interval : Int                               -- µs
  isPlw : Bool                                 -- strategy_name == "peak_load_window"
  peakPower : α                                -- strat.peak_power[gc] (only read if isPlw)

/-- which optional columns exist (computed by `flagsOf`, quantified over in the theorems) -/
structure Flags where
  hasPrice : Bool
  hasFixedLoads : Bool
  hasGeneration : Bool
  hasBatteries : Bool
  hasFlex : Bool
  hasSchedule : Bool
  hasWindows : Bool
  hasV2G : Bool
  deriving Repr, DecidableEq

def sortedStr (l : List String) : List String := l.mergeSort (fun a b => decide (a ≤ b))

/-- `cs_ids`: sorted ids of the stations whose parent is this connector -/
def csIdsOf (R : RunData α) : List String :=
  sortedStr ((R.stations.filter (fun s => s.2 == R.gcId)).map (·.1))

/-- `cs_by_uc` (insertion order = order of `uc_keys`, only use cases with at least one station) -/
def csByUc (csIds : List String) : List (String × List String) :=
  ucKeys.filterMap (fun uc =>
    let l := csIds.filter (fun cs => strIn uc cs)
    if l.isEmpty then none else some (uc, l))

def flagsOf (R : RunData α) : Flags where
  hasPrice := R.steps.any (fun s => truthy s.price)
  -- `any(scenario.fixedLoads)` iterates the KEYS of the dict {gcID: [...]}: true iff some
  -- connector id is a non-empty string
  hasFixedLoads := R.gcIds.any (fun g => g != "")
  hasGeneration := R.steps.any (fun s => truthy s.localGen)
  hasBatteries := R.batteries.any (fun b => b.2.1 == R.gcId)
  hasFlex := match R.flex with | .skipped => false | _ => true
  hasSchedule := R.steps.any (fun s => s.schedule.isSome)
  hasWindows := R.steps.any (fun s => s.window.isSome)
  hasV2G := R.vehicles.any (fun v => v.2.2)

/-! ### aggregate_timeseries -/

def tsHeader (f : Flags) (ucs : List String) (csIds : List String) : List String :=
  ["timestep", "time"]
  ++ (if f.hasPrice then ["price [ct/kWh]"] else [])
  ++ ["grid supply [kW]"]
  ++ (if f.hasFixedLoads then ["fixed load [kW]"] else [])
  ++ (if f.hasGeneration then ["local generation [kW]"] else [])
  ++ (if f.hasBatteries then ["battery power [kW]", "bat. stored energy [kWh]"] else [])
  ++ (if f.hasFlex then ["flex band min [kW]", "flex band base [kW]", "flex band max [kW]",
                         "max energy flex [kWh]"] else [])
  ++ (if f.hasSchedule then ["schedule [kW]"] else [])
  ++ (if f.hasWindows then ["window signal [-]"] else [])
  ++ (if f.hasGeneration then ["generation feed-in [kW]"] else [])
  ++ (if f.hasV2G then ["V2G feed-in [kW]"] else [])
  ++ (if f.hasBatteries then ["battery feed-in [kW]"] else [])
  ++ ["sum CS power [kW]"]
  ++ ucs.map (fun uc => "sum UC " ++ uc)
  ++ ["# occupied CS [-]", "# CS in use [-]"]
  ++ ucs.map (fun uc => "# occupied UC " ++ uc)
  ++ csIds.map (fun cs => cs ++ " [kW]")

/-- `gc_commands`: the step's commands restricted to this connector's stations -/
def gcCommands (csIds : List String) (s : StepData α) : List (String × α) :=
  s.commands.filter (fun kv => csIds.contains kv.1)

/-- battery power cell: Σ of the step's loads whose key is a stationary battery -/
def batteryPower (R : RunData α) (s : StepData α) : α :=
  pysum ((s.fixedLoads.filter (fun kv => R.batteries.any (fun b => b.1 == kv.1))).map (·.2))

/-- stored energy cell: Σ over the batteries of this connector of `batteryLevels[bat][idx]` -/
def batteryStored (R : RunData α) (idx : Nat) : Py α := do
  let cur ← R.batteryLevels.filterMapM (fun (bl : String × List α) =>
    match R.batteries.lookup bl.1 with
    | none => (Except.error PyErr.keyError : Py (Option (List α)))
    | some b => .ok (if b.1 == R.gcId then some bl.2 else none))
  let vals ← cur.mapM (fun levels => pyIndex levels idx)
  pure (pysum vals)

/-- the loop computing `max_flex_energy`; `vids` sorted, `vidx` = position in `vids` -/
def maxFlexEnergy (R : RunData α) (s : StepData α) : Py α :=
  let vids := sortedStr (R.vehicles.map (·.1))
  (vids.zipIdx).foldlM (fun (acc : α) (p : String × Nat) =>
    let vid := p.1
    match s.connected.lookup vid with
    | none => pure acc                                  -- vehicle not connected
    | some csId =>
      match R.stations.lookup csId with
      | none => pure acc                                -- CS not found
      | some parent =>
        if parent != R.gcId then pure acc               -- CS not at this GC
        else do
          let cap ← match R.vehicles.lookup vid with
            | some v => pure v.1
            | none => .error .keyError
          let soc? ← pyIndex s.socs p.2
          match soc? with
          | none => .error .typeError                   -- 1 - None
          | some soc => pure (acc + pymax (1 - soc) 0 * cap)) 0

/-! The row is assembled from segments, one per `row.append` / `row +=` of the source, in source
order.  Two segments can raise (battery levels, flex band); they are evaluated first-to-last like
the source does. -/

def headCells (idx : Nat) (s : StepData α) : List (Cell α) := [.int idx, .time s.time]
def priceCells (f : Flags) (s : StepData α) : List (Cell α) :=
  if f.hasPrice then [.raw s.price] else []
/-- grid power (negative since grid power is fed into system): `-1 * round(totalLoad, 3)` -/
def gridCells (rnd : α → α) (s : StepData α) : List (Cell α) := [.num (-(rnd s.totalLoad))]
def sumFixedLoads (R : RunData α) (s : StepData α) : α :=
  pysum ((s.fixedLoads.filter (fun kv => R.fixedLoadKeys.contains kv.1)).map (·.2))
def fixedCells (rnd : α → α) (R : RunData α) (f : Flags) (s : StepData α) : List (Cell α) :=
  if f.hasFixedLoads then [.num (rnd (sumFixedLoads R s))] else []
def genCells (rnd : α → α) (f : Flags) (s : StepData α) : List (Cell α) :=
  if f.hasGeneration then [.num (-(rnd s.localGen))] else []

def batCells (rnd : α → α) (R : RunData α) (f : Flags) (idx : Nat) (s : StepData α) :
    Py (List (Cell α)) :=
  if f.hasBatteries then do
    let stored ← batteryStored R idx
    pure [.num (rnd (batteryPower R s)), .num (rnd stored)]
  else pure []

def flexCells (rnd : α → α) (R : RunData α) (f : Flags) (idx : Nat) (s : StepData α) :
    Py (List (Cell α)) :=
  if f.hasFlex then do
    let mfe ← maxFlexEnergy R s
    match R.flex with
    | .band mn base mx _ => do
      let a ← pyIndex mn idx; let b ← pyIndex base idx; let c ← pyIndex mx idx
      pure [.num (rnd a), .num (rnd b), .num (rnd c), .num (rnd mfe)]
    | _ => pure [.int 0, .int 0, .int 0, .int 0]      -- except TypeError
  else pure []

def schedCells (rnd : α → α) (f : Flags) (s : StepData α) : List (Cell α) :=
  if f.hasSchedule then
    match s.schedule with
    | some v => [.num (rnd v)]
    | none => [.none]          -- REPAIRED (N2); pinned: round(None, 3) raises TypeError
  else []
def winCells (f : Flags) (s : StepData α) : List (Cell α) :=
  if f.hasWindows then [match s.window with | some b => .bool b | none => .none] else []

/-- `cs_sum = sum(gc_commands.values())` -/
def csSumOf (csIds : List String) (s : StepData α) : α := pysum ((gcCommands csIds s).map (·.2))

/-- the three feed-in parts of the step, already rounded -/
def feedSplit (rnd : α → α) (f : Flags) (csIds : List String) (s : StepData α) : List α :=
  splitFeedin rnd (-s.totalLoad) (if f.hasGeneration then -s.localGen else 0)
    (pymin (csSumOf csIds s) 0)
def feedCells (rnd : α → α) (f : Flags) (csIds : List String) (s : StepData α) : List (Cell α) :=
  ((([f.hasGeneration, f.hasV2G, f.hasBatteries].zip (feedSplit rnd f csIds s)).filter (·.1)).map
    (fun p => .num p.2))
def csSumCells (rnd : α → α) (csIds : List String) (s : StepData α) : List (Cell α) :=
  [.num (rnd (csSumOf csIds s))]
def ucSumCells (rnd : α → α) (csIds : List String) (cbu : List (String × List String))
    (s : StepData α) : List (Cell α) :=
  cbu.map (fun uc =>
    .num (rnd (pysum (((gcCommands csIds s).filter (fun kv => uc.2.contains kv.1)).map (·.2)))))
def occCells (s : StepData α) : List (Cell α) :=
  [.int s.connCharge.length, .int (s.connCharge.filter (fun kv => truthy kv.2)).length]
def ucOccCells (cbu : List (String × List String)) (s : StepData α) : List (Cell α) :=
  cbu.map (fun uc => .int (s.connCharge.filter (fun kv => strIn uc.1 kv.1)).length)
def perCsCells (rnd : α → α) (csIds : List String) (s : StepData α) : List (Cell α) :=
  csIds.map (fun cs => .num (rnd (((gcCommands csIds s).lookup cs).getD 0)))

/-- the row, given the two segments that needed indexed series -/
def tsRowWith (rnd : α → α) (R : RunData α) (f : Flags) (csIds : List String)
    (cbu : List (String × List String)) (idx : Nat) (s : StepData α)
    (bat flex : List (Cell α)) : List (Cell α) :=
  headCells idx s ++ priceCells f s ++ gridCells rnd s ++ fixedCells rnd R f s ++ genCells rnd f s
  ++ bat ++ flex ++ schedCells rnd f s ++ winCells f s ++ feedCells rnd f csIds s
  ++ csSumCells rnd csIds s ++ ucSumCells rnd csIds cbu s ++ occCells s ++ ucOccCells cbu s
  ++ perCsCells rnd csIds s

/-- one row of `timeseries` -/
def tsRow (rnd : α → α) (R : RunData α) (f : Flags) (csIds : List String)
    (cbu : List (String × List String)) (idx : Nat) (s : StepData α) : Py (List (Cell α)) := do
  let bat ← batCells rnd R f idx s
  let flex ← flexCells rnd R f idx s
  pure (tsRowWith rnd R f csIds cbu idx s bat flex)

/-- pinned behaviour of the schedule cell (N2): `round(None, 3)` -/
def schedCellPinned (rnd : α → α) (s : Option α) : Py (Cell α) :=
  match s with
  | some v => .ok (.num (rnd v))
  | none => .error .typeError

/-- `aggregate_timeseries(scenario, gcID)`: header and rows -/
def aggregateTimeseries (rnd : α → α) (R : RunData α) : Py (List String × List (List (Cell α))) := do
  let csIds := csIdsOf R
  let cbu := csByUc csIds
  let f := flagsOf R
  let rows ← (R.steps.zipIdx).mapM (fun p => tsRow rnd R f csIds cbu p.2 p.1)
  pure (tsHeader f (cbu.map (·.1)) csIds, rows)

/-- `getattr(scenario, f"{gcID}_timeseries").get(name, [])` reduced to its numeric cells -/
def columnNums (header : List String) (rows : List (List (Cell α))) (name : String) : List α :=
  match header.idxOf? name with
  | none => []
  | some j => rows.filterMap (fun (r : List (Cell α)) => match r[j]? with
      | some (Cell.num x) => some x | some (Cell.raw x) => some x | _ => none)

/-! ### generate_soc_timeseries -/

/-- REPAIRED (D9): connected SoC if it is not None, else the disconnected one -/
def socEntry (soc dis : Option α) : Option α :=
  match soc with
  | some s => some s
  | none => dis

/-- pinned: `socs[vidx] or disconnect[ts][vidx]` — a connected SoC of exactly 0 is falsy -/
def socEntryPinned (soc dis : Option α) : Option α :=
  match soc with
  | some s => if truthy s then some s else dis
  | none => dis

/-- `scenario.vehicle_socs` : vehicle id ↦ one entry per step -/
def socSeries (R : RunData α) : Py (List (String × List (Option α))) :=
  let vids := sortedStr (R.vehicles.map (·.1))
  (vids.zipIdx).mapM (fun p => do
    let col ← R.steps.mapM (fun s => do
      let a ← pyIndex s.socs p.2
      match a with
      | some v => pure (some v)
      | none => pyIndex s.disconnect p.2)      -- evaluated only if the first operand is None
    pure (p.1, col))

/-! ### aggregate_local_results -/

/-- index of the six-hour report window of step `idx`: 0 = 04–10, 1 = 10–16, 2 = 16–22, 3 = 22–04.
`cur_time - cur_time.replace(hour=0, minute=0)` keeps hours and minutes only. -/
def windowIndex (startLocal interval : Int) (idx : Nat) : Nat :=
  let cur := startLocal + interval * (idx : Int)
  let tod := cur % 86400000000
  let hm := (tod / 60000000) * 60000000
  (((hm - 14400000000) / 21600000000) % 4).toNat

def modifyNth {β : Type} (l : List β) (i : Nat) (f : β → β) : List β :=
  l.zipIdx.map (fun p => if p.2 == i then f p.1 else p.1)

/-- loop state of aggregate_local_results -/
structure AggState (α : Type) where
  loadCount : List (List Nat)            -- per vehicle; each list REVERSED (head = counts[-1])
  loadWindow : List (List (α × α))       -- 4 buckets of (flex range, load), in append order
  countWindow : List (List Nat)          -- 4 buckets × vehicles
  maxFixed : α
  maxVariable : α

def aggInit (nVeh : Nat) : AggState α where
  loadCount := List.replicate nVeh [0]
  loadWindow := List.replicate 4 []
  countWindow := List.replicate 4 (List.replicate nVeh 0)
  maxFixed := 0
  maxVariable := 0

/-- the `for i, soc in enumerate(scenario.socs[idx])` loop -/
def updLoadCount : List (List Nat) → List (Option α) → Py (List (List Nat))
  | lc, [] => .ok lc
  | [], _ :: _ => .error .indexError
  | c :: lc, soc :: socs => do
    let rest ← updLoadCount lc socs
    match c with
    | [] => .error .indexError
    | last :: init =>
      if soc.isNone && last > 0 then .ok ((0 :: last :: init) :: rest)
      else .ok (((last + (if soc.isSome then 1 else 0)) :: init) :: rest)

def flexRange (R : RunData α) (idx : Nat) : Py α :=
  match R.flex with
  | .band mn _ mx _ => do
    let a ← pyIndex mx idx; let b ← pyIndex mn idx; pure (a - b)
  | _ => .ok 0                                     -- except TypeError

def fixedLoadOf (R : RunData α) (s : StepData α) : α :=
  pysum ((s.fixedLoads.filter (fun kv =>
    R.fixedLoadKeys.contains kv.1 || R.localGenKeys.contains kv.1)).map (·.2))

def aggStep (R : RunData α) (st : AggState α) (p : StepData α × Nat) : Py (AggState α) := do
  let s := p.1
  let widx := windowIndex R.startLocal R.interval p.2
  let fr ← flexRange R p.2
  let lw := modifyNth st.loadWindow widx (fun w => w ++ [(fr, s.totalLoad)])
  let cw := modifyNth st.countWindow widx (fun c =>
    List.zipWith (fun c t => c + (if (t : Option α).isSome then 1 else 0)) c s.socs)
  let lc ← updLoadCount st.loadCount s.socs
  let fixedLoad := fixedLoadOf R s
  pure { loadCount := lc, loadWindow := lw, countWindow := cw,
         maxFixed := pymax st.maxFixed fixedLoad,
         maxVariable := pymax st.maxVariable (s.totalLoad - fixedLoad) }

/-- Python `max(list)` of a non-empty list (first maximal element) -/
def pymaxList : List α → Py α
  | [] => .error .valueError
  | x :: xs => .ok (xs.foldl (fun m y => if m < y then y else m) x)

structure LocalResults (α : Type) where
  avgFlexPerWindow : Option (List α)
  sumEnergy : α
  sumEnergyPerWindow : List α
  avgStandSingle : α
  avgStandTotal : α
  percStandWindow : List α
  avgNeededEnergy : Option α             -- JSON entry exists only if the try block succeeded
  plwThreshold : Option α
  powerPeaks : Option (α × α × α)        -- fixed, variable, total
  avgDrawn : α
  localGenEnergy : α
  feedIn : Option (α × α × α)            -- generation, v2g, battery (kWh)
  maxStored : Option (List (String × α))
  batCycles : Option α
  vehicleCycles : α
  vehicleCap : α
  vehicleEnergy : α

def natSum (l : List Nat) : Nat := l.foldl (· + ·) 0

/-! One function per entry of the results dict, in source order. -/

def loadsOf (R : RunData α) : List α := R.steps.map (·.totalLoad)

/-- the main loop over the steps -/
def aggLoop (R : RunData α) : Py (AggState α) :=
  (R.steps.zipIdx).foldlM (aggStep R) (aggInit R.vehicles.length)

def fAvgFlex (R : RunData α) (st : AggState α) : Py (Option (List α)) :=
  match R.flex with
  | .skipped => pure none
  | _ => do
    let l ← st.loadWindow.mapM (fun w =>
      if w.isEmpty then pure (0 : α) else pydiv (pysum (w.map (·.1))) ((w.length : Nat) : α))
    pure (some l)

def fSumEnergy (R : RunData α) : Py α := pydiv (pysum (loadsOf R)) R.stepsPerHour

def fSumPerWindow (R : RunData α) (st : AggState α) : Py (List α) :=
  st.loadWindow.mapM (fun w => pydiv (pysum (w.map (·.2))) R.stepsPerHour)

/-- avg standing time (the `counts = counts[:-1]` in the source rebinds a local: no effect) -/
def fAvgSingle (R : RunData α) (st : AggState α) : Py α :=
  let numLoads := natSum (st.loadCount.map List.length)
  if numLoads > 0 then do
    let a ← pydiv ((natSum (st.loadCount.map natSum) : Nat) : α) R.stepsPerHour
    pydiv a ((numLoads : Nat) : α)
  else pure 0

def totalStanding (st : AggState α) : Nat := natSum (st.countWindow.map natSum)

def fAvgTotal (R : RunData α) (st : AggState α) : Py α := do
  let numVehicles := max R.vehicles.length 1
  let a ← pydiv ((totalStanding st : Nat) : α) ((numVehicles : Nat) : α)
  pydiv a R.stepsPerHour

def fPerc (st : AggState α) : Py (List α) :=
  st.countWindow.mapM (fun c =>
    if totalStanding st > 0 then
      pydiv (((natSum c : Nat) : α) * ((100 : Nat) : α)) ((totalStanding st : Nat) : α)
    else pure (0 : α))

/-- avg needed energy (try / except (TypeError, ZeroDivisionError)) -/
def fNeeded (R : RunData α) : Option α :=
  match R.flex with
  | .band _ _ _ ivs =>
    let r : Py α := do
      let qs ← ivs.mapM (fun i => pydiv i.1 ((i.2 : Nat) : α))
      pydiv (pysum qs) ((ivs.length : Nat) : α)
    match r with | .ok v => some v | .error _ => none
  | _ => none

/-- peak load window block; REPAIRED (O2): no division when the maximum load is zero -/
def fPlw (R : RunData α) : Py (Option α) :=
  if R.isPlw then do
    let m ← pymaxList (loadsOf R)
    if isZero m then pure (some (0 : α))
    else do
      let q ← pydiv (m - R.peakPower) m
      pure (some (q * ((100 : Nat) : α)))
  else pure none

def fPeaks (R : RunData α) (st : AggState α) : Py (Option (α × α × α)) :=
  if (loadsOf R).any truthy then do
    let m ← pymaxList (loadsOf R)
    pure (some (st.maxFixed, st.maxVariable, m))
  else pure none

def fAvgDrawn (R : RunData α) : Py α :=
  if R.steps.length > 0 then pydiv (pysum (loadsOf R)) ((R.steps.length : Nat) : α) else pure 0

def fGenEnergy (R : RunData α) : Py α := pydiv (pysum (R.steps.map (·.localGen))) R.stepsPerHour

def fFeedIn (R : RunData α) (ts : Option (List String × List (List (Cell α)))) :
    Py (Option (α × α × α)) :=
  match ts with
  | none => pure none
  | some (h, rows) => do
    let g ← pydiv (pysum (columnNums h rows "generation feed-in [kW]")) R.stepsPerHour
    let v ← pydiv (pysum (columnNums h rows "V2G feed-in [kW]")) R.stepsPerHour
    let b ← pydiv (pysum (columnNums h rows "battery feed-in [kW]")) R.stepsPerHour
    pure (some (g, v, b))

/-- battery sizes: all batteries, as soon as one level list has a non-zero entry -/
def fMaxStored (R : RunData α) : Py (Option (List (String × α))) :=
  if R.batteryLevels.any (fun bl => bl.2.any truthy) then do
    let l ← R.batteryLevels.mapM (fun bl => do let m ← pymaxList bl.2; pure (bl.1, m))
    pure (some l)
  else pure none

def myBatteries (R : RunData α) : List (String × String × α) :=
  R.batteries.filter (fun b => b.2.1 == R.gcId)

def fTotalCap (R : RunData α) : Py α :=
  (myBatteries R).foldlM (fun (acc : α) b =>
    if ((2 ^ 63 : Nat) : α) < b.2.2 then do
      let lv ← match R.batteryLevels.lookup b.1 with
        | some l => pure l | none => .error .keyError
      let m ← pymaxList lv
      pure (acc + m)
    else pure (acc + b.2.2)) 0

/-- `total_bat_energy`: Σ over steps and own batteries of `max(load, 0) / stepsPerHour` -/
def fBatEnergy (R : RunData α) : Py α :=
  R.steps.foldlM (fun (acc : α) s =>
    (myBatteries R).foldlM (fun (acc : α) b => do
      let q ← pydiv (pymax ((s.fixedLoads.lookup b.1).getD 0) 0) R.stepsPerHour
      pure (acc + q)) acc) 0

def fBatCycles (R : RunData α) : Py (Option α) := do
  let totalCap ← fTotalCap R
  if truthy totalCap then do
    let e ← fBatEnergy R
    let c ← pydiv e totalCap
    pure (some c)
  else pure none

/-- vehicles (all vehicles and all commands of the scenario, whatever the connector) -/
def vehicleCapOf (R : RunData α) : α := pysum (R.vehicles.map (·.2.1))
/-- NB: a sum of powers (kW) over the steps, not divided by `stepsPerHour` (finding N3) -/
def vehicleEnergyOf (R : RunData α) : α :=
  pysum (R.steps.map (fun s => pysum (s.commands.map (fun kv => pymax kv.2 0))))
def fVehicleCycles (R : RunData α) : Py α :=
  if (0 : α) < vehicleCapOf R then pydiv (vehicleEnergyOf R) (vehicleCapOf R) else pure 0

/-- `aggregate_local_results(scenario, gcID)`; `ts` = the `{gcID}_timeseries` attribute if
aggregate_timeseries ran before (cost_calculation or save_timeseries), else `none`. -/
def aggregateLocal (R : RunData α) (ts : Option (List String × List (List (Cell α)))) :
    Py (LocalResults α) := do
  let st ← aggLoop R
  let avgFlex ← fAvgFlex R st
  let sumEnergy ← fSumEnergy R
  let sumPerWindow ← fSumPerWindow R st
  let avgSingle ← fAvgSingle R st
  let avgTotal ← fAvgTotal R st
  let perc ← fPerc st
  let plw ← fPlw R
  let peaks ← fPeaks R st
  let avgDrawn ← fAvgDrawn R
  let genEnergy ← fGenEnergy R
  let feedIn ← fFeedIn R ts
  let maxStored ← fMaxStored R
  let batCycles ← fBatCycles R
  let cycles ← fVehicleCycles R
  pure { avgFlexPerWindow := avgFlex, sumEnergy := sumEnergy, sumEnergyPerWindow := sumPerWindow,
         avgStandSingle := avgSingle, avgStandTotal := avgTotal, percStandWindow := perc,
         avgNeededEnergy := fNeeded R, plwThreshold := plw, powerPeaks := peaks,
         avgDrawn := avgDrawn, localGenEnergy := genEnergy, feedIn := feedIn,
         maxStored := maxStored, batCycles := batCycles, vehicleCycles := cycles,
         vehicleCap := vehicleCapOf R, vehicleEnergy := vehicleEnergyOf R }

/-- pinned peak-load-window threshold (O2): divides by `max(totalLoad)` unguarded -/
def plwThresholdPinned (loads : List α) (peak : α) : Py α := do
  let m ← pymaxList loads
  let q ← pydiv (m - peak) m
  pure (q * ((100 : Nat) : α))

/-! ### aggregate_global_results (the parts stored in `scenario.testing`) -/

/-- `[sum(x) for x in zip(*scenario.totalLoad.values())]` : per-step sum over the connectors;
`zip` stops at the shortest list -/
def allTotalLoad : List (List α) → List α
  | [] => []
  | l :: ls => ls.foldl (fun acc l' => List.zipWith (· + ·) acc l') (l.map (fun x => 0 + x))

/-- `sum_cs`: per step, the command of every station (sorted), 0.0 if absent -/
def sumCs (stationIds : List String) (commands : List (List (String × α))) : List (List α) :=
  commands.map (fun c => (sortedStr stationIds).map (fun cs => (c.lookup cs).getD 0))

/-- the "untangle fixed loads" loop for one connector: key ↦ one value per step (0 where absent) -/
def untangleLoads (steps : List (List (String × α))) : List (String × List α) :=
  (steps.zipIdx).foldl (fun (loads : List (String × List α)) (p : List (String × α) × Nat) =>
    let step := p.1
    -- for k, v in step.items(): create if new, append v
    let loads := step.foldl (fun (loads : List (String × List α)) kv =>
      if dhas loads kv.1 then loads.map (fun e => if e.1 == kv.1 then (e.1, e.2 ++ [kv.2]) else e)
      else loads ++ [(kv.1, List.replicate p.2 0 ++ [kv.2])]) loads
    -- for k in loads: if k not in step: append 0
    loads.map (fun e => if dhas step e.1 then e else (e.1, e.2 ++ [0]))) []

/-! ### calculate_costs.read_simulation_csv : column mapping of one row -/

/-- `float(cell text)` -/
def cellFloat : Cell α → Py α
  | .int n => .ok (if n < 0 then -((n.natAbs : Nat) : α) else ((n.natAbs : Nat) : α))
  | .num x => .ok x
  | .raw x => .ok x
  | _ => .error .valueError

/-- `float(row.get(name, 0))` -/
def rowFloat (row : List (String × Cell α)) (name : String) : Py α :=
  match row.lookup name with
  | none => .ok 0
  | some c => cellFloat c

/-- REPAIRED (D11) window cell: "True"/"False"/"None" as written by the report, 0/1 still accepted -/
def cellWindow : Cell α → Py (Option Bool)
  | .bool b => .ok (some b)
  | .none => .ok none
  | .int n => .ok (some (n != 0))
  | _ => .error .valueError

/-- pinned: `bool(int(text))` -/
def cellWindowPinned : Cell α → Py (Option Bool)
  | .int n => .ok (some (n != 0))
  | _ => .error .valueError

/-- REPAIRED (N2) schedule cell: "None" is read back as None -/
def cellSchedule : Cell α → Py (Option α)
  | .none => .ok none
  | c => do let x ← cellFloat c; pure (some x)

structure ReadRow (α : Type) where
  time : Cell α
  price : α
  gridSupply : α
  fixLoad : α
  genFeedIn : α
  v2gFeedIn : α
  batFeedIn : α
  window : Option Bool
  schedule : Option (Option α)      -- none = no such column (the whole list becomes None)

def readRow (row : List (String × Cell α)) : Py (ReadRow α) := do
  let time ← match row.lookup "time" with
    | some c => pure c | none => .error .keyError
  let price ← rowFloat row "price [EUR/kWh]"
  let grid ← rowFloat row "grid supply [kW]"
  let fl ← rowFloat row "fixed load [kW]"
  let lg ← rowFloat row "local generation [kW]"
  let bp ← rowFloat row "battery power [kW]"
  let cs ← rowFloat row "sum CS power [kW]"
  let fix := pymax (fl + pymin lg 0 + pymin bp 0 + pymin cs 0) 0
  let g ← rowFloat row "generation feed-in [kW]"
  let v ← rowFloat row "V2G feed-in [kW]"
  let b ← rowFloat row "battery feed-in [kW]"
  let w ← match row.lookup "window signal [-]" with
    | none => pure none                                  -- except KeyError
    | some c => cellWindow c
  let sch ← match row.lookup "schedule [kW]" with
    | none => pure none
    | some c => do let x ← cellSchedule c; pure (some x)
  pure { time := time, price := price, gridSupply := grid, fixLoad := fix, genFeedIn := g,
         v2gFeedIn := v, batFeedIn := b, window := w, schedule := sch }

/-- `read_simulation_csv`: csv.DictReader pairs the header with every row -/
def readSimulation (header : List String) (rows : List (List (Cell α))) : Py (List (ReadRow α)) :=
  rows.mapM (fun r => readRow (header.zip r))

end
end SpiceEv.Report
