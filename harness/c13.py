"""C13 — generated grid schedules respect flexibility, connector limits and signals.

Correspondence (Float stream, bit level; <= 4 ulp tolerated and counted): the real
`generate_schedule(args)` runs in-process on a generated one-connector scenario + grid-situation file
written to a temp dir.  Its intermediate data are captured at run time without touching the repo:
`generate_flex_band` / `generate_individual_flex_band` are wrapped (their result, the flex dict, is
an INPUT of the Lean model — those two functions are not modelled), `util.read_grid_file` is wrapped,
every call of the nested `distribute_energy_balanced` is observed through `sys.setprofile` (arguments,
the closure arrays before and after, the return value) and so are the final arrays of
`generate_schedule`.  Compared with the model: the grid value handling + slicing (`c13grid`), every
single distribution call (`c13dist`), the whole pipeline from the flex dict to the CSV rows
(`c13gen`), and — after loading the rewritten scenario with the real `Scenario`/`Events` machinery
and driving a bare `strategy.Strategy` step by step — the reader's event list and what is in force at
every step (`c13read`, operational queue and declarative form).

Oracle (independent of the model, on the implementation's outputs): every schedule value within
± rating and inside the flex band (collective: the captured band, which itself must lie within
± rating; individual: the band rebuilt from the captured arrival records), the charge flag of row t
<=> curtailment[t] > EPS or residual[t] < -EPS on the final arrays, read-back equality of target,
window and per-vehicle schedule with CSV row t at every step, signal <= start for every event.
"""
import contextlib
import csv
import datetime as dt
import io
import json
import os
import random
import signal
import tempfile
import warnings
from argparse import Namespace
from pathlib import Path

import engine
import c13_scen
import c13_gridfile
from wire import enc, err, ulps, dec

PID = "C13"
RULE = ("generated one-connector scenarios (1-3 vehicles with/without V2G, optional stationary battery "
        "with/without stored energy, fixed load, local generation, operator limit events; 4-110 steps "
        "of 10-60 min; start times before/after noon, tz-aware and naive), grid files (either "
        "curtailment sign, shorter/equal/longer, timestamp column good/bad/absent, offset before/after "
        "the scenario, non-numeric cells), collective and individual mode, seven core standing times "
        "(argument and/or scenario); directed two-vehicle hand-over scenarios; synthetic schedule "
        "files for the reader (runs of equal targets, split-only changes, multi-day, unparsable "
        "timestamps); a rounding stream (round(x,3) ties); a malformed stream (mixed curtailment "
        "signs, missing columns; error kinds only). non-trivial = at least one distribution call "
        "changed the schedule, or (reader stream) at least two change events")
ASSUMPTIONS = [
    "the flex band (output of generate_flex_band / generate_individual_flex_band) is an input of the "
    "model, taken from the real run; its content is checked by the oracle only (band within +-rating)",
    "all timestamps of one schedule file carry the scenario's UTC offset (the writer derives them from "
    "s.start_time); times are compared as local microseconds",
    "ts_per_hour != 0 and finite magnitudes (< 1e11 kW: the float bisection terminates by halving)",
]
UNPROVED = [
    "flex-band content: generate_flex_band / generate_individual_flex_band are modelled (Model/FlexBand.lean, theorems "
    "C13_flexband_*: content = base -/+ battery figure and the sums over the vehicles PRESENT, departed vehicles "
    "contribute nothing, within rating, individual band follows limit events) and tied bit for bit in this stream; "
    "the energy-need theorem is _partial (finding FB1: a departure estimate before the registration step makes the "
    "need negative)",
    "get_event_steps / Strategy.step are modelled only for the two event kinds the schedule file "
    "produces (GridOperatorSignal target/window, VehicleEvent schedule); the other event kinds of a "
    "scenario do not write target/window/schedule (checked by the read-back on full scenarios)",
    "IEEE rounding: theorems are over ordered fields; the written value is round(x,3) of the bounded "
    "value (oracle tolerance 1e-5 + 0.0005)",
]
CHUNK = 8

engine.use_repo()
EPOCH = dt.datetime(2000, 1, 1)
EPS = 1e-5


def us(t):
    """local microseconds since a fixed midnight"""
    return (t.replace(tzinfo=None) - EPOCH) // dt.timedelta(microseconds=1)


def fl(x):
    return enc(float(x))


def lst(xs, f=fl):
    xs = list(xs)
    return " ".join([str(len(xs))] + [f(x) for x in xs])


def opt(x, f):
    return "N" if x is None else "S " + f(x)


# ------------------------------------------------------------------------------------------
# case generation

def _directed_handover(rnd):
    """two vehicles that stand one after the other and need the same power on a flat grid: the
    connector target stays constant while the split between the vehicles changes"""
    interval = rnd.choice([15, 30, 60])
    n = rnd.randint(8, 20)
    hour = rnd.choice([0, 6, 11, 13])
    tz = rnd.choice(["+02:00", "", "+00:00"])
    start = dt.datetime.fromisoformat("2023-01-%02dT%02d:00:00%s" % (rnd.randint(1, 7), hour, tz))
    iv = dt.timedelta(minutes=interval)
    k = rnd.randint(2, n // 2)
    k2 = rnd.randint(k + 1, n - 1)
    cap = rnd.choice([50, 80])
    p = rnd.choice([11, 22])
    need = rnd.choice([0.1, 0.2])
    vt = {"name": "t0", "capacity": cap, "mileage": 40, "charging_curve": [[0, p], [1, p]],
          "min_charging_power": 0, "battery_efficiency": 1.0, "v2g": False}
    soc2 = 1 - need * (k2 - k) / k      # same average power for the second vehicle
    sc = {"scenario": {"start_time": start.isoformat(), "interval": interval, "n_intervals": n,
                       "core_standing_time": None},
          "components": {
              "vehicle_types": {"t0": vt},
              "vehicles": {
                  "v0": {"vehicle_type": "t0", "soc": 1 - need, "desired_soc": 1.0,
                         "connected_charging_station": "CS_v0",
                         "estimated_time_of_departure": (start + iv * k).isoformat()},
                  "v1": {"vehicle_type": "t0", "soc": 1.0, "desired_soc": 1.0}},
              "grid_connectors": {"GC1": {"max_power": 100, "cost": {"type": "fixed", "value": 0.3}}},
              "charging_stations": {"CS_v0": {"max_power": p, "parent": "GC1"},
                                    "CS_v1": {"max_power": p, "parent": "GC1"}},
              "batteries": {}, "photovoltaics": {}},
          "events": {"grid_operator_signals": [], "fixed_load": {}, "local_generation": {},
                     "vehicle_events": [
                         {"signal_time": (start + iv * k).isoformat(), "start_time": (start + iv * k).isoformat(),
                          "vehicle_id": "v0", "event_type": "departure",
                          "update": {"estimated_time_of_arrival": (start + iv * (n + 4)).isoformat()}},
                         {"signal_time": (start + iv * k).isoformat(), "start_time": (start + iv * k).isoformat(),
                          "vehicle_id": "v1", "event_type": "arrival",
                          "update": {"connected_charging_station": "CS_v1",
                                     "estimated_time_of_departure": (start + iv * k2).isoformat(),
                                     "desired_soc": 1.0, "soc_delta": -(1 - soc2) if soc2 < 1 else -need}}]}}
    grid = "residual load,curtailment\n" + "".join("%s,0\n" % rnd.choice(["5", "5", "5"]) for _ in range(n))
    return {"k": "gen", "scenario": sc, "grid": grid, "individual": True, "cst": None,
            "tags": ["directed_handover"]}


def _directed_battery_curtailment(rnd):
    """individual mode, stationary battery with stored energy and a strong inverter, curtailment in
    the grid series: the battery pass meets timesteps with curtailment while discharging"""
    interval = rnd.choice([15, 30, 60])
    n = rnd.randint(4, 12)
    start = dt.datetime.fromisoformat("2023-01-0%dT%02d:00:00+02:00" % (rnd.randint(1, 7), rnd.choice([0, 10, 13])))
    rating = rnd.choice([10, 20, 35.5])
    bp = rating * rnd.choice([1.5, 2, 3])
    sc = {"scenario": {"start_time": start.isoformat(), "interval": interval, "n_intervals": n,
                       "core_standing_time": None},
          "components": {
              "vehicle_types": {"t0": {"name": "t0", "capacity": 50, "mileage": 40,
                                       "charging_curve": [[0, 11], [1, 11]]}},
              "vehicles": {"v0": {"vehicle_type": "t0", "soc": rnd.choice([0.5, 1.0]), "desired_soc": 1.0,
                                  "connected_charging_station": "CS_v0"}},
              "grid_connectors": {"GC1": {"max_power": rating, "cost": {"type": "fixed", "value": 0.3}}},
              "charging_stations": {"CS_v0": {"max_power": 11, "parent": "GC1"}},
              "batteries": {"BAT1": {"parent": "GC1", "capacity": rnd.choice([100, 200]),
                                     "charging_curve": [[0, bp], [1, bp]], "soc": rnd.choice([0.5, 1.0, 0.25]),
                                     "efficiency": rnd.choice([0.95, 1.0])}},
              "photovoltaics": {}},
          "events": {"grid_operator_signals": [], "fixed_load": {}, "local_generation": {},
                     "vehicle_events": []}}
    sign = rnd.choice([1, -1])
    rows = []
    for i in range(n):
        c = rnd.choice([0, 0, 5, 12.5]) if i else rnd.choice([5, 12.5, 0])
        rows.append("%s,%s" % (rnd.choice(["10", "-3", "25.5"]), repr(sign * c) if c else "0"))
    grid = "residual load,curtailment\n" + "\n".join(rows) + "\n"
    return {"k": "gen", "scenario": sc, "grid": grid, "individual": rnd.random() < 0.8, "cst": None,
            "tags": ["directed_battery_curtailment", "battery", "battery_stored"]}


def _reader_case(rnd, big=False):
    """synthetic schedule file in the writer's layout"""
    n = rnd.randint(1, 14) if not big else rnd.randint(30, 120)
    n_veh = rnd.choice([0, 0, 1, 2, 2, 3])
    interval = rnd.choice([15, 30, 60, 60, 180, 720])
    tz = rnd.choice(["+02:00", "", "+00:00", "-05:00"])
    hour = rnd.choice([0, 8, 9, 11, 12, 13, 23])
    minute = rnd.choice([0, 0, 30, 7])
    sec = rnd.choice(["00", "00", "00.250000"])
    start = dt.datetime.fromisoformat("2023-03-%02dT%02d:%02d:%s%s" % (rnd.randint(1, 5), hour, minute, sec, tz))
    vals = [0, 3.7, 11, 5.5, -4.25, 0.001]
    rows = []
    tgt, flag = rnd.choice(vals), rnd.randint(0, 1)
    vs = [rnd.choice(vals) for _ in range(n_veh)]
    ts_mode = rnd.choice(["iso", "iso", "iso", "bad"])
    for t in range(n):
        r = rnd.random()
        if r < 0.25:
            tgt = rnd.choice(vals)
        elif r < 0.35:
            flag = 1 - flag
        elif r < 0.6 and n_veh:
            # split-only change: target and window stay
            i = rnd.randrange(n_veh)
            vs = list(vs)
            vs[i] = rnd.choice(vals)
        elif r < 0.7 and n_veh:
            vs = [rnd.choice(vals) for _ in range(n_veh)]
            tgt = rnd.choice(vals)
        ts = (start + dt.timedelta(minutes=interval) * t).isoformat() if ts_mode == "iso" else "row%d" % t
        rows.append([ts, tgt, flag] + [0, 0, 0, 0] + list(vs))
    return {"k": "reader", "start": start.isoformat(), "interval": interval, "n_veh": n_veh,
            "rows": rows, "individual": n_veh > 0,
            "json_start": True if tz == "" else rnd.choice([True, True, True, False]),
            "n_steps": n + rnd.choice([0, 0, 0, -1, 2]) if n > 1 else n}


def gen_cases(tier, seed):
    rnd = random.Random(seed * 7919 + 13)
    quick = tier == "quick"
    # rounding primitive
    for i in range(4 if quick else 40):
        xs = []
        for _ in range(60):
            c = rnd.random()
            if c < 0.3:
                xs.append(rnd.randint(-5000, 5000) / 2000.0)          # ties and near-ties
            elif c < 0.5:
                xs.append(rnd.uniform(-2e-5, 2e-5))
            elif c < 0.6:
                xs.append(rnd.choice([0.0, -0.0, 1e-5, -1e-5, 0.0005, -0.0005, 0.0015, 2.5e-3, 1e15, 123456789.0625]))
            else:
                xs.append(rnd.uniform(-200, 200))
        yield {"k": "round", "xs": [enc(x) for x in xs]}
    n_dir = 40 if quick else 600
    for _ in range(n_dir):
        yield _directed_handover(rnd)
        yield _directed_battery_curtailment(rnd)
    n_reader = 1000 if quick else 25000
    for i in range(n_reader):
        yield _reader_case(rnd, big=(i % 10 == 9))
    n_gen = 2000 if quick else 45000
    for i in range(n_gen):
        size = "small" if i % 3 else ("long" if i % 6 == 0 else "mid")
        sc, cst, tags = c13_scen.gen_scenario(rnd, size)
        grid, gtags = c13_scen.gen_grid_csv(rnd, sc)
        yield {"k": "gen", "scenario": sc, "grid": grid, "individual": rnd.random() < 0.5, "cst": cst,
               "tags": tags + gtags}
    # malformed stream: error kinds only
    n_bad = 60 if quick else 1000
    for _ in range(n_bad):
        sc, cst, tags = c13_scen.gen_scenario(rnd, "small")
        grid, gtags = c13_scen.gen_grid_csv(rnd, sc)
        lines = grid.split("\n")
        how = rnd.choice(["mixed_sign", "no_residual", "two_gc"])
        if how == "mixed_sign":
            hdr = lines[0].split(",")
            ci = hdr.index("curtailment")
            for li in (1, len(lines) - 2):
                if 0 < li < len(lines) - 1:
                    f = lines[li].split(",")
                    f[ci] = "3" if li == 1 else "-2"
                    lines[li] = ",".join(f)
        elif how == "no_residual":
            lines[0] = lines[0].replace("residual load", "residual")
        else:
            sc["components"]["grid_connectors"]["GC2"] = {"max_power": 10, "cost": {"type": "fixed", "value": 1}}
        yield {"k": "gen", "scenario": sc, "grid": "\n".join(lines), "individual": rnd.random() < 0.5,
               "cst": cst, "tags": tags + gtags + ["malformed_" + how], "bad": 1}
    # text handling of util.read_grid_file / util.sanitize (exact stream, harness/c13_gridfile.py)
    yield from c13_gridfile.gen_cases(tier, seed)


# ------------------------------------------------------------------------------------------
# rendering of implementation data in the driver's format

def r_cells(st, vids):
    n = len(st["schedule"])
    out = [str(n)]
    for i in range(n):
        out += [fl(st["schedule"][i]), fl(st["avail_min"][i]), fl(st["avail_max"][i]), fl(st["curtailment"][i]),
                fl(st["residual"][i]), fl(st["flex_min"][i]), fl(st["flex_max"][i]),
                lst(st["vsched"][v][i] for v in vids)]
    return " ".join(out)


def final_state(f):
    return {"schedule": f["schedule"], "avail_min": f["avail"]["min"], "avail_max": f["avail"]["max"],
            "curtailment": f["curtailment"], "residual": f["residual_load"], "flex_min": f["flex"]["min"],
            "flex_max": f["flex"]["max"], "vsched": f["vehicle_schedule"]}


def parse_schedule_csv(text):
    """independent parse of the written schedule file: header, rows of (timestamp str, floats…)"""
    rd = csv.reader(io.StringIO(text))
    header = [h.strip() for h in next(rd)]
    rows = []
    for r in rd:
        r = [x.strip() for x in r]
        rows.append(r)
    return header, rows


def parse_time(s):
    try:
        return dt.datetime.fromisoformat(s)
    except ValueError:
        return None


def file_rows_line(rows, n_veh, offset_check):
    """rows (timestamp str, target, flag, 4 values, vehicle values) -> tokens of `c13read`"""
    out = [str(len(rows))]
    for r in rows:
        t = parse_time(r[0])
        if t is not None and offset_check is not None and t.utcoffset() != offset_check:
            raise ValueError("mixed utc offsets in schedule file")
        out.append(opt(t, lambda x: str(us(x))))
        out.append(fl(float(r[1])))
        out.append("S " + ("1" if r[2] == "1" else "0"))
        out.append(lst([float(x) for x in r[7:7 + n_veh]]))
    return " ".join(out)


def r_event(e, vids, events_mod):
    if type(e) is events_mod.GridOperatorSignal:
        pl = "G %s %s" % (fl(e.target), opt(e.window, lambda b: "1" if b else "0"))
    else:
        pl = "V %d %s" % (vids.index(e.vehicle_id), fl(e.update["schedule"]))
    return "%d %d %s" % (us(e.start_time), us(e.signal_time), pl)


def r_seen(target, window, vs):
    return "%s %s %s" % (opt(target, fl), opt(window, lambda b: "1" if b else "0"),
                         lst(vs, lambda x: opt(x, fl)))


def read_back(scen_json, d, vids):
    """load with the real Scenario/Events machinery and drive a bare Strategy step by step"""
    from spice_ev import scenario, strategy
    s = scenario.Scenario(scen_json, d)
    steps = s.events.get_event_steps(s.start_time, s.n_intervals, s.interval)
    strat = strategy.Strategy(s.components, s.start_time, interval=s.interval, ALLOW_NEGATIVE_SOC=True)
    gc = list(strat.world_state.grid_connectors.values())[0]
    seen = []
    for i in range(s.n_intervals):
        strat.step(steps[i])
        seen.append((gc.target, gc.window, [strat.world_state.vehicles[v].schedule for v in vids]))
    return s, seen


# ------------------------------------------------------------------------------------------

class _Hang(BaseException):
    """raised by the watchdog; a BaseException so that no `except Exception` of the code under test
    can swallow it"""


def _on_alarm(signum, frame):
    raise _Hang()


def eval_case(case):
    warnings.simplefilter("ignore")
    k = case["k"]
    if k == "round":
        return eval_round(case)
    if k in c13_gridfile.KINDS:
        return c13_gridfile.eval_case(case)
    # watchdog: a run that does not return is a harness error (exit 2), never a violation
    old = signal.signal(signal.SIGALRM, _on_alarm)
    signal.alarm(int(os.environ.get("VERIF_CASE_TIMEOUT_S", "60")))
    try:
        if k == "reader":
            return eval_reader(case)
        return eval_gen(case)
    except _Hang:
        raise RuntimeError("case did not finish within the watchdog time (generate_schedule or the "
                           "read-back does not terminate on this input)")
    finally:
        signal.alarm(0)
        signal.signal(signal.SIGALRM, old)


def eval_round(case):
    from spice_ev.generate import generate_schedule as gs
    xs = [dec(t) for t in case["xs"]]
    line = "c13round f %s %s" % (fl(gs.EPS), lst(xs))
    impl = "%s | %s" % (lst(round(x, 3) for x in xs), lst(gs.aggressive_round(x, 3) for x in xs))
    viol = []
    for x in xs:
        a = gs.aggressive_round(x, 3)
        if (abs(x) < EPS and a != 0) or abs(a - x) > 0.0005 + 1e-12 * max(1.0, abs(x)):
            viol.append(("aggressive_round", "C13:aggressive_round", "x=%r -> %r" % (x, a)))
    return {"lines": [line], "impl": [impl], "violations": viol, "nontrivial": False, "stats": ["round"]}


def check_readback(viol, stats, rows, n_veh, seen, evs, vids, events_mod, scen_start, interval):
    """oracle for the third sentence of the property"""
    n_steps = len(seen)
    for e in evs:
        if e.signal_time > e.start_time:
            viol.append(("roundtrip", "C13:signal_after_start", "event %s" % e))
            break
    # expected change times per vehicle, from the file alone
    for t in range(min(n_steps, len(rows))):
        tgt, win, vs = seen[t]
        r = rows[t]
        if tgt is None or tgt != float(r[1]):
            viol.append(("roundtrip", "C13:readback_target",
                         "step %d: target in force %r, row says %s" % (t, tgt, r[1])))
            break
        if win is None or win != (r[2] == "1"):
            viol.append(("roundtrip", "C13:readback_window",
                         "step %d: window in force %r, row says %s" % (t, win, r[2])))
            break
        bad = [j for j in range(n_veh) if vs[j] is None or vs[j] != float(r[7 + j])]
        if bad:
            j = bad[0]
            # narrow key: is there a vehicle event of this vehicle whose start time is not the time of
            # a row in which the vehicle's value changed to the event's value?
            change_times = set()
            prev = None
            for ti, rr in enumerate(rows):
                v = float(rr[7 + j])
                if prev is None or v != prev:
                    change_times.add((scen_start + interval * ti, v))
                prev = v
            stale = [e for e in evs if type(e) is events_mod.VehicleEvent and e.vehicle_id == vids[j]
                     and (e.start_time, e.update["schedule"]) not in change_times]
            key = "C13:individual_vehicle_event_stale_time" if stale else "C13:readback_vehicle_schedule"
            viol.append(("roundtrip", key,
                         "step %d: schedule of %s in force %r, row says %s%s"
                         % (t, vids[j], vs[j], r[7 + j],
                            ("; event for value %r carries start_time %s" %
                             (stale[0].update["schedule"], stale[0].start_time)) if stale else "")))
            break
    changes = sum(1 for a, b in zip(rows, rows[1:]) if a[1:3] + a[7:] != b[1:3] + b[7:])
    if changes:
        stats.append("rb_changes")
    if any(a[1:3] == b[1:3] and a[7:] != b[7:] for a, b in zip(rows, rows[1:])):
        stats.append("rb_split_only_change")
    if any(e.signal_time < e.start_time for e in evs):
        stats.append("rb_signal_before_start")
    if any(scen_start < e.signal_time < e.start_time for e in evs):
        stats.append("rb_signal_day_before_9am")
    if any(e.signal_time == e.start_time for e in evs[1:]):
        stats.append("rb_signal_clamped_to_start")
    return changes


def reader_lines(obj, scen_json, d, rows, n_veh, vids):
    """protocol line + implementation rendering for the reader and the read-back"""
    from spice_ev import events as events_mod
    start = parse_time(obj["start_time"]) if obj.get("start_time") else None
    scen_start = dt.datetime.fromisoformat(scen_json["scenario"]["start_time"])
    interval_us = int(obj["step_duration_s"]) * 1000000
    n_steps = scen_json["scenario"]["n_intervals"]
    line = "c13read f %d %s %d %d %d %s" % (
        interval_us, opt(start, lambda x: str(us(x))), n_veh, us(scen_start), n_steps,
        file_rows_line(rows, n_veh, scen_start.utcoffset()))
    try:
        evs = events_mod.get_schedule_from_csv(obj, Path(d))
    except Exception as e:
        return line, err(e), None, None, None
    s, seen = read_back(scen_json, d, vids)
    ev_txt = lst(evs, lambda e: r_event(e, vids, events_mod))
    seen_txt = lst(seen, lambda x: r_seen(*x))
    return line, "%s | %s | %s" % (ev_txt, seen_txt, seen_txt), evs, seen, s


def eval_reader(case):
    from spice_ev import events as events_mod
    viol, stats = [], ["reader"]
    n_veh = case["n_veh"]
    vids = ["v%d" % i for i in range(n_veh)]
    header = ["timestamp", "schedule [kW]", "charge", "residual load old [kW]", "curtailment old [kW]",
              "residual load new [kW]", "curtailment new [kW]"] + vids
    text = ", ".join(header) + "\n" + "".join(", ".join(str(x) for x in r) + "\n" for r in case["rows"])
    with tempfile.TemporaryDirectory() as d:
        (Path(d) / "schedule.csv").write_text(text)
        obj = {"column": "schedule [kW]", "step_duration_s": case["interval"] * 60,
               "csv_file": "schedule.csv", "grid_connector_id": "GC1", "individual": case["individual"]}
        if case["json_start"]:
            obj["start_time"] = case["start"]
        scen = {"scenario": {"start_time": case["start"], "interval": case["interval"],
                             "n_intervals": case["n_steps"]},
                "components": {
                    "vehicle_types": {"t": {"name": "t", "capacity": 50, "mileage": 40,
                                            "charging_curve": [[0, 11], [1, 11]]}},
                    "vehicles": {v: {"vehicle_type": "t", "soc": 0.5} for v in vids},
                    "grid_connectors": {"GC1": {"max_power": 100, "cost": {"type": "fixed", "value": 0.3}}},
                    "charging_stations": {}, "batteries": {}},
                "events": {"schedule_from_csv": obj}}
        _, rows = parse_schedule_csv(text)
        line, impl, evs, seen, s = reader_lines(obj, scen, d, rows, n_veh, vids)
    nontrivial = False
    if evs is not None:
        ch = check_readback(viol, stats, rows, n_veh, seen, evs, vids, events_mod, s.start_time, s.interval)
        nontrivial = ch >= 1
        if parse_time(rows[0][0]) is None:
            stats.append("reader_fallback_time")
    else:
        stats.append("reader_error_" + impl)
        if case["json_start"] or parse_time(rows[0][0]) is not None:
            viol.append(("roundtrip", "C13:reader_raises", impl))
    return {"lines": [line], "impl": [impl], "violations": viol, "nontrivial": nontrivial, "stats": stats}


def present_at(sc, n):
    """vehicles connected at each timestep, from the scenario definition alone: an event takes effect at the first
    step at or after its start time; initially connected vehicles until their first departure"""
    import math
    start = dt.datetime.fromisoformat(sc["scenario"]["start_time"])
    step = dt.timedelta(minutes=sc["scenario"]["interval"])
    conn = {vid: v.get("connected_charging_station") for vid, v in sc["components"]["vehicles"].items()}
    evs = []
    for e in sc["events"].get("vehicle_events", []):
        st = dt.datetime.fromisoformat(e["start_time"])
        if (st.tzinfo is None) != (start.tzinfo is None):
            return None
        idx = max(0, math.ceil((st - start) / step))
        evs.append((idx, st, e))
    evs.sort(key=lambda x: (x[0], x[1]))
    out, k = [], 0
    for t in range(n):
        while k < len(evs) and evs[k][0] <= t:
            e = evs[k][2]
            if e["event_type"] == "departure":
                conn[e["vehicle_id"]] = None
            elif e["event_type"] == "arrival":
                conn[e["vehicle_id"]] = e["update"].get("connected_charging_station")
            k += 1
        out.append({vid: c for vid, c in conn.items() if c})
    return out


def independent_band(flex, sched0, n, individual):
    """individual mode: the band generate_schedule builds, recomputed per timestep from the captured
    arrival records (sum over the vehicles standing at t) — not by replaying the code's loop"""
    lo, hi = list(sched0), list(sched0)
    bat = flex["batteries"]
    for t in range(n):
        for step in flex["vehicles"][:n]:
            for v in step:
                if v["idx_start"] < v["idx_end"] and v["idx_start"] <= t < v["idx_end"]:
                    lo[t] -= v["v2g"]
                    hi[t] += v["p_max"]
    return lo, hi


def eval_gen(case):
    from spice_ev.generate import generate_schedule as gs
    from spice_ev import util, events as events_mod
    viol, stats = [], []
    lines, impl = [], []
    sc = case["scenario"]
    n = sc["scenario"]["n_intervals"]
    individual = case["individual"]
    bad = bool(case.get("bad"))
    vids = sorted(sc["components"]["vehicles"].keys())
    n_veh = len(vids)
    with tempfile.TemporaryDirectory() as d:
        d = Path(d)
        (d / "scenario.json").write_text(json.dumps(sc))
        (d / "grid.csv").write_text(case["grid"])
        args = Namespace(scenario=str(d / "scenario.json"), input=str(d / "grid.csv"),
                         output=str(d / "schedule.csv"), individual=individual,
                         core_standing_time=case["cst"], visual=False)
        cap = c13_scen.Capture(gs)
        grid_out = {}
        orig_read = util.read_grid_file

        def read_wrap(p):
            r = orig_read(p)
            grid_out["r"] = (list(r[0]), list(r[1]), r[2])
            return r
        util.read_grid_file = read_wrap
        try:
            with contextlib.redirect_stdout(io.StringIO()):
                e = cap.run(args)
        finally:
            util.read_grid_file = orig_read
        start = dt.datetime.fromisoformat(sc["scenario"]["start_time"])
        interval = dt.timedelta(minutes=sc["scenario"]["interval"])
        tsph = dt.timedelta(hours=1) / interval

        # ---- grid file: value handling + slicing
        if cap.flex is not None and len(sc["components"]["grid_connectors"]) == 1:
            rd = csv.DictReader(io.StringIO(case["grid"]))
            cells_r, cells_c = [], []
            key_ok = True
            for row in rd:
                if "residual load" not in row or "curtailment" not in row:
                    key_ok = False
                    break
                for col, out in (("residual load", cells_r), ("curtailment", cells_c)):
                    try:
                        out.append(float(row[col]))
                    except ValueError:
                        out.append(None)
            if key_ok:
                g = grid_out.get("r")
                gstart = g[2] if g else None
                lines.append("c13grid f %d %d %s %d %s %s" % (
                    n, us(start), opt(gstart, lambda x: str(us(x))), interval // dt.timedelta(microseconds=1),
                    lst(cells_r, lambda x: opt(x, fl)), lst(cells_c, lambda x: opt(x, fl))))
                if g is None:
                    impl.append(err(e))
                elif cap.final is not None and "original_residual_load" in cap.final:
                    impl.append("%s | %s" % (lst(cap.final["original_residual_load"]),
                                             lst(cap.final["original_curtailment"])))
                else:
                    lines.pop()
                if g is not None:
                    stats.append("grid_ts_parsed" if gstart is not None else "grid_ts_none")
                # independent alignment oracle: the grid situation used for scenario step t is the series entry whose
                # timestamp is the time of step t (series that begin at or before the scenario start and reach into it)
                if g is not None and gstart is not None and cap.final is not None \
                        and "original_residual_load" in cap.final and not bad:
                    off = (start.replace(tzinfo=None) - gstart) / interval
                    if off == int(off) and 0 <= off < len(cells_r):
                        off = int(off)
                        orr, occ = cap.final["original_residual_load"], cap.final["original_curtailment"]
                        for t in range(n):
                            i = off + t
                            want_r = cells_r[i] if i < len(cells_r) else 0.0
                            want_c = abs(cells_c[i]) if i < len(cells_c) and cells_c[i] is not None else \
                                (0.0 if i >= len(cells_c) else None)
                            got_r = orr[t] if t < len(orr) else None
                            got_c = occ[t] if t < len(occ) else None
                            if (want_r is not None and (got_r is None or abs(got_r - want_r) > 1e-9)) or \
                                    (want_c is not None and (got_c is None or abs(abs(got_c) - want_c) > 1e-9)):
                                viol_grid = ("grid_alignment", "C13:grid_series_misaligned",
                                             "step %d (series row %d): used residual %r curtailment %r, series has %r / %r"
                                             % (t, i, got_r, got_c, want_r, want_c))
                                viol.append(viol_grid)
                                break
                        stats.append("grid_alignment_checked")

        if e is not None:
            stats.append("gen_error_" + type(e).__name__)
        if bad:
            stats.append("malformed")
            return {"lines": lines, "impl": impl, "violations": [], "nontrivial": False, "stats": stats}

        flex, f = cap.flex, cap.final
        # ---- single distribution calls
        changed_any = False
        for c in cap.calls:
            vid = c["vid"]
            es = list(zip(c["period"], c["ind_flex"]))
            lines.append("c13dist f %s %s 4000 %s %s %s %s %s" % (
                fl(gs.EPS), fl(c["ts_per_hour"]), r_cells(c["pre"], vids),
                lst(es, lambda x: "%d %s %s" % (x[0], fl(x[1][0]), fl(x[1][1]))),
                fl(c["energy_needed"]), "1" if c["v2g"] else "0",
                opt(vid, lambda v: str(vids.index(v)))))
            if c.get("ret") is None:
                impl.append("!raised")
            else:
                impl.append("%s | %s" % (fl(c["ret"]), r_cells(c["post"], vids)))
            pre, post = c["pre"], c["post"]
            if pre["schedule"] != post["schedule"]:
                changed_any = True
            if any(pre["curtailment"][i] > EPS for i in c["period"]):
                stats.append("dist_curtailment_pass")
            if c["energy_needed"] < 0:
                stats.append("dist_negative_request")
            if any(post["schedule"][i] < pre["schedule"][i] for i in c["period"]):
                stats.append("dist_discharge")
            if c["v2g"]:
                stats.append("dist_v2g")
            if pre["schedule"] == post["schedule"]:
                stats.append("dist_no_change")

        # ---- whole pipeline from the flex dict to the rows
        csv_text = (d / "schedule.csv").read_text() if (d / "schedule.csv").exists() else None
        if flex is not None and f is not None and "original_residual_load" in f:
            bat = flex["batteries"]
            if cap.flex_kind == "individual":
                def vinfo(v):
                    return "%d %s %s %s %d %d %s" % (
                        vids.index(v["vid"]), fl(v["v2g"]), fl(v["p_max"]), fl(v["energy"]),
                        v["idx_start"], v["idx_end"], fl((v["t_end"] - v["t_start"]).total_seconds()))
                mode = "I " + lst(flex["vehicles"], lambda st: lst(st, vinfo))
                batx = [bat["init_discharge"], bat["full_discharge"]]
            else:
                mode = "C %s %s %s %s %s" % (
                    fl(f["gc_max_power"]), "1" if flex["vehicles"]["v2g"] else "0",
                    lst(flex["vehicles"]["min"]), lst(flex["vehicles"]["max"]),
                    lst(flex["intervals"], lambda iv: "%s %s" % (fl(iv["needed"]), lst(iv["time"], str))))
                batx = [0, 0]
            lines.append("c13gen f %s %s 4000 %d %s %s %s %s %s %s %s %s %s %s %s" % (
                fl(gs.EPS), fl(tsph), n_veh, lst(flex["base"]), lst(flex["min"]), lst(flex["max"]),
                lst(f["original_residual_load"]), lst(f["original_curtailment"]),
                fl(bat["stored"]), fl(bat["power"]), fl(bat["efficiency"]), fl(batx[0]), fl(batx[1]), mode))
            if e is not None:
                impl.append(err(e))
            else:
                header, rows = parse_schedule_csv(csv_text)
                rtxt = lst(rows, lambda r: "%s %s %s %s %s %s %s" % (
                    fl(float(r[1])), "1" if r[2] == "1" else "0", fl(float(r[3])), fl(float(r[4])),
                    fl(float(r[5])), fl(float(r[6])), lst(float(x) for x in r[7:])))
                impl.append("%s | %s" % (rtxt, r_cells(final_state(f), vids)))

        nontrivial = changed_any
        if e is not None or f is None or csv_text is None:
            # generation failed loudly: no schedule was generated, nothing for the oracle
            return {"lines": lines, "impl": impl, "violations": viol, "nontrivial": False, "stats": stats}

        # ---- oracle, sentence 1: rating and band
        header, rows = parse_schedule_csv(csv_text)
        R = f["gc_max_power"]
        sched = f["schedule"]
        stats.append("individual" if individual else "collective")
        stats += ["tag_" + t for t in set(case.get("tags", []))]
        if len(rows) != n or len(sched) != n:
            viol.append(("rows", "C13:row_count", "%d rows for %d steps" % (len(rows), n)))
        def neg_greedy(t):
            """trigger predicate of D13: a discharge request lowered the schedule of a timestep that
            had curtailment when the call started (the V2G branch never does: it needs curtailment < EPS)"""
            return any(c["energy_needed"] < 0 and t in c["period"] and c["pre"]["curtailment"][t] > EPS
                       and c["post"]["schedule"][t] < c["pre"]["schedule"][t] for c in cap.calls)
        for t in range(min(n, len(rows))):
            w = float(rows[t][1])
            if abs(sched[t]) > R + EPS or abs(w) > R + EPS + 0.0005:
                key = ("C13:rating_negative_greedy_power_in_curtailment_pass" if neg_greedy(t)
                       else "C13:rating_exceeded")
                viol.append(("within_rating", key,
                             "step %d: schedule %r (written %s) on a %s kW connector" % (t, sched[t], rows[t][1], R)))
                break
        if cap.flex_kind == "collective":
            lo, hi = flex["min"], flex["max"]
            for t in range(n):
                if not (-R <= lo[t] <= R and -R <= hi[t] <= R):
                    viol.append(("band_in_gc", "C13:collective_band_outside_rating",
                                 "step %d: band [%r, %r], rating %s" % (t, lo[t], hi[t], R)))
                    break
            # independent necessary condition on the band's content (the band itself is an input of the model): it
            # cannot be wider than what the vehicles PRESENT at t (scenario definition) and the batteries can do
            pres = present_at(sc, n) if not bad else None
            if pres is not None and len(flex["base"]) >= n:
                comp = sc["components"]
                bats = comp.get("batteries", {})
                bat_dis = sum(max(p[1] for p in b["charging_curve"]) for b in bats.values()) if bats else 0.0
                bat_chg = bat_dis
                for t in range(n):
                    base = flex["base"][t]
                    if not (-R + EPS < base < R - EPS):
                        continue
                    dis = chg = 0.0
                    for vid, csid in pres[t].items():
                        vt = comp["vehicle_types"][comp["vehicles"][vid]["vehicle_type"]]
                        cmax = max(p[1] for p in vt["charging_curve"])
                        csmax = float(comp["charging_stations"][csid]["max_power"]) if csid in comp["charging_stations"] else 0.0
                        chg += min(cmax, csmax)
                        if vt.get("v2g"):
                            dcurve = vt.get("discharge_curve")
                            dmax = max(p[1] for p in dcurve) if dcurve else cmax * float(vt.get("v2g_power_factor", 0.5))
                            dis += dmax * max(1.0, float(vt.get("v2g_power_factor", 0.5)))
                    if lo[t] < max(-R, base - bat_dis - dis) - 1e-6 or hi[t] > min(R, base + bat_chg + chg) + 1e-6:
                        viol.append(("in_band", "C13:flex_band_wider_than_present_vehicles_allow",
                                     "step %d: band [%r, %r] around base %r; present %s can discharge %.3f / charge %.3f, "
                                     "batteries %.3f" % (t, lo[t], hi[t], base, sorted(pres[t]), dis, chg, bat_dis)))
                        break
                stats.append("band_presence_checked")
        else:
            sched0 = [min(max(b, lo_), hi_) for b, lo_, hi_ in zip(flex["base"], flex["min"], flex["max"])]
            lo, hi = independent_band(flex, sched0, n, True)
            bat = flex["batteries"]
            bat_flex = bat["power"] * bat["efficiency"] / tsph
            lo = [x - (bat["init_discharge"] if t == 0 else bat["full_discharge"]) for t, x in enumerate(lo)]
            hi = [x + bat_flex for x in hi]
            # the connector band delivered by generate_individual_flex_band (-/+ cur_max_power, which
            # follows operator limit events): C13_individual_within_limit
            for t in range(n):
                if flex["min"][t] <= flex["max"][t] and not (
                        flex["min"][t] - EPS <= sched[t] <= flex["max"][t] + EPS):
                    viol.append(("within_rating",
                                 "C13:rating_negative_greedy_power_in_curtailment_pass" if neg_greedy(t)
                                 else "C13:operator_limit_exceeded",
                                 "step %d: schedule %r outside the connector band [%r, %r]"
                                 % (t, sched[t], flex["min"][t], flex["max"][t])))
                    break
            if any(flex["max"][t] < R for t in range(n)):
                stats.append("individual_operator_limit_below_rating")
        for t in range(n):
            if not (lo[t] - EPS - 1e-9 * max(1, abs(lo[t])) < sched[t] < hi[t] + EPS + 1e-9 * max(1, abs(hi[t]))):
                viol.append(("in_band", "C13:schedule_outside_flex_band",
                             "step %d: %r not within [%r, %r]" % (t, sched[t], lo[t], hi[t])))
                break
            w = float(rows[t][1]) if t < len(rows) else sched[t]
            if abs(w - sched[t]) > 0.0005 + 1e-9 and not (abs(sched[t]) < EPS and w == 0):
                viol.append(("in_band", "C13:written_value_not_rounded_schedule",
                             "step %d: wrote %s for %r" % (t, rows[t][1], sched[t])))
                break

        # ---- oracle, sentence 2: charge flag
        curt, resid = f["curtailment"], f["residual_load"]
        want = [(curt[t] > EPS) or (resid[t] < -EPS) for t in range(n)]
        got = [r[2] == "1" for r in rows]
        if got != want[:len(got)]:
            t = [i for i in range(len(got)) if got[i] != want[i]][0]
            stale = [(curt[n - 1] > EPS) or (resid[i] < -EPS) for i in range(n)]
            key = "C13:charge_flag_stale_index" if got == stale[:len(got)] else "C13:charge_flag"
            viol.append(("flag", key, "row %d: flag %s, curtailment[%d]=%r residual[%d]=%r (curtailment[%d]=%r)"
                         % (t, rows[t][2], t, curt[t], t, resid[t], n - 1, curt[n - 1])))
        if any(want):
            stats.append("flag_set")
        if any(c > EPS for c in curt):
            stats.append("flag_by_curtailment")
        if any(abs(abs(x) - EPS) < 1e-9 for x in curt + resid):
            stats.append("flag_boundary_eps")

        # ---- sentence 3: read back
        scen_json = json.loads((d / "scenario.json").read_text())
        obj = scen_json["events"]["schedule_from_csv"]
        nv = n_veh if individual else 0
        try:
            rvids = vids if individual else []
            line, im, evs, seen, s = reader_lines(obj, scen_json, d, rows, nv, rvids)
            lines.append(line)
            impl.append(im)
            if evs is None:
                viol.append(("roundtrip", "C13:reader_raises", im))
            else:
                check_readback(viol, stats, rows, nv, seen, evs, rvids, events_mod, s.start_time, s.interval)
        except ValueError as ex:
            stats.append("readback_skipped_" + str(ex)[:20])
    if not bad:
        # the content of the flexibility band: the real generate_(individual_)flex_band vs its Lean model (Model/FlexBand.lean)
        import s_flexband
        fb_lines, fb_impl, _ = s_flexband.flex_lines(sc, case["cst"] or sc["scenario"].get("core_standing_time"),
                                                     which=("individual",) if individual else ("collective",))
        lines += fb_lines
        impl += fb_impl
        stats.append("flex_band_tied")
    return {"lines": lines, "impl": impl, "violations": viol, "nontrivial": nontrivial, "stats": stats}


# ------------------------------------------------------------------------------------------

def _is_zero_tok(t):
    return t in ("x0000000000000000", "x8000000000000000")


def compare(case, impl, model):
    if impl == model:
        return None
    if case["k"] in c13_gridfile.KINDS:
        return c13_gridfile.compare(case, impl, model)
    if case.get("bad"):
        # malformed stream: error kinds only
        if impl.startswith("!") or model.startswith("!"):
            return None if impl == model else "error kind differs: impl %s model %s" % (impl[:40], model[:40])
        return None
    a, b = impl.split(" "), model.split(" ")
    if len(a) != len(b):
        return "token count differs (%d vs %d)" % (len(a), len(b))
    for i, (x, y) in enumerate(zip(a, b)):
        if x == y:
            continue
        if x.startswith("x") and y.startswith("x") and len(x) == 17 and len(y) == 17:
            if _is_zero_tok(x) and _is_zero_tok(y):
                continue          # int 0 vs -0.0: Python keeps ints in its lists
            fx, fy = dec(x), dec(y)
            if ulps(fx, fy) <= 4:
                continue
            return "token %d: impl %r model %r" % (i, fx, fy)
        return "token %d: impl %s model %s" % (i, x, y)
    return None


def search_cases(seed, disagreements):
    return gen_cases("thorough", seed + 7919)
