/-
Frame of `step_gc` and the lifting of the connector-limit theorem to the whole `PeakLoadWindow.step` (the fold of
`step_gc` over the connectors): one `step_gc` call writes only its own connector, the batteries at it and the
vehicles at it (battery state and schedule), so the hypotheses about the other connectors survive until their turn.
-/
import SpiceEv.Proofs.StratPeakLoadWindowBatSurplus
set_option linter.unusedSectionVars false
set_option linter.unusedSimpArgs false
set_option linter.unusedVariables false
namespace SpiceEv.PeakLoadWindow
open SpiceEv
variable {α B : Type} [Field α] [LinearOrder α] [IsStrictOrderedRing α]

/-- what no `step_gc` call changes of the vehicles: id and connected station -/
def vmeta (vs : List (PVeh α B)) : List (String × Option String) := vs.map (fun pv => (pv.v.id, pv.v.cs))
/-- … and of the batteries: id, connector, minimum power -/
def bmeta (bs : List (StatBatS α B)) : List (String × String × α) :=
  bs.map (fun b => (b.id, b.parent, b.minChargingPower))

theorem nodup_fst_unique {β γ : Type} (l : List (β × γ)) (h : (l.map Prod.fst).Nodup) (a : β) (b c : γ)
    (hb : (a, b) ∈ l) (hc : (a, c) ∈ l) : b = c := by
  induction l with
  | nil => simp at hb
  | cons x xs ih =>
    simp only [List.map_cons, List.nodup_cons] at h
    rcases List.mem_cons.mp hb with hb | hb
    · rcases List.mem_cons.mp hc with hc | hc
      · rw [← hb] at hc
        exact ((Prod.mk.inj hc).2).symm
      · exfalso
        apply h.1
        rw [← hb]
        exact List.mem_map.mpr ⟨(a, c), hc, rfl⟩
    · rcases List.mem_cons.mp hc with hc | hc
      · exfalso
        apply h.1
        rw [← hc]
        exact List.mem_map.mpr ⟨(a, b), hb, rfl⟩
      · exact ih h.2 hb hc

/-- replacing, by id, an element by one with the same meta data leaves the meta data unchanged -/
theorem vmeta_setVehicle (w : PWorld α B) (v' : PVeh α B)
    (hnd : ((vmeta w.vehicles).map Prod.fst).Nodup) (hmem : (v'.v.id, v'.v.cs) ∈ vmeta w.vehicles) :
    vmeta (w.setVehicle v').vehicles = vmeta w.vehicles := by
  unfold PWorld.setVehicle vmeta
  simp only [List.map_map]
  apply List.map_congr_left
  intro x hx
  simp only [Function.comp]
  split
  · rename_i he
    have e : x.v.id = v'.v.id := by simpa using he
    have hxm : (v'.v.id, x.v.cs) ∈ vmeta w.vehicles := by
      rw [← e]; exact List.mem_map_of_mem (f := fun pv : PVeh α B => (pv.v.id, pv.v.cs)) hx
    have := nodup_fst_unique _ hnd _ _ _ hmem hxm
    rw [e, this]
  · rfl

theorem bmeta_setBattery (w : PWorld α B) (b' : StatBatS α B)
    (hnd : ((bmeta w.batteries).map Prod.fst).Nodup)
    (hmem : (b'.id, b'.parent, b'.minChargingPower) ∈ bmeta w.batteries) :
    bmeta (w.setBattery b').batteries = bmeta w.batteries := by
  unfold PWorld.setBattery bmeta
  simp only [List.map_map]
  apply List.map_congr_left
  intro x hx
  simp only [Function.comp]
  split
  · rename_i he
    have e : x.id = b'.id := by simpa using he
    have hxm : (b'.id, x.parent, x.minChargingPower) ∈ bmeta w.batteries := by
      rw [← e]
      exact List.mem_map_of_mem (f := fun b : StatBatS α B => (b.id, b.parent, b.minChargingPower)) hx
    have := nodup_fst_unique _ hnd _ _ _ hmem hxm
    rw [e, this]
  · rfl

theorem chargeVehicles_frame (ops : BatOps α B) :
    ∀ (plans : List (PVeh α B × α)) (surplus : α) (st st' : PWorld α B × GcS α × List (String × α)),
      ((vmeta st.1.vehicles).map Prod.fst).Nodup →
      (∀ q ∈ plans, (q.1.v.id, q.1.v.cs) ∈ vmeta st.1.vehicles) →
      chargeVehicles ops plans surplus st = .ok st' →
      vmeta st'.1.vehicles = vmeta st.1.vehicles ∧ st'.1.gcs = st.1.gcs ∧ st'.1.batteries = st.1.batteries := by
  intro plans
  induction plans with
  | nil =>
    intro surplus st st' _ _ h
    simp only [chargeVehicles, Except.ok.injEq] at h
    subst h; exact ⟨rfl, rfl, rfl⟩
  | cons q rest ih =>
    intro surplus st st' hnd hq h
    obtain ⟨pv, planned⟩ := q
    obtain ⟨w, gc, cmds⟩ := st
    simp only at hnd hq
    have hpv := hq (pv, planned) (by simp)
    simp only at hpv
    obtain ⟨csId, sched, hcs, hso, hcase⟩ := chargeVehicles_cons ops pv planned rest surplus w gc cmds st' h
    rcases hcase with ⟨_, bat', p, _, hrec⟩ | ⟨_, hrec⟩
    · have hm := vmeta_setVehicle w { pv with v := { pv.v with bat := bat' }, schedule := some sched } hnd hpv
      have := ih _ _ _ (by simp only; rw [hm]; exact hnd)
        (fun q' hq' => by simp only; rw [hm]; exact hq q' (List.mem_cons_of_mem _ hq')) hrec
      simp only at this ⊢
      exact ⟨this.1.trans hm, this.2.1, this.2.2⟩
    · have hm := vmeta_setVehicle w { pv with schedule := some sched } hnd hpv
      have := ih _ _ _ (by simp only; rw [hm]; exact hnd)
        (fun q' hq' => by simp only; rw [hm]; exact hq q' (List.mem_cons_of_mem _ hq')) hrec
      simp only at this ⊢
      exact ⟨this.1.trans hm, this.2.1, this.2.2⟩

/-- the batteries the second loop hands back carry the meta data of batteries of the connector -/
theorem applyBatteries_done (ops : BatOps α B) (env : PEnv α) (info : List (String × α)) :
    ∀ (bats : List (StatBatS α B)) (st st' : GcS α × List (String × α) × List (StatBatS α B)),
      bats.foldlM (applyBattery ops env info) st = .ok st' →
      ∀ b' ∈ st'.2.2, b' ∈ st.2.2 ∨
        ∃ b ∈ bats, b'.id = b.id ∧ b'.parent = b.parent ∧ b'.minChargingPower = b.minChargingPower := by
  intro bats
  induction bats with
  | nil =>
    intro st st' h
    simp only [List.foldlM_nil, pure, Except.pure, Except.ok.injEq] at h
    subst h
    exact fun b' hb' => Or.inl hb'
  | cons b rest ih =>
    intro st st' h
    obtain ⟨gc, G, done⟩ := st
    simp only [List.foldlM_cons] at h
    obtain ⟨st1, h1, h2⟩ := bind_ok h
    have hd : ∀ b' ∈ st1.2.2, b' ∈ done ∨
        (b'.id = b.id ∧ b'.parent = b.parent ∧ b'.minChargingPower = b.minChargingPower) := by
      unfold applyBattery at h1
      simp only at h1
      split at h1
      · cases h1
      · split at h1
        · split at h1
          · obtain ⟨x, _, h1⟩ := bind_ok h1
            obtain ⟨bat', avg⟩ := x
            simp only [Except.ok.injEq] at h1
            subst h1
            intro b' hb'
            rcases List.mem_append.mp hb' with hb' | hb'
            · exact Or.inl hb'
            · simp only [List.mem_singleton] at hb'
              subst hb'
              exact Or.inr ⟨rfl, rfl, rfl⟩
          · simp only [Except.ok.injEq] at h1
            subst h1
            intro b' hb'
            rcases List.mem_append.mp hb' with hb' | hb'
            · exact Or.inl hb'
            · simp only [List.mem_singleton] at hb'
              subst hb'
              exact Or.inr ⟨rfl, rfl, rfl⟩
        · obtain ⟨x, _, h1⟩ := bind_ok h1
          obtain ⟨bat', avg⟩ := x
          simp only [Except.ok.injEq] at h1
          subst h1
          intro b' hb'
          rcases List.mem_append.mp hb' with hb' | hb'
          · exact Or.inl hb'
          · simp only [List.mem_singleton] at hb'
            subst hb'
            exact Or.inr ⟨rfl, rfl, rfl⟩
    intro b' hb'
    rcases ih st1 st' h2 b' hb' with hb1 | ⟨b0, hb0, e⟩
    · rcases hd b' hb1 with hb2 | e
      · exact Or.inl hb2
      · exact Or.inr ⟨b, by simp, e⟩
    · exact Or.inr ⟨b0, List.mem_cons_of_mem _ hb0, e⟩

theorem foldl_setBattery_frame (done : List (StatBatS α B)) :
    ∀ w : PWorld α B, ((bmeta w.batteries).map Prod.fst).Nodup →
      (∀ b' ∈ done, (b'.id, b'.parent, b'.minChargingPower) ∈ bmeta w.batteries) →
      bmeta (done.foldl (fun w b => w.setBattery b) w).batteries = bmeta w.batteries ∧
      (done.foldl (fun w b => w.setBattery b) w).vehicles = w.vehicles := by
  induction done with
  | nil => intro w _ _; exact ⟨rfl, rfl⟩
  | cons b rest ih =>
    intro w hnd hd
    simp only [List.foldl_cons]
    have hm := bmeta_setBattery w b hnd (hd b (by simp))
    obtain ⟨h1, h2⟩ := ih (w.setBattery b) (by rw [hm]; exact hnd)
      (fun b' hb' => by rw [hm]; exact hd b' (List.mem_cons_of_mem _ hb'))
    exact ⟨h1.trans hm, h2⟩

theorem chargeVehicles_gcid (ops : BatOps α B) :
    ∀ (plans : List (PVeh α B × α)) (surplus : α) (st st' : PWorld α B × GcS α × List (String × α)),
      chargeVehicles ops plans surplus st = .ok st' → st'.2.1.id = st.2.1.id := by
  intro plans
  induction plans with
  | nil => intro surplus st st' h; simp only [chargeVehicles, Except.ok.injEq] at h; subst h; rfl
  | cons q rest ih =>
    intro surplus st st' h
    obtain ⟨pv, planned⟩ := q
    obtain ⟨w, gc, cmds⟩ := st
    obtain ⟨csId, sched, hcs, hso, hcase⟩ := chargeVehicles_cons ops pv planned rest surplus w gc cmds st' h
    rcases hcase with ⟨_, bat', p, _, hrec⟩ | ⟨_, hrec⟩
    · have := ih _ _ _ hrec
      simp only at this ⊢
      rw [this]
      exact (addLoad_currentLoad gc csId p).2.2.1
    · have := ih _ _ _ hrec
      exact this

theorem applyBatteries_gcid (ops : BatOps α B) (env : PEnv α) (info : List (String × α)) :
    ∀ (bats : List (StatBatS α B)) (st st' : GcS α × List (String × α) × List (StatBatS α B)),
      bats.foldlM (applyBattery ops env info) st = .ok st' → st'.1.id = st.1.id := by
  intro bats
  induction bats with
  | nil =>
    intro st st' h
    simp only [List.foldlM_nil, pure, Except.pure, Except.ok.injEq] at h
    subst h; rfl
  | cons b rest ih =>
    intro st st' h
    obtain ⟨gc, G, done⟩ := st
    simp only [List.foldlM_cons] at h
    obtain ⟨st1, h1, h2⟩ := bind_ok h
    rw [ih st1 st' h2]
    unfold applyBattery at h1
    simp only at h1
    split at h1
    · cases h1
    · split at h1
      · split at h1
        · obtain ⟨x, _, h1⟩ := bind_ok h1
          obtain ⟨bat', avg⟩ := x
          simp only [Except.ok.injEq] at h1
          subst h1
          exact (addLoad_currentLoad gc b.id avg).2.2.1
        · simp only [Except.ok.injEq] at h1
          subst h1; rfl
      · obtain ⟨x, _, h1⟩ := bind_ok h1
        obtain ⟨bat', avg⟩ := x
        simp only [Except.ok.injEq] at h1
        subst h1
        exact (addLoad_currentLoad gc b.id (-avg)).2.2.1

/-- **frame of `step_gc`**: stations, vehicle meta data (id, station) and battery meta data (id, connector, minimum
power) are unchanged; of the connectors only the one being stepped is replaced -/
theorem stepGc_frame (ops : BatOps α B) (law : BatLaw ops) (env : PEnv α) (w : PWorld α B) (g : PGc α)
    (level : String) (w' : PWorld α B) (cmds : List (String × α))
    (hvn : ((vmeta w.vehicles).map Prod.fst).Nodup) (hbn : ((bmeta w.batteries).map Prod.fst).Nodup)
    (h : stepGc ops env w g level = .ok (w', cmds)) :
    w'.stations = w.stations ∧ vmeta w'.vehicles = vmeta w.vehicles ∧ bmeta w'.batteries = bmeta w.batteries ∧
    ∃ g' : PGc α, g'.gc.id = g.gc.id ∧ g'.operator = g.operator ∧ g'.level = g.level ∧
      w'.gcs = w.gcs.map (fun x => if x.gc.id == g.gc.id then g' else x) := by
  have hst := stepGc_stations ops env w g level w' cmds h
  unfold stepGc at h
  simp only at h
  obtain ⟨r1, hg, h⟩ := bind_ok h
  obtain ⟨vehicles, maxStanding⟩ := r1
  obtain ⟨seasons, _, h⟩ := bind_ok h
  obtain ⟨r2, _, h⟩ := bind_ok h
  obtain ⟨ahead, untilChange⟩ := r2
  obtain ⟨r3, hp, h⟩ := bind_ok h
  obtain ⟨plans, timesteps, pk⟩ := r3
  obtain ⟨ts0, ht0, h⟩ := bind_ok h
  obtain ⟨r4, hc, h⟩ := bind_ok h
  obtain ⟨w1, gc1, cmds1⟩ := r4
  obtain ⟨r5, h5, h⟩ := bind_ok h
  obtain ⟨L1, info1⟩ := r5
  obtain ⟨r6, h6, h⟩ := bind_ok h
  obtain ⟨gc2, gl2, done⟩ := r6
  simp only [Except.ok.injEq, Prod.mk.injEq] at h
  obtain ⟨rfl, rfl⟩ := h
  have hgs := gatherVehicles_spec ops env w g.gc.id vehicles maxStanding hg
  obtain ⟨_, hplans⟩ := planVehicles_spec ops law env w (sumLoads env g.gc.loads) _ _ _ _ _ _
    (headGe_buildTimesteps env seasons level g.gc.id _ _ (g.gc.loads, g.gc.curMax)) hp
  obtain ⟨f1, f2, f3⟩ := chargeVehicles_frame ops plans _ (w, g.gc, []) (w1, gc1, cmds1) hvn
    (fun q hq => by
      obtain ⟨hqs, _⟩ := hplans q hq
      have := (hgs q.1 (mem_sortByKey _ _ _ hqs)).1
      exact List.mem_map_of_mem (f := fun pv : PVeh α B => (pv.v.id, pv.v.cs)) this) hc
  simp only at f1 f2 f3
  have hdone := applyBatteries_done ops env info1 _ (gc1, L1, []) (gc2, gl2, done) h6
  have hdm : ∀ b' ∈ done, (b'.id, b'.parent, b'.minChargingPower) ∈ bmeta w1.batteries := by
    intro b' hb'
    rcases hdone b' hb' with hb' | ⟨b, hb, e1, e2, e3⟩
    · simp at hb'
    · rw [f3, e1, e2, e3]
      have : b ∈ w.batteries := (List.mem_filter.mp hb).1
      exact List.mem_map_of_mem (f := fun b : StatBatS α B => (b.id, b.parent, b.minChargingPower)) this
  obtain ⟨k1, k2⟩ := foldl_setBattery_frame done w1 (by rw [f3]; exact hbn) hdm
  have hid : gc2.id = g.gc.id := by
    have a1 := applyBatteries_gcid ops env info1 _ _ _ h6
    have a2 := chargeVehicles_gcid ops plans _ _ _ hc
    simp only at a1 a2
    rw [a1, a2]
  refine ⟨hst, ?_, ?_, ?_⟩
  · simp only [PWorld.setGc]; rw [k2, f1]
  · simp only [PWorld.setGc]; rw [k1, f3]
  · simp only [PWorld.setGc, hid]
    rw [foldl_setBattery_gcs, f2]
    refine ⟨_, ?_, ?_, ?_, rfl⟩
    · exact hid
    · rfl
    · rfl

/-- premise of the limit theorem for one connector, on the meta data of vehicles and batteries: load within
`[−cur_max_power, cur_max_power]` (surplus allowed), `cur_max_power ≥ 0`, `peak_power ≥ 0`, and the batteries at the connector have ids that are
neither load keys nor station ids of vehicles, and non-negative minimum powers -/
structure GcOK (vm : List (String × Option String)) (bm : List (String × String × α)) (g : PGc α) : Prop where
  cm0 : 0 ≤ g.gc.curMax
  low : -g.gc.curMax ≤ g.gc.currentLoad
  lim : g.gc.currentLoad ≤ g.gc.curMax
  peak0 : 0 ≤ g.peak
  bkey : ∀ t ∈ bm, (t.2.1 == g.gc.id) = true → sdGet g.gc.loads t.1 = none
  bcs : ∀ t ∈ bm, (t.2.1 == g.gc.id) = true → ∀ m ∈ vm, m.2 ≠ some t.1
  bmin : ∀ t ∈ bm, (t.2.1 == g.gc.id) = true → 0 ≤ t.2.2

/-- the whole `step`: every connector ends within its limit -/
theorem step_limit (ops : BatOps α B) (law : BatLaw ops) (idem : LoadIdem ops) (lmin : LoadMin ops) (env : PEnv α)
    (hi : 0 < env.interval) (hsum : ∀ l, env.sum l = l.sum) (w w' : PWorld α B) (cmds : List (String × α))
    (hgn : (w.gcs.map (fun g => g.gc.id)).Nodup) (hvn : ((vmeta w.vehicles).map Prod.fst).Nodup)
    (hbn : ((bmeta w.batteries).map Prod.fst).Nodup)
    (hok : ∀ g ∈ w.gcs, GcOK (vmeta w.vehicles) (bmeta w.batteries) g)
    (h : step ops env w = .ok (w', cmds)) :
    ∀ g' ∈ w'.gcs, -g'.gc.curMax ≤ g'.gc.currentLoad ∧ g'.gc.currentLoad ≤ g'.gc.curMax := by
  unfold step at h
  have key : ∀ (gs : List (PGc α)) (st st' : PWorld α B × List (String × α)),
      (gs.map (fun g => g.gc.id)).Nodup → (∀ g0 ∈ gs, g0 ∈ w.gcs) →
      vmeta st.1.vehicles = vmeta w.vehicles → bmeta st.1.batteries = bmeta w.batteries →
      st.1.gcs.map (fun g => g.gc.id) = w.gcs.map (fun g => g.gc.id) →
      (∀ g0 ∈ gs, g0 ∈ st.1.gcs) →
      (∀ x ∈ st.1.gcs, x.gc.id ∉ gs.map (fun g => g.gc.id) → -x.gc.curMax ≤ x.gc.currentLoad ∧ x.gc.currentLoad ≤ x.gc.curMax) →
      gs.foldlM (fun (st : PWorld α B × List (String × α)) g0 =>
        match st.1.gcs.find? (·.gc.id == g0.gc.id) with
        | none => (.error .keyError : Py (PWorld α B × List (String × α)))
        | some g =>
          match g.level with
          | none => .error .assertion
          | some level => do
            let (w', cmds) ← stepGc ops env st.1 g level
            .ok (w', sdUpdate st.2 cmds)) st = .ok st' →
      ∀ x ∈ st'.1.gcs, -x.gc.curMax ≤ x.gc.currentLoad ∧ x.gc.currentLoad ≤ x.gc.curMax := by
    intro gs
    induction gs with
    | nil =>
      intro st st' _ _ _ _ _ _ hb h
      simp only [List.foldlM_nil, pure, Except.pure, Except.ok.injEq] at h
      subst h
      exact fun x hx => hb x hx (by simp)
    | cons g0 rest ih =>
      intro st st' hnd hin hvm hbm hids hmem hb h
      simp only [List.foldlM_cons] at h
      obtain ⟨st1, h1, h2⟩ := bind_ok h
      simp only [List.map_cons, List.nodup_cons] at hnd
      split at h1
      · cases h1
      · rename_i g hg
        have hgm : g ∈ st.1.gcs := List.mem_of_find?_eq_some hg
        have hgid : g.gc.id = g0.gc.id := by
          have := List.find?_some hg
          simpa using this
        have hnds : (st.1.gcs.map (fun g => g.gc.id)).Nodup := by rw [hids]; exact hgn
        have hgg : g = g0 := List.inj_on_of_nodup_map hnds hgm (hmem g0 (by simp)) hgid
        subst hgg
        split at h1
        · cases h1
        · rename_i level hl
          obtain ⟨r, hr, h1⟩ := bind_ok h1
          obtain ⟨w1, c1⟩ := r
          simp only [Except.ok.injEq] at h1
          subst h1
          have gok := hok g (hin g (by simp))
          have hvn' : ((vmeta st.1.vehicles).map Prod.fst).Nodup := by rw [hvm]; exact hvn
          have hbn' : ((bmeta st.1.batteries).map Prod.fst).Nodup := by rw [hbm]; exact hbn
          have hbt : ∀ b ∈ st.1.batteries, (b.id, b.parent, b.minChargingPower) ∈ bmeta w.batteries := by
            intro b hb'
            rw [← hbm]
            exact List.mem_map_of_mem (f := fun b : StatBatS α B => (b.id, b.parent, b.minChargingPower)) hb'
          have hbid : ((st.1.batteries.filter (fun b => b.parent == g.gc.id)).map (·.id)).Nodup := by
            have : (bmeta st.1.batteries).map Prod.fst = st.1.batteries.map (·.id) := by
              unfold bmeta; simp
            rw [this] at hbn'
            exact List.Nodup.sublist (List.filter_sublist.map _) hbn'
          have hlim := stepGc_limit_bat2 ops law idem lmin env hi hsum st.1 g level w1 c1 hbid
            (fun b hb' hp => gok.bkey _ (hbt b hb') hp)
            (fun b hb' hp pv hpv => gok.bcs _ (hbt b hb') hp (pv.v.id, pv.v.cs) (by
              rw [← hvm]
              exact List.mem_map_of_mem (f := fun pv : PVeh α B => (pv.v.id, pv.v.cs)) hpv))
            (fun b hb' hp => gok.bmin _ (hbt b hb') hp)
            gok.peak0 gok.cm0 gok.lim hr
          obtain ⟨_, fv, fb, g', hg'id, _, _, hgcs⟩ := stepGc_frame ops law env st.1 g level w1 c1 hvn' hbn' hr
          refine ih _ _ hnd.2 (fun g1 hg1 => hin g1 (List.mem_cons_of_mem _ hg1)) (by simp only; rw [fv, hvm])
            (by simp only; rw [fb, hbm]) ?_ ?_ ?_ h2
          · simp only
            rw [hgcs, ← hids, List.map_map]
            apply List.map_congr_left
            intro x _
            simp only [Function.comp]
            split
            · rename_i he
              rw [hg'id]; exact (by simpa using he : x.gc.id = g.gc.id).symm
            · rfl
          · intro g1 hg1
            simp only
            rw [hgcs]
            have hne : g1.gc.id ≠ g.gc.id := fun e => hnd.1 (by
              rw [← e]; exact List.mem_map_of_mem (f := fun g : PGc α => g.gc.id) hg1)
            refine List.mem_map.mpr ⟨g1, hmem g1 (List.mem_cons_of_mem _ hg1), ?_⟩
            have : (g1.gc.id == g.gc.id) = false := by simpa using hne
            simp [this]
          · intro x hx hxn
            simp only at hx
            have hx' := hx
            rw [hgcs] at hx
            obtain ⟨y, hy, hyx⟩ := List.mem_map.mp hx
            split at hyx
            · rename_i he
              subst hyx
              obtain ⟨l1, l2, l3⟩ := hlim g' hx' hg'id
              refine ⟨?_, by rw [l1]; exact l3⟩
              rw [l1]
              refine le_trans ?_ l2
              exact le_min gok.low (by linarith [gok.cm0])
            · rename_i hne
              subst hyx
              apply hb y hy
              simp only [List.map_cons, List.mem_cons, not_or]
              exact ⟨by simpa using hne, hxn⟩
  exact key w.gcs (w, []) (w', cmds) hgn (fun _ h => h) rfl rfl rfl (fun _ h => h)
    (fun x hx hn => absurd (List.mem_map_of_mem (f := fun g : PGc α => g.gc.id) hx) hn) h

end SpiceEv.PeakLoadWindow
