/-
C09 for the distributed strategy, reduced to the greedy / balanced run: over a standing period the distributed run,
seen at one connector, IS the plain iteration of the greedy (opportunity station) / balanced (depot) step model over
the per-step connectors on the connector's part of the world.  The service guarantee of the delegated strategy over
such an iteration (Properties/C09_Run.lean of the greedy / balanced run builder: `StratRun.runSteps`, the same
definition as `DistRun.standSteps`) therefore applies verbatim to the vehicles of the connector under distributed.
-/
import SpiceEv.Proofs.StratDistributedRunStand
import SpiceEv.Proofs.StratDistributedRunToy
set_option linter.unusedSectionVars false
set_option linter.unusedVariables false
namespace SpiceEv
open SpiceEv.Distrib SpiceEv.Frame SpiceEv.DistRun
variable {α : Type} [Field α] [LinearOrder α] [IsStrictOrderedRing α]

/-- **Distributed over a standing period = the delegated strategy's step model iterated** (partial: this is the
reduction only; the service sentence itself — the vehicle reaches `min(desired, reachable at full power)` under greedy,
the desired SoC under balanced — is the theorem about `ruleStep` iterated, proved in Properties/C09_Run.lean for
`StratRun.runSteps`, which is `standSteps` word for word; the two files are not imported into each other).
Premises of `C14_distributed_run_is_delegated` plus `Standing`: no vehicle event in the period, the sub-strategy of
station type `kind` is a `rule` object with options `env`, the clock advances by one interval per step.  Then whenever
the distributed run returns, the iteration of `ruleStep rule` over the connector `σ.g` of each step, started from the
connector's part of the world, returns the connector's parts of the distributed worlds — in particular the same SoC of
every vehicle of the connector after every step. -/
theorem C09_distributed_standing_run_is_rule_run_partial {B : Type} (σ : Sel) (kind : Kind) (rule : Rule)
    (dops : DOps α B) (law : BatLaw dops.bat) (env : StratEnv α) (ins : List (StepIn α B)) (s : DState α B)
    (trace : List (DState α B × List (String × α)))
    (hs : StateOK σ kind s) (hi : ∀ i ∈ ins, InOK σ i)
    (hst : Standing kind rule env (ins.map (StepIn.restrict σ.g)))
    (h : runD dops s ins = .ok trace) :
    standSteps rule dops.bat env (part σ s.world) (ins.map (fun i => i.gcs.filter (fun x => x.id == σ.g)))
      = .ok (trace.map (fun r => part σ r.1.world)) := by
  have h1 := runD_proj σ kind dops law ins s trace hs hi h
  have h2 := runSub_standing kind rule dops.bat _ env _ _ hst h1
  simpa [List.map_map, Function.comp_def, StepIn.restrict] using h2

/-- Non-vacuity: the two-step toy run is a standing period for the balanced sub-strategy at the depot GC2 (options of
`strategy_deps`, clock 0 then 15 min), all premises hold and the distributed run returns. -/
example : Standing Kind.deps Rule.balanced ((runEnv 0).deps.env 0) ((runIns 4).map (StepIn.restrict "GC2")) ∧
    StateOK selGC2 .deps (runState 4 (1/5)) ∧ (∀ i ∈ runIns 4, InOK selGC2 i) ∧
    (runD runDOps (runState 4 (1/5)) (runIns 4)).toBool = true := by
  refine ⟨?_, runState_ok2 _ _, runIns_ok selGC2 (Or.inr rfl) 4 (by norm_num), runToy_returns⟩
  refine ⟨fun _ => rfl, rfl, ?_, fun _ => rfl, rfl, ?_, trivial⟩
  · simp [StepIn.restrict, runEnv, SubStrat.env, DEnv.sub]
  · simp [StepIn.restrict, runEnv, SubStrat.env, DEnv.sub, tickEnv]

end SpiceEv
