/-
Bridging lemmas between the executable Python-semantics helpers (`pymin`, `pymax`, `pydiv`,
`isZero`, `numEq`, …) and the ordered-field vocabulary used in the theorems.
-/
import Mathlib.Algebra.Order.Field.Basic
import Mathlib.Tactic.Linarith
import Mathlib.Tactic.FieldSimp
import Mathlib.Tactic.Ring
import SpiceEv.Py
import SpiceEv.Model.Curve

set_option linter.unusedSectionVars false
set_option linter.unusedSimpArgs false
namespace SpiceEv
variable {α : Type} [Field α] [LinearOrder α] [IsStrictOrderedRing α]

@[simp] theorem pymin_eq (a b : α) : pymin a b = min a b := by
  unfold pymin; split <;> rename_i h
  · exact (min_eq_right h.le).symm
  · exact (min_eq_left (not_lt.mp h)).symm

@[simp] theorem pymax_eq (a b : α) : pymax a b = max a b := by
  unfold pymax; split <;> rename_i h
  · exact (max_eq_right h.le).symm
  · exact (max_eq_left (not_lt.mp h)).symm

@[simp] theorem isZero_iff (x : α) : isZero x = true ↔ x = 0 := by
  unfold isZero
  simp only [Bool.and_eq_true, Bool.not_eq_true', decide_eq_false_iff_not, not_lt]
  constructor
  · rintro ⟨h1, h2⟩; exact le_antisymm h2 h1
  · rintro rfl; exact ⟨le_refl _, le_refl _⟩

@[simp] theorem numEq_iff (a b : α) : numEq a b = true ↔ a = b := by
  unfold numEq
  simp only [Bool.and_eq_true, Bool.not_eq_true', decide_eq_false_iff_not, not_lt]
  constructor
  · rintro ⟨h1, h2⟩; exact le_antisymm h2 h1
  · rintro rfl; exact ⟨le_refl _, le_refl _⟩

theorem pydiv_ok (a : α) {b : α} (hb : b ≠ 0) : pydiv a b = .ok (a / b) := by
  unfold pydiv
  have : isZero b = false := by
    rcases h : isZero b with _ | _
    · rfl
    · exact absurd ((isZero_iff b).mp h) hb
  simp [this]

theorem pydiv_zero (a : α) : pydiv a (0 : α) = .error .zeroDivision := by
  unfold pydiv
  have : isZero (0 : α) = true := (isZero_iff 0).mpr rfl
  simp [this]

@[simp] theorem pyabs_eq (a : α) : pyabs a = |a| := by
  unfold pyabs; split <;> rename_i h
  · exact (abs_of_neg h).symm
  · exact (abs_of_nonneg (not_lt.mp h)).symm

end SpiceEv
