/- driver commands for Model/StratBalancedMarket.lean (balanced_market step on the Float battery model) -/
import SpiceEv.Wire
import SpiceEv.Model.StratBalancedMarket
import SpiceEv.Model.Battery
import SpiceEv.Cmd.Battery
import SpiceEv.Cmd.StrategyUtil
import SpiceEv.Cmd.Strategies
namespace SpiceEv.Cmd.StratBalancedMarket
open SpiceEv SpiceEv.BalancedMarket SpiceEv.Cmd.Strategies

/-- `S start gc <opt max_power> <U | cost>` | `G start gc name value` | `O start` -/
def pEvent : P (FEvent Float) := do
  let k ← P.tok
  if k == "S" then do
    let s ← P.int; let g ← P.tok; let mp ← P.opt (P.num Float)
    let c ← (do
      let t ← P.tok
      if t == "U" then pure none
      else if t == "N" then pure (some none)
      else if t == "F" then (fun v => some (some (GcCost.fixed v))) <$> P.num Float
      else if t == "P" then (fun cs => some (some (GcCost.polynomial cs))) <$> P.list (P.num Float)
      else failure : P (Option (Option (GcCost Float))))
    pure (.signal s g mp c)
  else if k == "G" then do
    let s ← P.int; let g ← P.tok; let n ← P.tok; let v ← P.num Float
    pure (.gen s g n v)
  else if k == "O" then do
    let s ← P.int
    pure (.other s)
  else failure

/-- `step_balanced_market eps threshold now interval horizon tzoffset <events> <avg tables> <gcs>
<stations> <vehicles> <batteries>` →
`commands | loads per connector | station power | vehicle SoCs | battery SoCs` or the exception -/
def cmdStep : P String := do
  let eps ← P.num Float; let thr ← P.num Float
  let now ← P.int; let interval ← P.int; let horizon ← P.int; let tz ← P.int
  let evs ← P.list pEvent
  let tables ← P.list (do let g ← P.tok; let t ← P.list (P.list (P.num Float)); pure (g, t))
  let gcs ← P.list pGc; let css ← P.list pCs; let vs ← P.list pVeh; let bs ← P.list pBat
  let env : Env Float := ⟨eps, thr, now, interval, horizon, tz, evs, tables⟩
  let ops : Ops Float (Battery Float) := modelOps (Cmd.Battery.hoursOfMicros interval)
  match BalancedMarket.step ops env ⟨gcs, css, vs, bs⟩ with
  | .error e => pure (renderErr e)
  | .ok (w, cmds) =>
    pure (renderList rKV cmds ++ " | " ++
      " ; ".intercalate (w.gcs.map (fun g => g.id ++ " " ++ renderList rKV g.loads)) ++ " | " ++
      " ".intercalate (w.stations.map (fun s => rNum s.currentPower)) ++ " | " ++
      " ".intercalate (w.vehicles.map (fun v => rNum v.bat.soc)) ++ " | " ++
      " ".intercalate (w.batteries.map (fun b => rNum b.bat.soc)))

/-- `init_balanced_market horizon scenarioStart <n> (signal start)…` → new signal times and `changed` -/
def cmdInit : P String := do
  let horizon ← P.int; let start ← P.int
  let evs ← P.list (do let s ← P.int; let t ← P.int; pure (s, t))
  pure (renderList (fun (e : Int × Int) => toString (initSignalTime e.1 e.2 horizon start)) evs
    ++ " | " ++ toString (initChanged horizon start evs))

def handlers : List (String × Handler) :=
  [("step_balanced_market", runP cmdStep), ("init_balanced_market", runP cmdInit)]

end SpiceEv.Cmd.StratBalancedMarket
