/-
The strategy step iterated over a period of a run: `Distributed.step` (Model/StratDistributed.lean) and, for
comparison, `Greedy.step` / `Balanced.step` (`ruleStep`, Model/Strategies.lean) on a world of their own.

`Scenario.run` calls, per interval, the base class's event processing (`Strategy.step`: clock, events, reset of the
station / battery entries of every connector — Model/StrategyBase.lean, Model/ScenarioRun.lean) and then the strategy's
own `step()`.  What the event processing hands to the strategy's step is data here (`StepIn`): the options and the
clock of the step, every connector as the event processing left it (limit, price, fixed loads; the entries under
station ids are gone), the arrival events the strategy can see, and the effect of the vehicle events of the step on
each vehicle object (`upd`: `setattr` of the update, SoC change of an arrival, `connected_charging_station = None` of
a departure … — the identity while every vehicle stands).  Vehicle events act on one vehicle object at a time, so a
per-vehicle function covers all of them.  Stations are static after `Strategy.__init__`; their `current_power` is
reset by the step itself.  Everything else (SoCs, `self.connected`, the virtual stations' power, the sub-strategies'
own state) is carried from one step to the next by the iteration.  Core Lean only.
-/
import SpiceEv.Model.StratDistributed
namespace SpiceEv.Distrib
open SpiceEv

/-- what one iteration of the simulation loop hands to the strategy's own `step()` -/
structure StepIn (α B : Type) where
  /-- options and clock of this step (`current_time`, and what a look-ahead sub-strategy reads of the step) -/
  de : DEnv α
  /-- `world_state.grid_connectors` after the base step (events applied, station / battery entries removed) -/
  gcs : List (GcS α)
  /-- effect of the step's vehicle events on a vehicle object (identity while the vehicle stands) -/
  upd : VehicleS α B → VehicleS α B
  /-- the arrival events in `world_state.future_events` -/
  future : List (ArrivalEv α)

section
variable {α B : Type} [Add α] [Sub α] [Mul α] [Div α] [Neg α] [LT α] [LE α]
  [DecidableLT α] [DecidableLE α] [OfNat α 0] [OfNat α 1] [NatCast α] [IntCast α]

/-- the world the strategy's step sees: the connectors of the step, the vehicle objects after their events -/
def enterWorld (i : StepIn α B) (w : SWorld α B) : SWorld α B :=
  { w with gcs := i.gcs, vehicles := w.vehicles.map i.upd }

/-- the strategy object at the beginning of its step -/
def enter (i : StepIn α B) (s : DState α B) : DState α B :=
  { s with world := enterWorld i s.world, future := i.future }

/-- `Distributed.step()` over consecutive intervals ↦ per step: the strategy object after the step, its commands.
An exception ends the run (`Scenario.run` latches it). -/
def runD (dops : DOps α B) : DState α B → List (StepIn α B) → Py (List (DState α B × List (String × α)))
  | _, [] => .ok []
  | s, i :: rest => do
    let r ← step dops i.de (enter i s)
    let tl ← runD dops r.1 rest
    .ok (r :: tl)

/-- a stand-alone `Greedy` / `Balanced` object with the options of the sub-strategy of station type `kind`, stepped over
the same intervals on a world of its own ↦ per step: world after the step, commands -/
def runSub (kind : Kind) (ops : BatOps α B) : SWorld α B → List (StepIn α B) →
    Py (List (SWorld α B × List (String × α)))
  | _, [] => .ok []
  | w, i :: rest => do
    let r ← ruleStep (i.de.sub kind).rule ops ((i.de.sub kind).env i.de.env.now) (enterWorld i w)
    let tl ← runSub kind ops r.1 rest
    .ok (r :: tl)

/-- the inputs of the scenario restricted to connector `g`: only that connector is left -/
def StepIn.restrict (g : String) (i : StepIn α B) : StepIn α B :=
  { i with gcs := i.gcs.filter (fun x => x.id == g) }

end
end SpiceEv.Distrib
