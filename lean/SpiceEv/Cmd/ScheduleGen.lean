/- driver commands for Model/ScheduleGen.lean (property C13) -/
import SpiceEv.Wire
import SpiceEv.Model.ScheduleGen
namespace SpiceEv.Cmd.ScheduleGen
open SpiceEv SpiceEv.ScheduleGen

/-- Python's `int → float` conversion for list lengths (exact below 2^53) -/
instance instNatCastFloat : NatCast Float := ⟨Float.ofNat⟩

/-- round-half-even of `num/den` (den > 0) to an integer -/
def roundHalfEven (num : Int) (den : Nat) : Int :=
  let q := num / (den : Int)
  let r := num % (den : Int)
  if 2 * r > (den : Int) then q + 1
  else if 2 * r = (den : Int) then (if q % 2 = 0 then q else q + 1)
  else q

/-- Python `round(x, 3)` on an exact rational: round-half-even -/
def round3Rat (q : Rat) : Rat :=
  mkRat (roundHalfEven (q.num * 1000) q.den) 1000

/-- Python `round(x, 3)` on a float: CPython rounds the exact binary value half-even to three decimals
and converts the decimal result back correctly rounded.  Done here on the decoded bits. -/
def round3Float (x : Float) : Float :=
  let b := x.toBits.toNat
  let neg := (b >>> 63) % 2 == 1
  let ex := (b >>> 52) % 2048
  let frac := b % (2 ^ 52)
  if ex == 2047 then x                                -- inf / nan
  else
    let m : Nat := if ex == 0 then frac else frac + 2 ^ 52
    let e : Int := if ex == 0 then -1074 else (ex : Int) - 1075
    if e ≥ 0 then x                                    -- an integer already
    else
      let den : Nat := 2 ^ (-e).toNat
      let n := (roundHalfEven ((m : Int) * 1000) den).toNat
      let r := Float.ofNat n / 1000.0
      if neg then -r else r

class Round3 (α : Type) where
  round3 : α → α
instance : Round3 Rat := ⟨round3Rat⟩
instance : Round3 Float := ⟨round3Float⟩

section
variable {α : Type} [Add α] [Sub α] [Mul α] [Div α] [Neg α] [LT α] [LE α]
  [DecidableLT α] [DecidableLE α] [OfNat α 0] [OfNat α 2] [NatCast α] [Wire α] [Round3 α]

def rNum (x : α) : String := Wire.render x
def rOptNum (x : Option α) : String := match x with | none => "N" | some v => "S " ++ rNum v
def rOptBool (x : Option Bool) : String := match x with | none => "N" | some v => "S " ++ renderBool v

def rCell (c : Cell α) : String :=
  " ".intercalate [rNum c.sched, rNum c.availMin, rNum c.availMax, rNum c.curt, rNum c.resid,
    rNum c.flexMin, rNum c.flexMax, renderList rNum c.vs]

def rRow (r : Row α) : String :=
  " ".intercalate [rNum r.sched, renderBool r.flag, rNum r.oResid, rNum r.oCurt, rNum r.resid,
    rNum r.curt, renderList rNum r.vs]

def pCell : P (Cell α) := do
  let sched ← P.num α; let amin ← P.num α; let amax ← P.num α; let curt ← P.num α
  let resid ← P.num α; let fmin ← P.num α; let fmax ← P.num α
  let vs ← P.list (P.num α)
  pure ⟨sched, amin, amax, curt, resid, fmin, fmax, 0, 0, vs⟩

def pEntry : P (Entry α) := do
  let i ← P.nat; let lo ← P.num α; let hi ← P.num α; pure (i, lo, hi)

/-- `c13dist T eps tsph fuel <cells> <entries> energy v2g vid` → `ed | cells` -/
def cmdDist : P String := do
  let eps ← P.num α; let tsph ← P.num α; let fuel ← P.nat
  let cells ← P.list (pCell (α := α))
  let es ← P.list (pEntry (α := α))
  let energy ← P.num α; let v2g ← P.bool; let vid ← P.opt P.nat
  let r := distribute eps tsph fuel cells.toArray es energy v2g vid
  pure (renderPy (fun (r : Array (Cell α) × α) =>
    rNum r.2 ++ " | " ++ renderList rCell r.1.toList) r)

def pVInfo : P (VInfo α) := do
  let vid ← P.nat; let v2g ← P.num α; let pMax ← P.num α; let energy ← P.num α
  let a ← P.int; let b ← P.int; let secs ← P.num α
  pure ⟨vid, v2g, pMax, energy, a, b, secs⟩

def pMode : P (Mode α) := do
  let t ← P.tok
  if t == "I" then
    let vs ← P.list (P.list (pVInfo (α := α)))
    pure (.individual vs)
  else if t == "C" then
    let gcMax ← P.num α; let v2g ← P.bool
    let vmin ← P.list (P.num α); let vmax ← P.list (P.num α)
    let ivs ← P.list (do let needed ← P.num α; let time ← P.list P.nat; pure (needed, time))
    pure (.collective gcMax v2g vmin.toArray vmax.toArray ivs)
  else failure

/-- `c13gen T eps tsph fuel nVeh base fmin fmax resid curt stored power eff init full mode`
    → `rows | cells` or the exception -/
def cmdGen : P String := do
  let eps ← P.num α; let tsph ← P.num α; let fuel ← P.nat; let nVeh ← P.nat
  let base ← P.list (P.num α); let fmin ← P.list (P.num α); let fmax ← P.list (P.num α)
  let resid ← P.list (P.num α); let curt ← P.list (P.num α)
  let stored ← P.num α; let power ← P.num α; let eff ← P.num α
  let init ← P.num α; let full ← P.num α
  let mode ← pMode (α := α)
  let inp : GenInput α := ⟨nVeh, base, fmin, fmax, resid, curt, ⟨stored, power, eff, init, full⟩, mode⟩
  let r := generateCells eps tsph fuel inp
  pure (renderPy (fun (cells : Array (Cell α)) =>
    renderList rRow (writeRows eps Round3.round3 (isIndividual mode) cells) ++ " | " ++
      renderList rCell cells.toList) r)

/-- `c13grid T n scenStart gridStart interval <resid cells> <curt cells>` → `resid | curt` -/
def cmdGrid : P String := do
  let n ← P.nat; let scenStart ← P.int; let gridStart ← P.opt P.int; let interval ← P.int
  let resid ← P.list (P.opt (P.num α)); let curt ← P.list (P.opt (P.num α))
  let off := sliceOffset scenStart gridStart interval
  let r := readResidual resid none
  let c := readCurtailment curt none false false
  pure (renderPy (fun (c : List α) =>
    renderList rNum (sliceGrid n off r) ++ " | " ++ renderList rNum (sliceGrid n off c)) c)

def pFileRow : P (FileRow α) := do
  let time ← P.opt P.int; let target ← P.num α; let window ← P.opt P.bool
  let vs ← P.list (P.num α)
  pure ⟨time, target, window, vs⟩

def rEv (e : Ev α) : String :=
  s!"{e.start} {e.signal} " ++ (match e.payload with
    | .gc t w => "G " ++ rNum t ++ " " ++ rOptBool w
    | .veh k v => s!"V {k} " ++ rNum v)

def rSeen (s : Seen α) : String :=
  rOptNum s.target ++ " " ++ rOptBool s.window ++ " " ++ renderList rOptNum s.vsched

/-- `c13read T interval start nVeh scenStart n <rows>` → `events | in force per step (queue) | same
    (declarative)` -/
def cmdRead : P String := do
  let interval ← P.int; let start ← P.opt P.int; let nVeh ← P.nat
  let scenStart ← P.int; let n ← P.nat
  let rows ← P.list (pFileRow (α := α))
  let r := getScheduleFromCsv interval start nVeh rows
  pure (renderPy (fun (evs : List (Ev α)) =>
    let init : Seen α := ⟨none, none, List.replicate nVeh none⟩
    let q := runQueue scenStart interval n evs init
    let d := (List.range n).map (inForce scenStart interval n evs init)
    renderList rEv evs ++ " | " ++ renderList rSeen q ++ " | " ++ renderList rSeen d) r)

/-- `c13round T x…` → `round(x, 3)…` and `aggressive_round` with eps -/
def cmdRound : P String := do
  let eps ← P.num α
  let xs ← P.list (P.num α)
  pure (renderList rNum (xs.map Round3.round3) ++ " | " ++
        renderList rNum (xs.map (aggressiveRound eps Round3.round3)))
end

def handlers : List (String × Handler) :=
  [("c13dist", byNumType (cmdDist (α := Rat)) (cmdDist (α := Float))),
   ("c13gen", byNumType (cmdGen (α := Rat)) (cmdGen (α := Float))),
   ("c13grid", byNumType (cmdGrid (α := Rat)) (cmdGrid (α := Float))),
   ("c13read", byNumType (cmdRead (α := Rat)) (cmdRead (α := Float))),
   ("c13round", byNumType (cmdRound (α := Rat)) (cmdRound (α := Float)))]

end SpiceEv.Cmd.ScheduleGen
