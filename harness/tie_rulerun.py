"""Run (composition) tie for Greedy.step / Balanced.step over a standing period (model: `rulerun`,
Model/StratRun.lean `runTrace`: the step model `ruleStep` iterated, vehicles / stations / stationary batteries
carried over from step to step, `now` advanced by `interval`, the connectors of every step given as data).

`tie(full)` wraps the real class's `step` for the duration of ONE `scen.run_real(full)` (it nests with the step
tie `tie_rule.tie`, which wraps the same method) and records, per concrete step, the world before the step (the
`rulestep` payload of c10.render_world), the connector section alone, a key of the attributes a standing period
keeps fixed, and the vehicle / battery SoCs before and after the step.  After the run the steps are split into
maximal SEGMENTS: consecutive steps with an unchanged key, none of which raised, `current_time` advancing by
exactly one interval.  A change of a SoC between two steps is deliberately NOT a boundary: the model is given the
world at the first step of the segment and the connectors of the further steps only, so anything but the step
itself that moves a SoC inside a standing period (`apply_battery_losses` on loss-free batteries, event processing,
`Scenario.run`) makes the two lines differ.

request  : rulerun <rulestep payload of the first step> <m> <gcs of step 2> ... <gcs of step m+1>
response : "<vehicle SoCs> | <battery SoCs>" per step joined by " ; "  (+ " !Err" if the model raised)
The implementation line holds, for every step but the last of the segment, the SoCs the NEXT concrete step finds
(what the real run carries over), and for the last step the SoCs right after it.

Only loss-free runs (no battery with a truthy `loss_rate`), segments of at least 2 steps with at least one
connected vehicle (1-step segments are the step tie's).
"""
import c10
from wire import dec

MIN_STEPS = 2


def render_gcs(strat):
    """the connector list exactly as c10.render_world renders it: <count> (id cur_max cost nloads (k v)*)*"""
    ws = strat.world_state
    parts = [str(len(ws.grid_connectors))]
    for gid, gc in ws.grid_connectors.items():
        parts += [gid, c10.f(gc.cur_max_power), c10.r_cost(gc.cost), str(len(gc.current_loads))]
        for k, v in gc.current_loads.items():
            parts += [k, c10.f(v)]
    return " ".join(parts)


def _socs(strat):
    ws = strat.world_state
    return ([c10.f(v.battery.soc) for v in ws.vehicles.values()], [c10.f(b.soc) for b in ws.batteries.values()])


def _key(strat):
    ws = strat.world_state
    return (tuple((vid, v.connected_charging_station, v.desired_soc, v.estimated_time_of_departure)
                  for vid, v in ws.vehicles.items()), tuple(ws.batteries.keys()))


def _stale(strat):
    """load names at the connectors that `Strategy.step` should have deleted before the concrete step runs (charging
    stations, stationary batteries): the run model takes the connectors of a step as data UNDER THIS PREMISE"""
    ws = strat.world_state
    return [k for gc in ws.grid_connectors.values() for k in gc.current_loads
            if k in ws.charging_stations or k in ws.batteries]


def _lossy(strat):
    ws = strat.world_state
    return any(getattr(b, "loss_rate", None) for b in
               list(ws.batteries.values()) + [v.battery for v in ws.vehicles.values()])


class tie:
    def __init__(self, full):
        from spice_ev import strategy as st_mod
        self.strategy = full["strategy"]
        self.rule = "g" if full["strategy"] == "greedy" else "b"
        self.cls = st_mod.class_from_str(full["strategy"])
        self.records, self.errors = [], []
        self.lossy = False
        self.time_jumps = []
        self._done = None

    def __enter__(self):
        self.orig = orig = self.cls.step
        records, errors, rule, me = self.records, self.errors, self.rule, self

        def wrapped(strat):
            rec = None
            if not errors:
                try:
                    payload = c10.render_world(strat, rule)
                    if not payload.startswith("rulestep "):
                        raise ValueError("render_world: unexpected head")
                    payload = payload[len("rulestep "):]
                    gcs = render_gcs(strat)
                    g = gcs.split()
                    if payload.split()[6:6 + len(g)] != g:
                        raise ValueError("render_gcs is not the connector section of render_world")
                    if _lossy(strat):
                        me.lossy = True
                    rec = {"payload": payload, "gcs": gcs, "key": _key(strat), "before": _socs(strat),
                           "time": strat.current_time, "interval": strat.interval, "raised": False,
                           "stale": _stale(strat),
                           "connected": any(v.connected_charging_station is not None
                                            for v in strat.world_state.vehicles.values())}
                except BaseException as e:  # incl. steptie.AdapterError of the guarded c10 renderers
                    if isinstance(e, (KeyboardInterrupt, SystemExit)) or type(e).__name__ == "WatchdogTimeout":
                        raise
                    errors.append("%s: %s" % (type(e).__name__, str(e).split("\n")[0][:200]))
                    rec = None
            try:
                res = orig(strat)
            except Exception:
                if rec is not None:
                    rec["raised"] = True
                    records.append(rec)
                raise
            if rec is not None:
                try:
                    rec["after"] = _socs(strat)
                    records.append(rec)
                except Exception as e:
                    errors.append("%s: %s" % (type(e).__name__, str(e).split("\n")[0][:200]))
            return res
        self.cls.step = wrapped
        return self

    def __exit__(self, *a):
        self.cls.step = self.orig
        return False

    # -- segments -----------------------------------------------------------------------------
    def segments(self):
        """maximal runs of consecutive recorded steps: same key, no step raised, time advancing by one interval"""
        segs, cur = [], []
        for rec in self.records:
            if rec["raised"]:
                if cur:
                    segs.append(cur)
                cur = []
                continue
            if cur and (rec["key"] != cur[-1]["key"] or rec["time"] - cur[-1]["time"] != cur[-1]["interval"]
                        or rec["interval"] != cur[-1]["interval"]):
                if rec["key"] == cur[-1]["key"]:
                    # consecutive concrete steps of one standing period whose clock did not advance by exactly one
                    # interval: the model's `tick` (`self.current_time += self.interval`) is not what the code did
                    self.time_jumps.append("%s -> %s (interval %s)" % (cur[-1]["time"], rec["time"], cur[-1]["interval"]))
                segs.append(cur)
                cur = []
            cur.append(rec)
        if cur:
            segs.append(cur)
        return segs

    def _build(self):
        if self._done is not None:
            return self._done
        lines, impl, lens = [], [], []
        if self.errors:
            lines.append("tie_adapter_failed %s" % self.strategy)
            impl.append("adapter " + self.errors[0].replace("|", "/"))
        elif not self.lossy:
            for seg in self.segments():
                if len(seg) < MIN_STEPS or not seg[0]["connected"]:
                    continue
                lines.append(" ".join(["rulerun", seg[0]["payload"], str(len(seg) - 1)] + [r["gcs"] for r in seg[1:]]))
                steps = []
                for k, r in enumerate(seg):
                    veh, bat = seg[k + 1]["before"] if k + 1 < len(seg) else r["after"]
                    steps.append(" ".join(veh) + " | " + " ".join(bat))
                stale = [(k + 1, r["stale"][0]) for k, r in enumerate(seg) if r["stale"]]
                impl.append(" ; ".join(steps) + (" !stale_load step %d %s" % stale[0] if stale else ""))
                lens.append(len(seg))
            if self.time_jumps:
                lines.append("tie_premise_failed %s" % self.strategy)
                impl.append("!time_jump " + self.time_jumps[0].replace("|", "/").replace(";", ","))
                lens.append(1)
        self._done = (lines, impl, lens)
        return self._done

    @property
    def lines(self):
        return list(self._build()[0])

    @property
    def impl(self):
        return list(self._build()[1])

    @property
    def segment_lengths(self):
        return list(self._build()[2])


# -- hook for run-level checks ----------------------------------------------------------------

def hook(full, fn):
    """(fn', collect): fn' performs fn() inside the run tie (greedy / balanced; otherwise fn itself);
    collect(r) -> (request lines, tagged implementation lines, stat tokens, num) after the run.  Meant to be
    passed through steptie.run_with_tie, so that the step tie and the run tie observe the same single real run."""
    if full.get("strategy") not in ("greedy", "balanced"):
        return fn, (lambda r=None: ([], [], [], {}))
    box = []

    def run():
        with tie(full) as t:
            box.append(t)   # the last one counts (run_with_tie repeats fn() after a step-tie adapter failure)
            return fn()

    def collect(r=None):
        if not box or (isinstance(r, dict) and r.get("timeout")):
            return [], [], ["runtie_none"], {}
        t = box[-1]
        if t.errors:
            return t.lines, ["@" + x for x in t.impl], ["runtie_adapter_failed"], {}
        if t.lossy:
            return [], [], ["runtie_lossy"], {}
        lines, impl, lens = t.lines, t.impl, t.segment_lengths
        if not lines:
            return [], [], ["runtie_none"], {}
        return (lines, ["@tie_rulerun " + x for x in impl], ["runtie"],
                {"runtie_longest_segment": max(lens), "runtie_segments_in_one_run": len(lens)})
    return run, collect


# -- comparison -------------------------------------------------------------------------------

def _parse(s):
    steps = []
    for part in s.split(";"):
        if part.count("|") != 1:
            return None
        v, b = part.split("|")
        steps.append((v.split(), b.split()))
    return steps


def compare(case, impl, model):
    """None on agreement; tokens compared by VALUE (wire.dec: bit pattern -> double, +0.0 == -0.0), no tolerance"""
    if impl.startswith("!time_jump "):
        return ("premise of the run model broken: between two concrete steps of one standing period the clock did not "
                "advance by exactly one interval (%s)" % impl[len("!time_jump "):])
    if " !stale_load " in impl:
        return ("premise of the run model broken: the connectors found by the concrete step still carry a charging-station "
                "/ battery load that Strategy.step should have deleted (%s)" % impl.split(" !stale_load ")[1])
    mt = model.split()
    if mt and mt[-1].startswith("!") and not impl.split()[-1:] == mt[-1:]:
        n = model.count(";") + 1 if "|" in model else 0
        return "model raised %s after %d completed steps; the real run did not raise" % (mt[-1][1:], n)
    a, b = _parse(impl), _parse(model)
    if a is None or b is None:
        return "different shape: %s  //  %s" % (impl[:200], model[:200])
    if len(a) != len(b):
        return "different number of steps (impl %d, model %d): %s  //  %s" % (len(a), len(b), impl[:200], model[:200])
    for k, ((av, ab), (bv, bb)) in enumerate(zip(a, b)):
        for what, xs, ys in (("vehicle", av, bv), ("battery", ab, bb)):
            if len(xs) != len(ys):
                return "step %d: %d %s SoCs in impl, %d in model" % (k + 1, len(xs), what, len(ys))
            for i, (x, y) in enumerate(zip(xs, ys)):
                if x == y:
                    continue
                if x.startswith("x") and y.startswith("x"):
                    fx, fy = dec(x), dec(y)
                    if fx == fy:
                        continue
                    return "step %d of %d, %s %d: SoC impl %r model %r" % (k + 1, len(a), what, i, fx, fy)
                return "step %d of %d, %s %d: impl %s model %s" % (k + 1, len(a), what, i, x, y)
    return None
