"""Mechanism (C): V2G discharge window of schedule (collective) feeds in beyond -cur_max_power.
usage: VERIF_REPO=<repo> /venv/bin/python notes/S_SCHEDULE_replays/C04-C-v2g-feed-in.py   (exit 0 = reproduced)
Hand-written scenario: 10 kW connector, target 5 kW, fixed load 6 kW (so the evaluation forecasts 5 - 6 < 0: a discharge
window), local generation 14 kW (actual load 6 - 14 = -8 kW, within the limit), one V2G vehicle at SoC 1.0 / desired 0.8."""
import json
import os
import sys

HERE = os.path.dirname(os.path.abspath(__file__))
sys.path.insert(0, os.path.join(HERE, "..", "..", "harness"))
import engine  # noqa: E402
import scen  # noqa: E402

engine.use_repo()
from spice_ev.strategies import schedule as sm  # noqa: E402

START = "2020-01-06T01:00:00+02:00"
N = 8
CASE = {"strategy": "schedule", "options": {"LOAD_STRAT": "collective", "warn_core_standing_time": True}, "meta": {},
        "scenario": {
            "scenario": {"start_time": START, "interval": 15, "n_intervals": N,
                         "core_standing_time": {"times": [{"start": [0, 0], "end": [12, 0]}]}},
            "components": {
                "vehicle_types": {"vt": {"name": "vt", "capacity": 40, "mileage": 20, "charging_curve": [[0, 11], [1, 11]],
                                         "min_charging_power": 0, "battery_efficiency": 1.0, "v2g": True,
                                         "v2g_power_factor": 1.0, "discharge_limit": 0.5}},
                "vehicles": {"v1": {"vehicle_type": "vt", "soc": 1.0, "desired_soc": 0.8,
                                    "connected_charging_station": "CS1",
                                    "estimated_time_of_departure": "2020-01-06T11:00:00+02:00"}},
                "grid_connectors": {"GC1": {"max_power": 10, "target": 5, "cost": {"type": "fixed", "value": 0.3}}},
                "charging_stations": {"CS1": {"max_power": 11, "min_power": 0, "parent": "GC1"}},
                "batteries": {}},
            "events": {
                "fixed_load": {"load": {"start_time": START, "step_duration_s": 900, "grid_connector_id": "GC1",
                                        "values": [6.0] * N}},
                "local_generation": {"pv": {"start_time": START, "step_duration_s": 900, "grid_connector_id": "GC1",
                                            "values": [14.0] * N}},
                "grid_operator_signals": [], "vehicle_events": []}}}

if __name__ == "__main__":
    orig = sm.Schedule.step
    hits = []

    def wrapped(self):
        ws = self.world_state
        pre = {g: sum(gc.current_loads.values()) for g, gc in ws.grid_connectors.items()}
        res = orig(self)
        for g, gc in ws.grid_connectors.items():
            load = sum(gc.current_loads.values())
            if abs(pre[g]) <= gc.cur_max_power + 1e-5 and abs(load) > gc.cur_max_power + 1e-5:
                hits.append("%s: load %.4f kW, cur_max_power %.1f kW (before the step %.4f), target %s, charge_window %s, "
                            "loads %s" % (self.current_time, load, gc.cur_max_power, pre[g], gc.target,
                                          getattr(self, "charge_window", None), dict(gc.current_loads)))
        return res
    sm.Schedule.step = wrapped
    try:
        r = scen.run_real(CASE, collect_ops=False)
    finally:
        sm.Schedule.step = orig
    print("run: steps %s of %s, aborted %s, escaped %s" % (r.get("step_i"), N, r.get("aborted"), r.get("escaped")))
    print(r.get("abort_text", "")[:600])
    for h in hits[:3]:
        print(h)
    json.dump(CASE, open(os.path.join(HERE, "C04-C-v2g-feed-in.json"), "w"))
    sys.exit(0 if hits else 1)
