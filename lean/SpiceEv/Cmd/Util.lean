/- driver commands for Model/Util.lean (time windows, core standing time)

wire formats
  dt       `<date ordinal> <µs since midnight> <offset: N | S µs>`
  season   `<start ordinal> <end ordinal> <windows: N | S <#levels> {<level> <#w> {<w0 µs> <w1 µs>}}>`
  core     `N | S <no_drive_days: N | S <n> ints> <holidays: N | S <n> ordinals>
                  <times: N | S <n> {<start: N | S <n> ints> <end: N | S <n> ints>}>`
results of predicates are one character each: `0`, `1`, or the error letter of `errChar`.
-/
import SpiceEv.Wire
import SpiceEv.Model.Util
namespace SpiceEv.Cmd.Util
open SpiceEv

def pDateTime : P DateTime := do
  let o ← P.int; let us ← P.int; let off ← P.opt P.int
  pure (DateTime.ofParts o us off)

def pSeason : P Season := do
  let a ← P.int; let b ← P.int
  let w ← P.opt (P.list (do
    let name ← P.tok
    let ws ← P.list (do let x ← P.int; let y ← P.int; pure (x, y))
    pure (name, ws)))
  pure { start := a, stop := b, windows := w }

def pCoreWindow : P CoreWindow := do
  let s ← P.opt (P.list P.int); let e ← P.opt (P.list P.int)
  pure { start := s, stop := e }

def pCore : P (Option CoreStandingTime) := P.opt (do
  let nd ← P.opt (P.list P.int)
  let hol ← P.opt (P.list P.int)
  let times ← P.opt (P.list pCoreWindow)
  pure { noDriveDays := nd, holidays := hol, times := times })

def errChar : PyErr → Char
  | .assertion => 'A' | .zeroDivision => 'Z' | .valueError => 'V' | .keyError => 'K'
  | .indexError => 'I' | .typeError => 'T' | .overflow => 'O' | .runtime => 'R'
  | .exception => 'E' | .noneResult => 'N' | .fuel => 'F'

def bitChar (b : Bool) : Char := if b then '1' else '0'
def pyBitChar : Py Bool → Char
  | .ok b => bitChar b
  | .error e => errChar e

/-- `window <level> <#seasons> seasons… <#dts> dts…` → one character per datetime -/
def cmdWindow : P String := do
  let level ← P.tok
  let seasons ← P.list pSeason
  let dts ← P.list pDateTime
  pure (String.ofList ('w' :: dts.map (fun dt => bitChar (datetimeWithinTimeWindow dt seasons level))))

/-- `core <core> <#dts> dts…` → one character per datetime -/
def cmdCore : P String := do
  let cst ← pCore
  let dts ← P.list pDateTime
  pure (String.ofList ('c' :: dts.map (fun dt => pyBitChar (dtWithinCoreStandingTime dt cst))))

/-- `series <#operators> {<name> <#seasons> seasons…} <operator> <level> <start dt> <stop dt> <interval µs>`
    → `<length> s<bits>` or `!Error`; the fuel is `seriesLength` (proved sufficient for interval > 0) -/
def cmdSeries : P String := do
  let file ← P.list (do let name ← P.tok; let ss ← P.list pSeason; pure (name, ss))
  let op ← P.tok; let level ← P.tok
  let start ← pDateTime; let stop ← pDateTime; let interval ← P.int
  let r := getTimeWindowsFromJson file op level start stop interval (seriesLength start stop interval)
  pure (renderPy (fun l => s!"{l.length} " ++ String.ofList ('s' :: l.map bitChar)) r)

/-- `toend <cur dt> <core>` → `<duration µs>` or `!Error` (`!FUEL` = the scan does not end) -/
def cmdToEnd : P String := do
  let cur ← pDateTime
  let cst ← pCore
  pure (renderPy (fun (d : Int) => toString d) (dtToEndOfTimeWindow cur cst (dtToEndFuel cur cst)))

/-- `dtparts <dt> <timedelta µs>` → `date time weekday | date time weekday` of `dt` and `dt + td`
    (adapter self-check: the model's reading of a datetime against Python's) -/
def cmdDtParts : P String := do
  let dt ← pDateTime; let td ← P.int
  let f (d : DateTime) : String := s!"{d.date} {d.time} {d.weekday}"
  pure (f dt ++ " | " ++ f (dt.add td))

def handlers : List (String × Handler) :=
  [("window", runP cmdWindow), ("core", runP cmdCore), ("series", runP cmdSeries),
   ("toend", runP cmdToEnd), ("dtparts", runP cmdDtParts)]

end SpiceEv.Cmd.Util
