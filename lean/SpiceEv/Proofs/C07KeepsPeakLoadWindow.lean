/-
C07 — frame of `peak_load_window`'s own step (model: Model/StratPeakLoadWindow.lean, namespace `SpiceEv.PeakLoadWindow`)
with respect to the state that events set on a grid connector, and the exact statement of what it WRITES there.

(a) kept (`PInv`, Proofs/C07Keeps.lean): id, `cur_max_power`, `cost` and the non-station / non-battery entries of
    `current_loads` of the wrapped `GcS`, the operator and the voltage level of every connector, for `step_gc`
    (`stepGc_inv`) and the whole `step` (`step_inv`), for ALL inputs, no extra hypotheses.
(b) written: `gc.window` (an attribute `GridOperatorSignal` events also set) is OVERWRITTEN by every `step_gc`
    call with the time-window predicate of the present step (`stepGc_window`, `step_window_own`, `step_window`);
    the concrete witness at the end shows an event-set `window = True` that does not survive the step.
    (`peak` — the strategy's own `self.peak_power` entry — is written as well; it is not event-set state.)

Typeclass context of every theorem of the section: the plain operations of the model's own section
(`[Add α] [Sub α] [Mul α] [Div α] [Neg α] [LT α] [LE α] [DecidableLT α] [DecidableLE α] [OfNat α 0] [OfNat α 1]
[NatCast α] [IntCast α]`), NO algebraic / order axioms.  `Proofs/StratPeakLoadWindow.lean` is imported only for the toy
world of the witness (`toyOps`, `exEnv`).

Data flow covered: `planVehicles` (only: every planned vehicle's station is a station of the world),
`chargeVehicles` (accumulator world + connector record, `gc.addLoad csId p` under a station name), the `applyBattery`
fold (`gc.addLoad b.id _` under a battery name), `done.foldl setBattery`, the final `setGc`, `step`'s fold.
`gatherVehicles`, `windowScan`, `buildTimesteps`, `planVehicle` and its passes, `planBattery` compute numbers / plans on
copies and need no lemma.
-/
import SpiceEv.Proofs.C07Keeps
import SpiceEv.Proofs.StratPeakLoadWindow
set_option linter.unusedSectionVars false
set_option linter.unusedSimpArgs false
set_option linter.unusedVariables false
namespace SpiceEv.Keeps.PeakLoadWindow
open SpiceEv SpiceEv.PeakLoadWindow

variable {α B : Type}

theorem bindOk {β γ : Type} {r : Py β} {f : β → Py γ} {y : γ} (h : (r >>= f) = .ok y) :
    ∃ x, r = .ok x ∧ f x = .ok y := by
  cases r with
  | error e => simp [bind, Except.bind] at h
  | ok x => exact ⟨x, rfl, by simpa [bind, Except.bind] using h⟩

variable {S : String → Bool} {gcs0 : List (GcS α)} {ol0 : List (String × String × Option String)}

/-! ### the primitive updates of a `PWorld` -/

theorem map_gc_setGc (gcs : List (PGc α)) (g' : PGc α) :
    (gcs.map (fun x => if x.gc.id == g'.gc.id then g' else x)).map (·.gc)
      = (gcs.map (·.gc)).map (fun x => if x.id == g'.gc.id then g'.gc else x) := by
  rw [List.map_map, List.map_map]
  apply List.map_congr_left
  intro x _
  simp only [Function.comp]
  split <;> rfl

theorem _root_.SpiceEv.Keeps.PInv.setGc {w : PWorld α B} (h : PInv S gcs0 ol0 w) (g' : PGc α)
    (hk : gcKey S g'.gc ∈ gcs0.map (gcKey S)) (hol : (g'.gc.id, g'.operator, g'.level) ∈ ol0) :
    PInv S gcs0 ol0 (w.setGc g') := by
  refine ⟨⟨?_, ?_⟩, ?_, h.st, h.bat⟩
  · show ((w.gcs.map (fun x => if x.gc.id == g'.gc.id then g' else x)).map (·.gc)).map (·.id) = _
    rw [map_gc_setGc]
    exact (ids_setGc_list _ g'.gc).trans h.keeps.ids
  · intro g hg
    change g ∈ (w.gcs.map (fun x => if x.gc.id == g'.gc.id then g' else x)).map (·.gc) at hg
    rw [map_gc_setGc] at hg
    obtain ⟨x, hx, rfl⟩ := List.mem_map.mp hg
    split
    · exact hk
    · exact h.keeps.attrs x hx
  · intro g hg
    change g ∈ w.gcs.map (fun x => if x.gc.id == g'.gc.id then g' else x) at hg
    obtain ⟨x, hx, rfl⟩ := List.mem_map.mp hg
    split
    · exact hol
    · exact h.opLevel x hx

theorem _root_.SpiceEv.Keeps.PInv.setVehicle {w : PWorld α B} (h : PInv S gcs0 ol0 w) (v : PVeh α B) :
    PInv S gcs0 ol0 (w.setVehicle v) := ⟨h.keeps, h.opLevel, h.st, h.bat⟩

theorem _root_.SpiceEv.Keeps.PInv.setBattery {w : PWorld α B} (h : PInv S gcs0 ol0 w) (b' : StatBatS α B) (hb : S b'.id = true) :
    PInv S gcs0 ol0 (w.setBattery b') := by
  refine ⟨h.keeps, h.opLevel, h.st, ?_⟩
  intro b hm
  change b ∈ w.batteries.map (fun x => if x.id == b'.id then b' else x) at hm
  obtain ⟨x, hx, rfl⟩ := List.mem_map.mp hm
  split
  · exact hb
  · exact h.bat x hx

theorem _root_.SpiceEv.Keeps.PInv.key_of_mem {w : PWorld α B} (h : PInv S gcs0 ol0 w) {g : PGc α} (hg : g ∈ w.gcs) :
    gcKey S g.gc ∈ gcs0.map (gcKey S) :=
  h.keeps.attrs g.gc (List.mem_map.mpr ⟨g, hg, rfl⟩)

theorem _root_.SpiceEv.Keeps.PInv.S_of_station? {w : PWorld α B} (h : PInv S gcs0 ol0 w) {id : String} {cs : StationS α}
    (hs : w.station? id = some cs) : S id = true := by
  have h1 := h.st cs (mem_of_find? hs)
  have h2 : cs.id = id := id_of_find? (idf := fun (x : StationS α) => x.id) hs
  rw [← h2]; exact h1

theorem foldl_setBattery_gcs (done : List (StatBatS α B)) :
    ∀ w : PWorld α B, (done.foldl (fun w b => w.setBattery b) w).gcs = w.gcs := by
  induction done with
  | nil => intro w; rfl
  | cons b rest ih => intro w; simp only [List.foldl_cons]; rw [ih]; rfl

theorem foldl_setBattery_inv (done : List (StatBatS α B)) :
    ∀ w : PWorld α B, PInv S gcs0 ol0 w → (∀ b ∈ done, S b.id = true) →
      PInv S gcs0 ol0 (done.foldl (fun w b => w.setBattery b) w) := by
  induction done with
  | nil => intro w h _; exact h
  | cons b rest ih =>
    intro w h hb
    simp only [List.foldl_cons]
    exact ih _ (h.setBattery b (hb b (by simp))) (fun b' hb' => hb b' (List.mem_cons_of_mem _ hb'))

/-- the initial invariant of a `PWorld`: relative to its own connectors, names = its station and battery ids -/
def psbName (w : PWorld α B) : String → Bool :=
  fun k => (w.stations.any (·.id == k)) || (w.batteries.any (·.id == k))

/-- (id, operator, voltage level) of the connectors of a world -/
def opLevels (w : PWorld α B) : List (String × String × Option String) :=
  w.gcs.map (fun g => (g.gc.id, g.operator, g.level))

theorem _root_.SpiceEv.Keeps.PInv.init (w : PWorld α B) : PInv (psbName w) (w.gcs.map (·.gc)) (opLevels w) w := by
  refine ⟨GcKeeps.refl _ _, fun g hg => List.mem_map.mpr ⟨g, hg, rfl⟩, fun s hs => ?_, fun b hb => ?_⟩
  · unfold psbName; rw [Bool.or_eq_true]; left
    exact List.any_eq_true.mpr ⟨s, hs, beq_self_eq_true _⟩
  · unfold psbName; rw [Bool.or_eq_true]; right
    exact List.any_eq_true.mpr ⟨b, hb, beq_self_eq_true _⟩

/-- the frame of ids, limits, costs, operators and levels alone -/
theorem _root_.SpiceEv.Keeps.PInv.initTrue (w : PWorld α B) : PInv (fun _ => true) (w.gcs.map (·.gc)) (opLevels w) w :=
  ⟨GcKeeps.refl _ _, fun g hg => List.mem_map.mpr ⟨g, hg, rfl⟩, fun _ _ => rfl, fun _ _ => rfl⟩

section
variable [Add α] [Sub α] [Mul α] [Div α] [Neg α] [LT α] [LE α]
  [DecidableLT α] [DecidableLE α] [OfNat α 0] [OfNat α 1] [NatCast α] [IntCast α]

theorem key_id {a b : GcS α} (h : gcKey S a = gcKey S b) : a.id = b.id := congrArg Prod.fst h

/-! ### the model functions -/

/-- every planned vehicle stands at a station of the world -/
theorem planVehicles_S (ops : BatOps α B) (env : PEnv α) (w : PWorld α B) (hi : PInv S gcs0 ol0 w) :
    ∀ (l : List (PVeh α B)) (ts : List (Ts α)) (peak : α) (r : List (PVeh α B × α) × List (Ts α) × α),
      planVehicles ops env w l ts peak = .ok r →
      ∀ q ∈ r.1, ∀ csId, q.1.v.cs = some csId → S csId = true := by
  intro l
  induction l with
  | nil =>
    intro ts peak r h
    simp only [planVehicles, Except.ok.injEq] at h
    subst h
    intro q hq
    cases hq
  | cons pv rest ih =>
    intro ts peak r h
    unfold planVehicles at h
    split at h
    · cases h
    · rename_i csId hcs
      split at h
      · cases h
      · rename_i cs hst
        obtain ⟨x, hx, h⟩ := bindOk h
        obtain ⟨sched, ts', peak'⟩ := x
        dsimp only at h
        obtain ⟨y, hy, h⟩ := bindOk h
        obtain ⟨more, ts'', peak''⟩ := y
        simp only [Except.ok.injEq] at h
        subst h
        intro q hq c hc
        rcases List.mem_cons.mp hq with rfl | hq
        · simp only at hc
          rw [hcs] at hc
          cases hc
          exact hi.S_of_station? hst
        · exact ih _ _ _ hy q hq c hc

/-- the final vehicle loop: world and connector record of the accumulator keep the invariant -/
theorem chargeVehicles_keeps (ops : BatOps α B) :
    ∀ (plans : List (PVeh α B × α)) (surplus : α) (st st' : PWorld α B × GcS α × List (String × α)),
      PInv S gcs0 ol0 st.1 →
      (∀ q ∈ plans, ∀ csId, q.1.v.cs = some csId → S csId = true) →
      chargeVehicles ops plans surplus st = .ok st' →
      PInv S gcs0 ol0 st'.1 ∧ gcKey S st'.2.1 = gcKey S st.2.1 ∧ st'.1.gcs = st.1.gcs := by
  intro plans
  induction plans with
  | nil =>
    intro surplus st st' hi _ h
    simp only [chargeVehicles, Except.ok.injEq] at h
    subst h
    exact ⟨hi, rfl, rfl⟩
  | cons q rest ih =>
    intro surplus st st' hi hq h
    obtain ⟨pv, planned⟩ := q
    obtain ⟨w, gc, cmds⟩ := st
    unfold chargeVehicles at h
    split at h
    · cases h
    · rename_i csId hcs
      have hS : S csId = true := hq (pv, planned) (by simp) csId hcs
      obtain ⟨sched, _, h⟩ := bindOk h
      split at h
      · obtain ⟨x, hx, h⟩ := bindOk h
        obtain ⟨bat', p⟩ := x
        dsimp only at h
        obtain ⟨k1, k2, k4⟩ := ih _ _ _ (PInv.setVehicle hi _)
          (fun q' hq' => hq q' (List.mem_cons_of_mem _ hq')) h
        refine ⟨k1, ?_, ?_⟩
        · rw [k2]; exact gcKey_addLoad S gc csId p hS
        · rw [k4]; rfl
      · obtain ⟨k1, k2, k4⟩ := ih _ _ _ (PInv.setVehicle hi _)
          (fun q' hq' => hq q' (List.mem_cons_of_mem _ hq')) h
        exact ⟨k1, k2, by rw [k4]; rfl⟩

/-- the second battery loop, one battery -/
theorem applyBattery_keeps (ops : BatOps α B) (env : PEnv α) (info : List (String × α))
    (st st' : GcS α × List (String × α) × List (StatBatS α B)) (b : StatBatS α B) (hb : S b.id = true)
    (hd : ∀ b' ∈ st.2.2, S b'.id = true)
    (h : applyBattery ops env info st b = .ok st') :
    gcKey S st'.1 = gcKey S st.1 ∧ ∀ b' ∈ st'.2.2, S b'.id = true := by
  obtain ⟨gc, G, done⟩ := st
  have app : ∀ x : StatBatS α B, S x.id = true → ∀ b' ∈ done ++ [x], S b'.id = true := by
    intro x hx b' hb'
    rcases List.mem_append.mp hb' with hb' | hb'
    · exact hd b' hb'
    · simp only [List.mem_singleton] at hb'
      subst hb'; exact hx
  unfold applyBattery at h
  simp only at h
  split at h
  · cases h
  · split at h
    · split at h
      · obtain ⟨x, hx, h⟩ := bindOk h
        obtain ⟨bat', avg⟩ := x
        simp only [Except.ok.injEq] at h
        subst h
        exact ⟨gcKey_addLoad S gc b.id avg hb, app _ hb⟩
      · simp only [Except.ok.injEq] at h
        subst h
        exact ⟨rfl, app _ hb⟩
    · obtain ⟨x, hx, h⟩ := bindOk h
      obtain ⟨bat', avg⟩ := x
      simp only [Except.ok.injEq] at h
      subst h
      exact ⟨gcKey_addLoad S gc b.id (-avg) hb, app _ hb⟩

/-- the second battery loop -/
theorem applyBatteries_keeps (ops : BatOps α B) (env : PEnv α) (info : List (String × α))
    (bats : List (StatBatS α B)) (hb : ∀ b ∈ bats, S b.id = true)
    (st st' : GcS α × List (String × α) × List (StatBatS α B))
    (hd : ∀ b' ∈ st.2.2, S b'.id = true)
    (h : bats.foldlM (applyBattery ops env info) st = .ok st') :
    gcKey S st'.1 = gcKey S st.1 ∧ ∀ b' ∈ st'.2.2, S b'.id = true := by
  refine foldlM_inv_mem (applyBattery ops env info)
    (fun (s : GcS α × List (String × α) × List (StatBatS α B)) =>
      gcKey S s.1 = gcKey S st.1 ∧ ∀ b' ∈ s.2.2, S b'.id = true)
    bats ?_ st st' ⟨rfl, hd⟩ h
  intro s b s' hbm hs hf
  obtain ⟨k1, k3⟩ := applyBattery_keeps ops env info s s' b (hb b hbm) hs.2 hf
  exact ⟨k1.trans hs.1, k3⟩

/-- the shape of one `step_gc` call as far as the connector list is concerned: the world after it is some world
`w2` with the connector list of `w`, station / battery ids in `S`, in which the records with `g`'s id are replaced
by `g` with a new wrapped `GcS` (same key, same id), `window := some (predicate of the present step)` and a new
`peak` -/
theorem stepGc_shape (ops : BatOps α B) (env : PEnv α) (w w' : PWorld α B) (g : PGc α) (level : String)
    (cmds : List (String × α)) (hi : PInv S gcs0 ol0 w)
    (h : PeakLoadWindow.stepGc ops env w g level = .ok (w', cmds)) :
    ∃ seasons, env.windows.lookup g.operator = some seasons ∧
      ∃ (w2 : PWorld α B) (gc2 : GcS α) (peak : α), PInv S gcs0 ol0 w2 ∧ w2.gcs = w.gcs ∧
        gcKey S gc2 = gcKey S g.gc ∧
        w' = w2.setGc { g with gc := gc2, window := some (datetimeWithinTimeWindow env.now seasons level),
                               peak := peak } := by
  unfold stepGc at h
  simp only at h
  obtain ⟨r1, _, h⟩ := bindOk h
  obtain ⟨vehicles, maxStanding⟩ := r1
  obtain ⟨seasons, hseas, h⟩ := bindOk h
  have hlook : env.windows.lookup g.operator = some seasons := by
    split at hseas
    · cases hseas
    · rename_i s hs
      simp only [Except.ok.injEq] at hseas
      subst hseas; exact hs
  obtain ⟨r2, _, h⟩ := bindOk h
  obtain ⟨ahead, untilChange⟩ := r2
  obtain ⟨r3, hp, h⟩ := bindOk h
  obtain ⟨plans, timesteps, pk⟩ := r3
  obtain ⟨ts0, _, h⟩ := bindOk h
  obtain ⟨r4, hc, h⟩ := bindOk h
  obtain ⟨w1, gc1, cmds1⟩ := r4
  obtain ⟨r5, _, h⟩ := bindOk h
  obtain ⟨L1, info1⟩ := r5
  obtain ⟨r6, h6, h⟩ := bindOk h
  obtain ⟨gc2, gl2, done⟩ := r6
  simp only [Except.ok.injEq, Prod.mk.injEq] at h
  obtain ⟨rfl, rfl⟩ := h
  have hplans := planVehicles_S ops env w hi _ _ _ _ hp
  obtain ⟨i1, k1, g1⟩ := chargeVehicles_keeps ops plans _ (w, g.gc, []) (w1, gc1, cmds1) hi hplans hc
  simp only at i1 k1 g1
  obtain ⟨k2, d2⟩ := applyBatteries_keeps ops env info1 _
    (fun b hb => hi.bat b (List.mem_of_mem_filter hb)) (gc1, L1, []) (gc2, gl2, done)
    (fun b' hb' => by cases hb') h6
  simp only at k2 d2
  refine ⟨seasons, hlook, done.foldl (fun w b => w.setBattery b) w1, gc2, _, foldl_setBattery_inv done w1 i1 d2,
    by rw [foldl_setBattery_gcs, g1], k2.trans k1, rfl⟩

/-- **`step_gc` keeps** id, limit, cost, non-station entries, operator and level of every connector -/
theorem stepGc_inv (ops : BatOps α B) (env : PEnv α) (w w' : PWorld α B) (g : PGc α) (level : String)
    (cmds : List (String × α)) (hi : PInv S gcs0 ol0 w) (hg : g ∈ w.gcs)
    (h : PeakLoadWindow.stepGc ops env w g level = .ok (w', cmds)) : PInv S gcs0 ol0 w' := by
  obtain ⟨seasons, _, w2, gc2, peak, i2, _, k2, rfl⟩ := stepGc_shape ops env w w' g level cmds hi h
  refine i2.setGc _ (by show gcKey S gc2 ∈ _; rw [k2]; exact hi.key_of_mem hg) ?_
  show (gc2.id, g.operator, g.level) ∈ ol0
  rw [key_id k2]; exact hi.opLevel g hg

/-- the connectors of a `setGc` result -/
theorem mem_setGc {w : PWorld α B} {g1 g' : PGc α} (h : g' ∈ (w.setGc g1).gcs) :
    (g' = g1 ∧ ∃ x ∈ w.gcs, x.gc.id = g1.gc.id) ∨ (g' ∈ w.gcs ∧ g'.gc.id ≠ g1.gc.id) := by
  change g' ∈ w.gcs.map (fun x => if x.gc.id == g1.gc.id then g1 else x) at h
  obtain ⟨x, hx, e⟩ := List.mem_map.mp h
  split at e
  · rename_i hb
    exact Or.inl ⟨e.symm, x, hx, beq_iff_eq.mp hb⟩
  · rename_i hb
    subst e
    exact Or.inr ⟨hx, fun he => hb (beq_iff_eq.mpr he)⟩

/-- **what IS written**: after `step_gc` the connector's `window` is the time-window predicate of the present step
(whatever an event had set before) -/
theorem stepGc_window (ops : BatOps α B) (env : PEnv α) (w w' : PWorld α B) (g : PGc α) (level : String)
    (cmds : List (String × α)) (h : PeakLoadWindow.stepGc ops env w g level = .ok (w', cmds)) :
    ∃ seasons, env.windows.lookup g.operator = some seasons ∧
      ∀ g' ∈ w'.gcs, g'.gc.id = g.gc.id → g'.window = some (datetimeWithinTimeWindow env.now seasons level) := by
  obtain ⟨seasons, hl, w2, gc2, peak, _, _, k2, rfl⟩ :=
    stepGc_shape ops env w w' g level cmds (PInv.initTrue w) h
  refine ⟨seasons, hl, fun g' hg' hid => ?_⟩
  rcases mem_setGc hg' with ⟨rfl, _⟩ | ⟨_, hne⟩
  · rfl
  · exact absurd (hid.trans (key_id k2).symm) hne

/-- the other connectors are literally untouched by a `step_gc` call -/
theorem stepGc_other (ops : BatOps α B) (env : PEnv α) (w w' : PWorld α B) (g : PGc α) (level : String)
    (cmds : List (String × α)) (h : PeakLoadWindow.stepGc ops env w g level = .ok (w', cmds)) :
    ∀ g' ∈ w'.gcs, g'.gc.id ≠ g.gc.id → g' ∈ w.gcs := by
  obtain ⟨seasons, hl, w2, gc2, peak, _, g2, k2, rfl⟩ :=
    stepGc_shape ops env w w' g level cmds (PInv.initTrue w) h
  intro g' hg' hid
  rcases mem_setGc hg' with ⟨rfl, _⟩ | ⟨hm, _⟩
  · exact absurd (key_id k2) hid
  · rw [g2] at hm; exact hm

/-! ### the whole step -/

/-- the loop body of `step` -/
def stepBody (ops : BatOps α B) (env : PEnv α) (st : PWorld α B × List (String × α)) (g0 : PGc α) :
    Py (PWorld α B × List (String × α)) :=
  match st.1.gcs.find? (·.gc.id == g0.gc.id) with
  | none => .error .keyError
  | some g =>
    match g.level with
    | none => .error .assertion
    | some level => do
      let (w', cmds) ← stepGc ops env st.1 g level
      .ok (w', sdUpdate st.2 cmds)

theorem step_eq (ops : BatOps α B) (env : PEnv α) (w : PWorld α B) :
    PeakLoadWindow.step ops env w = w.gcs.foldlM (stepBody ops env) (w, []) := rfl

/-- one pass of `step`'s loop is one `step_gc` call on a connector of the world that carries the loop variable's id
and a voltage level -/
theorem stepBody_ok (ops : BatOps α B) (env : PEnv α) (st st' : PWorld α B × List (String × α)) (g0 : PGc α)
    (h : stepBody ops env st g0 = .ok st') :
    ∃ g ∈ st.1.gcs, g.gc.id = g0.gc.id ∧ ∃ level, g.level = some level ∧
      ∃ cmds, stepGc ops env st.1 g level = .ok (st'.1, cmds) := by
  unfold stepBody at h
  split at h
  · cases h
  · rename_i g hfind
    split at h
    · cases h
    · rename_i level hlev
      obtain ⟨r, hr, h⟩ := bindOk h
      obtain ⟨w1, c1⟩ := r
      simp only [Except.ok.injEq] at h
      subst h
      exact ⟨g, mem_of_find? hfind, id_of_find? (idf := fun (x : PGc α) => x.gc.id) hfind, level, hlev, c1, hr⟩

/-- **`step` keeps** id, limit, cost, non-station entries, operator and level of every connector -/
theorem step_inv (ops : BatOps α B) (env : PEnv α) (w w' : PWorld α B) (cmds : List (String × α))
    (hi : PInv S gcs0 ol0 w) (h : PeakLoadWindow.step ops env w = .ok (w', cmds)) : PInv S gcs0 ol0 w' := by
  rw [step_eq] at h
  refine foldlM_inv (stepBody ops env) (fun (st : PWorld α B × List (String × α)) => PInv S gcs0 ol0 st.1) ?_
    w.gcs (w, []) (w', cmds) hi h
  intro st g0 st' hst hf
  obtain ⟨g, hg, _, level, _, c1, hr⟩ := stepBody_ok ops env st st' g0 hf
  exact stepGc_inv ops env st.1 st'.1 g level c1 hst hg hr

/-- the frame of the whole step on the wrapped `GcS` records, relative to the world's own station / battery names -/
theorem step_keeps (ops : BatOps α B) (env : PEnv α) (w w' : PWorld α B) (cmds : List (String × α))
    (h : PeakLoadWindow.step ops env w = .ok (w', cmds)) :
    GcKeeps (psbName w) (w.gcs.map (·.gc)) (w'.gcs.map (·.gc)) :=
  (step_inv ops env w w' cmds (PInv.init w) h).keeps

/-- connector ids (and their order) are those before the step -/
theorem step_ids (ops : BatOps α B) (env : PEnv α) (w w' : PWorld α B) (cmds : List (String × α))
    (h : PeakLoadWindow.step ops env w = .ok (w', cmds)) :
    w'.gcs.map (·.gc.id) = w.gcs.map (·.gc.id) := by
  have := (step_inv ops env w w' cmds (PInv.initTrue w) h).keeps.ids
  rw [List.map_map, List.map_map] at this
  exact this

/-- a connector whose `window` is the time-window predicate of the present step for ITS operator and voltage level -/
def WinOK (env : PEnv α) (g' : PGc α) : Prop :=
  ∃ seasons level, env.windows.lookup g'.operator = some seasons ∧ g'.level = some level ∧
    g'.window = some (datetimeWithinTimeWindow env.now seasons level)

theorem stepBody_window (ops : BatOps α B) (env : PEnv α) (st st' : PWorld α B × List (String × α)) (g0 : PGc α)
    (done : List String) (hd : ∀ g' ∈ st.1.gcs, g'.gc.id ∈ done → WinOK env g')
    (h : stepBody ops env st g0 = .ok st') :
    ∀ g' ∈ st'.1.gcs, g'.gc.id ∈ g0.gc.id :: done → WinOK env g' := by
  obtain ⟨g, hg, hid0, level, hlev, c1, hr⟩ := stepBody_ok ops env st st' g0 h
  obtain ⟨seasons, hl, w2, gc2, peak, _, g2, k2, e⟩ :=
    stepGc_shape ops env st.1 st'.1 g level c1 (PInv.initTrue st.1) hr
  intro g' hg' hmem
  rw [e] at hg'
  rcases mem_setGc hg' with ⟨rfl, _⟩ | ⟨hm, hne⟩
  · exact ⟨seasons, level, hl, hlev, rfl⟩
  · rw [g2] at hm
    rcases List.mem_cons.mp hmem with he | he
    · exact absurd (he.trans (hid0.symm.trans (key_id k2).symm)) hne
    · exact hd g' hm he

theorem foldl_window (ops : BatOps α B) (env : PEnv α) :
    ∀ (l : List (PGc α)) (done : List String) (st st' : PWorld α B × List (String × α)),
      (∀ g' ∈ st.1.gcs, g'.gc.id ∈ done → WinOK env g') →
      l.foldlM (stepBody ops env) st = .ok st' →
      ∀ g' ∈ st'.1.gcs, (g'.gc.id ∈ done ∨ g'.gc.id ∈ l.map (·.gc.id)) → WinOK env g' := by
  intro l
  induction l with
  | nil =>
    intro done st st' hd h g' hg' hm
    simp only [List.foldlM_nil, pure, Except.pure, Except.ok.injEq] at h
    subst h
    rcases hm with hm | hm
    · exact hd g' hg' hm
    · cases hm
  | cons g0 rest ih =>
    intro done st st' hd h g' hg' hm
    simp only [List.foldlM_cons] at h
    obtain ⟨st1, h1, h2⟩ := bindOk h
    refine ih (g0.gc.id :: done) st1 st' (stepBody_window ops env st st1 g0 done hd h1) h2 g' hg' ?_
    rcases hm with hm | hm
    · exact Or.inl (List.mem_cons_of_mem _ hm)
    · simp only [List.map_cons, List.mem_cons] at hm
      rcases hm with hm | hm
      · exact Or.inl (by rw [hm]; exact List.mem_cons_self)
      · exact Or.inr hm

/-- **what IS written, whole step** (no hypothesis on the ids): after `step` EVERY connector's `window` is the
time-window predicate of the present step for its operator and voltage level — nothing of an event-set `window`
survives -/
theorem step_window_own (ops : BatOps α B) (env : PEnv α) (w w' : PWorld α B) (cmds : List (String × α))
    (h : PeakLoadWindow.step ops env w = .ok (w', cmds)) : ∀ g' ∈ w'.gcs, WinOK env g' := by
  intro g' hg'
  have hids := step_ids ops env w w' cmds h
  rw [step_eq] at h
  refine foldl_window ops env w.gcs [] (w, []) (w', cmds) (fun _ _ hm => by cases hm) h g' hg' (Or.inr ?_)
  rw [← hids]
  exact List.mem_map.mpr ⟨g', hg', rfl⟩

/-- **what IS written, whole step**, stated with the connector before the step: with distinct connector ids, the
connector `g'` after the step that carries the id of `g` has `g`'s operator and voltage level, the level is not `None`,
and its `window` is the time-window predicate of the present step for the seasons of that operator and that level -/
theorem step_window (ops : BatOps α B) (env : PEnv α) (w w' : PWorld α B) (cmds : List (String × α))
    (hnd : (w.gcs.map (·.gc.id)).Nodup) (h : PeakLoadWindow.step ops env w = .ok (w', cmds)) :
    ∀ g ∈ w.gcs, ∀ g' ∈ w'.gcs, g'.gc.id = g.gc.id →
      g'.operator = g.operator ∧ g'.level = g.level ∧
      ∃ seasons level, env.windows.lookup g.operator = some seasons ∧ g.level = some level ∧
        g'.window = some (datetimeWithinTimeWindow env.now seasons level) := by
  intro g hg g' hg' hid
  have hol := (step_inv ops env w w' cmds (PInv.initTrue w) h).opLevel g' hg'
  obtain ⟨x, hx, e⟩ := List.mem_map.mp hol
  simp only [Prod.mk.injEq] at e
  obtain ⟨e1, e2, e3⟩ := e
  have hxg : x = g := List.inj_on_of_nodup_map hnd hx hg (e1.trans hid)
  subst hxg
  obtain ⟨seasons, level, a1, a2, a3⟩ := step_window_own ops env w w' cmds h g' hg'
  exact ⟨e2.symm, e3.symm, seasons, level, by rw [e2]; exact a1, by rw [e3]; exact a2, a3⟩

end

/-! ### witness: an event-set `window` does not survive the strategy's step -/

/-- the `window` attributes of the connectors after a step -/
def windowsOf (r : Py (PWorld ℚ ℚ × List (String × ℚ))) : Option (List (Option Bool)) :=
  match r with
  | .ok (w, _) => some (w.gcs.map (·.window))
  | .error _ => none

/-- one connector `G` (operator "op", level MV, 2 kW fixed load) whose `window` attribute has been set to `win` (as a
`GridOperatorSignal` event with a `window` entry does: `connector.window = ev.window`); no stations, vehicles, batteries -/
def exWinWorld (win : Bool) : PWorld ℚ ℚ :=
  { gcs := [⟨⟨"G", 20, none, [("load", 2)]⟩, "op", some "MV", some win, 0⟩],
    stations := [], vehicles := [], batteries := [] }

/-- `exEnv`: peak-load window 02:00–04:00 for level MV.  At 00:00 an event-set `window = True` is overwritten with
`False`; at 02:00 an event-set `window = False` is overwritten with `True`. -/
example :
    windowsOf (PeakLoadWindow.step (toyOps 10 11) exEnv (exWinWorld true)) = some [some false] ∧
    windowsOf (PeakLoadWindow.step (toyOps 10 11) (exEnvAt 2) (exWinWorld false)) = some [some true] := by
  decide +kernel

end SpiceEv.Keeps.PeakLoadWindow
