"""FB3: a signal without max_power (e.g. a price signal) restores the rating in generate_individual_flex_band,
while Strategy.step keeps the operator limit in force"""
import sys, json, warnings
sys.path.insert(0, sys.argv[1] if len(sys.argv) > 1 else "/repo")
warnings.simplefilter("ignore")
from spice_ev import scenario, strategy
from spice_ev.generate import generate_schedule as gs
T = "2023-01-02T%02d:%02d:00+01:00"
sc = {"scenario": {"start_time": T % (8, 0), "interval": 15, "n_intervals": 6},
      "components": {
          "vehicle_types": {"t": {"name": "t", "capacity": 50, "mileage": 40, "charging_curve": [[0, 11], [1, 11]]}},
          "vehicles": {"v0": {"vehicle_type": "t", "soc": 0.2, "desired_soc": 1.0, "connected_charging_station": "CS0"}},
          "grid_connectors": {"GC1": {"max_power": 20, "cost": {"type": "fixed", "value": 0.3}}},
          "charging_stations": {"CS0": {"max_power": 11, "parent": "GC1"}}, "batteries": {}, "photovoltaics": {}},
      "events": {"fixed_load": {}, "local_generation": {}, "vehicle_events": [],
                 "grid_operator_signals": [
                     {"signal_time": T % (8, 0), "start_time": T % (8, 15), "grid_connector_id": "GC1", "max_power": 5},
                     {"signal_time": T % (8, 0), "start_time": T % (8, 45), "grid_connector_id": "GC1",
                      "cost": {"type": "fixed", "value": 0.1}}]}}
s = scenario.Scenario(json.loads(json.dumps(sc)), ".")
flex = gs.generate_individual_flex_band(s, "GC1")
print("individual band max :", flex["max"])
s = scenario.Scenario(json.loads(json.dumps(sc)), ".")
st = strategy.Strategy(s.components, s.start_time, interval=s.interval)
steps = s.events.get_event_steps(s.start_time, s.n_intervals, s.interval)
lim = []
for i in range(s.n_intervals):
    st.step(steps[i]); lim.append(st.world_state.grid_connectors["GC1"].cur_max_power)
print("Strategy.step limit :", lim)
