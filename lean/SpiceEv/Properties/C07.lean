/-
C07 — Events take effect at the right timestep and none is lost.

Property theorems only; helper lemmas are in SpiceEv/Proofs/EventsBasic.lean, Events.lean,
EventsConn.lean.  All statements are about the executable model (SpiceEv/Model/Events.lean,
SpiceEv/Model/StrategyBase.lean) — the definitions the driver runs against the real
`Events.get_event_steps` / `Strategy.step` — for arbitrary event lists, horizons and positive
intervals, over an arbitrary linearly ordered field of values.  Times are integer microseconds.

Vocabulary (defined in the proof files, all executable or decidable):
* `bucketOf start n Δ e`   bucket `get_event_steps` puts `e` in (`none` = ignored)
* `effectStep start n Δ e` `max (bucket e) ⌈(e.start − start)/Δ⌉`
* `sortByStart`            the stable sort of `Strategy.step`
* `dueList`/`pendingList`  events due in a step / signalled but not yet started
* `appliedLog trace j`     events applied in steps `0..j`, in application order
* `lastSet f init log`     value of an attribute after `log`: each event with `f e = some v` overwrites it
* `runLoop cfg rest roe`   the simulation loop of `Scenario.run`; `rest` stands for the strategy's own
                           action of a step and is only assumed not to touch clock and queue
                           (`KeepsQueue`) resp. the connector attributes (`KeepsConnectors`)
-/
import SpiceEv.Proofs.EventsConn
import Mathlib.Tactic.NormNum
set_option linter.unusedSectionVars false
set_option linter.unusedSimpArgs false
set_option linter.unusedVariables false
namespace SpiceEv
variable {α : Type} [Field α] [LinearOrder α] [IsStrictOrderedRing α]

/-- **Bucket index.**  For a positive interval `get_event_steps` never raises; the index it computes
is `⌈(signal − start)/Δ⌉`; an event lands in bucket `max 0 ⌈…⌉` if that is `< n` and is dropped
otherwise; bucket `k` holds exactly the events with that bucket, in the order of `all_events`;
the two warning counters count the negative resp. too large indices. -/
theorem C07_bucket (start : Int) (n : Nat) (Δ : Int) (hΔ : 0 < Δ) (hn : 0 < n)
    (all : List (Event α)) :
    getEventSteps start n Δ all = .ok ⟨bucketsOf start n Δ all, all.countP (isMoved start Δ),
      all.countP (isIgnored start n Δ)⟩ ∧
    (∀ k, k < n → (bucketsOf start n Δ all)[k]?
        = some (all.filter (fun e => bucketOf start n Δ e == some k))) ∧
    ∀ e : Event α,
      bucketIndex start e.signal Δ = ⌈((e.signal - start : Int) : ℚ) / (Δ : ℚ)⌉ ∧
      bucketOf start n Δ e =
        (if max 0 ⌈((e.signal - start : Int) : ℚ) / (Δ : ℚ)⌉ < n
          then some (max 0 ⌈((e.signal - start : Int) : ℚ) / (Δ : ℚ)⌉).toNat else none) := by
  refine ⟨getEventSteps_eq start n Δ hΔ hn all, fun k hk => bucketsOf_getElem? start n Δ all k hk, ?_⟩
  intro e
  have hc := bucketIndex_eq_ceil start e.signal Δ hΔ
  refine ⟨hc, ?_⟩
  rw [← hc]
  unfold bucketOf
  dsimp only
  split
  · rename_i h0
    have : max 0 (bucketIndex start e.signal Δ) = 0 := by omega
    rw [this]; simp [hn]
  · rename_i h0
    have : max 0 (bucketIndex start e.signal Δ) = bucketIndex start e.signal Δ := by omega
    rw [this]
    split
    · rename_i h1; simp [not_lt.mpr h1]
    · rename_i h1; simp [not_le.mp h1]

/-- error branch of `get_event_steps`: a zero interval raises `ZeroDivisionError` as soon as there
is an event -/
theorem C07_bucket_zero_interval (start : Int) (n : Nat) (e : Event α) (rest : List (Event α)) :
    getEventSteps start n 0 (e :: rest) = .error .zeroDivision := by
  simp [getEventSteps, List.foldlM, placeEvent, bind, Except.bind]

/-- **Effect step** (queue invariant of a run).  Run the loop of `Scenario.run` from a freshly
constructed strategy object on the buckets of `get_event_steps`.  The `j`-th executed base step has
clock `start + j·Δ`; the events it pops are a prefix of — and, if it raises no exception, exactly —
the stable sort by start time of the events handed over so far whose effect step is `j`; afterwards
`future_events` holds exactly the signalled, not yet started events, sorted by start (stable).
An event of `all_events` is due in step `j` iff its effect step is `j`; so every event is applied in
step `effectStep e` and in no other step. -/
theorem C07_effect_step (cfg : Cfg α) (start : Int) (n : Nat) (hΔ : 0 < cfg.interval) (hn : 0 < n)
    (w : World α) (conc : α) (s0 : Strat α) (hinit : Strat.init w start cfg.interval conc = .ok s0)
    (all : List (Event α)) (rest : Strat α → Strat α × Option PyErr) (roe : Strat α → Strat α)
    (hrest : KeepsQueue rest) (j : Nat) (r : StepResult α)
    (hr : (runLoop cfg rest roe s0 (bucketsOf start n cfg.interval all)).trace[j]? = some r) :
    let due := sortByStart ((((bucketsOf start n cfg.interval all).take (j + 1)).flatten).filter
        (fun e => effectStep start n cfg.interval e == some j))
    j < n ∧
    r.strat.now = start + (j : Int) * cfg.interval ∧
    r.popped <+: due ∧
    (r.err = none → r.popped = due ∧
      r.strat.world.queue = pendingList (start + (j : Int) * cfg.interval)
        (((bucketsOf start n cfg.interval all).take (j + 1)).flatten)) ∧
    ∀ e, e ∈ due ↔ e ∈ all ∧ effectStep start n cfg.interval e = some j := by
  intro due
  obtain ⟨i1, i2, -⟩ := init_spec w start cfg.interval conc s0 hinit
  have hjn : j < n := by
    have h1 := runLoop_trace_length cfg rest roe (bucketsOf start n cfg.interval all) s0
    have h2 : j < (runLoop cfg rest roe s0 (bucketsOf start n cfg.interval all)).trace.length := by
      by_contra hh
      rw [List.getElem?_eq_none (not_lt.mp hh)] at hr; cases hr
    have h3 : (bucketsOf start n cfg.interval all).length = n := by simp [bucketsOf]
    omega
  have hq : s0.world.queue = pendingList s0.now ([] : List (Event α)) := by
    rw [i2]; simp [pendingList, sortByStart]
  obtain ⟨d1, d2, d3⟩ := run_due cfg hΔ rest roe hrest (bucketsOf start n cfg.interval all) [] s0 hq j r hr
  have hnow : s0.now + ((j : Int) + 1) * cfg.interval = start + (j : Int) * cfg.interval := by
    rw [i1]; ring
  rw [hnow] at d1 d2 d3
  simp only [List.nil_append] at d2 d3
  have hdue := dueList_eq_filter start n cfg.interval hΔ hn all j hjn
  rw [hdue] at d2 d3
  refine ⟨hjn, d1, d2, d3, ?_⟩
  intro e
  show e ∈ sortByStart _ ↔ _
  rw [← hdue]
  exact mem_dueList_iff start n cfg.interval hΔ hn all j hjn e

/-- **Effect step, read as the property's sentence**: `effectStep e = some k` means that `k` is the
first simulation step at or after the event's start time and not before it was signalled. -/
theorem C07_effect_step_first (start : Int) (n : Nat) (Δ : Int) (hΔ : 0 < Δ) (e : Event α) (k : Nat)
    (h : effectStep start n Δ e = some k) :
    e.signal ≤ start + (k : Int) * Δ ∧ e.start ≤ start + (k : Int) * Δ ∧
    ∀ k' : Nat, k' < k → ¬ (e.signal ≤ start + (k' : Int) * Δ ∧ e.start ≤ start + (k' : Int) * Δ) :=
  effectStep_first start n Δ hΔ e k h

/-- **In force until superseded.**  After the `j`-th step of a run without exception so far, a
connector that exists in the scenario still exists, its rating is unchanged, and its cost, target,
window, limit and every fixed-load / generation entry (any name that is not a charging station or a
stationary battery) have the value set by the last event of the application log that set them
(the initial value if none did).  The log order is the one given by `C07_effect_step`: by step, inside
a step by start time, ties in hand-over order. -/
theorem C07_in_force (cfg : Cfg α) (s0 : Strat α) (B : List (List (Event α)))
    (rest : Strat α → Strat α × Option PyErr) (roe : Strat α → Strat α)
    (hrest : KeepsConnectors rest) (j : Nat) (r : StepResult α)
    (hr : (runLoop cfg rest roe s0 B).trace[j]? = some r) (herr : r.err = none)
    (g : String) (c0 : Connector α) (hc0 : alGet? g s0.world.connectors = some c0) :
    let log := appliedLog (runLoop cfg rest roe s0 B).trace j
    ∃ c, alGet? g r.strat.world.connectors = some c ∧
      c.maxPower = c0.maxPower ∧
      c.cost = lastSet (Event.setsCost g) c0.cost log ∧
      c.target = lastSet (Event.setsTarget g) c0.target log ∧
      c.window = lastSet (Event.setsWindow g) c0.window log ∧
      c.curMaxPower = lastSet (Event.setsLimit g c0.maxPower) c0.curMaxPower log ∧
      ∀ nm, isSBof s0 nm = false →
        alGet? nm c.loads = lastSet (Event.setsLoad g nm) (alGet? nm c0.loads) log := by
  intro log
  have hinv : ∀ g, optRel (ConnSame (isSBof s0))
      ((alGet? g s0.world.connectors).map (fun c => ([] : List (Event α)).foldl (Connector.afterEvent g) c))
      (alGet? g s0.world.connectors) := by
    intro g; simp only [List.foldl_nil, Option.map_id']
    exact optRel_refl (ConnSame.refl _) _
  have h := run_connectors cfg rest roe hrest s0.world.connectors (isSBof s0) B s0 [] rfl hinv j r hr herr g
  rw [hc0] at h
  simp only [Option.map_some, List.nil_append] at h
  cases hc : alGet? g r.strat.world.connectors with
  | none => rw [hc] at h; simp [optRel] at h
  | some c =>
    rw [hc] at h
    simp only [optRel] at h
    obtain ⟨a1, a2, a3, a4, a5, a6⟩ := foldl_afterEvent_attrs g c0 log
    refine ⟨c, rfl, h.maxPower.trans a1, h.cost.trans a2, h.target.trans a3, h.window.trans a4,
      h.curMaxPower.trans a5, ?_⟩
    intro nm hnm
    rw [h.loads nm hnm, a6 nm]

/-- **Series tail.**  `EnergyValuesList.get_events` yields one event per value plus a final event
at `start + len·d` whose value is exactly `0` (for every factor); with `d ≥ 0` no event of the
series starts later, and with `d > 0` every other one starts strictly earlier.  So the tail is the
chronologically last setter of the series. -/
theorem C07_series_tail (l : ValuesList α) (name : String) (gen fs : Bool) :
    let tail := l.eventAt name gen fs l.values.length 0
    l.getEvents name gen fs = l.eventsFrom name gen fs 0 l.values ++ [tail] ∧
    tail.start = l.start + l.stepUs * (l.values.length : Int) ∧
    tail.kind = (if gen then .localGen name l.gc 0 else .fixedLoad name l.gc 0) ∧
    tail.setsLoad l.gc name = some (some 0) ∧
    (∀ e ∈ l.eventsFrom name gen fs 0 l.values,
      (0 ≤ l.stepUs → e.start ≤ tail.start) ∧ (0 < l.stepUs → e.start < tail.start)) := by
  intro tail
  refine ⟨?_, rfl, ?_, ?_, ?_⟩
  · unfold ValuesList.getEvents
    rw [eventsFrom_append]
    simp [ValuesList.eventsFrom, tail]
  · simp only [tail, ValuesList.eventAt, zero_mul]
  · simp only [tail, ValuesList.eventAt, zero_mul, Event.setsLoad]
    cases gen <;> simp
  · intro e he
    obtain ⟨k, v, -, h2, rfl⟩ := mem_eventsFrom l name gen fs 0 l.values e he
    simp only [zero_add] at h2
    have hk : (k : Int) < (l.values.length : Int) := by exact_mod_cast h2
    simp only [tail, ValuesList.eventAt]
    constructor
    · intro hd; nlinarith
    · intro hd; nlinarith

/-- **Series tail in force.**  Once the tail event of a series has been applied and no later event
of the log sets the same entry, the entry reads `0` (generation: `−0 = 0`). -/
theorem C07_series_tail_in_force (g nm : String) (init : Option α) (pre post : List (Event α))
    (tail : Event α) (ht : tail.setsLoad g nm = some (some 0))
    (hpost : ∀ e ∈ post, e.setsLoad g nm = none) :
    lastSet (Event.setsLoad g nm) init (pre ++ tail :: post) = some 0 := by
  unfold lastSet
  rw [List.foldl_append, List.foldl_cons, ht]
  simp only [Option.getD_some]
  induction post with
  | nil => rfl
  | cons e post ih =>
    rw [List.foldl_cons, hpost e (by simp)]
    exact ih (fun e' he' => hpost e' (by simp [he']))

/-- **Past events.**  Everything signalled at or before the simulation start lands in bucket 0;
in the first step exactly the events signalled *and* starting at or before the simulation start are
applied, in chronological (start time) order, ties in the order of `all_events`. -/
theorem C07_past_events (cfg : Cfg α) (start : Int) (n : Nat) (hΔ : 0 < cfg.interval) (hn : 0 < n)
    (w : World α) (conc : α) (s0 : Strat α) (hinit : Strat.init w start cfg.interval conc = .ok s0)
    (all : List (Event α)) (rest : Strat α → Strat α × Option PyErr) (roe : Strat α → Strat α)
    (hrest : KeepsQueue rest) (r : StepResult α)
    (hr : (runLoop cfg rest roe s0 (bucketsOf start n cfg.interval all)).trace[0]? = some r)
    (herr : r.err = none) :
    (∀ e : Event α, e.signal ≤ start → bucketOf start n cfg.interval e = some 0) ∧
    r.popped = sortByStart (all.filter (fun e => decide (e.signal ≤ start) && decide (e.start ≤ start))) ∧
    r.popped.Pairwise (fun a b => a.start ≤ b.start) := by
  obtain ⟨-, -, -, h4, -⟩ := C07_effect_step cfg start n hΔ hn w conc s0 hinit all rest roe hrest 0 r hr
  have hz : ∀ e : Event α, effectStep start n cfg.interval e = some 0 ↔
      e.signal ≤ start ∧ e.start ≤ start := by
    intro e
    constructor
    · intro h
      obtain ⟨t1, t2, -⟩ := effectStep_first start n cfg.interval hΔ e 0 h
      simp only [Nat.cast_zero, zero_mul, add_zero] at t1 t2
      exact ⟨t1, t2⟩
    · rintro ⟨h1, h2⟩
      have b1 : bucketIndex start e.signal cfg.interval ≤ 0 :=
        (le_bucketIndex_iff start e.signal cfg.interval 0 hΔ).mpr (by simpa using h1)
      have b2 : startIndex start cfg.interval e ≤ 0 :=
        (start_le_iff start cfg.interval hΔ e 0).mp (by simpa using h2)
      unfold effectStep bucketOf
      dsimp only
      split
      · simp; omega
      · split
        · omega
        · simp; omega
  have hb0 : ∀ e : Event α, e.signal ≤ start → bucketOf start n cfg.interval e = some 0 := by
    intro e h1
    have b1 : bucketIndex start e.signal cfg.interval ≤ 0 :=
      (le_bucketIndex_iff start e.signal cfg.interval 0 hΔ).mpr (by simpa using h1)
    unfold bucketOf
    dsimp only
    split
    · rfl
    · split
      · omega
      · simp; omega
  obtain ⟨h5, -⟩ := h4 herr
  have hlist : (((bucketsOf start n cfg.interval all).take (0 + 1)).flatten).filter
        (fun e => effectStep start n cfg.interval e == some 0)
      = all.filter (fun e => decide (e.signal ≤ start) && decide (e.start ≤ start)) := by
    have : ((bucketsOf start n cfg.interval all).take (0 + 1)).flatten
        = all.filter (fun e => bucketOf start n cfg.interval e == some 0) := by
      have h0 := bucketsOf_getElem? start n cfg.interval all 0 hn
      have hlen : 0 < (bucketsOf start n cfg.interval all).length := by simp [bucketsOf, hn]
      rw [List.take_add_one]
      simp [h0]
    rw [this, List.filter_filter]
    apply List.filter_congr
    intro e _
    rw [Bool.eq_iff_iff]
    simp only [Bool.and_eq_true, beq_iff_eq, decide_eq_true_eq]
    rw [hz e]
    constructor
    · exact fun h => h.1
    · intro h; exact ⟨h, hb0 e h.1⟩
  refine ⟨hb0, ?_, ?_⟩
  · rw [h5, hlist]
  · rw [h5]
    exact keySorted_mergeSort Event.start _

/-- **Only events after the end are ignored.**  An event of `all_events` is in some bucket iff it is
signalled at or before the last simulation step `start + (n−1)·Δ`; the `ignored` counter counts the
others; bucketing neither duplicates nor reorders (each bucket is a filter of `all_events`). -/
theorem C07_ignored (start : Int) (n : Nat) (Δ : Int) (hΔ : 0 < Δ) (hn : 0 < n)
    (all : List (Event α)) (e : Event α) :
    (e ∈ (bucketsOf start n Δ all).flatten ↔ e ∈ all ∧ e.signal ≤ start + ((n : Int) - 1) * Δ) ∧
    (isIgnored start n Δ e = true ↔ start + ((n : Int) - 1) * Δ < e.signal) ∧
    (bucketOf start n Δ e = none ↔ start + ((n : Int) - 1) * Δ < e.signal) := by
  have key : start + ((n : Int) - 1) * Δ < e.signal ↔ (n : Int) ≤ bucketIndex start e.signal Δ := by
    rw [← not_le, ← le_bucketIndex_iff start e.signal Δ _ hΔ]; omega
  have hnone : bucketOf start n Δ e = none ↔ start + ((n : Int) - 1) * Δ < e.signal := by
    rw [key]; unfold bucketOf; dsimp only
    split
    · simp; omega
    · split <;> simp <;> omega
  refine ⟨?_, ?_, hnone⟩
  · have hlen : (bucketsOf start n Δ all).length = n := by simp [bucketsOf]
    have := mem_take_flatten_bucketsOf start n Δ hn all n e
    rw [List.take_of_length_le (by omega)] at this
    rw [this, ← not_lt, ← hnone]
    constructor
    · rintro ⟨h1, k, -, hk⟩; exact ⟨h1, by rw [hk]; simp⟩
    · rintro ⟨h1, h2⟩
      cases hb : bucketOf start n Δ e with
      | none => exact absurd hb h2
      | some k => exact ⟨h1, k, bucketOf_lt start n Δ hn e k hb, rfl⟩
  · rw [key]; unfold isIgnored
    simp only [Bool.and_eq_true, Bool.not_eq_true', decide_eq_false_iff_not, decide_eq_true_eq]
    constructor
    · exact fun h => h.2
    · intro h; exact ⟨by omega, h⟩

/-- **A limit can lower but never raise the rating** (set rating).  One signal on a connector whose
rating is set (non-zero): the limit in force becomes `min rating ℓ` if the signal carries a limit `ℓ`
and stays what it was otherwise; the rating itself is never changed.  Over a whole run: the limit in
force is always defined and never exceeds the rating. -/
theorem C07_limit_lower_only (cfg : Cfg α) (s0 : Strat α) (B : List (List (Event α)))
    (rest : Strat α → Strat α × Option PyErr) (roe : Strat α → Strat α)
    (hrest : KeepsConnectors rest) (j : Nat) (r : StepResult α)
    (hr : (runLoop cfg rest roe s0 B).trace[j]? = some r) (herr : r.err = none)
    (g : String) (c0 : Connector α) (hc0 : alGet? g s0.world.connectors = some c0)
    (hrating : c0.maxPower ≠ 0) (hnew : c0.curMaxPower = some c0.maxPower) :
    (∀ (c : Connector α) (ℓ : α) (cost : Option (Cost α)) (t : Option α) (win : Option Bool),
      c.maxPower ≠ 0 →
      (c.applySignal (some ℓ) cost t win).curMaxPower = some (min c.maxPower ℓ) ∧
      (c.applySignal none cost t win).curMaxPower = c.curMaxPower ∧
      (c.applySignal (some ℓ) cost t win).maxPower = c.maxPower) ∧
    ∃ c y, alGet? g r.strat.world.connectors = some c ∧ c.maxPower = c0.maxPower ∧
      c.curMaxPower = some y ∧ y ≤ c0.maxPower := by
  constructor
  · intro c ℓ cost t win hc
    rw [applySignal_curMaxPower, applySignal_curMaxPower, applySignal_maxPower]
    simp [hc]
  · obtain ⟨c, h1, h2, -, -, -, h6, -⟩ := C07_in_force cfg s0 B rest roe hrest j r hr herr g c0 hc0
    rw [hnew] at h6
    obtain ⟨y, hy1, hy2⟩ := lastSet_limit_le g c0.maxPower hrating
      (appliedLog (runLoop cfg rest roe s0 B).trace j) c0.maxPower (le_refl _)
    exact ⟨c, y, h1, h2, h6.trans hy1, hy2⟩

/-- **Unset rating** (`max_power` falsy, i.e. `0`): the code then takes the signal's limit as it is —
including "no limit" (`None`).  This is the reading of "unset" fixed in DESIGN §5; the statement
"never raises the rating" is not made for such a connector. -/
theorem C07_limit_unset_rating (c : Connector α) (hc : c.maxPower = 0) (mp : Option α)
    (cost : Option (Cost α)) (t : Option α) (win : Option Bool) :
    (c.applySignal mp cost t win).curMaxPower = mp := by
  rw [applySignal_curMaxPower]; simp [hc]

/-- **Series tail, run level.**  Take a run without exception up to step `j`, fed by
`get_event_steps` on an `all_events` list that contains the events of one series (positive step
length `d`) and otherwise no event writing the same load entry.  If the step's clock has reached
`start + len·d`, the entry reads exactly `0`. -/
theorem C07_series_tail_run (cfg : Cfg α) (start : Int) (n : Nat) (hΔ : 0 < cfg.interval) (hn : 0 < n)
    (w : World α) (conc : α) (s0 : Strat α) (hinit : Strat.init w start cfg.interval conc = .ok s0)
    (rest : Strat α → Strat α × Option PyErr) (roe : Strat α → Strat α) (hrest : KeepsConnectors rest)
    (l : ValuesList α) (name : String) (gen fs : Bool) (hd : 0 < l.stepUs)
    (pre post : List (Event α))
    (hother : ∀ e ∈ pre ++ post, e.setsLoad l.gc name = none)
    (c0 : Connector α) (hc0 : alGet? l.gc s0.world.connectors = some c0) (hnm : isSBof s0 name = false)
    (j : Nat) (r : StepResult α)
    (hr : (runLoop cfg rest roe s0
      (bucketsOf start n cfg.interval (pre ++ l.getEvents name gen fs ++ post))).trace[j]? = some r)
    (herr : r.err = none)
    (hT : l.start + l.stepUs * (l.values.length : Int) ≤ start + (j : Int) * cfg.interval) :
    ∃ c, alGet? l.gc r.strat.world.connectors = some c ∧ alGet? name c.loads = some 0 := by
  set all := pre ++ l.getEvents name gen fs ++ post with hall
  set B := bucketsOf start n cfg.interval all with hB
  set tr := (runLoop cfg rest roe s0 B).trace with htrace
  set f : Event α → Option (Option α) := Event.setsLoad l.gc name with hf
  have hkq := keepsQueue_of_keepsConnectors rest hrest
  obtain ⟨t1, t2, t3, t4, t5⟩ := C07_series_tail l name gen fs
  set tail := l.eventAt name gen fs l.values.length 0 with htail
  -- facts about every executed step i ≤ j
  have hjlen : j < tr.length := by
    by_contra hh; rw [List.getElem?_eq_none (not_lt.mp hh)] at hr; cases hr
  have hstep : ∀ i (hi : i ≤ j), ∃ ri, tr[i]? = some ri ∧ ri.err = none ∧
      KeySorted Event.start ri.popped ∧
      ∀ e, e ∈ ri.popped ↔ e ∈ all ∧ effectStep start n cfg.interval e = some i := by
    intro i hi
    have hil : i < tr.length := by omega
    refine ⟨tr[i], List.getElem?_eq_getElem hil, ?_⟩
    have hri : tr[i]? = some tr[i] := List.getElem?_eq_getElem hil
    have herr_i : tr[i].err = none := by
      rcases Nat.lt_or_eq_of_le hi with h | h
      · exact runLoop_earlier_ok cfg rest roe B s0 j r hr i tr[i] h hri
      · subst h; rw [hri] at hr; cases hr; exact herr
    obtain ⟨-, -, -, e4, e5⟩ := C07_effect_step cfg start n hΔ hn w conc s0 hinit all rest roe hkq i tr[i] hri
    obtain ⟨e6, -⟩ := e4 herr_i
    refine ⟨herr_i, ?_, ?_⟩
    · rw [e6]; exact keySorted_mergeSort Event.start _
    · intro e; rw [e6]; exact e5 e
  have hjn : j < n := (C07_effect_step cfg start n hΔ hn w conc s0 hinit all rest roe hkq j r hr).1
  -- classification of the writers among `all`
  have hsig_tail : tail.signal ≤ tail.start := by
    simp only [htail, ValuesList.eventAt]
    split
    · have : (0 : Int) ≤ (l.values.length : Int) := Int.natCast_nonneg _
      nlinarith
    · exact le_refl _
  have hclass : ∀ e ∈ all, f e = none ∨ f e = some (some 0) ∨
      (e.start < tail.start ∧ e.signal ≤ tail.signal ∧ e ∈ l.eventsFrom name gen fs 0 l.values) := by
    intro e he
    rw [hall, List.mem_append, List.mem_append] at he
    rcases he with (he | he) | he
    · left; exact hother e (by simp [he])
    · rw [t1] at he
      rcases List.mem_append.mp he with he' | he'
      · right; right
        refine ⟨(t5 e he').2 hd, ?_, he'⟩
        obtain ⟨k, v, -, h2, rfl⟩ := mem_eventsFrom l name gen fs 0 l.values e he'
        simp only [zero_add] at h2
        have hk : (k : Int) < (l.values.length : Int) := by exact_mod_cast h2
        simp only [htail, ValuesList.eventAt]
        split
        · exact le_refl _
        · nlinarith
      · simp at he'; subst he'; right; left; exact t4
    · left; exact hother e (by simp [he])
  -- the tail takes effect in some step k ≤ j
  have htail_all : tail ∈ all := by
    rw [hall, t1]; simp
  obtain ⟨k, hkj, hk⟩ := effectStep_le start n cfg.interval hΔ tail j hjn
    (le_trans hsig_tail (by rw [t2]; exact hT)) (by rw [t2]; exact hT)
  obtain ⟨g1, g2, -⟩ := effectStep_first start n cfg.interval hΔ tail k hk
  obtain ⟨rk, hrk, -, hsorted_k, hmem_k⟩ := hstep k hkj
  have hkl : k < tr.length := by omega
  have hrk' : rk = tr[k] := by
    rw [List.getElem?_eq_getElem hkl] at hrk; cases hrk; rfl
  -- split the log at step k
  have hlog : appliedLog tr j =
      ((tr.take (j + 1)).take k).flatMap (·.popped) ++ (rk.popped ++
        ((tr.take (j + 1)).drop (k + 1)).flatMap (·.popped)) := by
    unfold appliedLog
    have hk2 : k < (tr.take (j + 1)).length := by simp; omega
    conv_lhs => rw [← List.take_append_drop k (tr.take (j + 1))]
    rw [List.flatMap_append, List.drop_eq_getElem_cons hk2, List.flatMap_cons]
    congr 2
    rw [hrk']; simp
  -- after step k nobody writes the entry any more
  have hlater : ∀ e ∈ ((tr.take (j + 1)).drop (k + 1)).flatMap (·.popped), f e = none := by
    intro e he
    obtain ⟨r', hr', her'⟩ := List.mem_flatMap.mp he
    obtain ⟨i, hi, rfl⟩ := List.mem_iff_getElem.mp hr'
    simp only [List.length_drop, List.length_take] at hi
    rw [List.getElem_drop, List.getElem_take] at her'
    have hij : k + 1 + i ≤ j := by omega
    obtain ⟨ri, hri, -, -, hmem_i⟩ := hstep (k + 1 + i) hij
    have hril : k + 1 + i < tr.length := by omega
    rw [List.getElem?_eq_getElem hril] at hri; cases hri
    obtain ⟨hea, hee⟩ := (hmem_i e).mp her'
    rcases hclass e hea with h | h | ⟨h1, h2, -⟩
    · exact h
    · -- e writes 0: then e.start/e.signal? use the tail's step via monotonicity below
      exfalso
      -- an event writing (some 0) to this entry is the tail or … we only know f e = some (some 0);
      -- classify again through membership
      rw [hall, List.mem_append, List.mem_append] at hea
      rcases hea with (hea | hea) | hea
      · rw [hother e (by simp [hea])] at h; cases h
      · rw [t1] at hea
        rcases List.mem_append.mp hea with hea' | hea'
        · have h1 := (t5 e hea').2 hd
          obtain ⟨k0, v, -, hk0, rfl⟩ := mem_eventsFrom l name gen fs 0 l.values e hea'
          have hsig : (l.eventAt name gen fs k0 v).signal ≤ tail.signal := by
            simp only [zero_add] at hk0
            have hk : (k0 : Int) < (l.values.length : Int) := by exact_mod_cast hk0
            simp only [htail, ValuesList.eventAt]
            split
            · exact le_refl _
            · nlinarith
          obtain ⟨k', hk'1, hk'2⟩ := effectStep_le start n cfg.interval hΔ _ k (by omega)
            (le_trans hsig g1) (le_trans h1.le g2)
          rw [hk'2] at hee; simp at hee; omega
        · simp at hea'; subst hea'
          rw [hk] at hee; simp at hee; omega
      · rw [hother e (by simp [hea])] at h; cases h
    · exfalso
      obtain ⟨k', hk'1, hk'2⟩ := effectStep_le start n cfg.interval hΔ e k (by omega)
        (le_trans h2 g1) (le_trans h1.le g2)
      rw [hk'2] at hee; simp at hee; omega
  -- inside step k the tail is the last writer
  have hk_tail : ∀ x, lastSet f x rk.popped = some 0 := by
    intro x
    apply lastSet_sorted_tail f (some 0) tail t4 rk.popped x hsorted_k
    · exact (hmem_k tail).mpr ⟨htail_all, hk⟩
    · intro e he
      rcases hclass e ((hmem_k e).mp he).1 with h | h | ⟨h, -, -⟩
      · exact Or.inl h
      · exact Or.inr (Or.inl h)
      · exact Or.inr (Or.inr h)
  obtain ⟨c, h1, -, -, -, -, -, h7⟩ := C07_in_force cfg s0 B rest roe hrest j r hr herr l.gc c0 hc0
  refine ⟨c, h1, ?_⟩
  rw [h7 name hnm, hlog, lastSet_append, lastSet_append, hk_tail]
  exact lastSet_no_setter f _ _ hlater

/-! ### Non-vacuity: concrete instances over ℚ, evaluated by the kernel / simp -/
namespace C07Ex

def exEv1 : Event ℚ := ⟨100, 1000, .gridSignal "g1" (some 50) none none none⟩
def exEv2 : Event ℚ := ⟨-5000, -100, .fixedLoad "fl" "g1" 3⟩
def exEv3 : Event ℚ := ⟨4000, 4000, .vehicle "v1" .departure {}⟩
def exWorld : World ℚ :=
  { connectors := [("g1", Connector.new 100 (.fixed 1) none none [])], stations := [("cs1", ⟨11, "g1"⟩)],
    vehicles := [("v1", ⟨some "cs1", none, none, 3/4, 1/2, none, none⟩)], batteries := [], queue := [] }
def exCfg : Cfg ℚ := ⟨900, 1/100000, 1/10, false, false⟩

example : effectStep 0 5 900 exEv1 = some 2 := by decide
example : effectStep 0 5 900 exEv2 = some 0 := by decide
example : effectStep 0 5 900 exEv3 = none := by decide
example : bucketOf 0 5 900 exEv1 = some 1 := by decide
example : (bucketsOf 0 5 900 [exEv1, exEv2, exEv3]).map List.length = [1, 1, 0, 0, 0] := by decide

example : ∃ s0, Strat.init exWorld 0 900 1 = .ok s0 := ⟨_, rfl⟩


def exS0 : Strat ℚ :=
  { world := exWorld, now := -900, tracker := [], desiredCounter := 0, marginCounter := 0 }

example : Strat.init exWorld 0 900 1 = .ok exS0 := by
  simp [Strat.init, exS0, exWorld]

/-- one concrete step: the early fixed-load event is popped and applied, no exception -/
example : (exS0.step exCfg [exEv2]).err = none ∧ (exS0.step exCfg [exEv2]).popped = [exEv2] ∧
    (alGet? "g1" (exS0.step exCfg [exEv2]).strat.world.connectors).map (·.loads) = some [("fl", 3)] := by
  simp [Strat.step, Strat.tick, finishStep, processQueue, sortByStart, List.mergeSort, exS0, exWorld, exCfg,
    exEv2, applyEvent, applyFixedLoad, alGet?, alHas, alSet, Strat.setConnector, resetConnectors, resetLoads,
    Connector.new, Cost.falsy]

set_option maxRecDepth 4000 in
/-- a concrete 3-step run (Δ = 900, start 0): the event signalled at −5000/starting at −100 is applied in step 0;
the limit signalled at 100 and starting at 1000 is applied in step 2 (clock 1800), not in step 1 (clock 900), and
the limit in force becomes `min 100 50`; the event signalled at 4000 (after the last step) is in no bucket. -/
example : ((runLoop exCfg (fun s => (s, none)) id exS0 (bucketsOf 0 3 900 [exEv1, exEv2, exEv3])).trace.map
    (fun r => (r.popped, r.err, (alGet? "g1" r.strat.world.connectors).map (fun c => (c.curMaxPower, c.loads)))))
    = [([exEv2], none, some (some 100, [("fl", 3)])), ([], none, some (some 100, [("fl", 3)])),
       ([exEv1], none, some (some 50, [("fl", 3)]))] := by
  have i1 : bucketOf 0 3 900 exEv1 = some 1 := by decide
  have i2 : bucketOf 0 3 900 exEv2 = some 0 := by decide
  have i3 : bucketOf 0 3 900 exEv3 = none := by decide
  have hb : bucketsOf 0 3 900 [exEv1, exEv2, exEv3] = [[exEv2], [exEv1], []] := by
    simp [bucketsOf, List.range_succ, List.filter_cons, i1, i2, i3]
  rw [hb]
  simp [runLoop, Strat.step, Strat.tick, finishStep, processQueue, sortByStart, List.mergeSort, exS0, exWorld, exCfg,
    exEv1, exEv2, applyEvent, applyFixedLoad, applyGridSignal, Connector.applySignal, alGet?, alHas, alSet,
    Strat.setConnector, resetConnectors, resetLoads, Connector.new, Cost.falsy, isZero, pymin]
  norm_num

/-- a concrete series: two values, factor 2, step 600 µs — three events, the last one with value 0 -/
example : (({ start := 0, stepUs := 600, gc := "g1", values := [1, 5/2], factor := 2 } : ValuesList ℚ).getEvents
    "fl" false false).map (fun e => (e.signal, e.start, e.setsLoad "g1" "fl"))
    = [(0, 0, some (some 2)), (600, 600, some (some 5)), (1200, 1200, some (some 0))] := by
  simp [ValuesList.getEvents, ValuesList.eventsFrom, ValuesList.eventAt, Event.setsLoad]

end C07Ex
end SpiceEv
