"""C18 — reports are faithful to the simulation.

Streams
  split   exact: real `report.split_feedin` on `Q` triples (exhaustive small grid incl. negatives and
          zeros, ties of the rounding, random) against the Lean model (`split`) and a reference spec.
  run     real `simulate.simulate` (the whole chain Scenario.run -> generate_reports -> in-run cost
          calculation) on small generated scenarios; every combination of the output options is
          cycled through; completed runs, runs aborted by an infeasible trip (negative SoC) and runs
          aborted by a strategy step that raises.  The files are parsed back; the series stored on the
          Scenario object go (as exact rationals: the bit pattern of every float) to the Lean model
          (`report`, `global`), whose rows / SoC series / aggregates / read-back are compared cell by
          cell with what the real code wrote.  Independent oracle = the property's clauses evaluated
          on the series in exact arithmetic.  Post-hoc costs: real `read_simulation_csv` +
          `costs.calculate_costs` on the written file against the in-run result.
"""
import contextlib
import copy
import datetime
import io
import json
import os
import random
import re
import signal
import tempfile
import traceback
import warnings
from fractions import Fraction as F

import engine
from exact import Q
from wire import enc
import c18_scen
import c18_flexcols
import c18_jsonkeys

PID = "C18"
RULE = ("split: exhaustive grid {-3..3 step 1/2}^3 x places {0,1,2,3} + rounding ties + random rationals; "
        "run: generated scenarios (1-2 connectors, 0-3 vehicles, optional fixed load / generation / battery / "
        "V2G / price, window, schedule and limit signals; strategies greedy, balanced, peak_load_window, "
        "schedule, balanced_market [+ peak_shaving, flex_window in thorough]); completed, trip-aborted and "
        "step-raise-aborted runs; output-option bit mask cycles through all 128 combinations of "
        "save_timeseries/save_results/save_soc/cost_calc/testing/attach_vehicle_soc/skip_flex_report. "
        "non-trivial = a run with at least one non-zero station command or battery load and >= 1 report "
        "section compared; distinct = distinct (scenario, strategy, options, abort)")
EXHAUSTIVE = {"quick": False, "thorough": False}
ASSUMPTIONS = [
    "scenario space: ids without whitespace, finite stationary batteries, at least one grid connector, "
    "n_intervals >= 1",
    "rounded cells are compared exactly as decimals (Python rounds the exact binary value half-even); a cell "
    "whose pre-rounding value was produced by float arithmetic and lies within 1e-6 of a rounding tie is "
    "counted (stat float_tie_skip) and skipped; unrounded aggregates are compared with 1e-9*max(1,|x|)",
    "int-vs-float typing of a printed number ('0' vs '0.0', '-0.0') is not part of the property: cells are "
    "compared by value",
    "an in-run cost result exists only for completed runs (simulate.py asserts full-length series)",
    "the last row of an aborted run describes a partially executed step (the run loop stores the dummy result "
    "{'commands': {}} while loads may already be booked on the connector): there only the correspondence with "
    "the model and the per-cell clauses are checked, not command == booked load and not the feed-in sum",
    "a cost scheme that rejects the run's own series in-run (e.g. 'schedule' with steps that have no schedule) "
    "must be rejected alike post-hoc; the rejection itself belongs to C12",
    "calculate_costs' return value 'peak_power_in_windows' is None in-run and 0 post-hoc when there is no "
    "window column; it is not a cost and is compared modulo None == 0",
]
UNPROVED = [
    "text formatting and parsing of the files (str(), csv, json) — correspondence only",
    "float rounding between the exact model and the float implementation (aggregates: tolerance above)",
    "post-hoc cost = in-run cost is checked on the real code only (costs.py is modelled under C12)",
    "generate_flex_band is an input of the report model (its series are taken from the run)",
]
CHUNK = 12

engine.use_repo()
warnings.simplefilter("ignore")

OPT_BITS = ["save_timeseries", "save_results", "save_soc", "cost_calc", "testing", "attach_vehicle_soc",
            "skip_flex_report"]
COST_KEYS = ["total_costs_per_year", "commodity_costs_eur_per_year", "capacity_costs_eur",
             "power_procurement_costs_per_year", "levies_fees_and_taxes_per_year",
             "feed_in_remuneration_per_year"]


# ------------------------------------------------------------------------------------------ cases

def gen_cases(tier, seed):
    rnd = random.Random(seed * 7919 + 18)
    # ---- split stream
    grid = [F(i, 2) for i in range(-6, 7)]
    trip = []
    for g in grid:
        for a in grid:
            for c in grid:
                trip.append([str(g), str(a), str(c)])
    for places in (3, 2, 0, 1):
        for i in range(0, len(trip), 400):
            yield {"k": "split", "places": places, "t": trip[i:i + 400]}
    ties = []
    for _ in range(300 if tier == "quick" else 5000):
        p = rnd.choice([0, 1, 2, 3])
        half = F(2 * rnd.randint(-40, 40) + 1, 2 * 10 ** p)          # exact tie at p places
        near = half + rnd.choice([0, 0, F(1, 10 ** 9), -F(1, 10 ** 9)])
        g = rnd.choice([near, near + F(rnd.randint(0, 9), 4), F(rnd.randint(-5000, 5000), 997)])
        a = rnd.choice([-near, F(rnd.randint(-5000, 5000), 997), F(0), -g])
        c = rnd.choice([-near, F(rnd.randint(-5000, 5000), 1000), F(0), g - near])
        ties.append((p, [str(g), str(a), str(c)]))
    for p in (0, 1, 2, 3):
        yield {"k": "split", "places": p, "t": [t for q, t in ties if q == p]}
    # ---- run stream
    n_runs = 2000 if tier == "quick" else 14000
    strategies = (["greedy", "balanced", "peak_load_window", "schedule", "balanced_market"] if tier == "quick"
                  else ["greedy", "balanced", "peak_load_window", "schedule", "balanced_market",
                        "peak_shaving", "flex_window"])
    # targeted cases first (the known trouble spots must be reached whatever the seed)
    k = 0
    for strat in strategies:
        for force in TARGETED:
            yield concrete({"k": "run", "seed": seed * 1000003 + k, "strategy": strat, "opts": 0b0011111,
                            "abort": None, "force": force})
            k += 1
    for i in range(n_runs):
        strat = strategies[i % len(strategies)]
        r = rnd.random()
        abort = None
        if r < 0.12:
            abort = {"mode": "trip"}
        elif r < 0.24:
            abort = {"mode": "raise", "step": rnd.randint(0, 12)}
        yield concrete({"k": "run", "seed": seed * 1000003 + 1000 + i, "strategy": strat,
                        "opts": (i * 37 + seed) % 128 if rnd.random() < 0.8
                        else rnd.choice([0b0011111, 0b0001111, 0b1011111]),
                        "abort": abort, "force": None})


# forced scenario shapes: zero SoC connected (D9), window signal (D11), zero load with windows (O2),
# schedule that starts late (N2), two connectors with cost calculation and results file (N1)
TARGETED = [
    {"n_veh": 1, "soc0": 0.0, "connected": True},
    {"window0": True, "n_gc": 1},
    {"n_veh": 0, "no_loads": True, "n_gc": 1},
    {"late_target": True},
    {"n_gc": 2},
]


def search_cases(seed, disagreements):
    return gen_cases("thorough", seed + 7919)


# ------------------------------------------------------------------------------------------ helpers

def fq(x):
    """exact value of a Python number"""
    if isinstance(x, Q):
        return x.v
    return F(x)


def tok(x):
    """wire token of a number (float -> bits, exact)"""
    if isinstance(x, bool):
        return "1" if x else "0"
    if isinstance(x, float):
        if x != x or x in (float("inf"), float("-inf")):
            raise ValueError("non-finite number in series")
        return enc(x)
    if isinstance(x, int):
        return str(x)
    if isinstance(x, (F, Q)):
        return str(fq(x))
    raise TypeError("cannot encode %r" % (x,))


def sid(s):
    s = str(s)
    if re.search(r"\s", s):
        raise ValueError("id with whitespace")
    return "s:" + s


def lst(items, f):
    items = list(items)
    return " ".join([str(len(items))] + [f(i) for i in items])


def kv(d):
    return lst(d.items(), lambda p: sid(p[0]) + " " + tok(p[1]))


def optnum(x):
    return "N" if x is None else "S " + tok(x)


def optbool(x):
    return "N" if x is None else "S " + ("1" if x else "0")


def us(dt):
    return (dt.replace(tzinfo=None) - datetime.datetime(1970, 1, 1)) // datetime.timedelta(microseconds=1)


def rhe(x, places=3):
    """round half even on the exact value"""
    return F(round(F(x), places))


def near_tie(x, places=3):
    y = F(x) * 10 ** places
    d = y - (y.numerator // y.denominator)
    return abs(d - F(1, 2)) < F(1, 10 ** 6)


def parse_num(text):
    try:
        return F(text)
    except (ValueError, ZeroDivisionError):
        return None


def close(a, b):
    if a is None or b is None:
        return a is None and b is None
    a, b = float(a), float(b)
    return abs(a - b) <= 1e-9 * max(1.0, abs(a), abs(b))


# ------------------------------------------------------------------------------------------ split stream

def split_spec(g, a, c):
    """reference: generation first (as much as it can), then V2G, the rest is battery"""
    total = max(g, 0)
    gen = min(max(-a, 0), total)
    v2g = min(max(-c, 0), total - gen)
    return gen, v2g, total - gen - v2g


def eval_split(case):
    from spice_ev import report
    lines, impl, viol = [], [], []
    places = case["places"]
    for g, a, c in case["t"]:
        qg, qa, qc = Q(g), Q(a), Q(c)
        lines.append("report_split q %d %s %s %s" % (places, g, a, c))
        try:
            r = report.split_feedin(qg, qa, qc, places)
            impl.append(" ".join(str(fq(x)) for x in r))
        except Exception as e:
            impl.append("!" + type(e).__name__)
            viol.append(("split", "C18:split_raises", "%s %s %s -> %r" % (g, a, c, e)))
            continue
        sg, sv, sb = split_spec(F(g), F(a), F(c))
        got = [fq(x) for x in r]
        if len(got) != 3 or any(x < 0 for x in got):
            viol.append(("split_nonneg", "C18:split_negative_part", "%s %s %s -> %s" % (g, a, c, got)))
        elif got != [rhe(sg, places), rhe(sv, places), rhe(sb, places)]:
            viol.append(("split_priority", "C18:split_priority_or_sum",
                         "grid=%s generation=%s cs_sum=%s places=%d -> %s, expected round%s"
                         % (g, a, c, places, [str(x) for x in got], [str(x) for x in (sg, sv, sb)])))
        elif abs(sum(got) - max(F(g), 0)) > F(3, 2 * 10 ** places):
            viol.append(("split_sum", "C18:split_priority_or_sum", "%s %s %s -> %s" % (g, a, c, got)))
    return {"lines": lines, "impl": impl, "violations": viol, "nontrivial": True,
            "stats": ["split_chunk"]}


# ------------------------------------------------------------------------------------------ run stream

def price_sheet():
    p = engine.REPO / "examples" / "data" / "price_sheet.json"
    if not p.exists():
        p = engine.REPO / "tests" / "test_data" / "input_test_cost_calculation" / "price_sheet.json"
    return str(p)


def apply_force(j, force, rnd):
    """targeted reshaping of a generated scenario"""
    comp, ev = j["components"], j.setdefault("events", {})
    sc = j["scenario"]
    start = datetime.datetime.fromisoformat(sc["start_time"])
    dt = datetime.timedelta(minutes=sc["interval"])
    gc0 = list(comp["grid_connectors"])[0]
    if force.get("soc0") is not None and comp.get("vehicles"):
        vid = list(comp["vehicles"])[0]
        v = comp["vehicles"][vid]
        v["soc"] = force["soc0"]
        cs = list(comp["charging_stations"])[0]
        v["connected_charging_station"] = cs
        v.pop("estimated_time_of_arrival", None)
        v["estimated_time_of_departure"] = (start + dt * 500).isoformat()
        ev["vehicle_events"] = [e for e in ev.get("vehicle_events", []) if e["vehicle_id"] != vid]
        # nothing can be charged in the first steps: the SoC stays exactly 0.0 while connected
        comp["grid_connectors"][comp["charging_stations"][cs]["parent"]].setdefault(
            "cost", {"type": "fixed", "value": 0.3})
        ev.setdefault("grid_operator_signals", []).append(
            {"signal_time": start.isoformat(), "start_time": start.isoformat(),
             "grid_connector_id": comp["charging_stations"][cs]["parent"], "max_power": 0})
        ev["grid_operator_signals"].append(
            {"signal_time": start.isoformat(), "start_time": (start + dt * 3).isoformat(),
             "grid_connector_id": comp["charging_stations"][cs]["parent"], "max_power": 1000})
    if force.get("window0"):
        comp["grid_connectors"][gc0]["window"] = True
        ev.setdefault("grid_operator_signals", []).append(
            {"signal_time": start.isoformat(), "start_time": (start + dt * 2).isoformat(),
             "grid_connector_id": gc0, "window": False})
    if force.get("no_loads"):
        comp["vehicles"] = {}
        comp["charging_stations"] = {}
        comp["batteries"] = {}
        comp["photovoltaics"] = {}
        for k in ("fixed_load", "local_generation", "vehicle_events"):
            ev.pop(k, None)
    if force.get("late_target"):
        g = comp["grid_connectors"][gc0]
        g.pop("target", None)
        g["cost"] = {"type": "fixed", "value": 0.3}
        ev["grid_operator_signals"] = [s for s in ev.get("grid_operator_signals", [])
                                       if not (s["grid_connector_id"] == gc0 and "target" in s)]
        ev["grid_operator_signals"].append(
            {"signal_time": start.isoformat(), "start_time": (start + dt * 2).isoformat(),
             "grid_connector_id": gc0, "target": 7.5})
    return j


def concrete(case):
    """make the case self-contained: the generated scenario travels with it (replays are readable)"""
    j, extra, sopts = build(case)
    return {"k": "run", "strategy": case["strategy"], "opts": case["opts"], "abort": case["abort"],
            "options": [name for i, name in enumerate(OPT_BITS) if case["opts"] >> i & 1],
            "strategy_options": sopts, "time_windows": extra.get("time_windows"), "scenario": j}


def build(case):
    if "scenario" in case:
        extra = {"time_windows": case["time_windows"]} if case.get("time_windows") else {}
        return copy.deepcopy(case["scenario"]), extra, dict(case.get("strategy_options") or {})
    rnd = random.Random(case["seed"])
    force = case.get("force") or {}
    want_trip = bool(case.get("abort") and case["abort"]["mode"] == "trip")
    gf = {k: force[k] for k in ("n_gc", "n_veh") if k in force}
    j, extra, sopts = c18_scen.gen_scenario(rnd, case["strategy"], want_abort_trip=want_trip, force=gf)
    if force:
        j = apply_force(j, force, rnd)
    return j, extra, sopts


class Abort(Exception):
    pass


class Watchdog(BaseException):
    """not an Exception: Scenario.run swallows Exceptions raised inside a strategy step"""


WATCHDOG_S = float(os.environ.get("VERIF_C18_WATCHDOG_S", "30"))


def _alarm(signum, frame):
    raise Watchdog()


def run_real(case, d):
    """run the real chain in directory d; returns a dict with everything observed"""
    import simulate
    from spice_ev import scenario as scen_mod, strategy as strat_mod
    j, extra, sopts = build(case)
    strat_name = case["strategy"]
    opts = case["opts"]
    on = {name: bool(opts >> i & 1) for i, name in enumerate(OPT_BITS)}
    p = os.path.join(d, "scenario.json")
    with open(p, "w") as f:
        json.dump(j, f)
    so = [[k, v] for k, v in sopts.items()]
    if "time_windows" in extra:
        tw = os.path.join(d, "tw.json")
        with open(tw, "w") as f:
            json.dump(extra["time_windows"], f)
        so.append(["time_windows", tw])
    if on["attach_vehicle_soc"]:
        so.append(["attach_vehicle_soc", "1"])
    if on["skip_flex_report"]:
        so.append(["skip_flex_report", "1"])
    args = {"input": p, "strategy": strat_name, "margin": 0.05, "strategy_option": so,
            "cost_calc": on["cost_calc"], "testing": on["testing"],
            "cost_parameters_file": price_sheet()}
    paths = {}
    if on["save_timeseries"]:
        args["save_timeseries"] = paths["ts"] = os.path.join(d, "ts.csv")
    if on["save_results"]:
        args["save_results"] = paths["res"] = os.path.join(d, "res.json")
    if on["save_soc"]:
        args["save_soc"] = paths["soc"] = os.path.join(d, "soc.csv")
    obs = {"scenario_json": j, "on": on, "paths": paths, "args": args, "scenario": None, "cost_calls": [],
           "phase": "load", "error": None, "stdout": ""}

    holder = {}

    class Rec(scen_mod.Scenario):
        def __init__(self, *a, **k):
            super().__init__(*a, **k)
            holder["s"] = self

        def run(self, *a, **k):
            obs["phase"] = "run"
            r = super().run(*a, **k)
            obs["phase"] = "cost"
            return r
    orig_cc = simulate.calculate_costs

    def cc_rec(**kw):
        rec = {"kwargs": {k: (list(v) if isinstance(v, list) else v) for k, v in kw.items()}}
        obs["cost_calls"].append(rec)
        try:
            rec["result"] = orig_cc(**kw)
        except Exception as e:
            rec["error"] = type(e).__name__
            raise
        return rec["result"]
    cls = None
    orig_step = None
    fb_restore = None
    ab = case.get("abort")
    import s_backfill                      # tie of the `disconnect` back-fill (feeds the SoC CSV)
    obs["backfill_rec"] = s_backfill.Recorder().start()
    try:
        if ab and ab["mode"] == "raise":
            cls = strat_mod.class_from_str(strat_name)
            orig_step = cls.__dict__.get("step")
            cnt = {"n": 0}

            def step(self, *a, **k):
                if not a and not k:
                    cnt["n"] += 1
                    if cnt["n"] - 1 == ab["step"]:
                        raise Abort("injected failure of the strategy step")
                return orig_step(self, *a, **k)
            if orig_step is not None:
                cls.step = step
        simulate.Scenario = Rec
        simulate.calculate_costs = cc_rec
        fb_restore = c18_flexcols.hook(obs)   # records input and result of every generate_flex_band call
        buf = io.StringIO()
        try:
            with contextlib.redirect_stdout(buf), warnings.catch_warnings():
                warnings.simplefilter("ignore")
                simulate.simulate(args)
            obs["phase"] = "done"
        except BaseException as e:       # SystemExit from loaders included
            if isinstance(e, (KeyboardInterrupt, Watchdog)):
                raise
            tb = traceback.extract_tb(e.__traceback__)
            fr = [t for t in tb if "spice_ev" in t.filename or t.filename.endswith(("simulate.py", "calculate_costs.py"))]
            last = fr[-1] if fr else tb[-1]
            obs["error"] = {"type": type(e).__name__, "msg": str(e)[:200], "func": last.name,
                            "file": os.path.basename(last.filename), "line": last.lineno}
        obs["stdout"] = buf.getvalue()
    finally:
        obs["backfill_rec"].stop()
        simulate.Scenario = scen_mod.Scenario
        simulate.calculate_costs = orig_cc
        if fb_restore is not None:
            fb_restore()
        if cls is not None and orig_step is not None:
            cls.step = orig_step
    obs["scenario"] = holder.get("s")
    return obs


def flex_tok(s, gc):
    fb = getattr(s, "flex_bands", None)
    if fb is None:
        return "K", None
    b = fb.get(gc)
    if b is None:
        return "F", None
    ivs = [(i["needed"], int(i["num_vehicles_present"])) for i in b["intervals"]]
    return ("B " + lst(b["min"], tok) + " " + lst(b["base"], tok) + " " + lst(b["max"], tok) + " "
            + lst(ivs, lambda p: tok(p[0]) + " " + str(p[1]))), b


def run_line(s, gc, has_ts):
    """protocol line: the series Scenario.run stored, as seen by aggregate_* for connector gc"""
    c = s.components
    n = len(s.results)
    steps = []
    for i in range(n):
        r = s.results[i]
        steps.append(" ".join([
            str(us(r["current_time"])), kv(r["commands"]), tok(s.prices[gc][i]), tok(s.totalLoad[gc][i]),
            kv(s.fixedLoads[gc][i]), tok(s.localGenerationPower[gc][i]), optnum(s.gcPowerSchedule[gc][i]),
            optbool(s.gcWindowSchedule[gc][i]), kv(s.connChargeByTS[gc][i]),
            lst(s.socs[i], optnum), lst(s.disconnect[i], optnum),
            lst(s.connected[i].items(), lambda p: sid(p[0]) + " " + sid(p[1]))]))
    ftok, _ = flex_tok(s, gc)
    is_plw = s.strategy_name == "peak_load_window"
    peak = s.strat.peak_power[gc] if is_plw else 0
    parts = [
        "report q 3", "1" if has_ts else "0", sid(gc), lst(c.grid_connectors.keys(), sid),
        lst(c.charging_stations.items(), lambda p: sid(p[0]) + " " + sid(p[1].parent)),
        lst(c.vehicles.items(), lambda p: "%s %s %s" % (sid(p[0]), tok(p[1].battery.capacity),
                                                       "1" if p[1].vehicle_type.v2g else "0")),
        lst(c.batteries.items(), lambda p: "%s %s %s" % (sid(p[0]), sid(p[1].parent), tok(p[1].capacity))),
        lst(s.batteryLevels.items(), lambda p: sid(p[0]) + " " + lst(p[1], tok)),
        lst(s.events.fixed_load_lists.keys(), sid), lst(s.events.local_generation_lists.keys(), sid),
        ftok, tok(s.stepsPerHour), str(us(s.start_time)),
        str(s.interval // datetime.timedelta(microseconds=1)), "1" if is_plw else "0", tok(peak),
        str(n)] + steps
    return " ".join(parts)


def global_line(s):
    gcs = list(s.components.grid_connectors.keys())
    return " ".join([
        "report_global q", lst(gcs, lambda g: lst(s.totalLoad[g], tok)),
        lst(s.components.charging_stations.keys(), sid),
        lst(s.results, lambda r: kv(r["commands"])),
        lst(gcs, lambda g: lst(s.fixedLoads[g], kv))])


def read_csv_text(path):
    with open(path) as f:
        txt = f.read()
    lines = txt.split("\n")
    return lines[0].split(","), [ln.split(",") for ln in lines[1:]]


def sanitize(x):
    return x.translate({ord(c): "" for c in '</|\\>:"?*'})


def gc_path(path, gc, n_gc):
    if n_gc <= 1:
        return path
    stem, ext = os.path.splitext(path)
    return "%s_%s%s" % (stem, sanitize(gc), ext)


RES_KEYS = {
    "sumEnergy": lambda r: r["sum of energy"]["value"],
    "sumEnergyWin": lambda r: [r["sum of energy per window"][k] for k in ("04-10", "10-16", "16-22", "22-04")],
    "standSingle": lambda r: r["avg standing time"]["single"],
    "percStand": lambda r: [r["standing per window"][k] for k in ("04-10", "10-16", "16-22", "22-04")],
    "avgDrawn": lambda r: r["avg drawn power"]["value"],
    "genEnergy": lambda r: r["local energy generation"]["value"],
    "vehCycles": lambda r: r["all vehicle battery cycles"]["value"],
}


def local_from_json(r, gc):
    out = {k: f(r) for k, f in RES_KEYS.items()}
    out["standTotal"] = r["avg standing time"]["total"][gc]
    a = r.get("avg flex per window")
    out["avgFlex"] = None if a is None else [a[k] for k in ("04-10", "10-16", "16-22", "22-04")]
    out["needed"] = r["avg needed energy"]["value"] if "avg needed energy" in r else None
    p = r.get("peak load time windows")
    out["plw"] = None if p is None else p["significance threshold"]
    p = r.get("power peaks")
    out["peaks"] = None if p is None else [p["fixed"], p["variable"], p["total"]]
    p = r.get("feed-in energy")
    out["feedIn"] = None if p is None else [p["generation"], p["v2g"], p["battery"]]
    p = r.get("max. stored energy in batteries")
    out["maxStored"] = None if p is None else {k: v for k, v in p.items() if k not in ("unit", "info")}
    p = r.get("stationary battery cycles")
    out["batCycles"] = None if p is None else p["value"]
    return out


def local_from_attrs(s, gc):
    out = {"avgDrawn": s.avg_drawn[gc], "standSingle": s.avg_stand_time[gc],
           "standTotal": s.avg_total_standing_time[gc], "percStand": s.perc_stand_window[gc],
           "sumEnergyWin": s.sum_energy_per_window[gc], "vehCap": s.total_vehicle_cap[gc],
           "vehEnergy": s.total_vehicle_energy[gc]}
    if s.flex_bands is not None:
        out["avgFlex"] = s.avg_flex_per_window[gc]
    out["needed0"] = s.avg_needed_energy[gc]
    return out


def cost_view(res):
    if res is None:
        return None
    return {k: res[k] for k in COST_KEYS} | {"peak": res["peak_power_in_windows"] or 0}


def eval_run(case):
    from spice_ev import report as report_mod, costs as costs_mod
    import calculate_costs as cc_mod
    viol, stats, lines, impl = [], [], [], []
    num = {}
    with tempfile.TemporaryDirectory(prefix="c18_") as d:
        old_handler = signal.signal(signal.SIGALRM, _alarm)
        signal.setitimer(signal.ITIMER_REAL, WATCHDOG_S)
        try:
            obs = run_real(case, d)
        except Watchdog:
            # the real run did not come back (observed: schedule/collective loops forever in
            # charge_vehicles_during_core_standing_time); termination is C17's property, not a report clause
            return {"lines": [], "impl": [], "violations": [], "nontrivial": False,
                    "stats": ["did_not_terminate_" + case["strategy"]]}
        except (ValueError, KeyError) as e:       # generator produced something unusable
            return {"lines": [], "impl": [], "violations": [], "nontrivial": False,
                    "stats": ["harness_skip_" + type(e).__name__]}
        finally:
            signal.setitimer(signal.ITIMER_REAL, 0)
            signal.signal(signal.SIGALRM, old_handler)
        s = obs["scenario"]
        err = obs["error"]
        on = obs["on"]
        if s is None or not hasattr(s, "results"):
            # the scenario could not be loaded / the strategy refused it: outside the quantifier
            stats.append("invalid_scenario_%s" % (err["type"] if err else "none"))
            return {"lines": [], "impl": [], "violations": [], "nontrivial": False, "stats": stats}
        aborted = "Aborting simulation" in obs["stdout"]
        stats.append("aborted" if aborted else "completed")
        stats.append("strategy_" + case["strategy"])
        stats.append("opts_%03d" % case["opts"])
        gcs = sorted(s.components.grid_connectors.keys())
        n_gc = len(gcs)
        stats.append("gc_%d" % n_gc)
        n = len(s.results)
        # ---------------- errors of the report / cost phase
        report_failed = False
        if err is not None:
            where = "%s:%s" % (err["file"], err["func"])
            if obs["phase"] == "run":
                report_failed = True
                key = "C18:report_raises:%s:%s" % (err["type"], err["func"])
                if err["type"] == "ZeroDivisionError" and err["func"] == "aggregate_local_results":
                    key = "C18:report_zero_division_plw"
                elif err["type"] == "TypeError" and err["func"] == "aggregate_timeseries" and any(
                        x is None for g in gcs for x in s.gcPowerSchedule[g]):
                    key = "C18:schedule_none_round"
                viol.append(("report_total", key,
                             "generate_reports raised %s (%s) at %s line %d after a %s run of %d steps"
                             % (err["type"], err["msg"], where, err["line"],
                                "aborted" if aborted else "completed", n)))
            elif obs["phase"] == "cost":
                if aborted and err["type"] == "AssertionError" and err["file"] == "simulate.py":
                    stats.append("inrun_cost_refused_after_abort")
                elif aborted:
                    stats.append("inrun_cost_error_after_abort_" + err["type"])
                else:
                    # is the failure intrinsic to the cost scheme on these series (then it is the cost module's
                    # business, C12, and the post-hoc calculation must fail alike), or in-run plumbing?
                    failed = [r for r in obs["cost_calls"] if "error" in r]
                    intrinsic = False
                    if failed:
                        try:
                            with warnings.catch_warnings():
                                warnings.simplefilter("ignore")
                                costs_mod.calculate_costs(**{**copy.deepcopy(failed[-1]["kwargs"]),
                                                             "results_json": None})
                        except Exception as e2:
                            intrinsic = type(e2).__name__ == err["type"]
                    if intrinsic:
                        stats.append("cost_scheme_rejects_series_" + err["type"])
                    else:
                        key = "C18:inrun_cost_raises:%s:%s" % (err["type"], err["func"])
                        if err["type"] == "FileNotFoundError" and n_gc > 1 and on["save_results"]:
                            key = "C18:inrun_cost_results_path_two_gc"
                        viol.append(("cost_inrun", key,
                                     "in-run cost calculation raised %s (%s) at %s line %d for a completed run"
                                     % (err["type"], err["msg"], where, err["line"])))
            else:
                stats.append("error_phase_" + obs["phase"])
        # ---------------- per connector: model line + what the implementation produced
        active = False
        for gc in gcs:
            has_ts = on["cost_calc"] or on["save_timeseries"]
            try:
                lines.append(run_line(s, gc, has_ts))
            except ValueError:
                return {"lines": [], "impl": [], "violations": [], "nontrivial": False,
                        "stats": ["harness_skip_nonfinite"]}
            im = {"gc": gc, "n": n}
            # --- time series
            ts_attr = getattr(s, gc + "_timeseries", None)
            file_ts = None
            if on["save_timeseries"] and not report_failed:
                pth = gc_path(obs["paths"]["ts"], gc, n_gc)
                if os.path.exists(pth):
                    file_ts = read_csv_text(pth)
                else:
                    viol.append(("files", "C18:timeseries_file_missing", pth))
            mem_ts = None
            if not report_failed or ts_attr is not None:
                # the same function the report uses, on the finished scenario (pure function of the series)
                try:
                    saved = copy.copy(ts_attr)
                    with contextlib.redirect_stdout(io.StringIO()):
                        a = report_mod.aggregate_timeseries(s, gc)
                    mem_ts = (a["header"], [[str(x) for x in row] for row in a["timeseries"]])
                    if saved is None:
                        if hasattr(s, gc + "_timeseries"):
                            delattr(s, gc + "_timeseries")
                    else:
                        setattr(s, gc + "_timeseries", saved)
                except Exception as e:
                    im["ts_error"] = type(e).__name__
                    if not report_failed:
                        key = "C18:report_raises:%s:aggregate_timeseries" % type(e).__name__
                        if isinstance(e, TypeError) and any(x is None for x in s.gcPowerSchedule[gc]):
                            key = "C18:schedule_none_round"
                        viol.append(("report_total", key, "aggregate_timeseries(%s) raised %r" % (gc, e)))
            if file_ts is not None and mem_ts is not None and (file_ts[0] != mem_ts[0] or file_ts[1] != mem_ts[1]):
                viol.append(("files", "C18:file_differs_from_rows",
                             "the written time series is not str() of aggregate_timeseries' rows (%s)" % gc))
            ts = file_ts or mem_ts
            if ts is not None:
                im["ts"] = {"header": ts[0], "rows": ts[1], "from": "file" if file_ts else "memory"}
                stats.append("ts_from_" + im["ts"]["from"])
                oracle_rows(s, gc, ts, viol, stats, im, aborted)
            # --- SoC series (global, attach to the first connector only)
            if gc == gcs[0]:
                soc = None
                if on["save_soc"] and not report_failed and os.path.exists(obs["paths"]["soc"]):
                    h, rows = read_csv_text(obs["paths"]["soc"])
                    soc = {"header": h, "rows": rows, "from": "file"}
                    vs = getattr(s, "vehicle_socs", None)
                    if vs is not None:
                        vids = sorted(s.components.vehicles.keys())
                        if h != ["timestep", "time"] + vids or any(
                                rows[i][2:] != [str(vs[v][i]) for v in vids] for i in range(len(rows))):
                            viol.append(("files", "C18:soc_file_differs_from_series", "soc.csv != vehicle_socs"))
                elif on["save_soc"] and not report_failed:
                    viol.append(("files", "C18:soc_file_missing", obs["paths"]["soc"]))
                elif not report_failed:
                    if not on["attach_vehicle_soc"]:
                        report_mod.generate_soc_timeseries(s)
                    vids = sorted(s.components.vehicles.keys())
                    soc = {"header": ["timestep", "time"] + vids, "from": "memory",
                           "rows": [[str(i), str(s.results[i]["current_time"].replace(tzinfo=None))]
                                    + [str(s.vehicle_socs[v][i]) for v in vids] for i in range(n)]}
                if soc is not None:
                    im["soc"] = soc
                    oracle_soc(s, soc, viol, stats)
            # --- aggregates
            if not report_failed:
                loc = None
                if on["save_results"]:
                    pth = gc_path(obs["paths"]["res"], gc, n_gc)
                    if os.path.exists(pth):
                        with open(pth) as f:
                            rj = json.load(f)
                        loc = local_from_json(rj, gc)
                        im["local_from"] = "json"
                        if rj.get("charging_strategy", {}).get("strategy") != case["strategy"] or \
                                rj.get("grid_connector", {}).get("gcID") != gc:
                            viol.append(("files", "C18:results_json_wrong_identity", pth))
                    else:
                        viol.append(("files", "C18:results_file_missing", pth))
                elif on["testing"]:
                    loc = local_from_attrs(s, gc)
                    im["local_from"] = "attrs"
                if loc is not None:
                    im["local"] = loc
                    stats.append("local_from_" + im["local_from"])
                    oracle_aggregates(s, gc, loc, ts if has_ts else None, viol, stats)
            # --- read-back + post-hoc costs
            if file_ts is not None:
                pth = gc_path(obs["paths"]["ts"], gc, n_gc)
                try:
                    rd = cc_mod.read_simulation_csv(pth)
                    im["read"] = render_read(rd)
                    oracle_read(s, gc, file_ts, rd, viol, stats)
                except Exception as e:
                    im["read_error"] = type(e).__name__
                    rd = None
                    has_win = "window signal [-]" in file_ts[0]
                    has_none_sched = "schedule [kW]" in file_ts[0] and any(x is None for x in s.gcPowerSchedule[gc])
                    key = "C18:read_simulation_csv_raises:%s" % type(e).__name__
                    if isinstance(e, ValueError) and has_win:
                        key = "C18:window_column_unreadable"
                    elif isinstance(e, ValueError) and has_none_sched:
                        key = "C18:schedule_none_round"
                    viol.append(("read_back", key,
                                 "read_simulation_csv raised %r on the file written by the run (%d rows, "
                                 "window column: %s)" % (e, n, has_win)))
                if rd is not None and not aborted and on["cost_calc"]:
                    oracle_costs(s, gc, gcs, obs, rd, costs_mod, viol, stats)
            if any(any(r["commands"].values()) for r in s.results) or any(
                    any(v for k, v in fl.items() if k in s.components.batteries) for fl in s.fixedLoads[gc]):
                active = True
            impl.append(json.dumps(im))
            # the same report with the flex band computed by the model from generate_flex_band's input
            report_line = lines[-1]
            c18_flexcols.add_line(obs, gc, report_line, im, lines, impl, stats)
            # entries and key order of the results JSON, read from the file
            res_pth = gc_path(obs["paths"]["res"], gc, n_gc) if on["save_results"] and not report_failed else None
            c18_jsonkeys.add_line(s, gc, res_pth if res_pth and os.path.exists(res_pth) else None, report_line,
                                  has_ts, lines, impl, stats, viol)
        # ---------------- global aggregates (scenario.testing)
        if on["testing"] and not report_failed and hasattr(s, "testing"):
            try:
                lines.append(global_line(s))
                t = s.testing
                impl.append(json.dumps({"global": {
                    "all_totalLoad": t["timeseries"]["total_load"], "sum_cs": t["timeseries"]["sum_cs"],
                    "loads": {g: t["timeseries"]["loads"][g] for g in s.components.grid_connectors},
                    "order": list(s.components.grid_connectors)}}))
                oracle_global(s, viol, stats)
            except ValueError:
                lines.pop()
        if aborted and n >= s.n_intervals and not (case.get("abort") or {}).get("mode") == "raise":
            stats.append("aborted_in_last_step")
        if not aborted and n != s.n_intervals:
            viol.append(("one_row_per_step", "C18:completed_run_wrong_length", "%d results for %d intervals"
                         % (n, s.n_intervals)))
    import s_backfill
    bf_lines, bf_impl = s_backfill.lines_for(s, obs["backfill_rec"])
    lines += bf_lines
    impl += bf_impl
    bf_viol, bf_stats = s_backfill.oracle(s, obs["backfill_rec"])
    viol += bf_viol
    stats += bf_stats
    return {"lines": lines, "impl": impl, "violations": viol, "nontrivial": active and bool(lines),
            "stats": sorted(set(stats)), "num": num}


REPORT_FUNCS = {"generate_reports", "aggregate_timeseries", "aggregate_local_results",
                "aggregate_global_results", "generate_soc_timeseries", "split_feedin"}


# ------------------------------------------------------------------------------------------ oracle

def cell_matches(text, want, exact=True):
    """text of a file cell against an exact expected value (Fraction) / None / bool / int"""
    if want is None:
        return text == "None"
    if isinstance(want, bool):
        return text == str(want)
    v = parse_num(text)
    if v is None:
        return False
    if float(v) != float(want):
        return False
    return (not exact) or abs(want) >= 10 ** 12 or v == want


def oracle_rows(s, gc, ts, viol, stats, im, aborted=False):
    """the property's row clauses, evaluated on the series in exact arithmetic"""
    header, rows = ts
    n = len(s.results)
    c = s.components
    ties = []
    if len(rows) != n or n != s.step_i:
        viol.append(("one_row_per_step", "C18:row_count", "%d rows, %d results, step_i=%d (%s)"
                     % (len(rows), n, s.step_i, gc)))
        return
    if len(set(header)) != len(header):
        viol.append(("header_rows_aligned", "C18:duplicate_column", str(header)))
    bad = [i for i, r in enumerate(rows) if len(r) != len(header)]
    if bad:
        viol.append(("header_rows_aligned", "C18:header_row_length",
                     "row %d has %d cells, header has %d (%s)" % (bad[0], len(rows[bad[0]]), len(header), gc)))
        return
    col = {h: j for j, h in enumerate(header)}
    stations = sorted(k for k, v in c.charging_stations.items() if v.parent == gc)
    bats = [k for k, v in c.batteries.items() if v.parent == gc]
    fl_keys = set(s.events.fixed_load_lists.keys())
    has_bat = bool(bats)
    has_gen = any(s.localGenerationPower[gc])
    has_v2g = any(v.vehicle_type.v2g for v in c.vehicles.values())
    # which columns must exist
    must = {"timestep", "time", "grid supply [kW]", "sum CS power [kW]", "# occupied CS [-]", "# CS in use [-]"}
    must |= {cs + " [kW]" for cs in stations}
    if has_bat:
        must |= {"battery power [kW]", "bat. stored energy [kWh]", "battery feed-in [kW]"}
    if has_gen:
        must |= {"local generation [kW]", "generation feed-in [kW]"}
    if has_v2g:
        must.add("V2G feed-in [kW]")
    if any(x is not None for x in s.gcPowerSchedule[gc]):
        must.add("schedule [kW]")
    if any(x is not None for x in s.gcWindowSchedule[gc]):
        must.add("window signal [-]")
    if any(s.prices[gc]):
        must.add("price [ct/kWh]")
    if any(s.events.fixed_load_lists[k].grid_connector_id == gc for k in fl_keys):
        must.add("fixed load [kW]")
    missing = sorted(must - set(header))
    if missing:
        viol.append(("columns_present", "C18:column_missing", "%s missing for %s" % (missing, gc)))
        return
    stats.append("cols_" + "".join(str(int(x)) for x in (has_gen, has_v2g, has_bat, "schedule [kW]" in col,
                                                          "window signal [-]" in col, "price [ct/kWh]" in col,
                                                          "flex band min [kW]" in col)))

    def bad_cell(i, name, want, exact=True, derived=False, pre=None):
        text = rows[i][col[name]]
        if cell_matches(text, want, exact):
            return False
        if derived and pre is not None and near_tie(pre):
            ties.append([i, name])
            stats.append("float_tie_skip")
            return False
        viol.append(("column_" + re.sub(r"\W+", "_", name.split("[")[0].strip()),
                     "C18:column:" + (name if not name.endswith(" [kW]") or name in must - {x + " [kW]" for x in stations}
                                      else "<station> [kW]"),
                     "%s step %d: file has %s, series give %s" % (gc, i, text, want)))
        return True
    t0 = s.results[0]["current_time"] if n else None
    for i in range(n):
        r = s.results[i]
        if rows[i][0] != str(i):
            viol.append(("one_row_per_step", "C18:timestep_column", "row %d has timestep %s" % (i, rows[i][0])))
            break
        want_t = (s.start_time + s.interval * i).replace(tzinfo=None)
        if rows[i][col["time"]] != str(want_t):
            viol.append(("one_row_per_step", "C18:time_column", "row %d: %s, expected %s" % (i, rows[i][1], want_t)))
            break
        load = fq(s.totalLoad[gc][i])
        if bad_cell(i, "grid supply [kW]", -rhe(load)):
            break
        if "price [ct/kWh]" in col and bad_cell(i, "price [ct/kWh]", fq(s.prices[gc][i]), exact=False):
            break
        if "fixed load [kW]" in col:
            terms = [fq(v) for k, v in s.fixedLoads[gc][i].items() if k in fl_keys]
            x = sum(terms, F(0))
            if bad_cell(i, "fixed load [kW]", rhe(x), derived=len(terms) > 1, pre=x):
                break
        gen = fq(s.localGenerationPower[gc][i])
        if "local generation [kW]" in col and bad_cell(i, "local generation [kW]", -rhe(gen)):
            break
        if has_bat:
            terms = [fq(v) for k, v in s.fixedLoads[gc][i].items() if k in bats]
            x = sum(terms, F(0))
            if bad_cell(i, "battery power [kW]", rhe(x), derived=len(terms) > 1, pre=x):
                break
            terms = [fq(s.batteryLevels[b][i]) for b in bats]
            x = sum(terms, F(0))
            if bad_cell(i, "bat. stored energy [kWh]", rhe(x), derived=len(terms) > 1, pre=x):
                break
        if "schedule [kW]" in col:
            v = s.gcPowerSchedule[gc][i]
            if bad_cell(i, "schedule [kW]", None if v is None else rhe(fq(v))):
                break
        if "window signal [-]" in col:
            if bad_cell(i, "window signal [-]", s.gcWindowSchedule[gc][i]):
                break
        # station powers: the station's load on the connector in that step is the simulated quantity, the
        # command returned by the strategy is what the report prints; they must agree (except in the last,
        # partially executed step of an aborted run, whose result is the dummy {'commands': {}})
        cmds = {k: fq(v) for k, v in r["commands"].items() if k in stations}
        half_step = aborted and i == n - 1
        if not half_step:
            for cs, ld in s.connChargeByTS[gc][i].items():
                if not close(cmds.get(cs, F(0)), fq(ld)):
                    viol.append(("column_station", "C18:station_command_differs_from_connector_load",
                                 "%s step %d station %s: command %s kW, load booked on the connector %s kW"
                                 % (gc, i, cs, r["commands"].get(cs), ld)))
                    break
        stop = False
        for cs in stations:
            if bad_cell(i, cs + " [kW]", rhe(cmds.get(cs, F(0)))):
                stop = True
                break
        if stop:
            break
        cs_sum = sum(cmds.values(), F(0))
        if bad_cell(i, "sum CS power [kW]", rhe(cs_sum), derived=len(cmds) > 1, pre=cs_sum):
            break
        # occupied stations: distinct stations of this connector with a vehicle plugged in
        occ = {cs for vid, cs in s.connected[i].items() if cs in c.charging_stations
               and c.charging_stations[cs].parent == gc}
        if bad_cell(i, "# occupied CS [-]", F(len(occ))):
            break
        in_use = sum(1 for cs in occ if s.connChargeByTS[gc][i].get(cs, 0) != 0)
        if bad_cell(i, "# CS in use [-]", F(in_use)):
            break
        for uc in c18_scen.UC_KEYS:
            mine = [cs for cs in stations if uc in cs]
            if not mine:
                if "sum UC " + uc in col:
                    viol.append(("columns_present", "C18:uc_column_without_station", uc))
                continue
            if "sum UC " + uc not in col or "# occupied UC " + uc not in col:
                viol.append(("columns_present", "C18:column_missing", "use case %s" % uc))
                stop = True
                break
            terms = [cmds[cs] for cs in cmds if cs in mine]
            x = sum(terms, F(0))
            if bad_cell(i, "sum UC " + uc, rhe(x), derived=len(terms) > 1, pre=x):
                stop = True
                break
            if bad_cell(i, "# occupied UC " + uc, F(len([cs for cs in occ if uc in cs]))):
                stop = True
                break
        if stop:
            break
        # feed-in split
        total = max(-load, F(0))
        sg, sv, sb = split_spec(-load, -gen if has_gen else F(0), min(cs_sum, F(0)))
        shown = F(0)
        for name, has, x in (("generation feed-in [kW]", has_gen, sg), ("V2G feed-in [kW]", has_v2g, sv),
                             ("battery feed-in [kW]", has_bat, sb)):
            if has:
                if bad_cell(i, name, rhe(x), derived=True, pre=x):
                    stop = True
                    break
                shown += rhe(x)
            elif name in col:
                viol.append(("columns_present", "C18:feedin_column_without_component", name))
        if stop:
            break
        if abs(shown - total) > F(2, 1000) and not half_step:
            # a part that has no column is not zero
            viol.append(("split_sum", "C18:feedin_part_without_column",
                         "%s step %d: feed-in %s kW, shown parts sum to %s (generation %s, V2G %s, battery %s; "
                         "columns: generation=%s V2G=%s battery=%s)"
                         % (gc, i, float(total), float(shown), float(sg), float(sv), float(sb), has_gen, has_v2g,
                            has_bat)))
            break
        # flex columns
        if "flex band min [kW]" in col:
            b = s.flex_bands.get(gc) if s.flex_bands is not None else None
            if b is None:
                for name in ("flex band min [kW]", "flex band base [kW]", "flex band max [kW]",
                             "max energy flex [kWh]"):
                    if bad_cell(i, name, F(0)):
                        stop = True
                        break
            else:
                vids = sorted(c.vehicles.keys())
                terms = []
                for vi, vid in enumerate(vids):
                    cs = s.connected[i].get(vid)
                    if cs is None or cs not in c.charging_stations or c.charging_stations[cs].parent != gc:
                        continue
                    terms.append(max(1 - fq(s.socs[i][vi]), F(0)) * fq(c.vehicles[vid].battery.capacity))
                x = sum(terms, F(0))
                for name, want, der in (("flex band min [kW]", rhe(fq(b["min"][i])), False),
                                        ("flex band base [kW]", rhe(fq(b["base"][i])), False),
                                        ("flex band max [kW]", rhe(fq(b["max"][i])), False),
                                        ("max energy flex [kWh]", rhe(x), True)):
                    if bad_cell(i, name, want, derived=der, pre=x if der else None):
                        stop = True
                        break
            if stop:
                break
    im["ties"] = ties
    stats.append("rows_checked")


def oracle_soc(s, soc, viol, stats):
    vids = sorted(s.components.vehicles.keys())
    n = len(s.results)
    if soc["header"] != ["timestep", "time"] + vids:
        viol.append(("soc_series", "C18:soc_header", str(soc["header"])))
        return
    if len(soc["rows"]) != n:
        viol.append(("one_row_per_step", "C18:soc_row_count", "%d rows for %d steps" % (len(soc["rows"]), n)))
        return
    for i, row in enumerate(soc["rows"]):
        if len(row) != len(vids) + 2 or row[0] != str(i) or \
                row[1] != str((s.start_time + s.interval * i).replace(tzinfo=None)):
            viol.append(("soc_series", "C18:soc_row_shape", "row %d: %s" % (i, row)))
            return
        for vi, vid in enumerate(vids):
            a, b = s.socs[i][vi], s.disconnect[i][vi]
            want = a if a is not None else b
            text = row[2 + vi]
            ok = (text == "None") if want is None else (parse_num(text) is not None and float(parse_num(text)) == float(want))
            if not ok:
                key = "C18:soc_series_entry"
                if a is not None and fq(a) == 0:
                    key = "C18:soc_zero_printed_as_disconnected"
                    stats.append("soc_zero_connected")
                viol.append(("soc_series", key,
                             "step %d vehicle %s: connected SoC %r, disconnected SoC %r, reported %s"
                             % (i, vid, a, b, text)))
                return
            if a is not None and fq(a) == 0:
                stats.append("soc_zero_connected")
    stats.append("soc_checked")


def window_index(t):
    m = t.hour * 60 + t.minute
    return 0 if 240 <= m < 600 else 1 if 600 <= m < 960 else 2 if 960 <= m < 1320 else 3


def oracle_aggregates(s, gc, loc, ts, viol, stats):
    c = s.components
    n = len(s.results)
    sph = fq(s.stepsPerHour)
    loads = [fq(x) for x in s.totalLoad[gc]]

    def chk(name, got, want, key=None):
        ok = True
        if isinstance(want, list):
            ok = isinstance(got, list) and len(got) == len(want) and all(close(g, w) for g, w in zip(got, want))
        elif isinstance(want, dict):
            ok = isinstance(got, dict) and set(got) == set(want) and all(close(got[k], want[k]) for k in want)
        else:
            ok = close(got, want)
        if not ok:
            viol.append(("aggregates", key or "C18:aggregate:" + name,
                         "%s %s: reported %s, series give %s" % (gc, name, got, want if not isinstance(want, list)
                                                                else [float(x) for x in want])))
        return ok
    if "sumEnergy" in loc:
        chk("sum of energy", loc["sumEnergy"], sum(loads, F(0)) / sph)
    if "avgDrawn" in loc:
        chk("avg drawn power", loc["avgDrawn"], sum(loads, F(0)) / n if n else F(0))
    times = [(s.start_time + s.interval * i) for i in range(n)]
    w = [window_index(t) for t in times]
    if "sumEnergyWin" in loc:
        chk("sum of energy per window", loc["sumEnergyWin"],
            [sum((loads[i] for i in range(n) if w[i] == k), F(0)) / sph for k in range(4)])
        stats.append("windows_hit_%d" % len(set(w)))
    if "genEnergy" in loc:
        chk("local energy generation", loc["genEnergy"],
            sum((fq(x) for x in s.localGenerationPower[gc]), F(0)) / sph)
    if "peaks" in loc:
        if any(loads):
            keys = set(s.events.fixed_load_lists) | set(s.events.local_generation_lists)
            fixed = [sum((fq(v) for k, v in s.fixedLoads[gc][i].items() if k in keys), F(0)) for i in range(n)]
            chk("power peaks", loc["peaks"], [max([F(0)] + fixed), max([F(0)] + [l - f for l, f in zip(loads, fixed)]),
                                              max(loads)])
        elif loc["peaks"] is not None:
            viol.append(("aggregates", "C18:aggregate:power peaks", "peaks reported for an all-zero load"))
    nveh = len(c.vehicles)
    present = [[x is not None for x in s.socs[i]] for i in range(n)]
    total_standing = sum(sum(p) for p in present)
    if "standTotal" in loc:
        chk("avg total standing time", loc["standTotal"], F(total_standing, max(nveh, 1)) / sph)
    if "percStand" in loc:
        chk("standing per window", loc["percStand"],
            [F(100 * sum(sum(present[i]) for i in range(n) if w[i] == k), total_standing) if total_standing else F(0)
             for k in range(4)])
    if "standSingle" in loc:
        # the implementation's definition: standing events = maximal runs of presence per vehicle, plus
        # one (empty) slot for a vehicle that is absent at the end or never present (not stripped)
        events = 0
        for vi in range(nveh):
            col = [present[i][vi] for i in range(n)]
            runs = sum(1 for i in range(n) if col[i] and (i == 0 or not col[i - 1]))
            events += runs + (1 if (not col or not col[-1]) else 0)
        chk("avg standing time (single)", loc["standSingle"],
            F(total_standing) / sph / events if events else F(0))
    if "feedIn" in loc and loc["feedIn"] is not None and ts is not None:
        header, rows = ts
        want = []
        for name in ("generation feed-in [kW]", "V2G feed-in [kW]", "battery feed-in [kW]"):
            if name in header:
                j = header.index(name)
                want.append(sum((F(r[j]) for r in rows), F(0)) / sph)
            else:
                want.append(F(0))
        chk("feed-in energy", loc["feedIn"], want)
    if "feedIn" in loc and (loc["feedIn"] is None) != (ts is None):
        viol.append(("aggregates", "C18:aggregate:feed-in energy presence", "%s vs timeseries %s"
                     % (loc["feedIn"], ts is not None)))
    bats = [k for k, v in c.batteries.items() if v.parent == gc]
    if "batCycles" in loc:
        cap = sum((fq(c.batteries[b].capacity) for b in bats), F(0))
        if cap:
            e = sum((max(fq(s.fixedLoads[gc][i].get(b, 0)), F(0)) for i in range(n) for b in bats), F(0)) / sph
            chk("stationary battery cycles", loc["batCycles"], e / cap)
        elif loc["batCycles"] is not None:
            viol.append(("aggregates", "C18:aggregate:stationary battery cycles", "reported without battery"))
    if "maxStored" in loc:
        if any(any(v) for v in s.batteryLevels.values()):
            chk("max stored energy", loc["maxStored"], {b: max(fq(x) for x in v) for b, v in s.batteryLevels.items()})
        elif loc["maxStored"] is not None:
            viol.append(("aggregates", "C18:aggregate:max stored energy", "reported for empty batteries"))
    if "vehCycles" in loc:
        cap = sum((fq(v.battery.capacity) for v in c.vehicles.values()), F(0))
        power_sum = sum((max(fq(v), F(0)) for r in s.results for v in r["commands"].values()), F(0))
        energy = power_sum / sph                                  # kWh actually charged
        want = energy / cap if cap > 0 else F(0)
        if not close(loc["vehCycles"], want):
            as_coded = power_sum / cap if cap > 0 else F(0)
            key = "C18:aggregate:all vehicle battery cycles"
            if close(loc["vehCycles"], as_coded) and sph != 1:
                key = "C18:vehicle_cycles_sum_of_power_not_energy"
            viol.append(("aggregates", key,
                         "%s: reported %s cycles, charged energy %.6g kWh / capacity %.6g kWh = %.6g "
                         "(steps per hour = %s)" % (gc, loc["vehCycles"], float(energy), float(cap), float(want),
                                                    float(sph))))
    if "plw" in loc and loc["plw"] is not None:
        m = max(loads)
        pk = fq(s.strat.peak_power[gc])
        chk("significance threshold", loc["plw"], (m - pk) / m * 100 if m != 0 else F(0))
    if "avgFlex" in loc and loc["avgFlex"] is not None:
        b = s.flex_bands.get(gc) if s.flex_bands else None
        rng = [fq(b["max"][i]) - fq(b["min"][i]) if b else F(0) for i in range(n)]
        chk("avg flex per window", loc["avgFlex"],
            [(sum((rng[i] for i in range(n) if w[i] == k), F(0)) / max(1, w.count(k))) for k in range(4)])
    stats.append("aggregates_checked")


def oracle_global(s, viol, stats):
    t = s.testing
    gcs = list(s.components.grid_connectors)
    n = len(s.results)
    want = [sum((fq(s.totalLoad[g][i]) for g in gcs), F(0)) for i in range(n)]
    got = t["timeseries"]["total_load"]
    if len(got) != n or not all(close(a, b) for a, b in zip(got, want)):
        viol.append(("aggregates", "C18:aggregate:all_totalLoad", "total load series differs"))
    if n and not close(t["max_total_load"], max(want)):
        viol.append(("aggregates", "C18:aggregate:max_total_load", "%s vs %s" % (t["max_total_load"], max(want))))
    cs = sorted(s.components.charging_stations)
    for i in range(n):
        if [fq(x) for x in t["timeseries"]["sum_cs"][i]] != [fq(s.results[i]["commands"].get(k, 0.0)) for k in cs]:
            viol.append(("aggregates", "C18:aggregate:sum_cs", "step %d" % i))
            break
    for g in gcs:
        for k, series in t["timeseries"]["loads"][g].items():
            if [fq(x) for x in series] != [fq(s.fixedLoads[g][i].get(k, 0)) for i in range(n)]:
                viol.append(("aggregates", "C18:aggregate:loads", "%s %s" % (g, k)))
                break
        if not close(t["sum_local_generation_per_h"][g],
                     sum((fq(x) for x in s.localGenerationPower[g]), F(0)) / fq(s.stepsPerHour)):
            viol.append(("aggregates", "C18:aggregate:sum_local_generation_per_h", g))
    stats.append("global_checked")


def render_read(rd):
    n = len(rd["timestamps_list"])
    sch = rd["power_schedule_list"]
    return {"n": n, "time": [str(t) for t in rd["timestamps_list"]], "price": rd["price_list"],
            "grid": rd["power_grid_supply_list"], "fix": rd["power_fix_load_list"],
            "gen": rd["power_generation_feed_in_list"], "v2g": rd["power_v2g_feed_in_list"],
            "bat": rd["power_battery_feed_in_list"], "window": rd["window_signal_list"], "schedule": sch}


def oracle_read(s, gc, file_ts, rd, viol, stats):
    """what the reader returns is what the file says (column by column)"""
    header, rows = file_ts
    col = {h: j for j, h in enumerate(header)}
    n = len(rows)

    def column(name, default=F(0)):
        if name not in col:
            return [default] * n
        return [parse_num(r[col[name]]) for r in rows]
    if len(rd["timestamps_list"]) != n:
        viol.append(("read_back", "C18:read_row_count", "%d read, %d written" % (len(rd["timestamps_list"]), n)))
        return
    pairs = [("power_grid_supply_list", column("grid supply [kW]")),
             ("power_generation_feed_in_list", column("generation feed-in [kW]")),
             ("power_v2g_feed_in_list", column("V2G feed-in [kW]")),
             ("power_battery_feed_in_list", column("battery feed-in [kW]"))]
    for name, want in pairs:
        if [fq(x) for x in rd[name]] != [F(float(w)) for w in want]:
            viol.append(("read_back", "C18:read_column:" + name, "differs from the file column"))
    fl, lg, bp, cs = (column(x) for x in ("fixed load [kW]", "local generation [kW]", "battery power [kW]",
                                          "sum CS power [kW]"))
    want = [max(float(a) + min(float(b), 0) + min(float(c), 0) + min(float(d), 0), 0) for a, b, c, d in zip(fl, lg, bp, cs)]
    if rd["power_fix_load_list"] != want:
        viol.append(("read_back", "C18:read_column:power_fix_load_list", "differs from the documented combination"))
    if "window signal [-]" in col:
        want = [s.gcWindowSchedule[gc][i] for i in range(n)]
        if [None if w is None else bool(w) for w in rd["window_signal_list"]] != want and \
                [bool(w) for w in rd["window_signal_list"]] != [bool(w) for w in want]:
            viol.append(("read_back", "C18:read_column:window_signal_list", "%s vs series %s"
                         % (rd["window_signal_list"][:8], want[:8])))
        stats.append("window_column_read")
    if "schedule [kW]" in col:
        want = [None if x is None else float(rhe(fq(x))) for x in s.gcPowerSchedule[gc][:n]]
        if rd["power_schedule_list"] != want:
            viol.append(("read_back", "C18:read_column:power_schedule_list", "differs from the series"))
    elif n and rd["power_schedule_list"] is not None:
        viol.append(("read_back", "C18:read_column:power_schedule_list", "list without a column"))
    stats.append("read_back_checked")


def oracle_costs(s, gc, gcs, obs, rd, costs_mod, viol, stats):
    """post-hoc cost calculation on the written file == in-run result (same options)"""
    calls = obs["cost_calls"]
    idx = list(s.components.grid_connectors.keys()).index(gc)
    if idx >= len(calls):
        stats.append("inrun_cost_missing")
        return
    rec = calls[idx]
    kw = rec["kwargs"]
    default_cc = kw["cc_type"]
    for cc in costs_mod.COST_CALCULATION:
        # in-run side: the recorded call itself for the strategy's scheme, the same series for the others
        if cc == default_cc:
            if "result" not in rec:
                stats.append("inrun_cost_failed_" + rec.get("error", "?"))
                try:
                    with warnings.catch_warnings():
                        warnings.simplefilter("ignore")
                        costs_mod.calculate_costs(
                            cc_type=cc, voltage_level=kw["voltage_level"], interval=kw["interval"],
                            **copy.deepcopy(rd), price_sheet_path=kw["price_sheet_path"],
                            grid_operator=kw["grid_operator"], fee_type=kw["fee_type"], results_json=None,
                            power_pv_nominal=kw["power_pv_nominal"])
                    ok = rec.get("error") == "FileNotFoundError"      # reported separately (results path)
                except Exception as e:
                    ok = type(e).__name__ == rec.get("error")
                if not ok:
                    viol.append(("cost_posthoc", "C18:posthoc_cost_differs:" + cc,
                                 "%s scheme %s: in-run raised %s, post-hoc did not fail alike" % (gc, cc, rec.get("error"))))
                continue
            inrun = rec["result"]
        else:
            try:
                with warnings.catch_warnings():
                    warnings.simplefilter("ignore")
                    inrun = costs_mod.calculate_costs(**{**copy.deepcopy(kw), "cc_type": cc, "results_json": None})
            except Exception:
                stats.append("scheme_not_applicable_" + cc)
                continue
        try:
            with warnings.catch_warnings():
                warnings.simplefilter("ignore")
                post = costs_mod.calculate_costs(
                    cc_type=cc, voltage_level=kw["voltage_level"], interval=kw["interval"],
                    **copy.deepcopy(rd), price_sheet_path=kw["price_sheet_path"],
                    grid_operator=kw["grid_operator"], fee_type=kw["fee_type"], results_json=None,
                    power_pv_nominal=kw["power_pv_nominal"])
            post_v = cost_view(post)
        except Exception as e:
            post_v = "!" + type(e).__name__
        in_v = cost_view(inrun)
        stats.append("cost_compared_" + cc)
        if in_v != post_v:
            key = "C18:posthoc_cost_differs:" + cc
            if cc == "balanced_market" and kw.get("price_list") is None and not any(rd["price_list"]) \
                    and isinstance(post_v, dict):
                key = "C18:price_column_name_mismatch"
            viol.append(("cost_posthoc", key,
                         "%s scheme %s: in-run %s, post-hoc from the written file %s" % (gc, cc, in_v, post_v)))


# ------------------------------------------------------------------------------------------ compare

def parse_model_cell(tokn):
    k, v = tokn[0], tokn[1:]
    if tokn == "N":
        return ("none", None)
    if k == "i":
        return ("int", int(v))
    if k == "n":
        return ("num", F(v))
    if k == "r":
        return ("raw", F(v))
    if k == "t":
        return ("time", int(v))
    if k == "b":
        return ("bool", v == "1")
    raise ValueError(tokn)


def cmp_cell(text, cell):
    kind, v = cell
    if kind == "none":
        return text == "None"
    if kind == "bool":
        return text == str(v)
    if kind == "time":
        return text == str(datetime.datetime(1970, 1, 1) + datetime.timedelta(microseconds=v))
    if kind == "int":
        return re.fullmatch(r"-?\d+", text) is not None and int(text) == v
    return cell_matches(text, v, exact=(kind == "num"))


def parse_local(txt):
    out = {}
    for part in txt.split(" "):
        k, v = part.split("=", 1)
        if v == "N":
            out[k] = None
        elif v.startswith("["):
            items = [x for x in v[1:-1].split(";") if x != ""]
            if k == "maxStored":
                out[k] = {x.rsplit(":", 1)[0]: F(x.rsplit(":", 1)[1]) for x in items}
            else:
                out[k] = [F(x) for x in items]
        else:
            out[k] = F(v)
    return out


def compare(case, impl, model):
    if impl.startswith("@s_backfill "):
        import s_backfill
        return s_backfill.compare(case, impl, model)
    if case["k"] == "split":
        return None if impl == model.split(" | ")[0] else "differs"
    im = json.loads(impl)
    if "global" in im:
        return compare_global(im["global"], model)
    if "fb" in im:
        return c18_flexcols.compare(case, im, model, compare)
    if "jk" in im:
        return c18_jsonkeys.compare(im, model)
    secs = model.split(" || ")
    if len(secs) != 5:
        return "model output malformed: %s" % model[:200]
    m_ts, m_soc, m_loc, m_read, _ = secs
    # time series
    if "ts" in im:
        if m_ts.startswith("!"):
            return "model raises %s, implementation wrote rows" % m_ts
        parts = m_ts.split(";")
        header = parts[0].split(",")
        rows = [p.split(",") for p in parts[1:]] if len(parts) > 1 else []
        if header != im["ts"]["header"]:
            return "header: impl %s model %s" % (im["ts"]["header"], header)
        if len(rows) != len(im["ts"]["rows"]):
            return "row count: impl %d model %d" % (len(im["ts"]["rows"]), len(rows))
        ties = {(a, b) for a, b in im.get("ties", [])}
        for i, (ri, rm) in enumerate(zip(im["ts"]["rows"], rows)):
            if len(ri) != len(rm):
                return "row %d length: impl %d model %d" % (i, len(ri), len(rm))
            for j, (text, tk) in enumerate(zip(ri, rm)):
                if not cmp_cell(text, parse_model_cell(tk)) and (i, header[j]) not in ties:
                    return "row %d column %r: impl %s model %s" % (i, header[j], text, tk)
    elif "ts_error" in im and not m_ts.startswith("!"):
        return "implementation raises %s in aggregate_timeseries, model returns rows" % im["ts_error"]
    # SoC series
    if "soc" in im:
        if m_soc.startswith("!"):
            return "model raises %s for the SoC series" % m_soc
        cols = {}
        if m_soc:
            for part in m_soc.split(";"):
                vid, vals = part.split(":", 1)
                cols[vid] = vals.split(",") if vals else []
        vids = im["soc"]["header"][2:]
        if list(cols) != vids:
            return "soc vehicles: impl %s model %s" % (vids, list(cols))
        for i, row in enumerate(im["soc"]["rows"]):
            for vi, vid in enumerate(vids):
                text, mv = row[2 + vi], cols[vid][i]
                ok = (text == "None") if mv == "N" else (parse_num(text) is not None
                                                         and float(parse_num(text)) == float(F(mv)))
                if not ok:
                    return "soc step %d %s: impl %s model %s" % (i, vid, text, mv)
    # aggregates
    if "local" in im:
        if m_loc.startswith("!"):
            return "model raises %s in aggregate_local_results" % m_loc
        ml = parse_local(m_loc)
        for k, v in im["local"].items():
            if k == "needed0":
                if not close(v, ml["needed"] if ml["needed"] is not None else 0):
                    return "aggregate needed: impl %s model %s" % (v, ml["needed"])
                continue
            mv = ml[k]
            if v is None or mv is None:
                if not (v is None and mv is None):
                    return "aggregate %s: impl %s model %s" % (k, v, mv)
            elif isinstance(v, list):
                if len(v) != len(mv) or not all(close(a, b) for a, b in zip(v, mv)):
                    return "aggregate %s: impl %s model %s" % (k, v, [float(x) for x in mv])
            elif isinstance(v, dict):
                if set(v) != set(mv) or not all(close(v[x], mv[x]) for x in v):
                    return "aggregate %s: impl %s model %s" % (k, v, mv)
            elif not close(v, mv):
                return "aggregate %s: impl %s model %s" % (k, v, float(mv))
    # read-back
    if "read" in im:
        if m_read.startswith("!"):
            return "model raises %s reading its own rows, implementation read the file" % m_read
        rd = im["read"]
        rows = [r.split(",") for r in m_read.split(";")] if m_read else []
        if len(rows) != rd["n"]:
            return "read-back rows: impl %d model %d" % (rd["n"], len(rows))
        for i, r in enumerate(rows):
            t = str(datetime.datetime(1970, 1, 1) + datetime.timedelta(microseconds=int(r[0][1:])))
            if t != rd["time"][i]:
                return "read-back time row %d" % i
            for name, j in (("price", 1), ("grid", 2), ("fix", 3), ("gen", 4), ("v2g", 5), ("bat", 6)):
                # the fixed-load combination is float arithmetic on rounded values in the reader; a cell of the
                # row that was skipped as a float tie may shift it by 0.001
                if name == "fix":
                    k = sum(1 for a, b in im.get("ties", []) if a == i)
                    bad = abs(float(F(r[j])) - rd[name][i]) > 1e-9 + 0.001 * k
                else:
                    k = sum(1 for a, b in im.get("ties", []) if a == i and "feed-in" in b)
                    bad = abs(float(F(r[j])) - rd[name][i]) > 0.001 * k if k else float(F(r[j])) != rd[name][i]
                if bad:
                    return "read-back %s row %d: impl %s model %s" % (name, i, rd[name][i], r[j])
            w = rd["window"][i]
            if (r[7] == "N") != (w is None) or (w is not None and (r[7] == "1") != bool(w)):
                return "read-back window row %d: impl %s model %s" % (i, w, r[7])
            sch = rd["schedule"]
            if r[8] == "-":
                if sch is not None:
                    return "read-back schedule: impl has a list, model has no column"
            elif sch is None:
                return "read-back schedule: impl None, model %s" % r[8]
            elif (r[8] == "N") != (sch[i] is None) or (sch[i] is not None and float(F(r[8])) != sch[i]):
                return "read-back schedule row %d: impl %s model %s" % (i, sch[i], r[8])
    elif "read_error" in im and not m_read.startswith("!"):
        return "implementation raises %s in read_simulation_csv, model reads the rows" % im["read_error"]
    return None


def compare_global(g, model):
    try:
        atl, sc, un = model.split(" | ")
    except ValueError:
        return "model output malformed"
    m_atl = [F(x) for x in atl[1:-1].split(";") if x]
    if len(m_atl) != len(g["all_totalLoad"]) or not all(close(a, b) for a, b in zip(g["all_totalLoad"], m_atl)):
        return "all_totalLoad differs"
    rows = re.findall(r"\[([^\]]*)\]", sc)
    m_sc = [[F(x) for x in r.split(";") if x] for r in rows]
    if len(g["sum_cs"]) and [[F(x) for x in r] for r in g["sum_cs"]] != m_sc:
        return "sum_cs differs"
    dicts = re.findall(r"\{([^}]*)\}", un)
    if len(dicts) != len(g["order"]):
        return "loads: connector count"
    for gid, dtxt in zip(g["order"], dicts):
        md = {}
        for m in re.finditer(r"([^;:\[\]]+):\[([^\]]*)\]", dtxt):
            md[m.group(1)] = [F(x) for x in m.group(2).split(";") if x]
        want = {k: [F(x) for x in v] for k, v in g["loads"][gid].items()}
        if md != want or list(md) != list(want):
            return "loads[%s] differ: impl %s model %s" % (gid, list(want), list(md))
    return None


def eval_case(case):
    if case["k"] == "split":
        return eval_split(case)
    return eval_run(case)
