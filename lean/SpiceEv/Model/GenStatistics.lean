/-
Model of spice_ev/generate/generate_from_statistics.py (`generate_from_statistics`, the numeric
part of `generate_trip`), transliterated statement by statement, as a pure function of the
parameters and of the recorded list of `generate_trip` results (the "draws").

Modelled: fleet construction from `args.vehicles`, the day loop (`while now < stop + 2*daily`),
the no-drive `continue`, the holiday `break`, the trip arithmetic, the truthiness rule for the
initial desired SoC, the overlap discard, the back-patch of the previous arrival through its list
index, the past-the-end rule, the clean-up, the charging-station table.
REPAIRED behaviour (fixes/F5.diff, fixes/F6.diff): the clean-up tolerates a vehicle that never
got a trip (`pop(..., None)`), and an arrival event is created with `desired_soc = args.min_soc`
(the pinned code wrote the placeholder `0`, which survived when no later trip patched it).
Not modelled: price signals (`random.gauss` after the trips; seeded reproducibility is a paired
real run), the `trips_above_min_soc` print, external csv options, `min_power` of the stations.
-/
import SpiceEv.Model.GenEvent
namespace SpiceEv.Gen

/-- the fields of one entry of vehicle_types.json the generator reads -/
structure StatType (α : Type) where
  name : String
  capacity : α
  /-- per 100 km, as in the JSON file -/
  mileage : α
  /-- `no_drive_days` (Monday = 0); `[]` when the key is absent -/
  noDrive : List Nat
  /-- second components of `charging_curve` -/
  curvePowers : List α
  deriving Repr

/-- one result of `generate_trip`: departure time of day, duration (both µs), distance in km -/
structure Draw (α : Type) where
  depTod : Int
  duration : Int
  distance : α
  deriving Repr

structure StatParams (α : Type) where
  /-- `start` after `replace(tzinfo=UTC+2)`, local µs since 1970-01-01T00:00 -/
  start : Int
  days : Int
  minSoc : α
  /-- `vars(args).get("buffer", 0.1)` (the default is resolved by the harness) -/
  buffer : α
  /-- `vars(args).get("holidays", [])` as day numbers (days since 1970-01-01) -/
  holidays : List Int
  predefined : List (StatType α)
  /-- `args.vehicles`: `(count, type name)` -/
  vehicles : List (Int × String)
  deriving Repr

/-- `v_info` of the generator: the emitted fields plus the temporary keys
`last_arrival_idx` / `arrival` (`none` = key not present). -/
structure VInfo (α : Type) where
  id : String
  ty : StatType α
  etd0 : Option Int
  desired0 : Option α
  lastArrivalIdx : Option Nat
  arrival : Int
  deriving Repr

/-- the part of the state shared by all vehicles -/
structure Shared (α : Type) where
  draws : List (Draw α)
  events : List (VEvent α)
  deriving Repr

section
variable {α : Type} [Add α] [Sub α] [Mul α] [Div α] [Neg α] [LT α] [LE α]
  [DecidableLT α] [DecidableLE α] [OfNat α 0] [OfNat α 1] [OfNat α 100]

/-- `min(max(x, lo), hi)` — the clipping `generate_trip` applies to the three Gaussian draws. -/
def clampDraw (x lo hi : α) : α := pymin (pymax x lo) hi

/-- `datetime.weekday()` of the local day number `d` (1970-01-01 was a Thursday = 3). -/
def weekday (d : Int) : Nat := ((d + 3) % 7).toNat

/-- local day number of a time -/
def dayOf (t : Int) : Int := t / DAY

/-- first loop of the generator: `vehicle_types.update({v_type: predefined[v_type]})`,
`vehicle_types[v_type]["count"] = int(count)` — insertion ordered, a repeated type keeps its
position and takes the last count. -/
def addType (pre : List (StatType α)) (acc : List (StatType α × Int)) (cv : Int × String) :
    Py (List (StatType α × Int)) :=
  match pre.find? (fun t => t.name == cv.2) with
  | none => .error .assertion
  | some t =>
    if acc.any (fun p => p.1.name == cv.2) then
      .ok (acc.map (fun p => if p.1.name == cv.2 then (t, cv.1) else p))
    else .ok (acc ++ [(t, cv.1)])

def buildTypes (pre : List (StatType α)) (vs : List (Int × String)) : Py (List (StatType α × Int)) :=
  vs.foldlM (addType pre) []

/-- second loop: `for i in range(count)`: `v_id = "{}_{}".format(v_type, i)` -/
def buildVehicles (types : List (StatType α × Int)) : List (VInfo α) :=
  types.flatMap (fun p => (List.range p.2.toNat).map (fun i =>
    {
        id := p.1.name ++ "_" ++ toString i, ty := p.1, etd0 := none, desired0 := none,
        lastArrivalIdx := none, arrival := 0 }))

/-- `v_info["desired_soc"] or desired_soc` -/
def orDesired (cur : Option α) (d : α) : Option α :=
  match cur with
  | none => some d
  | some c => if isZero c then some d else some c

/-- the `update` applied to the previous arrival event -/
def patchArrival (departure : Int) (desired : α) (e : VEvent α) : VEvent α :=
  { e with etd := some departure, desired := desired }

/-- the quantities computed from one draw: `departure`, `arrival`, `soc_delta`, `desired_soc` -/
structure Trip (α : Type) where
  departure : Int
  arrival : Int
  socDelta : α
  desired : α
  deriving Repr

/-- trip arithmetic (`ZeroDivisionError` for a zero capacity) -/
def mkTrip (P : StatParams α) (now : Int) (ty : StatType α) (dr : Draw α) : Py (Trip α) := do
  -- convert mileage per 100 km in 1 km
  let mileage := ty.mileage / 100
  let departure := dayOf now * DAY + dr.depTod
  let arrival := departure + dr.duration
  let socDelta ← pydiv (dr.distance * mileage) ty.capacity
  -- add buffer on top of soc_delta
  let desired := pymax P.minSoc (socDelta * (1 + P.buffer))
  .ok { departure := departure, arrival := arrival, socDelta := socDelta, desired := desired }

def depEvent (vid : String) (t : Trip α) : VEvent α := {
  kind := .departure, time := t.departure, vehicle := vid,
  eta := some t.arrival, cs := none, etd := none, desired := 0, socDelta := 0 }

/-- REPAIRED (F6): `desired_soc` starts as `args.min_soc` (pinned code: `0`) -/
def arrEvent (minSoc : α) (vid : String) (t : Trip α) : VEvent α := {
  kind := .arrival, time := t.arrival, vehicle := vid, eta := none,
  cs := some ("CS_" ++ vid), etd := none, desired := minSoc, socDelta := -t.socDelta }

/-- from `if now >= stop: continue` to the end of the loop body -/
def addTrip (P : StatParams α) (now : Int) (v : VInfo α) (evs : List (VEvent α)) (t : Trip α) :
    VInfo α × List (VEvent α) :=
  let stop := P.start + P.days * DAY
  if stop ≤ now then (v, evs)             -- after end of scenario: trip not included
  else ({ v with lastArrivalIdx := some (evs.length + 1), arrival := t.arrival },
        evs ++ [depEvent v.id t, arrEvent P.minSoc v.id t])

/-- loop body from `v_info["desired_soc"] = v_info["desired_soc"] or desired_soc` on -/
def applyTrip (P : StatParams α) (now : Int) (v : VInfo α) (evs : List (VEvent α)) (t : Trip α) :
    VInfo α × List (VEvent α) :=
  let v1 := { v with desired0 := orDesired v.desired0 t.desired }
  -- `if "last_arrival_idx" in v_info`
  match v.lastArrivalIdx with
  | some i =>
    if t.departure ≤ v.arrival then (v1, evs)   -- still on last trip, discard new trip
    else addTrip P now v1 (patchAt (patchArrival t.departure t.desired) i evs) t
  | none =>
    -- first event for this vehicle: update directly
    addTrip P now { v1 with etd0 := some t.departure, desired0 := some t.desired } evs t

/-- body of `for v_id, v_info in vehicles.items()` after the two skip tests, for one vehicle -/
def vehicleStep (P : StatParams α) (now : Int) (v : VInfo α) (sh : Shared α) :
    Py (VInfo α × Shared α) :=
  match sh.draws with
  | [] => .error .exception            -- the recorded draw list is exhausted (cannot happen in a replay)
  | dr :: draws => do
    let t ← mkTrip P now v.ty dr
    let r := applyTrip P now v sh.events t
    .ok (r.1, { draws := draws, events := r.2 })

/-- `for v_id, v_info in vehicles.items():` for one day (`continue` on a no-drive day of the
vehicle's type, `break` on a holiday) -/
def dayLoop (P : StatParams α) (now : Int) : List (VInfo α) → Shared α → Py (List (VInfo α) × Shared α)
  | [], sh => .ok ([], sh)
  | v :: vs, sh =>
    if v.ty.noDrive.contains (weekday (dayOf now)) then do
      let (vs', sh') ← dayLoop P now vs sh
      .ok (v :: vs', sh')
    else if P.holidays.contains (dayOf now) then .ok (v :: vs, sh)
    else do
      let (v', sh1) ← vehicleStep P now v sh
      let (vs', sh2) ← dayLoop P now vs sh1
      .ok (v' :: vs', sh2)

/-- `now = start - daily; while now < stop + 2*daily: now += daily; …` — the values `now` takes
in the loop body, computed by the loop itself with fuel (`none` = fuel exhausted). -/
def whileDays (stop : Int) : Nat → Int → Option (List Int)
  | 0, _ => none
  | fuel + 1, now =>
    if now < stop + 2 * DAY then
      (whileDays stop fuel (now + DAY)).map (fun r => (now + DAY) :: r)
    else some []

/-- closed form of the days visited: `start, start + 1d, …, start + (days+2)d` -/
def dayList (start days : Int) : List Int :=
  (List.range (days + 3).toNat).map (fun (k : Nat) => start + (k : Int) * DAY)

def daysLoop (P : StatParams α) : List Int → List (VInfo α) → Shared α → Py (List (VInfo α) × Shared α)
  | [], vs, sh => .ok (vs, sh)
  | now :: rest, vs, sh => do
    let (vs', sh') ← dayLoop P now vs sh
    daysLoop P rest vs' sh'

structure StatOut (α : Type) where
  vehicles : List (VInit α)
  events : List (VEvent α)
  stations : List (Station α)
  /-- draws left over (0 in a replay of a real run) -/
  unused : Nat
  deriving Repr

/-- the entry of `components["vehicles"]` left after the clean-up of the temporary keys -/
def VInfo.toInit (minSoc : α) (v : VInfo α) : VInit α := {
  id := v.id, cs := some ("CS_" ++ v.id), etd := v.etd0, desired := v.desired0,
  soc := minSoc, vtype := v.ty.name }

/-- `generate_from_statistics` (vehicle part of the returned scenario) -/
def generateFromStatistics (P : StatParams α) (draws : List (Draw α)) : Py (StatOut α) := do
  let types ← buildTypes P.predefined P.vehicles
  let vs := buildVehicles types
  let stations ← vs.mapM (fun v => do
    let p ← pyMaxList v.ty.curvePowers
    .ok ({ id := "CS_" ++ v.id, maxPower := p } : Station α))
  let stop := P.start + P.days * DAY
  match whileDays stop ((P.days + 3).toNat + 1) (P.start - DAY) with
  | none => .error .fuel
  | some days =>
    let (vs', sh) ← daysLoop P days vs { draws := draws, events := [] }
    .ok {
      vehicles := vs'.map (VInfo.toInit P.minSoc),
      events := sh.events, stations := stations, unused := sh.draws.length }

end
end SpiceEv.Gen
