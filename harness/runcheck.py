"""Common body of the run-level checks: generate a scenario, run the REAL simulation with the
run-time trace, evaluate the property's oracle on the outputs, and render the recorded run for the
Lean run-loop model (correspondence of Scenario.run's bookkeeping, safety monitor and abort logic)."""
import random

import engine
import scen
import runoracle
import steptie

engine.use_repo()


def gen_cases_for(pid, tier, seed, per_strategy_quick=14, per_strategy_thorough=260, strategies=None,
                  fault=False, builder_quick=0, builder_thorough=0):
    strategies = strategies or scen.STRATEGIES
    n = per_strategy_quick if tier == "quick" else per_strategy_thorough
    nb = builder_quick if tier == "quick" else builder_thorough
    for i in range(nb):
        for st in BUILDER_FAMILIES:
            yield {"seed": seed, "i": i, "strategy": st, "pid": pid, "family": "builder"}
    for i in range(n):
        for st in strategies:
            c = {"seed": seed, "i": i, "strategy": st, "pid": pid}
            if fault and i % 3 == 0:
                c["fault"] = True
            yield c


RUN_EXTRAS = {"C17"}

BUILDER_FAMILIES = ["balanced_market", "distributed", "flex_window", "peak_load_window", "peak_shaving", "schedule"]


def builder_full(strategy, seed, i):
    """a scenario from the generator that the builder of this strategy's model developed for its tie (class-specific
    options such as HORIZON / perfect_foresight / sub-strategies, tight and lattice families, directed variants);
    deliberately malformed variants are left out"""
    import importlib
    m = importlib.import_module("s_" + strategy)
    if strategy in ("balanced_market", "distributed", "peak_shaving"):
        return m.gen_full(seed, i)
    if strategy == "flex_window":
        return m.gen_full({"seed": seed, "i": i})
    if strategy == "peak_load_window":
        vs = [v for v in sorted(set(m.VARIANTS)) if v != "malformed"]
        full = m.make_case(seed, i // len(vs), vs[i % len(vs)])
        full.get("meta", {}).pop("perturb", None)   # the builder's tie nudges SoCs onto EPS boundaries in flight: not here
        return full
    if strategy == "schedule":
        collective = i % 2 == 1
        vs = [v for v in m.VARIANTS if v in ("plain", "two_connectors", "no_target")]
        variant = vs[(i // 2) % len(vs)]
        rng = random.Random("S_SCHEDULE:%s:%s:%s" % (seed, i // 2, collective))
        full = scen.gen_scenario(rng, strategy="schedule", feasible=rng.random() < 0.8, max_steps=40,
                                 n_gc=2 if (variant == "two_connectors" and not collective) else None,
                                 features={"collective": collective})
        return m.directed(full, rng, variant)
    raise ValueError(strategy)


def build_case(case):
    if "scenario" in case:
        return case
    if case.get("family") == "builder":
        full = builder_full(case["strategy"], case["seed"], case["i"])
        full["pid"] = case["pid"]
        full.setdefault("meta", {})
        return full
    rng = random.Random("%s:%s:%s:%s" % (case["pid"], case["seed"], case["i"], case["strategy"]))
    full = scen.gen_scenario(rng, strategy=case["strategy"], feasible=rng.random() < 0.85)
    full["pid"] = case["pid"]
    if case.get("fault"):
        full["fault_step"] = rng.randint(0, full["scenario"]["scenario"]["n_intervals"] - 1)
    return full


def eval_run(case, oracles, timeout_s=90, step_tie=True):
    full = build_case(case)
    fault = full.get("fault_step")
    extras = full.get("pid") in RUN_EXTRAS          # constructor / back-fill ties of the run (s_ctor, s_backfill)
    if extras:
        import s_backfill
        import s_ctor
        rec = s_backfill.Recorder().start()
    try:
        r, tie_lines, tie_impl = steptie.run_with_tie(
            full, lambda: scen.run_real(full, timeout_s=timeout_s, fault_step=fault), step_tie)
    finally:
        if extras:
            rec.stop()
    viol, stats = [], [full["strategy"]]
    for o in oracles:
        if o is runoracle.check_c17:
            viol += o(full, r, fault_step=fault)
        else:
            viol += o(full, r)
    lines, impl = [], []
    if r.get("step_i") is not None and not r.get("escaped") and not r.get("timeout") \
            and len(r["trace"]) == r["step_i"]:
        lines.append(runoracle.runloop_line(full, r))
        impl.append(runoracle.runloop_impl(full, r))
    lines += tie_lines
    impl += tie_impl
    if extras and r.get("scenario_obj") is not None and not r.get("escaped") and not r.get("timeout"):
        for ls, im in (s_ctor.run_time_line(full, r), s_backfill.lines_for(r["scenario_obj"], rec)):
            lines += ls
            impl += im
        bv, bstats = s_backfill.oracle(r["scenario_obj"], rec)
        viol += bv
        stats += sorted(set(bstats))
    if r.get("aborted"):
        stats.append("aborted")
        txt = [l for l in r.get("abort_text", "").strip().split("\n") if l.strip() and not l.startswith("Energy")]
        if txt:
            stats.append("abort:" + txt[-1].split(":")[0][:40])
    if r.get("escaped"):
        stats.append("escaped")
    binding = 0
    if r.get("step_i"):
        for t in range(r["step_i"]):
            for gid, g in r["trace"][t]["post_strategy"]["gcs"].items():
                if abs(abs(r["totalLoad"][gid][t]) - g["cur_max_power"]) < 1e-3:
                    binding += 1
                    break
        if binding:
            stats.append("limit_binds")
    replay_case = {k: v for k, v in full.items()}
    comp = full["scenario"]["components"]
    sample = {"strategy": full["strategy"], "options": full["options"], "scenario": full["scenario"]["scenario"],
              "connectors": {g: c["max_power"] for g, c in comp["grid_connectors"].items()},
              "vehicles": len(comp["vehicles"]), "stations": len(comp["charging_stations"]),
              "batteries": list(comp.get("batteries", {})),
              "fixed_load_series": list(full["scenario"]["events"].get("fixed_load", {})),
              "generation_series": list(full["scenario"]["events"].get("local_generation", {})),
              "signals": len(full["scenario"]["events"].get("grid_operator_signals", [])),
              "vehicle_events": len(full["scenario"]["events"].get("vehicle_events", [])),
              "reported_steps": r.get("step_i"), "aborted": r.get("aborted"), "fault_step": fault,
              "steps_with_binding_limit": binding}
    return {"lines": lines, "impl": impl, "violations": viol, "nontrivial": bool(r.get("step_i")),
            "stats": stats, "replay_case": replay_case, "sample": sample,
            "num": {"max_steps_in_a_run": r.get("step_i") or 0}}


def compare(case, impl, model):
    handled, d = steptie.compare(impl, model)
    return d if handled else runoracle.runloop_compare(impl, model)
