/-
C14, third sentence, for the complete `Distributed.step` (no stationary batteries, greedy / balanced sub-strategies,
local generation and V2G allowed): a station that carries power after the step has a connected vehicle that holds a
charging point of the station's connector; with `number_cs = n` at most `n` stations of the connector carry power.

Invariant of the connector loop and of the final surplus pass (`NInv`): ids / parents / connections are those of the
world after the reset of the station powers, and every station with power has a holder connected to it.
-/
import SpiceEv.Proofs.StratDistributedRun
import SpiceEv.Properties.C14
set_option linter.unusedSectionVars false
set_option linter.unusedVariables false
set_option linter.unusedSimpArgs false
namespace SpiceEv.DistRun
open SpiceEv SpiceEv.Distrib SpiceEv.Frame
variable {α B : Type} [Field α] [LinearOrder α] [IsStrictOrderedRing α]

/-! ### `candidates` reads the vehicle ids only -/

theorem candidates_congr (w w' : SWorld α B) (ncs : List (String × Option Int)) (conn : List (String × List String))
    (g : String) (h : w.vehicles.map vmeta = w'.vehicles.map vmeta) :
    candidates w ncs conn g = candidates w' ncs conn g := by
  unfold candidates
  rw [ids_of_vmeta _ _ h]

/-- station `sid` of connector `par` has a connected vehicle that holds a charging point of `par` -/
def Good (w : SWorld α B) (ncs : List (String × Option Int)) (conn : List (String × List String))
    (sid par : String) : Prop :=
  ∃ v ∈ w.vehicles, v.cs = some sid ∧ ∃ cands, candidates w ncs conn par = .ok cands ∧ v.id ∈ cands

theorem vtwin (l l' : List (VehicleS α B)) (h : l.map vmeta = l'.map vmeta) (v : VehicleS α B) (hv : v ∈ l) :
    ∃ v' ∈ l', v'.id = v.id ∧ v'.cs = v.cs := by
  have : vmeta v ∈ l'.map vmeta := by rw [← h]; exact List.mem_map.mpr ⟨v, hv, rfl⟩
  obtain ⟨v', hv', hm⟩ := List.mem_map.mp this
  exact ⟨v', hv', congrArg Prod.fst hm, congrArg (fun t => t.2.1) hm⟩

theorem stwin (l l' : List (StationS α)) (h : l.map smeta = l'.map smeta) (s : StationS α) (hs : s ∈ l) :
    ∃ s' ∈ l', s'.id = s.id ∧ s'.parent = s.parent := by
  have : smeta s ∈ l'.map smeta := by rw [← h]; exact List.mem_map.mpr ⟨s, hs, rfl⟩
  obtain ⟨s', hs', hm⟩ := List.mem_map.mp this
  exact ⟨s', hs', congrArg Prod.fst hm, congrArg Prod.snd hm⟩

theorem Good_congr (w w' : SWorld α B) (ncs : List (String × Option Int)) (conn : List (String × List String))
    (sid par : String) (h : w.vehicles.map vmeta = w'.vehicles.map vmeta) (hg : Good w ncs conn sid par) :
    Good w' ncs conn sid par := by
  obtain ⟨v, hv, hcs, cands, hc, hid⟩ := hg
  obtain ⟨v', hv', h1, h2⟩ := vtwin _ _ h v hv
  exact ⟨v', hv', h2.trans hcs, cands, by rw [← candidates_congr w w' ncs conn par h]; exact hc, by rw [h1]; exact hid⟩

theorem nodup_of_smeta (l l' : List (StationS α)) (h : l.map smeta = l'.map smeta)
    (hN : (l'.map (·.id)).Nodup) : (l.map (·.id)).Nodup := by
  have : l.map (fun (s : StationS α) => s.id) = (l.map smeta).map (·.1) := by
    rw [List.map_map]; rfl
  rw [this, h, List.map_map]; exact hN

theorem nodup_of_vmeta (l l' : List (VehicleS α B)) (h : l.map vmeta = l'.map vmeta)
    (hN : (l'.map (·.id)).Nodup) : (l.map (·.id)).Nodup := by
  rw [ids_of_vmeta _ _ h]; exact hN

/-- the invariant: static data of `w0`, and every station with power has a holder -/
structure NInv (w0 : SWorld α B) (ncs : List (String × Option Int)) (conn : List (String × List String))
    (w : SWorld α B) : Prop where
  sm : w.stations.map smeta = w0.stations.map smeta
  vm : w.vehicles.map vmeta = w0.vehicles.map vmeta
  good : ∀ cs ∈ w.stations, cs.currentPower ≠ 0 → Good w0 ncs conn cs.id cs.parent

/-! ### the virtual world: stations of connected vehicles, vehicles that are candidates -/

theorem subStations_conn (w : SWorld α B) (cvs : List (VehicleS α B)) (stations : List (StationS α))
    (h : subStations w cvs = .ok stations) : ∀ s ∈ stations, ∃ v ∈ cvs, v.cs = some s.id := by
  unfold subStations at h
  have key : ∀ (l : List (VehicleS α B)) (acc acc' : List (StationS α)), (∀ v ∈ l, v ∈ cvs) →
      (∀ s ∈ acc, ∃ v ∈ cvs, v.cs = some s.id) →
      l.foldlM (fun (acc : List (StationS α)) v =>
        match v.cs with
        | none => Except.ok acc
        | some csId =>
          match w.station? csId with
          | none => Except.error PyErr.keyError
          | some cs => if acc.any (fun s => s.id == csId) then Except.ok acc else Except.ok (acc ++ [cs])) acc
        = .ok acc' → ∀ s ∈ acc', ∃ v ∈ cvs, v.cs = some s.id := by
    intro l
    induction l with
    | nil =>
      intro acc acc' _ hi h
      simp only [List.foldlM_nil, pure, Except.pure, Except.ok.injEq] at h
      subst h; exact hi
    | cons v l ih =>
      intro acc acc' hl hi h
      simp only [List.foldlM_cons, bind, Except.bind] at h
      have hl' : ∀ x ∈ l, x ∈ cvs := fun x hx => hl x (by simp [hx])
      split at h
      · cases h
      · rename_i a1 h1
        refine ih a1 acc' hl' ?_ h
        split at h1
        · simp only [Except.ok.injEq] at h1; subst h1; exact hi
        · rename_i csId hcs
          split at h1
          · cases h1
          · rename_i cs hst
            have hid : cs.id = csId := (station?_some' _ _ _ hst).2
            split at h1
            · simp only [Except.ok.injEq] at h1; subst h1; exact hi
            · simp only [Except.ok.injEq] at h1; subst h1
              intro s hs
              rcases List.mem_append.mp hs with h' | h'
              · exact hi s h'
              · simp only [List.mem_cons, List.not_mem_nil, or_false] at h'
                subst h'
                exact ⟨v, hl v (by simp), by rw [hid]; exact hcs⟩
  exact key cvs [] stations (fun v hv => hv) (by intro s hs; simp at hs) h

theorem connectedAt_cands (w : SWorld α B) (gcId : String) (cands : List String) (cvs : List (VehicleS α B))
    (h : connectedAt w gcId cands = .ok cvs) : ∀ v ∈ cvs, v.id ∈ cands := by
  unfold connectedAt at h
  have key : ∀ (l : List String) (acc acc' : List (VehicleS α B)), (∀ x ∈ l, x ∈ cands) →
      (∀ v ∈ acc, v.id ∈ cands) →
      l.foldlM (fun (acc : List (VehicleS α B)) id =>
        match w.vehicle? id with
        | none => Except.ok acc
        | some v =>
          match v.cs with
          | none => Except.ok acc
          | some csId =>
            if csId == "" then Except.ok acc
            else match w.station? csId with
              | none => Except.error PyErr.keyError
              | some cs => if cs.parent == gcId then Except.ok (acc ++ [v]) else Except.ok acc) acc
        = .ok acc' → ∀ v ∈ acc', v.id ∈ cands := by
    intro l
    induction l with
    | nil =>
      intro acc acc' _ hi h
      simp only [List.foldlM_nil, pure, Except.pure, Except.ok.injEq] at h
      subst h; exact hi
    | cons id l ih =>
      intro acc acc' hl hi h
      simp only [List.foldlM_cons, bind, Except.bind] at h
      have hl' : ∀ x ∈ l, x ∈ cands := fun x hx => hl x (by simp [hx])
      split at h
      · cases h
      · rename_i a1 h1
        refine ih a1 acc' hl' ?_ h
        split at h1
        · simp only [Except.ok.injEq] at h1; subst h1; exact hi
        · rename_i v hv
          split at h1
          · simp only [Except.ok.injEq] at h1; subst h1; exact hi
          · split at h1
            · simp only [Except.ok.injEq] at h1; subst h1; exact hi
            · split at h1
              · cases h1
              · split at h1
                · simp only [Except.ok.injEq] at h1; subst h1
                  intro v' hv'
                  rcases List.mem_append.mp hv' with h' | h'
                  · exact hi v' h'
                  · simp only [List.mem_cons, List.not_mem_nil, or_false] at h'
                    subst h'
                    rw [(vehicle?_some _ _ _ hv).2]
                    exact hl id (by simp)
                · simp only [Except.ok.injEq] at h1; subst h1; exact hi
  exact key cands [] cvs (fun x hx => hx) (by intro v hv; simp at hv) h

/-! ### one connector's treatment keeps the invariant -/

theorem stepGc_ninv (dops : DOps α B) (de : DEnv α) (hd : de.deps.isRule) (ho : de.opps.isRule)
    (ncs : List (String × Option Int)) (conn : List (String × List String)) (lk : Look α)
    (w0 : SWorld α B) (hsN : (w0.stations.map (·.id)).Nodup) (hvN : (w0.vehicles.map (·.id)).Nodup)
    (w w' : SWorld α B) (ini ini' : DInit α) (acc acc' : List (String × α)) (gid : String)
    (hb : (sdGet ini.gcBattery gid).getD [] = []) (hi : NInv w0 ncs conn w)
    (h : stepGc dops de ncs conn lk (w, ini, acc) gid = .ok (w', ini', acc')) :
    NInv w0 ncs conn w' ∧ ini'.gcBattery = ini.gcBattery := by
  obtain ⟨gc, cands, cvs, hgc, hc, hcv, hcase⟩ :=
    stepGc_shape dops de hd ho ncs conn lk w w' ini ini' acc acc' gid hb h
  rcases hcase with ⟨_, rfl, _, rfl⟩ | ⟨hne, kind, stations, vw', cmds, g1, hk, hst, hr, hg1, rfl, _, hgb, _⟩
  · exact ⟨hi, rfl⟩
  · refine ⟨?_, hgb⟩
    have hsm := subStations_mem w cvs stations hst
    have hvm := connectedAt_mem w gid cands cvs hcv
    have hs' : ∀ s ∈ (syncStations vw').stations, ∃ x ∈ w.stations, smeta x = smeta s := by
      intro s hs
      obtain ⟨s0, hs0, hm0⟩ := syncStations_mem vw' s hs
      have := ruleStep_static (fun s => ∃ x ∈ w.stations, smeta x = smeta s) (fun s c hq => hq) _ _ _ _ vw' cmds
        (fun s hs => ⟨s, hsm s hs, rfl⟩) hr s0 hs0
      obtain ⟨x, hx, hxm⟩ := this
      exact ⟨x, hx, hxm.trans hm0⟩
    have hv' : ∀ v ∈ (syncStations vw').vehicles, ∃ x ∈ w.vehicles, vmeta x = vmeta v := by
      intro v hv
      rw [syncStations_vehicles] at hv
      exact ruleStep_vstatic (fun v => ∃ x ∈ w.vehicles, vmeta x = vmeta v) (fun v b hq => hq) _ _ _ _ vw' cmds
        (fun v hv => ⟨v, hvm v hv, rfl⟩) hr v hv
    obtain ⟨m1, m2, m3, m4⟩ := writeBack_meta w (syncStations vw') (stations.map (·.id)) (cvs.map (·.id))
      (nodup_of_smeta _ _ hi.sm hsN) (nodup_of_vmeta _ _ hi.vm hvN) hs' hv'
    refine ⟨m1.trans hi.sm, m2.trans hi.vm, ?_⟩
    intro cs hcs hp
    have hcs' : cs ∈ (writeBack w (syncStations vw') (stations.map (·.id)) (cvs.map (·.id))).stations := hcs
    rcases writeBack_stations_mem _ _ _ _ cs hcs' with hw | hsub
    · exact hi.good cs hw hp
    · obtain ⟨s0, hs0, hm0⟩ := syncStations_mem vw' cs hsub
      have := ruleStep_static (fun s => ∃ x ∈ stations, smeta x = smeta s) (fun s c hq => hq) _ _ _ _ vw' cmds
        (fun s hs => ⟨s, hs, rfl⟩) hr s0 hs0
      obtain ⟨x, hx, hxm⟩ := this
      have hm : smeta x = smeta cs := hxm.trans hm0
      have hid : x.id = cs.id := congrArg Prod.fst hm
      have hpar : x.parent = cs.parent := congrArg Prod.snd hm
      obtain ⟨v, hv, hvcs⟩ := subStations_conn w cvs stations hst x hx
      have hloc := connectedAt_local w gid cands cvs hcv
      have hxp := (subStations_local w gid cvs stations hloc hst x hx).2
      apply Good_congr w w0 ncs conn _ _ hi.vm
      refine ⟨v, hvm v hv, by rw [← hid]; exact hvcs, cands, ?_, connectedAt_cands w gid cands cvs hcv v hv⟩
      rw [← hpar, hxp]; exact hc

/-- the connector loop keeps the invariant -/
theorem loop_ninv (dops : DOps α B) (de : DEnv α) (hd : de.deps.isRule) (ho : de.opps.isRule)
    (ncs : List (String × Option Int)) (conn : List (String × List String)) (lk : Look α)
    (w0 : SWorld α B) (hsN : (w0.stations.map (·.id)).Nodup) (hvN : (w0.vehicles.map (·.id)).Nodup)
    (gb : List (String × List String)) (hgcb : ∀ k, (sdGet gb k).getD [] = [])
    (l : List String) (st st' : SWorld α B × DInit α × List (String × α))
    (hi : NInv w0 ncs conn st.1 ∧ st.2.1.gcBattery = gb)
    (h : l.foldlM (stepGc dops de ncs conn lk) st = .ok st') :
    NInv w0 ncs conn st'.1 ∧ st'.2.1.gcBattery = gb := by
  refine foldlM_inv (stepGc dops de ncs conn lk)
    (fun st => NInv w0 ncs conn st.1 ∧ st.2.1.gcBattery = gb) ?_ l st st' hi h
  intro s gid s' hs hstep
  obtain ⟨w, ini, acc⟩ := s
  obtain ⟨w', ini', acc'⟩ := s'
  obtain ⟨h1, h2⟩ := stepGc_ninv dops de hd ho ncs conn lk w0 hsN hvN w w' ini ini' acc acc' gid
    (by rw [hs.2]; exact hgcb gid) hs.1 hstep
  exact ⟨h1, h2.trans hs.2⟩

/-! ### the final surplus pass -/

theorem foldlM_inv_mem' {σ' ι : Type} (f : σ' → ι → Py σ') (P : σ' → Prop) :
    ∀ (l : List ι) (s s' : σ'), (∀ s b s', b ∈ l → P s → f s b = .ok s' → P s') → P s →
      l.foldlM f s = .ok s' → P s' := by
  intro l
  induction l with
  | nil =>
    intro s s' _ hs h
    simp only [List.foldlM_nil, pure, Except.pure, Except.ok.injEq] at h
    subst h; exact hs
  | cons b rest ih =>
    intro s s' hf hs h
    simp only [List.foldlM_cons, bind, Except.bind] at h
    split at h
    · cases h
    · rename_i s1 hs1
      exact ih s1 s' (fun s b s' hb => hf s b s' (List.mem_cons_of_mem _ hb))
        (hf s b s1 List.mem_cons_self hs hs1) h

theorem station?_of_mem (w : SWorld α B) (hN : (w.stations.map (·.id)).Nodup) (s : StationS α)
    (hs : s ∈ w.stations) : w.station? s.id = some s :=
  find?_of_mem_nodup (fun (x : StationS α) => x.id) w.stations hN s hs

/-- every vehicle of the final pass holds a charging point of the connector of its station -/
theorem surplusIds_mem (w : SWorld α B) (ncs : List (String × Option Int)) (conn : List (String × List String))
    (hsN : (w.stations.map (·.id)).Nodup) (hvN : (w.vehicles.map (·.id)).Nodup) (ids : List String)
    (h : surplusIds w ncs conn = .ok ids) :
    ∀ id ∈ ids, ∀ v ∈ w.vehicles, v.id = id → ∀ cs ∈ w.stations, v.cs = some cs.id →
      ∃ cands, candidates w ncs conn cs.parent = .ok cands ∧ id ∈ cands := by
  unfold surplusIds at h
  refine foldlM_inv _ (fun (acc : List String) => ∀ id ∈ acc, ∀ v ∈ w.vehicles, v.id = id →
      ∀ cs ∈ w.stations, v.cs = some cs.id → ∃ cands, candidates w ncs conn cs.parent = .ok cands ∧ id ∈ cands)
    ?_ w.gcs [] ids (by intro id hid; simp at hid) h
  intro acc g acc' hi hs
  simp only [bind, Except.bind] at hs
  split at hs
  · cases hs
  · rename_i cands hc
    simp only [Except.ok.injEq] at hs
    subst hs
    have key : ∀ (l : List String) (acc : List String), (∀ x ∈ l, x ∈ cands) →
        (∀ id ∈ acc, ∀ v ∈ w.vehicles, v.id = id → ∀ cs ∈ w.stations, v.cs = some cs.id →
          ∃ cands, candidates w ncs conn cs.parent = .ok cands ∧ id ∈ cands) →
        ∀ id ∈ l.foldl (fun (acc : List String) id =>
          match w.vehicle? id with
          | none => acc
          | some v =>
            match v.cs.bind w.station? with
            | none => acc
            | some cs => if cs.parent == g.id then (if acc.contains id then acc else acc ++ [id]) else acc) acc,
          ∀ v ∈ w.vehicles, v.id = id → ∀ cs ∈ w.stations, v.cs = some cs.id →
          ∃ cands, candidates w ncs conn cs.parent = .ok cands ∧ id ∈ cands := by
      intro l
      induction l with
      | nil => intro acc _ hacc; exact hacc
      | cons x l ih =>
        intro acc hl hacc
        simp only [List.foldl_cons]
        apply ih _ (fun y hy => hl y (by simp [hy]))
        split
        · exact hacc
        · rename_i v0 hv0
          split
          · exact hacc
          · rename_i cs0 hcs0
            split
            · rename_i hpar
              split
              · exact hacc
              · intro id hid
                rcases List.mem_append.mp hid with h' | h'
                · exact hacc id h'
                · simp only [List.mem_cons, List.not_mem_nil, or_false] at h'
                  subst h'
                  intro v hv hvid cs hcs hvcs
                  have e1 : w.vehicle? id = some v := by rw [← hvid]; exact vehicle?_of_mem w hvN v hv
                  rw [e1] at hv0
                  simp only [Option.some.injEq] at hv0
                  subst hv0
                  rw [hvcs] at hcs0
                  simp only [Option.bind_some] at hcs0
                  rw [station?_of_mem w hsN cs hcs] at hcs0
                  simp only [Option.some.injEq] at hcs0
                  subst hcs0
                  have : cs.parent = g.id := by simpa using hpar
                  exact ⟨cands, by rw [this]; exact hc, hl id (by simp)⟩
            · exact hacc
    exact key cands acc (fun x hx => hx) hi

/-- the final pass keeps the invariant -/
theorem finalPass_ninv (ops : BatOps α B) (env : StratEnv α)
    (ncs : List (String × Option Int)) (conn : List (String × List String))
    (w0 : SWorld α B) (hsN : (w0.stations.map (·.id)).Nodup) (hvN : (w0.vehicles.map (·.id)).Nodup)
    (w w' : SWorld α B) (ids : List String) (cmds' : List (String × α))
    (hids : ∀ id ∈ ids, ∀ v ∈ w0.vehicles, v.id = id → ∀ cs ∈ w0.stations, v.cs = some cs.id →
      ∃ cands, candidates w0 ncs conn cs.parent = .ok cands ∧ id ∈ cands)
    (hi : NInv w0 ncs conn w)
    (h : distributeSurplusOn ops env w ids = .ok (w', cmds')) : NInv w0 ncs conn w' := by
  unfold distributeSurplusOn at h
  simp only [bind, Except.bind] at h
  split at h
  · cases h
  · rename_i cheap _
    refine foldlM_inv_mem' _ (fun (st : SWorld α B × List (String × α)) => NInv w0 ncs conn st.1) ids (w, [])
      (w', cmds') ?_ hi h
    intro st id st' hidm hst hs
    obtain ⟨cur, cm⟩ := st
    simp only at hs hst
    split at hs
    · simp only [Except.ok.injEq] at hs; subst hs; exact hst
    · rename_i v hv
      obtain ⟨hvm, hvid⟩ := vehicle?_some _ _ _ hv
      rw [surplusVehicle_eq] at hs
      split at hs
      · simp only [Except.ok.injEq] at hs; subst hs; exact hst
      · rename_i csId hcs
        split at hs
        · cases hs
        · rename_i cs hcsq
          obtain ⟨hcsm, hcsid⟩ := station?_some' _ _ _ hcsq
          split at hs
          · cases hs
          · rename_i gc hgc
            split at hs
            · cases hs
            · rename_i r hr
              simp only [Except.ok.injEq] at hs
              subst hs
              cases r with
              | none => exact hst
              | some t =>
                obtain ⟨bat', d, cur'⟩ := t
                have hcN := nodup_of_smeta _ _ hst.sm hsN
                have hvN' := nodup_of_vmeta _ _ hst.vm hvN
                refine ⟨?_, ?_, ?_⟩
                · show (cur.stations.map (fun x => if x.id == cs.id then { cs with currentPower := cur' } else x)).map
                    smeta = _
                  rw [← hst.sm]
                  exact map_replace_meta (fun (s : StationS α) => s.id) smeta
                    (fun a b hab => congrArg Prod.fst hab) cur.stations hcN { cs with currentPower := cur' }
                    ⟨cs, hcsm, rfl⟩
                · show (cur.setVehicle { v with bat := bat' }).vehicles.map vmeta = _
                  rw [setVehicle_vmeta cur v bat' hvN' hvm]
                  exact hst.vm
                · intro s hs hp
                  have hs' : s ∈ (((cur.setVehicle { v with bat := bat' }).setGc (gc.addLoad csId d).1).setStation
                      { cs with currentPower := cur' }).stations := hs
                  rcases mem_setStation' _ _ s hs' with rfl | ⟨hm, _⟩
                  · obtain ⟨v0, hv0, hv0id, hv0cs⟩ := vtwin _ _ hst.vm v hvm
                    obtain ⟨s0, hs0, hs0id, hs0p⟩ := stwin _ _ hst.sm cs hcsm
                    obtain ⟨cands, hc, hin⟩ := hids id hidm v0 hv0 (hv0id.trans hvid) s0 hs0
                      (by rw [hv0cs, hcs, hs0id, hcsid])
                    refine ⟨v0, hv0, by rw [hv0cs, hcs]; exact congrArg some hcsid.symm, cands, ?_, ?_⟩
                    · show candidates w0 ncs conn cs.parent = _
                      rw [← hs0p]; exact hc
                    · rw [hv0id, hvid]; exact hin
                  · exact hst.good s hm hp

/-! ### the ranking: at most `number_cs` holders -/

theorem ncs_sdGet_sdSet_self {β : Type} (l : List (String × β)) (k : String) (x : β) :
    sdGet (sdSet l k x) k = some x := by
  induction l with
  | nil => simp [sdSet, sdGet]
  | cons a rest ih =>
    obtain ⟨k', v'⟩ := a
    unfold sdSet
    by_cases h : (k' == k) = true
    · simp [h, sdGet]
    · simp only [h, Bool.false_eq_true, if_false, sdGet]
      exact ih

theorem ncs_sdGet_sdSet_ne {β : Type} (l : List (String × β)) (k k' : String) (x : β) (h : k' ≠ k) :
    sdGet (sdSet l k x) k' = sdGet l k' := by
  induction l with
  | nil =>
    have : (k == k') = false := by simpa using (Ne.symm h)
    simp [sdSet, sdGet, this]
  | cons a rest ih =>
    obtain ⟨k0, v0⟩ := a
    unfold sdSet
    by_cases h0 : (k0 == k) = true
    · have hk : k0 = k := by simpa using h0
      have : (k0 == k') = false := by rw [hk]; simpa using (Ne.symm h)
      simp [h0, sdGet, this]
    · simp only [h0, Bool.false_eq_true, if_false, sdGet]
      rw [ih]

theorem rankGc_len (w : SWorld α B) (lk : Look α) (holders : List String) (g : String) (n : Int) (c : List String)
    (h : rankGc w lk holders g n = .ok c) : (c.length : Int) ≤ n := by
  unfold rankGc at h
  simp only at h
  split at h
  · cases h
  · rename_i hn
    split at h
    · cases h
    · have := (C14_number_cs _ _ _ _ h).1
      omega

/-- connector `g`: if a station count is configured, `self.connected[g]` exists and is at most that long -/
def RankOK (ncs : List (String × Option Int)) (conn : List (String × List String)) (g : String) : Prop :=
  ∀ n, (sdGet ncs g).getD none = some n → ∃ c, sdGet conn g = some c ∧ (c.length : Int) ≤ n

theorem rank_len (w : SWorld α B) (ncs : List (String × Option Int)) (lk : Look α)
    (conn conn' : List (String × List String)) (h : rank w ncs lk conn = .ok conn') :
    ∀ x ∈ w.gcs, RankOK ncs conn' x.id := by
  unfold rank at h
  have key : ∀ (l : List (GcS α)) (conn conn' : List (String × List String)),
      l.foldlM (fun (conn : List (String × List String)) g =>
        match (sdGet ncs g.id).getD none with
        | none => Except.ok conn
        | some n =>
          match sdGet conn g.id with
          | none => Except.error PyErr.keyError
          | some holders => do
            let c ← rankGc w lk holders g.id n
            Except.ok (sdSet conn g.id c)) conn = .ok conn' →
      (∀ k, RankOK ncs conn k → RankOK ncs conn' k) ∧ ∀ x ∈ l, RankOK ncs conn' x.id := by
    intro l
    induction l with
    | nil =>
      intro conn conn' h
      simp only [List.foldlM_nil, pure, Except.pure, Except.ok.injEq] at h
      subst h
      exact ⟨fun k hk => hk, by intro x hx; simp at hx⟩
    | cons x l ih =>
      intro conn conn' h
      simp only [List.foldlM_cons, bind, Except.bind] at h
      split at h
      · cases h
      · rename_i conn1 h1
        obtain ⟨ih1, ih2⟩ := ih conn1 conn' h
        have body : (∀ k, RankOK ncs conn k → RankOK ncs conn1 k) ∧ RankOK ncs conn1 x.id := by
          split at h1
          · rename_i hn
            simp only [Except.ok.injEq] at h1; subst h1
            refine ⟨fun k hk => hk, ?_⟩
            intro n hn'
            rw [hn] at hn'; cases hn'
          · rename_i n' hn
            split at h1
            · cases h1
            · rename_i holders _
              split at h1
              · cases h1
              · rename_i c hc
                simp only [Except.ok.injEq] at h1; subst h1
                have hx : RankOK ncs (sdSet conn x.id c) x.id := by
                  intro n hn'
                  rw [hn] at hn'
                  simp only [Option.some.injEq] at hn'
                  subst hn'
                  exact ⟨c, ncs_sdGet_sdSet_self _ _ _, rankGc_len w lk holders x.id n' c hc⟩
                refine ⟨?_, hx⟩
                intro k hk
                by_cases hkx : k = x.id
                · rw [hkx]; exact hx
                · intro n hn'
                  rw [ncs_sdGet_sdSet_ne _ _ _ _ hkx]
                  exact hk n hn'
        refine ⟨fun k hk => ih1 k (body.1 k hk), ?_⟩
        intro y hy
        rcases List.mem_cons.mp hy with rfl | hy'
        · exact ih1 _ body.2
        · exact ih2 y hy'
  exact (key w.gcs conn conn' h).2

/-! ### the complete step -/

theorem step_ninv (dops : DOps α B) (de : DEnv α) (hd : de.deps.isRule) (ho : de.opps.isRule)
    (s s' : DState α B) (cmds : List (String × α))
    (hgcb : ∀ k, (sdGet s.init.gcBattery k).getD [] = [])
    (hstN : (s.world.stations.map (·.id)).Nodup) (hveN : (s.world.vehicles.map (·.id)).Nodup)
    (h : step dops de s = .ok (s', cmds)) :
    s'.numberCs = s.numberCs ∧ NInv (resetStations s.world) s.numberCs s'.connected s'.world ∧
    (∀ x ∈ s.world.gcs, RankOK s.numberCs s'.connected x.id) ∧
    ((resetStations s.world).stations.map (·.id)).Nodup := by
  unfold step at h
  simp only [bind, Except.bind] at h
  split at h
  · cases h
  · rename_i lk _
    split at h
    · cases h
    · rename_i connected hrank
      split at h
      · cases h
      · rename_i st3 hfold
        obtain ⟨w3, ini3, c3⟩ := st3
        simp only at h
        split at h
        · cases h
        · rename_i ids hids
          split at h
          · cases h
          · rename_i r hsur
            obtain ⟨w4, c4⟩ := r
            simp only [Except.ok.injEq, Prod.mk.injEq] at h
            obtain ⟨rfl, rfl⟩ := h
            have hsN0 : ((resetStations s.world).stations.map (·.id)).Nodup :=
              nodup_of_smeta _ _ (resetStations_smeta s.world) hstN
            have hvN0 : ((resetStations s.world).vehicles.map (·.id)).Nodup := hveN
            have hi0 : NInv (resetStations s.world) s.numberCs connected (resetStations s.world) := by
              refine ⟨rfl, rfl, ?_⟩
              intro cs hcs hp
              unfold resetStations at hcs
              simp only [List.mem_map] at hcs
              obtain ⟨x, _, rfl⟩ := hcs
              exact absurd rfl hp
            obtain ⟨hi3, _⟩ := loop_ninv dops de hd ho s.numberCs connected lk (resetStations s.world) hsN0 hvN0
              s.init.gcBattery hgcb _ (resetStations s.world, s.init, []) (w3, ini3, c3) ⟨hi0, rfl⟩ hfold
            simp only at hi3
            have hmem := surplusIds_mem w3 s.numberCs connected (nodup_of_smeta _ _ hi3.sm hsN0)
              (nodup_of_vmeta _ _ hi3.vm hvN0) ids hids
            have hmem0 : ∀ id ∈ ids, ∀ v ∈ (resetStations s.world).vehicles, v.id = id →
                ∀ cs ∈ (resetStations s.world).stations, v.cs = some cs.id →
                ∃ cands, candidates (resetStations s.world) s.numberCs connected cs.parent = .ok cands ∧
                  id ∈ cands := by
              intro id hid v hv hvid cs hcs hvcs
              obtain ⟨v3, hv3, e1, e2⟩ := vtwin _ _ hi3.vm.symm v hv
              obtain ⟨s3, hs3, e3, e4⟩ := stwin _ _ hi3.sm.symm cs hcs
              obtain ⟨cands, hc, hin⟩ := hmem id hid v3 hv3 (e1.trans hvid) s3 hs3 (by rw [e2, hvcs, e3])
              refine ⟨cands, ?_, hin⟩
              rw [← candidates_congr w3 _ s.numberCs connected cs.parent hi3.vm, ← e4]
              exact hc
            have hi4 := finalPass_ninv dops.bat de.env s.numberCs connected (resetStations s.world) hsN0 hvN0
              w3 w4 ids c4 hmem0 hi3 hsur
            exact ⟨rfl, hi4, rank_len (resetStations s.world) s.numberCs lk s.connected connected hrank, hsN0⟩

/-- the stations of connector `g` that carry power inject into the holders of `g` -/
theorem charged_count (w : SWorld α B) (ncs : List (String × Option Int)) (conn : List (String × List String))
    (g : String) (c : List String)
    (hsN : (w.stations.map (·.id)).Nodup) (hvN : (w.vehicles.map (·.id)).Nodup)
    (hc : candidates w ncs conn g = .ok c)
    (hgood : ∀ cs ∈ w.stations, cs.currentPower ≠ 0 → Good w ncs conn cs.id cs.parent) :
    (w.stations.filter (fun cs => cs.parent == g && !(decide (cs.currentPower = 0)))).length ≤ c.length := by
  have hS : ((w.stations.filter (fun cs => cs.parent == g && !(decide (cs.currentPower = 0)))).map
      (fun cs => some cs.id)).Nodup := by
    have h1 : ((w.stations.filter (fun cs => cs.parent == g && !(decide (cs.currentPower = 0)))).map
        (·.id)).Nodup := List.Nodup.sublist (List.Sublist.map _ List.filter_sublist) hsN
    have := List.Nodup.map (Option.some_injective String) h1
    rw [List.map_map] at this
    exact this
  have hsub : (w.stations.filter (fun cs => cs.parent == g && !(decide (cs.currentPower = 0)))).map
      (fun cs => some cs.id) ⊆ (w.vehicles.filter (fun v => c.contains v.id)).map (·.cs) := by
    intro o ho
    obtain ⟨cs, hcs, rfl⟩ := List.mem_map.mp ho
    obtain ⟨hm, hf⟩ := List.mem_filter.mp hcs
    simp only [Bool.and_eq_true, beq_iff_eq, Bool.not_eq_true', decide_eq_false_iff_not] at hf
    obtain ⟨v, hv, hvcs, cands, hc', hin⟩ := hgood cs hm hf.2
    rw [hf.1, hc] at hc'
    simp only [Except.ok.injEq] at hc'
    subst hc'
    exact List.mem_map.mpr ⟨v, List.mem_filter.mpr ⟨hv, by simpa using hin⟩, hvcs⟩
  have h1 := (List.subperm_of_subset hS hsub).length_le
  have hV : ((w.vehicles.filter (fun v => c.contains v.id)).map (·.id)).Nodup :=
    List.Nodup.sublist (List.Sublist.map _ List.filter_sublist) hvN
  have hsub2 : (w.vehicles.filter (fun v => c.contains v.id)).map (·.id) ⊆ c := by
    intro x hx
    obtain ⟨v, hv, rfl⟩ := List.mem_map.mp hx
    simpa using (List.mem_filter.mp hv).2
  have h2 := (List.subperm_of_subset hV hsub2).length_le
  simp only [List.length_map] at h1 h2
  omega

theorem candidates_of_rankOK (w : SWorld α B) (ncs : List (String × Option Int)) (conn : List (String × List String))
    (g : String) (n : Int) (hn : (sdGet ncs g).getD none = some n) (hr : RankOK ncs conn g) :
    ∃ c, candidates w ncs conn g = .ok c ∧ (c.length : Int) ≤ n := by
  obtain ⟨c, hc, hl⟩ := hr n hn
  refine ⟨c, ?_, hl⟩
  unfold candidates skipPrio
  simp [hn, hc]

end SpiceEv.DistRun
