/-
Common output vocabulary of the three scenario generators (spice_ev/generate/*.py): the vehicle
events they append to `events["vehicle_events"]` and the initial vehicle states they put into
`components["vehicles"]`.  Core Lean only.

Times are `Int` microseconds of the (single) local clock the generator works in: the statistics
generator forces every datetime to UTC+2, the csv and SimBEV generators use naive datetimes, so
one integer axis is exact.  All three generators write the same expression into `signal_time`
and `start_time` of an event; the model keeps one field `time` (the harness checks that the two
JSON fields agree).
-/
import SpiceEv.Py
namespace SpiceEv.Gen

inductive EvKind where
  | departure | arrival
  deriving DecidableEq, Repr, Inhabited

/-- one entry of `events["vehicle_events"]`.  Fields that a kind does not carry keep their
default (`eta` only on departures; `cs`, `etd`, `desired`, `socDelta` only on arrivals). -/
structure VEvent (α : Type) where
  kind : EvKind
  time : Int
  vehicle : String
  /-- `update["estimated_time_of_arrival"]` (departure events); `none` = JSON null -/
  eta : Option Int
  /-- `update["connected_charging_station"]` (arrival events) -/
  cs : Option String
  /-- `update["estimated_time_of_departure"]` (arrival events) -/
  etd : Option Int
  /-- `update["desired_soc"]` (arrival events) -/
  desired : α
  /-- `update["soc_delta"]` (arrival events) -/
  socDelta : α
  deriving Repr

/-- one entry of `components["vehicles"]` -/
structure VInit (α : Type) where
  id : String
  cs : Option String
  etd : Option Int
  /-- `none` = key absent or JSON null -/
  desired : Option α
  soc : α
  vtype : String
  deriving Repr

/-- one entry of `components["charging_stations"]` (only `max_power` is modelled; `min_power` is
`cs_power_min` or `0.1 * max_power`, `parent` is the constant "GC1") -/
structure Station (α : Type) where
  id : String
  maxPower : α
  deriving Repr

def DAY : Int := 86400000000
def HOUR : Int := 3600000000
def MINUTE : Int := 60000000

/-- events of one vehicle, in list order -/
def vehicleEvents {α : Type} (v : String) (evs : List (VEvent α)) : List (VEvent α) :=
  evs.filter (fun e => e.vehicle == v)

/-- `evs[i]["update"].update(…)`: replace the element at index `i` by `f` of it
(no effect when `i` is out of range — the generators only use indices they created). -/
def patchAt {β : Type} (f : β → β) : Nat → List β → List β
  | _, [] => []
  | 0, x :: xs => f x :: xs
  | i + 1, x :: xs => x :: patchAt f i xs

/-- insertion into a sorted list, before the first element that is not smaller -/
def insertBy {β : Type} (le : β → β → Bool) (a : β) : List β → List β
  | [] => [a]
  | b :: l => if le a b then a :: b :: l else b :: insertBy le a l

/-- Python `sorted(l, key=…)`: the stable sort (elements with equal keys keep their input order).
Written as a structurally recursive insertion sort so that it also evaluates inside the kernel;
the stable sort of a list by a total preorder is unique. -/
def stableSort {β : Type} (le : β → β → Bool) (l : List β) : List β := l.foldr (insertBy le) []

/-- Python `max(list)` over numbers (first maximal element); `ValueError` on an empty list. -/
def pyMaxList {α : Type} [LT α] [DecidableLT α] : List α → Py α
  | [] => .error .valueError
  | x :: xs => .ok (xs.foldl (fun m y => if m < y then y else m) x)

end SpiceEv.Gen
