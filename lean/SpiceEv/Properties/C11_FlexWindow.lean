/-
C11 — Signal following, strategy flex_window (LOAD_STRAT balanced; Model/StratFlexWindow.lean).
-/
import SpiceEv.Proofs.StratFlexWindow
set_option linter.unusedSectionVars false
namespace SpiceEv
open SpiceEv.FlexWindow
variable {α B : Type} [Field α] [LinearOrder α] [IsStrictOrderedRing α]

/-- **No grid energy outside the windows when the windows suffice.** In `distribute_balanced_vehicles`,
for a connected vehicle `v` at station `cs`: if the window in force is closed and the look-ahead
simulation of charging with the full forecast power in every window timestep before the estimated
departure (`windowPass`, the code's first loop) ends within EPS of the desired SoC
(`charged_in_window`), the vehicle is given exactly 0 kW: the connector's load entry for the station
grows by 0 and the command is that entry. (The later surplus pass may still charge it from local
generation surplus — that is not grid energy; the V2G pass outside a window only discharges.) -/
theorem C11_flex_window_no_charge_outside_window (ops : BatOps α B) (law : FwLaw ops) (env : FEnv α)
    (acc acc' : FState α B × List (String × α) × Option α) (v0 : VehicleS α B) (g : GcS α)
    (csId : String) (cs : StationS α) (simBat : B)
    (hg : acc.1.w.gcs = [g])
    (hcs : ((acc.1.w.vehicle? v0.id).getD v0).cs = some csId)
    (hst : getStation acc.1.w csId = .ok cs)
    (hwp : windowPass ops env cs ((acc.1.w.vehicle? v0.id).getD v0) ((acc.1.w.vehicle? v0.id).getD v0).bat
      (env.base.now - env.base.interval) acc.1.ts = .ok simBat)
    (hciw : ((acc.1.w.vehicle? v0.id).getD v0).desiredSoc - ops.soc simBat ≤ env.base.eps)
    (hwin : truthy acc.1.window = false)
    (h : balVehicle ops env acc v0 = .ok acc') :
    acc'.1.w.gcs = [(g.addLoad csId 0).1] ∧ sdGet acc'.2.1 csId = some (g.addLoad csId 0).2 :=
  balVehicle_outside_window ops law.toBatLaw env acc acc' v0 g csId cs simBat hg hcs hst hwp hciw hwin h

/-- **Inside a window the step only charges** (whole step, balanced): with the window open nothing is
discharged — neither V2G vehicles nor stationary batteries — the connector load never decreases. -/
theorem C11_flex_window_window_step_only_charges (ops : BatOps α B) (law : FwLaw ops) (env : FEnv α)
    (hstrat : env.strat = .balanced) (heps : 0 ≤ env.base.eps)
    (w w' : SWorld α B) (window win' : Option Bool) (events : List (FEvent α))
    (cmds : List (String × α)) (g : GcS α) (hg : w.gcs = [g]) (hM : 0 ≤ g.curMax)
    (hwin : win' = some true)
    (h : FlexWindow.step ops env w window events = .ok (w', win', cmds)) :
    ∃ g', w'.gcs = [g'] ∧ g.currentLoad ≤ g'.currentLoad := by
  obtain ⟨g', hg', _, _, _, h4, _⟩ :=
    step_balanced_rel ops law env hstrat heps false w w' window win' events cmds g hg hM h
  exact ⟨g', hg', h4 (by rw [hwin]; rfl)⟩

/-- Non-vacuity: window closed now, open from the next hour on, three hours to go: the windows
suffice (2 × 5 kWh ≥ 6 kWh), the vehicle gets 0 kW now; with the window open it charges. -/
example : resLoads (FlexWindow.step idealOps (exEnv .balanced) exWorld (some false)
    [⟨hourUs, .gos none (some true)⟩]) = some ([3], [0]) := by decide +kernel
example : resLoads (FlexWindow.step idealOps (exEnv .balanced) exWorld (some true) []) =
    some ([10485701 / 2097152], [4194245 / 2097152]) := by decide +kernel

end SpiceEv
