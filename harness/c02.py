"""C02 — charging dynamics follow the charging curve (analytic step = ODE solution).

Correspondence: as C01 (real Battery objects through components vs the Lean model on Float,
bit-level), on the call patterns of this property.  Oracle (Python, independent): an RK4 integrator
of dSoC/dt = +-k*min(curve(SoC), limit)/c (time domain; SoC-domain RK4 of dt/dSoC when the time
domain is too stiff) used as a search aid, split-vs-single calls (semigroup), time and limit
monotonicity pairs, and delivery of a requested target power.
"""
import math
import random

import engine
import battery_common as bc
from battery_common import UNLIMITED

PID = "C02"
RULE = ("batteries from the C01 shape grammar with strictly positive curve power (plus a share with "
        "zero end points where only the metamorphic clauses are evaluated), SoC in [0,1], durations "
        "1 s .. 5 days; five call patterns per battery: ode (one load/unload vs RK4), split (T1 then T2 "
        "vs T1+T2), mono_time (T1 <= T2), mono_limit (L1 <= L2), target_power (vs unrestricted call); "
        "non-trivial = a pattern in which energy is transferred; distinct = distinct case")
ASSUMPTIONS = [
    "well-formed curves with strictly positive power on the traversed SoC range, capacity > 0, "
    "0 < efficiency <= 1, 0 <= SoC <= 1, duration > 0, limit > 0",
    "the code's EPS semantics (EPS = 1e-5/capacity used for SoC, hours and kW): a call may leave up to "
    "EPS hours unused per section and stops within EPS of the target; the oracle's tolerances are "
    "multiples of EPS*(1 + SoC-rate) and of the closed form's float resolution",
]
UNPROVED = [
    "C02_semigroup_partial: proved per section (exp_add) only; on whole calls the EPS cut-offs make the "
    "identity approximate (oracle: split vs single within EPS-tolerance)",
    "C02_mono_limit_partial: proved only for sections on which the limit binds at both ends; the ODE "
    "comparison argument for tapered sections is not formalised (oracle: metamorphic pairs)",
    "C02_target_power_partial: avg <= P and |avg - P| <= EPS*c/(eta*T) when the target is reached are "
    "theorems; 'otherwise equals the unrestricted result' is checked by the oracle only",
    "C02_eps_close_partial: equality of the EPS-semantics for two EPS values is proved per section when "
    "the linear/exponential guard agrees; no uniform deviation bound when a guard is inside its band",
    "that every section step of a whole call uses the curve's own affine piece (the boundary index "
    "always brackets the SoC) is not a theorem (false below SoC 0, see C01 finding); RK4 oracle",
]
CHUNK = 40

engine.use_repo()


def gen_cases(tier, seed):
    rnd = random.Random(seed * 104729 + 202)
    n = 9000 if tier == "quick" else 150000
    pats = ["ode", "ode", "split", "mono_time", "mono_limit", "target_power", "history"]
    for i in range(n):
        positive = rnd.random() < 0.85
        bat = bc.gen_battery(rnd, positive=positive, allow_unlimited=False)
        bat["soc"] = rnd.choice([0.0, 1.0, rnd.random(), rnd.random(), float(rnd.choice(bc.breakpoints(bat)))])
        k = rnd.choice("LLU")
        pat = pats[i % len(pats)]
        cc = bat["pts"]
        maxp = max(p[1] for p in cc)
        mp = rnd.choice([None, None, maxp * rnd.uniform(0.05, 1.2), float(rnd.choice(cc)[1]) or None])
        ts = rnd.choice([None, None, None, rnd.random()])
        us1 = max(1, bc.gen_us(rnd))
        us2 = max(1, bc.gen_us(rnd))
        case = dict(bat, pat=pat, k=k, mp=mp, ts=ts, us1=us1, us2=us2)
        if pat == "mono_limit":
            base = maxp if mp is None else mp
            case["mp"] = base * rnd.uniform(0.05, 1.0)
            case["mp2"] = rnd.choice([base, case["mp"] * rnd.uniform(1.0, 3.0), case["mp"]])
        if pat == "target_power":
            case["ts"] = None
            lim = maxp if mp is None else mp
            case["tp"] = rnd.choice([lim * rnd.random(), lim * rnd.random(), lim, lim * 1.5, 0.0])
        yield case


def runs_of(case):
    """list of op sequences, each run on a fresh battery"""
    k, mp, ts, u1, u2 = case["k"], case["mp"], case["ts"], case["us1"], case["us2"]
    pat = case["pat"]
    if pat == "ode":
        return [[(k, u1, mp, ts, None)]]
    if pat == "split":
        return [[(k, u1, mp, ts, None), (k, u2, mp, ts, None)], [(k, u1 + u2, mp, ts, None)]]
    if pat == "mono_time":
        a, b = min(u1, u2), max(u1, u2)
        return [[(k, a, mp, ts, None)], [(k, b, mp, ts, None)]]
    if pat == "mono_limit":
        return [[(k, u1, case["mp"], ts, None)], [(k, u1, case["mp2"], ts, None)]]
    if pat == "target_power":
        return [[(k, u1, mp, None, case["tp"])], [(k, u1, mp, None, None)]]
    raise ValueError(pat)


def soc_domain_time(fn, limit, kk, c, a, b, brk):
    """RK4 (= Simpson here) of dt/dSoC = c/(k*min(fn, limit)) from a to b, section by section"""
    lo, hi = min(a, b), max(a, b)
    xs = sorted(set([lo, hi] + [x for x in brk if lo < x < hi]))
    total = 0.0
    for x0, x1 in zip(xs, xs[1:]):
        N = 400
        h = (x1 - x0) / N
        f = lambda x: c / (kk * min(fn(x), limit))
        s = f(x0) + f(x1) + 4 * sum(f(x0 + (2 * i + 1) * h / 2) for i in range(N)) \
            + 2 * sum(f(x0 + i * h) for i in range(1, N))
        total += s * h / 6
    return total


def eval_history(case):
    """the state of a battery is its SoC: a call after an opposite call on the SAME object (same limit) gives exactly
    what the same call gives on a fresh battery started at that SoC (efficiencies incl. exactly 1, separate discharge
    curves)"""
    k, mp, ts, u1, u2 = case["k"], case["mp"], case["ts"], case["us1"], case["us2"]
    opp = "U" if k == "L" else "L"
    ops_a = [(opp, u2, mp, None, None), (k, u1, mp, ts, None)]
    line_a = bc.proto_line(case, ops_a)
    impl_a, recs_a, _ = bc.run_ops(case, ops_a)
    lines, impls, viol, stats = [line_a], [impl_a], [], ["history"]
    if len(recs_a) < 2 or any("error" in r for r in recs_a):
        return {"lines": lines, "impl": impls, "violations": [], "nontrivial": False, "stats": stats + ["error_or_malformed"]}
    fresh = dict(case, soc=recs_a[0]["after"])
    ops_b = [(k, u1, mp, ts, None)]
    lines.append(bc.proto_line(fresh, ops_b))
    impl_b, recs_b, _ = bc.run_ops(fresh, ops_b)
    impls.append(impl_b)
    if recs_b and "error" not in recs_b[0]:
        a, b = recs_a[1], recs_b[0]
        if a["after"] != b["after"] or a["avg"] != b["avg"]:
            viol.append(("state_is_soc", "C02:%s_depends_on_previous_call" % ("load" if k == "L" else "unload"),
                         "after an opposite call: soc %r -> %r avg %r; fresh battery at the same SoC: -> %r avg %r"
                         % (a["before"], a["after"], a["avg"], b["after"], b["avg"])))
    moved = recs_a[0]["after"] != recs_a[0]["before"] and recs_a[1]["after"] != recs_a[1]["before"]
    return {"lines": lines, "impl": impls, "violations": viol, "nontrivial": moved, "stats": stats}


def eval_case(case):
    if case["pat"] == "history":
        return eval_history(case)
    runs = runs_of(case)
    lines, impls, allrecs = [], [], []
    for ops in runs:
        lines.append(bc.proto_line(case, ops))
        impl, recs, _ = bc.run_ops(case, ops)
        impls.append(impl)
        allrecs.append(recs)
    viol, stats = [], [case["pat"]]
    nontrivial = False
    wf = (bc.wf_curve(sorted(tuple(p) for p in case["pts"])) and
          (not (case.get("dis") and "C" in case["dis"]) or bc.wf_curve(sorted(tuple(p) for p in case["dis"]["C"]))))
    if not wf or any("error" in r for recs in allrecs for r in recs) or any(not recs for recs in allrecs):
        # errors are C01's business (completes_without_error); nothing to compare here
        stats.append("error_or_malformed")
        return {"lines": lines, "impl": impls, "violations": viol, "nontrivial": False, "stats": stats}
    k = case["k"]
    c = bc.capacity_of(case)
    eta = bc.eff_of(case)
    eps = 1e-5 / c
    kb = eta if k == "L" else 1 / eta
    sign = 1.0 if k == "L" else -1.0
    cfn, dfn, cbrk, dbrk = bc.curves_of(case)
    fn = cfn if k == "L" else dfn
    brk = cbrk if k == "L" else dbrk

    def lim_of(mp):
        return bc.default_limit(case, k) if mp is None else mp

    below_res = [False]   # the traversed range has a feature the code's EPS position resolution cannot see

    def tol_eps(limit, nsec, a=0.0, b=1.0):
        """SoC tolerance of the code's EPS semantics between SoC a and b: up to EPS hours unused per
        section boundary, EPS of SoC at the target, and — because positions are only resolved to EPS
        (boundaries within EPS of the SoC are skipped and the chord to the next boundary starts from
        the power at the current SoC) — a power resolution of slope*EPS, i.e. a relative rate error of
        slope*EPS/P over the distance travelled"""
        rate = kb * min(max(fn(x) for x in brk), limit) / c
        lo, hi = min(a, b), max(a, b)
        xs = bc.clamped_breaks(fn, brk, limit)
        xs = sorted(set([lo, hi] + [x for x in xs if lo - 2 * eps <= x <= hi + 2 * eps]))
        slope = 0.0
        for x0, x1 in zip(xs, xs[1:]):
            if x1 > x0:
                slope = max(slope, abs(min(fn(x1), limit) - min(fn(x0), limit)) / (x1 - x0))
        pmin = max(bc.inf_power(fn, brk, lo, hi, limit), 1e-300)
        rel = min(1.0, 2 * slope * eps / pmin)
        below_res[0] = 2 * slope * eps / pmin >= 1.0
        return 1e-9 + 3 * eps * (1 + rate) * (nsec + 2) + rel * (hi - lo)

    def sfx():
        return ":curve_feature_below_eps_resolution" if below_res[0] else ""

    def nsec(a, b):
        return sum(1 for x in brk if min(a, b) < x < max(a, b))

    def minpow(a, b, limit):
        return bc.inf_power(fn, brk, a, b, limit)

    def resolution(a, b, limit):
        """float resolution of the closed form on the traversed sections (see C01 finding)"""
        return max(_resolution(a, b, limit),
                   bc.chord_scale(fn, brk, limit, kb, eps, a, target, sign, b))

    def _resolution(a, b, limit):
        lo, hi = min(a, b), max(a, b)
        xs = sorted(set([lo, hi] + [x for x in brk if lo < x < hi]
                        + [max([x for x in brk if x < lo] or [0.0]), min([x for x in brk if x > hi] or [1.0])]))
        worst = 0.0
        for x0, x1 in zip(xs, xs[1:]):
            y0, y1 = kb * min(fn(x0), limit), kb * min(fn(x1), limit)
            worst = max(worst, bc.formula_scale(y0, y1, x1 - x0, eps, x0))
        return worst

    pat = case["pat"]
    r0 = allrecs[0][0]
    soc0 = r0["before"]
    T1 = r0["op"][1] / 10 ** 6 / 3600
    limit = lim_of(r0["op"][2])
    ts = case["ts"]
    if k == "L":
        target = min(1.0, 1.0 if ts is None else ts)
    else:
        target = max(min(soc0, 0.0), 0.0 if ts is None else ts)
    moving = sign * (target - soc0) > eps and limit > 0
    if pat == "ode":
        after = r0["after"]
        if moving and after != soc0:
            nontrivial = True
            pmin = minpow(soc0, target, limit)
            res = resolution(soc0, after, limit)
            if pmin * kb < 1e-3 or soc0 < 0 or res > 1e-10:
                stats.append("ode_skipped_small_power_or_nearflat")
            else:
                lo_, hi_ = min(soc0, after), max(soc0, after)
                xs_ = [x for x in brk if lo_ - 0.01 < x < hi_ + 0.01]
                narrow = any(b_ - a_ < 0.01 for a_, b_ in zip(xs_, xs_[1:]))
                # a fixed-step time-domain RK4 is only trustworthy without near-discontinuities
                ref = None if narrow else bc.rk4(fn, limit, kb, c, soc0, T1, target, sign, max_steps=30000)
                tol = 2e-6 * (1 + abs(after - soc0)) + tol_eps(limit, nsec(soc0, after), soc0, after)
                if ref is not None:
                    stats.append("ode_rk4")
                    if abs(ref - after) > tol:
                        viol.append(("ode", "C02:%s_differs_from_ode%s" % ("load" if k == "L" else "unload", sfx()),
                                     "soc %r -> %r, RK4 %r (T=%rh, limit %r, tol %.3g)"
                                     % (soc0, after, ref, T1, limit, tol)))
                else:
                    # too stiff in the time domain: integrate dt/dSoC instead
                    stats.append("ode_soc_domain")
                    t_need = soc_domain_time(fn, limit, kb, c, soc0, after, brk)
                    rate_end = kb * min(fn(after), limit) / c
                    reached = abs(after - target) <= 2 * eps
                    dt = (t_need - T1)
                    bad = (dt * rate_end > tol) if reached else (abs(dt) * rate_end > tol)
                    if bad:
                        viol.append(("ode", "C02:%s_differs_from_ode%s" % ("load" if k == "L" else "unload", sfx()),
                                     "soc %r -> %r needs %rh by quadrature, call had %rh (target %s)"
                                     % (soc0, after, t_need, T1, "reached" if reached else "not reached")))
    elif pat in ("split", "mono_time", "mono_limit"):
        a_recs, b_recs = allrecs
        a_after, b_after = a_recs[-1]["after"], b_recs[-1]["after"]
        ea = sum(r["avg"] * (r["op"][1] / 3.6e9) for r in a_recs)
        eb = sum(r["avg"] * (r["op"][1] / 3.6e9) for r in b_recs)
        lim2 = lim_of(b_recs[0]["op"][2])
        res = max(resolution(soc0, a_after, limit), resolution(soc0, b_after, lim2))
        nontrivial = a_after != soc0 or b_after != soc0
        ns = max(nsec(soc0, a_after), nsec(soc0, b_after))
        if res > 1e-10:
            stats.append("nearflat_skipped")
        elif pat == "split":
            tol = tol_eps(limit, ns, soc0, sign * max(sign * a_after, sign * b_after)) * 2 + 8 * res
            if abs(a_after - b_after) > tol:
                viol.append(("semigroup", "C02:split_calls_differ_from_single",
                             "two calls -> %r, one call -> %r (tol %.3g)" % (a_after, b_after, tol)))
            tol_e = tol * c / min(kb, 1.0) + 1e-9 * max(1.0, abs(eb))
            if abs(ea - eb) > tol_e * (1 / kb if k == "L" else 1.0) + tol_e:
                viol.append(("semigroup", "C02:split_calls_energy_differs",
                             "two calls %r kWh, one call %r kWh" % (ea, eb)))
        elif pat == "mono_time":
            tol = 1e-12 + 8 * res
            if sign * (b_after - a_after) < -tol:
                viol.append(("mono_time", "C02:more_time_transfers_less",
                             "T=%rh -> %r, T=%rh -> %r" % (a_recs[0]["op"][1] / 3.6e9, a_after,
                                                           b_recs[0]["op"][1] / 3.6e9, b_after)))
            if eb < ea - (tol * c * max(kb, 1 / kb) + 1e-9 * max(1.0, ea)):
                viol.append(("mono_time", "C02:more_time_less_energy", "%r kWh vs %r kWh" % (ea, eb)))
        else:
            tol = tol_eps(lim2, ns, soc0, sign * max(sign * a_after, sign * b_after)) * 2 + 8 * res
            if lim2 >= limit and sign * (b_after - a_after) < -tol:
                viol.append(("mono_limit", "C02:higher_limit_transfers_less",
                             "limit %r -> %r, limit %r -> %r (tol %.3g)" % (limit, a_after, lim2, b_after, tol)))
    elif pat == "target_power":
        rp, ru = allrecs[0][0], allrecs[1][0]
        P = case["tp"]
        nontrivial = rp["after"] != soc0
        tgt = soc0 + sign * P * kb * T1 / c
        res = max(resolution(soc0, rp["after"], limit), resolution(soc0, ru["after"], limit))
        tol = tol_eps(limit, nsec(soc0, ru["after"]), soc0, ru["after"]) * 2 + 8 * res
        if res > 1e-10 or T1 <= 0:
            stats.append("nearflat_skipped")
        elif rp["avg"] > P + 1e-9 * max(1.0, P) + tol * c / (kb * T1):
            viol.append(("target_power", "C02:target_power_exceeded", "asked %r kW, delivered %r kW" % (P, rp["avg"])))
        elif sign * (ru["after"] - tgt) > tol and 0 <= tgt <= 1:
            # the unrestricted call passes the target: exactly P is delivered
            stats.append("target_power_reachable")
            bound = 1e-5 / (kb * T1) * (1 + 1e-6) + 1e-9 * max(1.0, P) + tol * c / (kb * T1) * 0 \
                + 8 * res * c / (kb * T1)
            if abs(rp["avg"] - P) > bound:
                viol.append(("target_power", "C02:target_power_not_delivered",
                             "asked %r kW for %rh, delivered %r kW (bound %.3g)" % (P, T1, rp["avg"], bound)))
        elif sign * (tgt - ru["after"]) > tol:
            # not reachable: the result is the unrestricted one
            stats.append("target_power_unreachable")
            if abs(rp["after"] - ru["after"]) > tol:
                viol.append(("target_power", "C02:target_power_unreachable_differs_from_unrestricted",
                             "with target power -> %r, unrestricted -> %r (tol %.3g)" % (rp["after"], ru["after"], tol)))
        else:
            stats.append("target_power_borderline")
    return {"lines": lines, "impl": impls, "violations": viol, "nontrivial": nontrivial, "stats": stats}


def compare(case, impl, model):
    if case["pat"] == "history":
        if impl == model:
            return None
        k, mp, ts, u1, u2 = case["k"], case["mp"], case["ts"], case["us1"], case["us2"]
        opp = "U" if k == "L" else "L"
        return bc.compare_ops(case, [[(opp, u2, mp, None, None), (k, u1, mp, ts, None)], [(k, u1, mp, ts, None)]],
                              impl, model)
    return bc.compare_ops(case, runs_of(case), impl, model)
