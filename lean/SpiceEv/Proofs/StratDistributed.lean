/-
Lemmas about the model of `Distributed` (Model/StratDistributed.lean): what the sub-strategy's step
(`ruleStep`) does to the connector list, frame of one connector's treatment, the battery-support loops.
-/
import SpiceEv.Model.StratDistributed
import SpiceEv.Proofs.Strategies
import SpiceEv.Proofs.StrategiesBat
import SpiceEv.Properties.C04
import Mathlib.Tactic.Linarith
set_option linter.unusedSectionVars false
set_option linter.unusedSimpArgs false
set_option linter.unusedVariables false
namespace SpiceEv.Distrib
open SpiceEv
variable {α B : Type} [Field α] [LinearOrder α] [IsStrictOrderedRing α]

/-! ### the sub-strategy's step keeps the connector list (ids, limits, prices) -/

theorem updateBattery_meta (ops : BatOps α B) (env : StratEnv α) (cheap : List (String × Bool))
    (w w' : SWorld α B) (b : StatBatS α B) (h : updateBattery ops env cheap w b = .ok w') :
    w'.gcs.map (·.id) = w.gcs.map (·.id) ∧ SameMeta w w' := by
  unfold updateBattery at h
  split at h
  · simp only [Except.ok.injEq] at h; subst h; exact ⟨rfl, SameMeta.refl _⟩
  · rename_i gc hgc
    obtain ⟨hgm, _⟩ := gc?_some _ _ gc hgc
    simp only [bind, Except.bind] at h
    split at h
    · cases h
    · split at h
      · split at h
        · cases h
        · simp only [Except.ok.injEq] at h; subst h
          exact ⟨by rw [setGc_ids]; rfl, sameMeta_setGc_addLoad (w.setBattery _) gc hgm _ _⟩
      · split at h
        · split at h
          · cases h
          · simp only [Except.ok.injEq] at h; subst h
            exact ⟨by rw [setGc_ids]; rfl, sameMeta_setGc_addLoad (w.setBattery _) gc hgm _ _⟩
        · split at h
          · cases h
          · simp only [Except.ok.injEq] at h; subst h
            exact ⟨by rw [setGc_ids]; rfl, sameMeta_setGc_addLoad (w.setBattery _) gc hgm _ _⟩

theorem updateBatteries_meta (ops : BatOps α B) (env : StratEnv α) (w w' : SWorld α B)
    (h : updateBatteries ops env w = .ok w') :
    w'.gcs.map (·.id) = w.gcs.map (·.id) ∧ SameMeta w w' := by
  unfold updateBatteries at h
  simp only [bind, Except.bind] at h
  split at h
  · cases h
  · rename_i cheap _
    have key : ∀ (L : List (StatBatS α B)) (w w' : SWorld α B),
        L.foldlM (fun w b0 =>
          match w.batteries.find? (·.id == b0.id) with
          | none => Except.ok w
          | some b => updateBattery ops env cheap w b) w = .ok w' →
        w'.gcs.map (·.id) = w.gcs.map (·.id) ∧ SameMeta w w' := by
      intro L
      induction L with
      | nil =>
        intro w w' h
        simp only [List.foldlM_nil, pure, Except.pure, Except.ok.injEq] at h
        subst h; exact ⟨rfl, SameMeta.refl _⟩
      | cons b0 R ih =>
        intro w w' h
        simp only [List.foldlM_cons, bind, Except.bind] at h
        split at h
        · cases h
        · rename_i w1 hw1
          obtain ⟨i2, m2⟩ := ih w1 w' h
          split at hw1
          · simp only [Except.ok.injEq] at hw1; subst hw1; exact ⟨i2, m2⟩
          · obtain ⟨i1, m1⟩ := updateBattery_meta ops env cheap w w1 _ hw1
            exact ⟨i2.trans i1, m1.trans m2⟩
    exact key _ w w' h

theorem resetStations_sameMeta (w : SWorld α B) : SameMeta w (resetStations w) :=
  sameMeta_of_gcs_eq rfl

/-- the sub-strategy's step keeps ids, limits and prices of the connectors -/
theorem ruleStep_meta (rule : Rule) (ops : BatOps α B) (env : StratEnv α) (w w' : SWorld α B)
    (cmds : List (String × α)) (h : ruleStep rule ops env w = .ok (w', cmds)) :
    w'.gcs.map (·.id) = w.gcs.map (·.id) ∧ SameMeta w w' := by
  unfold ruleStep at h
  simp only [bind, Except.bind] at h
  split at h
  · cases h
  · split at h
    · cases h
    · rename_i st1 hfold
      obtain ⟨w1, c1, a1⟩ := st1
      simp only at h
      split at h
      · cases h
      · rename_i st2 hsur
        obtain ⟨w2, c2⟩ := st2
        simp only at h
        split at h
        · cases h
        · rename_i w3 hub
          simp only [Except.ok.injEq, Prod.mk.injEq] at h
          obtain ⟨rfl, _⟩ := h
          have i1 := allocFold_gcIds rule ops env _ _ (w1, c1, a1) hfold
          have m1 : SameMeta (resetStations w) w1 := allocFold_sameMeta rule ops env _ _ (w1, c1, a1) hfold
          have i2 := distributeSurplus_gcIds ops env w1 w2 c2 hsur
          have m2 := distributeSurplus_sameMeta ops env w1 w2 c2 hsur
          obtain ⟨i3, m3⟩ := updateBatteries_meta ops env w2 w3 hub
          refine ⟨?_, ((resetStations_sameMeta w).trans m1).trans (m2.trans m3)⟩
          rw [i3, i2]; simpa using i1

/-- on a world with one connector the sub-strategy returns one connector with the same id, limit and price -/
theorem ruleStep_single (rule : Rule) (ops : BatOps α B) (env : StratEnv α) (gc : GcS α)
    (ss : List (StationS α)) (vs : List (VehicleS α B)) (bs : List (StatBatS α B)) (w' : SWorld α B)
    (cmds : List (String × α)) (h : ruleStep rule ops env ⟨[gc], ss, vs, bs⟩ = .ok (w', cmds)) :
    ∃ g1, w'.gcs = [g1] ∧ g1.id = gc.id ∧ g1.curMax = gc.curMax ∧ g1.cost = gc.cost := by
  obtain ⟨hi, hm⟩ := ruleStep_meta rule ops env _ w' cmds h
  simp only [List.map_cons, List.map_nil] at hi
  cases hg : w'.gcs with
  | nil => rw [hg] at hi; simp at hi
  | cons g1 rest =>
    cases rest with
    | cons g2 r2 => rw [hg] at hi; simp at hi
    | nil =>
      rw [hg] at hi
      simp only [List.map_cons, List.map_nil, List.cons.injEq, and_true] at hi
      obtain ⟨g0, hg0, e1, e2, e3⟩ := hm g1 (by rw [hg]; simp)
      simp only [List.mem_cons, List.not_mem_nil, or_false] at hg0
      subst hg0
      exact ⟨g1, rfl, hi, e3, e2⟩

/-! ### static battery data (ids, minimum power) survive every pass -/

def MinOK (bs : List (StatBatS α B)) : Prop := ∀ b ∈ bs, 0 ≤ b.minChargingPower

theorem map_replace_ids (bs : List (StatBatS α B)) (b' : StatBatS α B) :
    (bs.map (fun x => if x.id == b'.id then b' else x)).map (·.id) = bs.map (·.id) := by
  simp only [List.map_map]
  apply List.map_congr_left
  intro x _
  simp only [Function.comp]
  by_cases h : (x.id == b'.id) = true
  · have : x.id = b'.id := by simpa using h
    rw [if_pos h, this]
  · rw [if_neg h]

theorem map_replace_min (bs : List (StatBatS α B)) (b' : StatBatS α B) (h0 : 0 ≤ b'.minChargingPower)
    (h : MinOK bs) : MinOK (bs.map (fun x => if x.id == b'.id then b' else x)) := by
  intro b hb
  simp only [List.mem_map] at hb
  obtain ⟨x, hx, rfl⟩ := hb
  by_cases hc : (x.id == b'.id) = true
  · rw [if_pos hc]; exact h0
  · rw [if_neg hc]; exact h x hx

theorem updateBattery_bats (ops : BatOps α B) (env : StratEnv α) (cheap : List (String × Bool))
    (w w' : SWorld α B) (b : StatBatS α B) (hb0 : 0 ≤ b.minChargingPower) (hm : MinOK w.batteries)
    (h : updateBattery ops env cheap w b = .ok w') :
    w'.batteries.map (·.id) = w.batteries.map (·.id) ∧ MinOK w'.batteries := by
  unfold updateBattery at h
  split at h
  · simp only [Except.ok.injEq] at h; subst h; exact ⟨rfl, hm⟩
  · simp only [bind, Except.bind] at h
    split at h
    · cases h
    · split at h
      · split at h
        · cases h
        · simp only [Except.ok.injEq] at h; subst h
          exact ⟨map_replace_ids _ _, map_replace_min _ _ hb0 hm⟩
      · split at h
        · split at h
          · cases h
          · simp only [Except.ok.injEq] at h; subst h
            exact ⟨map_replace_ids _ _, map_replace_min _ _ hb0 hm⟩
        · split at h
          · cases h
          · simp only [Except.ok.injEq] at h; subst h
            exact ⟨map_replace_ids _ _, map_replace_min _ _ hb0 hm⟩

theorem updateBatteries_bats (ops : BatOps α B) (env : StratEnv α) (w w' : SWorld α B)
    (hm : MinOK w.batteries) (h : updateBatteries ops env w = .ok w') :
    w'.batteries.map (·.id) = w.batteries.map (·.id) ∧ MinOK w'.batteries := by
  unfold updateBatteries at h
  simp only [bind, Except.bind] at h
  split at h
  · cases h
  · rename_i cheap _
    have key : ∀ (L : List (StatBatS α B)) (w w' : SWorld α B), MinOK w.batteries →
        L.foldlM (fun w b0 =>
          match w.batteries.find? (·.id == b0.id) with
          | none => Except.ok w
          | some b => updateBattery ops env cheap w b) w = .ok w' →
        w'.batteries.map (·.id) = w.batteries.map (·.id) ∧ MinOK w'.batteries := by
      intro L
      induction L with
      | nil =>
        intro w w' hm h
        simp only [List.foldlM_nil, pure, Except.pure, Except.ok.injEq] at h
        subst h; exact ⟨rfl, hm⟩
      | cons b0 R ih =>
        intro w w' hm h
        simp only [List.foldlM_cons, bind, Except.bind] at h
        split at h
        · cases h
        · rename_i w1 hw1
          split at hw1
          · simp only [Except.ok.injEq] at hw1; subst hw1; exact ih w w' hm h
          · rename_i b hfind
            obtain ⟨i1, m1⟩ := updateBattery_bats ops env cheap w w1 b
              (hm b (List.mem_of_find?_eq_some hfind)) hm hw1
            obtain ⟨i2, m2⟩ := ih w1 w' m1 h
            exact ⟨i2.trans i1, m2⟩
    exact key _ w w' hm h

theorem ruleStep_bats (rule : Rule) (ops : BatOps α B) (env : StratEnv α) (w w' : SWorld α B)
    (cmds : List (String × α)) (hm : MinOK w.batteries) (h : ruleStep rule ops env w = .ok (w', cmds)) :
    w'.batteries.map (·.id) = w.batteries.map (·.id) ∧ MinOK w'.batteries := by
  unfold ruleStep at h
  simp only [bind, Except.bind] at h
  split at h
  · cases h
  · split at h
    · cases h
    · rename_i st1 hfold
      obtain ⟨w1, c1, a1⟩ := st1
      simp only at h
      split at h
      · cases h
      · rename_i st2 hsur
        obtain ⟨w2, c2⟩ := st2
        simp only at h
        split at h
        · cases h
        · rename_i w3 hub
          simp only [Except.ok.injEq, Prod.mk.injEq] at h
          obtain ⟨rfl, _⟩ := h
          have b1 : w1.batteries = w.batteries := by
            have := allocFold_batteries rule ops env _ _ (w1, c1, a1) hfold
            simpa using this
          have b2 : w2.batteries = w1.batteries := distributeSurplus_batteries ops env w1 w2 c2 hsur
          have hm2 : MinOK w2.batteries := by rw [b2, b1]; exact hm
          obtain ⟨i3, m3⟩ := updateBatteries_bats ops env w2 w3 hm2 hub
          exact ⟨by rw [i3, b2, b1], m3⟩

/-! ### writing the virtual world back leaves connectors and batteries alone -/

theorem writeBack_gcs (w sub : SWorld α B) (a b : List String) : (writeBack w sub a b).gcs = w.gcs := by
  unfold writeBack
  have h1 : ∀ (l : List (StationS α)) (w : SWorld α B),
      (l.foldl (fun (w : SWorld α B) s => if a.contains s.id then w.setStation s else w) w).gcs = w.gcs := by
    intro l
    induction l with
    | nil => intro w; rfl
    | cons x xs ih => intro w; simp only [List.foldl_cons]; rw [ih]; split <;> rfl
  have h2 : ∀ (l : List (VehicleS α B)) (w : SWorld α B),
      (l.foldl (fun (w : SWorld α B) v => if b.contains v.id then w.setVehicle v else w) w).gcs = w.gcs := by
    intro l
    induction l with
    | nil => intro w; rfl
    | cons x xs ih => intro w; simp only [List.foldl_cons]; rw [ih]; split <;> rfl
  simp only [h2, h1]

theorem writeBack_batteries (w sub : SWorld α B) (a b : List String) :
    (writeBack w sub a b).batteries = w.batteries := by
  unfold writeBack
  have h1 : ∀ (l : List (StationS α)) (w : SWorld α B),
      (l.foldl (fun (w : SWorld α B) s => if a.contains s.id then w.setStation s else w) w).batteries
        = w.batteries := by
    intro l
    induction l with
    | nil => intro w; rfl
    | cons x xs ih => intro w; simp only [List.foldl_cons]; rw [ih]; split <;> rfl
  have h2 : ∀ (l : List (VehicleS α B)) (w : SWorld α B),
      (l.foldl (fun (w : SWorld α B) v => if b.contains v.id then w.setVehicle v else w) w).batteries
        = w.batteries := by
    intro l
    induction l with
    | nil => intro w; rfl
    | cons x xs ih => intro w; simp only [List.foldl_cons]; rw [ih]; split <;> rfl
  simp only [h2, h1]

theorem foldl_setBattery_gcs (l : List (StatBatS α B)) (w : SWorld α B) :
    (l.foldl (fun (w : SWorld α B) b => w.setBattery b) w).gcs = w.gcs := by
  induction l generalizing w with
  | nil => rfl
  | cons x xs ih => simp only [List.foldl_cons]; rw [ih]; rfl

theorem foldl_setBattery_bats (l : List (StatBatS α B)) (hl : MinOK l) (w : SWorld α B) (hm : MinOK w.batteries) :
    (l.foldl (fun (w : SWorld α B) b => w.setBattery b) w).batteries.map (·.id) = w.batteries.map (·.id) ∧
    MinOK (l.foldl (fun (w : SWorld α B) b => w.setBattery b) w).batteries := by
  induction l generalizing w with
  | nil => exact ⟨rfl, hm⟩
  | cons x xs ih =>
    simp only [List.foldl_cons]
    have hx : MinOK (w.setBattery x).batteries := map_replace_min _ _ (hl x (by simp)) hm
    obtain ⟨i, m⟩ := ih (fun b hb => hl b (by simp [hb])) (w.setBattery x) hx
    exact ⟨i.trans (map_replace_ids _ _), m⟩

/-! ### the repair DIST2 touches station powers only -/

@[simp] theorem syncStations_gcs (vw : SWorld α B) : (syncStations vw).gcs = vw.gcs := by
  unfold syncStations; split <;> rfl
@[simp] theorem syncStations_batteries (vw : SWorld α B) : (syncStations vw).batteries = vw.batteries := by
  unfold syncStations; split <;> rfl
@[simp] theorem syncStations_vehicles (vw : SWorld α B) : (syncStations vw).vehicles = vw.vehicles := by
  unfold syncStations; split <;> rfl

/-! ### depot connector -/

/-- every connector respects its (non-negative) limit -/
def GcOK (w : SWorld α B) : Prop := ∀ g ∈ w.gcs, 0 ≤ g.curMax ∧ g.currentLoad ≤ g.curMax

/-- `get_available_power` never raises (C01: the battery operations return for every state) -/
def AvailTotal (ops : BatOps α B) : Prop := ∀ b, ∃ a, ops.available b = .ok a

theorem depotBatteries_mem (w : SWorld α B) (ids : List String) (b : StatBatS α B)
    (hb : b ∈ depotBatteries w ids) : b.id ∈ ids ∧ w.batteries.find? (·.id == b.id) = some b := by
  unfold depotBatteries at hb
  simp only [List.mem_filterMap] at hb
  obtain ⟨id, hid, hf⟩ := hb
  have : b.id = id := by simpa using List.find?_some hf
  subst this
  exact ⟨hid, hf⟩

theorem depotBatteries_nodup (w : SWorld α B) (ids : List String) (h : ids.Nodup) :
    ((depotBatteries w ids).map (·.id)).Nodup := by
  induction ids with
  | nil => simp [depotBatteries]
  | cons id rest ih =>
    simp only [List.nodup_cons] at h
    have ih' := ih h.2
    unfold depotBatteries at ih' ⊢
    simp only [List.filterMap_cons]
    split
    · exact ih'
    · rename_i b hf
      have hbid : b.id = id := by simpa using List.find?_some hf
      simp only [List.map_cons, List.nodup_cons]
      refine ⟨?_, ih'⟩
      intro hmem
      simp only [List.mem_map] at hmem
      obtain ⟨b2, hb2, e⟩ := hmem
      have := (depotBatteries_mem w rest b2 (by unfold depotBatteries; exact hb2)).1
      rw [e, hbid] at this
      exact h.1 this

theorem setGc_single_mem (w : SWorld α B) (g1 g : GcS α)
    (h : g ∈ ([g1].foldl (fun (w : SWorld α B) g => w.setGc g) w).gcs) :
    g = g1 ∨ (g ∈ w.gcs ∧ g.id ≠ g1.id) := by
  simp only [List.foldl_cons, List.foldl_nil] at h
  exact mem_setGc w g1 g h

theorem stepDeps_inv (dops : DOps α B) (law : BatLaw dops.bat) (hex : UnloadExact dops.bat)
    (htot : AvailTotal dops.bat) (de : DEnv α) (heps : 0 ≤ de.deps.eps)
    (w : SWorld α B) (ini : DInit α) (acc : List (String × α)) (gc : GcS α) (stations : List (StationS α))
    (cvs : List (VehicleS α B)) (batIds : List String)
    (w' : SWorld α B) (ini' : DInit α) (acc' : List (String × α))
    (hgc : gc ∈ w.gcs) (hnd : batIds.Nodup) (hmin : MinOK w.batteries) (h0 : GcOK w)
    (h : stepDepsRule dops de w ini acc gc stations cvs batIds = .ok (w', ini', acc')) :
    GcOK w' ∧ SameMeta w w' ∧ w'.batteries.map (·.id) = w.batteries.map (·.id) ∧ MinOK w'.batteries ∧
      ini' = ini := by
  unfold stepDepsRule at h
  simp only [bind, Except.bind] at h
  split at h
  · cases h
  · rename_i r hr
    obtain ⟨vw', cmds⟩ := r
    simp only [Except.ok.injEq, Prod.mk.injEq] at h
    obtain ⟨rfl, rfl, rfl⟩ := h
    obtain ⟨g1, hg1, hid, hcm, hcost⟩ := ruleStep_single _ _ _ gc _ _ _ vw' cmds hr
    -- the sub-strategy keeps the limit (C04 for greedy / balanced with batteries)
    let av : String → α := fun k =>
      match w.batteries.find? (·.id == k) with
      | some b => (match dops.bat.available b.bat with | .ok p => p | .error _ => 0)
      | none => 0
    have hav0 : ∀ k, 0 ≤ av k := by
      intro k
      simp only [av]
      split
      · split
        · rename_i p hp; exact law.available_nonneg _ _ hp
        · exact le_refl _
      · exact le_refl _
    have hmin' : ∀ b ∈ depotBatteries w batIds, 0 ≤ b.minChargingPower := fun b hb =>
      hmin b (List.mem_of_find?_eq_some (depotBatteries_mem w batIds b hb).2)
    have hup := C04_greedy_balanced_upper_batteries de.deps.rule dops.bat law hex (de.deps.env de.env.now)
      heps ⟨[gc], stations, cvs, depotBatteries w batIds⟩ vw' cmds av hav0
      (by
        intro b hb
        have hf := (depotBatteries_mem w batIds b hb).2
        obtain ⟨a, ha⟩ := htot b.bat
        simp only [av, hf, ha])
      hmin' (depotBatteries_nodup w batIds hnd) (by simp)
      (by
        intro g hg
        simp only [List.mem_cons, List.not_mem_nil, or_false] at hg
        subst hg; exact h0 g hgc) hr
    have hg1ok : g1.currentLoad ≤ g1.curMax := hup g1 (by rw [hg1]; simp)
    obtain ⟨ib, mb⟩ := ruleStep_bats _ _ _ _ vw' cmds (show MinOK (depotBatteries w batIds) from hmin') hr
    have hg1s : (syncStations vw').gcs = [g1] := by rw [syncStations_gcs]; exact hg1
    have mbs : MinOK (syncStations vw').batteries := by rw [syncStations_batteries]; exact mb
    have hgcs : ∀ g ∈ (mergeDeps w (syncStations vw') stations cvs).gcs, g = g1 ∨ (g ∈ w.gcs ∧ g.id ≠ g1.id) := by
      intro g hg
      unfold mergeDeps at hg
      simp only [foldl_setBattery_gcs, hg1s] at hg
      rcases setGc_single_mem _ g1 g hg with h | ⟨h, h'⟩
      · exact Or.inl h
      · rw [writeBack_gcs] at h; exact Or.inr ⟨h, h'⟩
    have hbats := foldl_setBattery_bats (syncStations vw').batteries mbs
      ((syncStations vw').gcs.foldl (fun (w : SWorld α B) g => w.setGc g) (writeBack w (syncStations vw') (stations.map (·.id)) (cvs.map (·.id))))
      (by
        have : ((syncStations vw').gcs.foldl (fun (w : SWorld α B) g => w.setGc g)
            (writeBack w (syncStations vw') (stations.map (·.id)) (cvs.map (·.id)))).batteries = w.batteries := by
          rw [hg1s]; simp only [List.foldl_cons, List.foldl_nil]
          show (writeBack w (syncStations vw') _ _).batteries = _
          exact writeBack_batteries _ _ _ _
        rw [this]; exact hmin)
    refine ⟨?_, ?_, ?_, ?_, rfl⟩
    · intro g hg
      rcases hgcs g hg with rfl | ⟨h, _⟩
      · exact ⟨by rw [hcm]; exact (h0 gc hgc).1, hg1ok⟩
      · exact h0 g h
    · intro g hg
      rcases hgcs g hg with rfl | ⟨h, _⟩
      · exact ⟨gc, hgc, hid, hcost, hcm⟩
      · exact ⟨g, h, rfl, rfl, rfl⟩
    · unfold mergeDeps
      rw [hbats.1, hg1s]
      simp only [List.foldl_cons, List.foldl_nil]
      show (writeBack w (syncStations vw') _ _).batteries.map _ = _
      rw [writeBack_batteries]
    · exact hbats.2

/-! ### opportunity station: bookkeeping of the battery support -/

/-- support promised by the batteries `ids` according to `avail_bat_power` -/
def supOf (avail : List (String × α)) (ids : List String) : α := (ids.map (availOf avail)).sum

theorem supOf_cons (avail : List (String × α)) (k : String) (ids : List String) :
    supOf avail (k :: ids) = availOf avail k + supOf avail ids := by
  simp [supOf]

theorem supOf_zero (avail : List (String × α)) (ids : List String) (h : ∀ k ∈ ids, availOf avail k = 0) :
    supOf avail ids = 0 := by
  induction ids with
  | nil => simp [supOf]
  | cons k rest ih =>
    rw [supOf_cons, h k (by simp), ih (fun k hk => h k (by simp [hk]))]; simp

theorem supOf_nonneg (avail : List (String × α)) (ids : List String) (h : ∀ k, 0 ≤ availOf avail k) :
    0 ≤ supOf avail ids := by
  induction ids with
  | nil => simp [supOf]
  | cons k rest ih => rw [supOf_cons]; have := h k; linarith

theorem availOf_set_same (avail : List (String × α)) (k : String) (p : α) : availOf (sdSet avail k p) k = p := by
  simp [availOf, sdGet_alSet_same]

theorem availOf_set_ne (avail : List (String × α)) (k k' : String) (p : α) (h : k' ≠ k) :
    availOf (sdSet avail k p) k' = availOf avail k' := by
  simp [availOf, sdGet_alSet_ne _ _ _ _ h]

theorem supOf_set_notmem (avail : List (String × α)) (k : String) (p : α) (ids : List String) (h : k ∉ ids) :
    supOf (sdSet avail k p) ids = supOf avail ids := by
  induction ids with
  | nil => simp [supOf]
  | cons x rest ih =>
    simp only [List.mem_cons, not_or] at h
    rw [supOf_cons, supOf_cons, ih h.2, availOf_set_ne _ _ _ _ (Ne.symm h.1)]

theorem supOf_set_mem (avail : List (String × α)) (k : String) (p : α) (ids : List String) (hnd : ids.Nodup)
    (hk : k ∈ ids) (hnone : sdGet avail k = none) : supOf (sdSet avail k p) ids = supOf avail ids + p := by
  induction ids with
  | nil => simp at hk
  | cons x rest ih =>
    simp only [List.nodup_cons] at hnd
    rw [supOf_cons, supOf_cons]
    by_cases hx : x = k
    · subst hx
      rw [availOf_set_same, supOf_set_notmem _ _ _ _ hnd.1]
      have : availOf avail x = 0 := by simp [availOf, hnone]
      rw [this]; ring
    · have hk' : k ∈ rest := by
        rcases List.mem_cons.mp hk with h | h
        · exact absurd h.symm hx
        · exact h
      rw [availOf_set_ne _ _ _ _ hx, ih hnd.2 hk']; ring

theorem currentLoad_erase (loads : List (String × α)) (name : String) (val : α)
    (h : sdGet loads name = some val) :
    (sdErase loads name).foldl (fun a kv => a + kv.2) 0 = loads.foldl (fun a kv => a + kv.2) 0 - val := by
  induction loads with
  | nil => simp [sdGet] at h
  | cons x xs ih =>
    obtain ⟨xk, xv⟩ := x
    by_cases hk : xk = name
    · subst hk
      simp only [sdGet, beq_self_eq_true, if_true, Option.some.injEq] at h
      subst h
      simp only [sdErase, beq_self_eq_true, if_true, List.foldl_cons]
      rw [foldl_add_init xs (0 + xv)]; ring
    · have hb : (xk == name) = false := by simpa using hk
      simp only [sdGet, hb, Bool.false_eq_true, if_false] at h
      simp only [sdErase, hb, Bool.false_eq_true, if_false, List.foldl_cons]
      rw [foldl_add_init _ (0 + xv), foldl_add_init xs (0 + xv), ih h]; ring

theorem find_replace_other (bs : List (StatBatS α B)) (b' : StatBatS α B) (k : String) (hne : k ≠ b'.id) :
    (bs.map (fun x => if x.id == b'.id then b' else x)).find? (·.id == k) = bs.find? (·.id == k) := by
  induction bs with
  | nil => rfl
  | cons x xs ih =>
    simp only [List.map_cons, List.find?_cons]
    by_cases hx : (x.id == b'.id) = true
    · have hxid : x.id = b'.id := by simpa using hx
      have h1 : (b'.id == k) = false := by
        simp only [beq_eq_false_iff_ne, ne_eq]; exact fun e => hne e.symm
      have h2 : (x.id == k) = false := by rw [hxid]; exact h1
      rw [if_pos hx]; simp only [h1, h2]; exact ih
    · rw [if_neg hx]
      by_cases hxb : (x.id == k) = true
      · simp only [hxb]
      · have hxb' : (x.id == k) = false := by simpa using hxb
        simp only [hxb']; exact ih

/-- invariant of the loop that lets the batteries raise the connector limit; `R` = batteries still to come -/
structure PrepInv (ops : BatOps α B) (w : SWorld α B) (gc : GcS α) (ids R : List String)
    (st : OppsPrep α B) : Prop where
  loads : st.gc.loads = gc.loads
  id : st.gc.id = gc.id
  cost : st.gc.cost = gc.cost
  curMax : st.gc.curMax = gc.curMax + supOf st.avail ids
  pending : ∀ k ∈ R, sdGet st.avail k = none
  known : ∀ k p, sdGet st.avail k = some p →
    0 ≤ p ∧ ∃ b, w.batteries.find? (·.id == k) = some b ∧ ops.available b.bat = .ok p

theorem oppsBattery_inv (dops : DOps α B) (law : BatLaw dops.bat) (de : DEnv α) (ini : DInit α) (lk : Look α)
    (w : SWorld α B) (occ : Bool) (gcId : String) (gc : GcS α) (ids : List String) (hnd : ids.Nodup)
    (bId : String) (R : List String) (hmem : bId ∈ ids) (hnotin : bId ∉ R) (st st' : OppsPrep α B)
    (hinv : PrepInv dops.bat w gc ids (bId :: R) st)
    (h : oppsBattery dops de ini lk w occ gcId st bId = .ok st') : PrepInv dops.bat w gc ids R st' := by
  have hrest : ∀ k ∈ R, sdGet st.avail k = none := fun k hk => hinv.pending k (by simp [hk])
  have same : PrepInv dops.bat w gc ids R st := ⟨hinv.loads, hinv.id, hinv.cost, hinv.curMax, hrest, hinv.known⟩
  unfold oppsBattery at h
  split at h
  · cases h
  · rename_i b hb
    split at h
    · simp only [bind, Except.bind] at h
      split at h
      · cases h
      · rename_i power hpow
        split at h
        · simp only [Except.ok.injEq] at h; subst h; exact same
        · split at h
          · cases h
          · split at h
            · cases h
            · split at h
              · simp only [Except.ok.injEq] at h; subst h; exact same
              · simp only [Except.ok.injEq] at h; subst h
                have hnone : sdGet st.avail bId = none := hinv.pending bId (by simp)
                refine ⟨hinv.loads, hinv.id, hinv.cost, ?_, ?_, ?_⟩
                · show st.gc.curMax + power = _
                  rw [supOf_set_mem _ _ _ _ hnd hmem hnone, hinv.curMax]; ring
                · intro k hk
                  by_cases hkb : k = bId
                  · subst hkb; exact absurd hk hnotin
                  · rw [sdGet_alSet_ne _ _ _ _ hkb]; exact hrest k hk
                · intro k p hkp
                  by_cases hkb : k = bId
                  · subst hkb
                    rw [sdGet_alSet_same] at hkp
                    simp only [Option.some.injEq] at hkp
                    subst hkp
                    exact ⟨law.available_nonneg _ _ hpow, b, hb, hpow⟩
                  · rw [sdGet_alSet_ne _ _ _ _ hkb] at hkp; exact hinv.known k p hkp
    · dsimp only at h
      split at h
      · cases h
      · split at h
        · cases h
        · simp only [bind, Except.bind] at h
          split at h
          · cases h
          · simp only [Except.ok.injEq] at h; subst h
            exact ⟨hinv.loads, hinv.id, hinv.cost, hinv.curMax, hrest, hinv.known⟩

theorem oppsPrep_fold (dops : DOps α B) (law : BatLaw dops.bat) (de : DEnv α) (ini : DInit α) (lk : Look α)
    (w : SWorld α B) (occ : Bool) (gcId : String) (gc : GcS α) (ids : List String) (hnd : ids.Nodup)
    (R : List String) (hR : R.Nodup) (hsub : ∀ k ∈ R, k ∈ ids) (st st' : OppsPrep α B)
    (hinv : PrepInv dops.bat w gc ids R st)
    (h : R.foldlM (oppsBattery dops de ini lk w occ gcId) st = .ok st') : PrepInv dops.bat w gc ids [] st' := by
  induction R generalizing st with
  | nil =>
    simp only [List.foldlM_nil, pure, Except.pure, Except.ok.injEq] at h
    subst h; exact hinv
  | cons bId R' ih =>
    simp only [List.nodup_cons] at hR
    simp only [List.foldlM_cons, bind, Except.bind] at h
    split at h
    · cases h
    · rename_i st1 hst1
      exact ih hR.2 (fun k hk => hsub k (by simp [hk])) st1
        (oppsBattery_inv dops law de ini lk w occ gcId gc ids hnd bId R' (hsub bId (by simp)) hR.1 st st1 hinv hst1) h

/-- invariant of the loop that discharges the supporting batteries after the sub-strategy ran -/
structure PostInv (w : SWorld α B) (gc : GcS α) (saved : α) (avail : List (String × α)) (ids R : List String)
    (st : OppsPost α B) : Prop where
  load : st.gc.currentLoad ≤ saved + supOf avail R
  curMax : st.gc.curMax = saved ∨
    (st.gc.curMax = saved + supOf avail ids ∧ ∀ k ∈ ids, k ∉ R → availOf avail k = 0)
  bats : ∀ k ∈ R, st.bats.find? (·.id == k) = w.batteries.find? (·.id == k)
  batIds : st.bats.map (·.id) = w.batteries.map (·.id)
  batMin : MinOK st.bats
  id : st.gc.id = gc.id
  cost : st.gc.cost = gc.cost

theorem oppsAfter_inv (dops : DOps α B) (law : BatLaw dops.bat) (hex : UnloadExact dops.bat)
    (w : SWorld α B) (gc : GcS α) (saved : α) (avail : List (String × α)) (vveh : List (VehicleS α B))
    (ids : List String) (bId : String) (R : List String) (hnotin : bId ∉ R)
    (hknown : ∀ k p, sdGet avail k = some p →
      0 ≤ p ∧ ∃ b, w.batteries.find? (·.id == k) = some b ∧ dops.bat.available b.bat = .ok p)
    (st st' : OppsPost α B) (hinv : PostInv w gc saved avail ids (bId :: R) st)
    (h : oppsAfter dops saved avail vveh st bId = .ok st') : PostInv w gc saved avail ids R st' := by
  have hnn : ∀ k, 0 ≤ availOf avail k := by
    intro k
    unfold availOf
    cases hk : sdGet avail k with
    | none => simp
    | some p => simpa using (hknown k p hk).1
  have hrestB : ∀ k ∈ R, st.bats.find? (·.id == k) = w.batteries.find? (·.id == k) :=
    fun k hk => hinv.bats k (by simp [hk])
  unfold oppsAfter at h
  split at h
  · cases h
  · rename_i b hb
    have hbid : b.id = bId := by simpa using List.find?_some hb
    have hbmem : b ∈ st.bats := List.mem_of_find?_eq_some hb
    subst hbid
    split at h
    · -- the battery supported the connector
      rename_i p hp
      obtain ⟨hp0, b0, hb0, hav⟩ := hknown b.id p hp
      have hbb0 : b0 = b := by
        have := hinv.bats b.id (by simp)
        rw [hb, hb0] at this
        simpa using this.symm
      subst hbb0
      simp only [bind, Except.bind] at h
      split at h
      · cases h
      · rename_i r hr
        obtain ⟨bat', avg⟩ := r
        simp only [Except.ok.injEq] at h
        subst h
        have hx0 : 0 ≤ pymax (GcS.currentLoad { st.gc with curMax := saved } - saved) 0 := by
          rw [pymax_eq]; exact le_max_right _ _
        have havg := hex b0.bat p _ bat' avg hav hx0 hr
        have hcl : GcS.currentLoad { st.gc with curMax := saved } = st.gc.currentLoad := rfl
        rw [hcl, pymax_eq] at havg
        obtain ⟨hl, hc, hi, hco⟩ := addLoad_currentLoad { st.gc with curMax := saved } b0.id (-avg)
        have hload := hinv.load
        rw [supOf_cons] at hload
        have hpa : availOf avail b0.id = p := by simp [availOf, hp]
        rw [hpa] at hload
        have hsup := supOf_nonneg avail R hnn
        refine ⟨?_, Or.inl hc, ?_, ?_, ?_, ?_, ?_⟩
        · show (GcS.addLoad { st.gc with curMax := saved } b0.id (-avg)).1.currentLoad ≤ _
          rw [hl, hcl, havg]
          rcases le_total (st.gc.currentLoad - saved) 0 with h1 | h1
          · rw [max_eq_right h1, min_eq_left hp0]; linarith
          · rw [max_eq_left h1]
            rcases le_total (st.gc.currentLoad - saved) p with h2 | h2
            · rw [min_eq_left h2]; linarith
            · rw [min_eq_right h2]; linarith
        · intro k hk
          have hne : k ≠ b0.id := fun e => hnotin (e ▸ hk)
          exact (find_replace_other st.bats { b0 with bat := bat' } k hne).trans (hrestB k hk)
        · exact (map_replace_ids st.bats { b0 with bat := bat' }).trans hinv.batIds
        · exact map_replace_min st.bats { b0 with bat := bat' } (hinv.batMin b0 hbmem) hinv.batMin
        · exact hi.trans hinv.id
        · exact hco.trans hinv.cost
    · -- not a supporting battery
      rename_i hp
      have hpa : availOf avail b.id = 0 := by simp [availOf, hp]
      have hload : st.gc.currentLoad ≤ saved + supOf avail R := by
        have := hinv.load
        rw [supOf_cons, hpa] at this; linarith
      have hcm : ∀ c : α, (c = saved ∨ (c = saved + supOf avail ids ∧ ∀ k ∈ ids, k ∉ (b.id :: R) → availOf avail k = 0)) →
          (c = saved ∨ (c = saved + supOf avail ids ∧ ∀ k ∈ ids, k ∉ R → availOf avail k = 0)) := by
        intro c hc
        rcases hc with hc | ⟨hc1, hc2⟩
        · exact Or.inl hc
        · refine Or.inr ⟨hc1, ?_⟩
          intro k hk hkR
          by_cases hkb : k = b.id
          · rw [hkb]; exact hpa
          · exact hc2 k hk (by simp [hkb, hkR])
      dsimp only at h
      split at h
      · simp only [Except.ok.injEq] at h; subst h
        exact ⟨hload, hcm _ hinv.curMax, hrestB, hinv.batIds, hinv.batMin, hinv.id, hinv.cost⟩
      · split at h
        · cases h
        · rename_i val hval
          split at h
          · cases h
          · rename_i vv _
            simp only [Except.ok.injEq] at h
            subst h
            obtain ⟨hl, hc, hi, hco⟩ := addLoad_currentLoad
              { st.gc with loads := sdErase st.gc.loads (virtName b.id) } b.id val
            have hcl : GcS.currentLoad { st.gc with loads := sdErase st.gc.loads (virtName b.id) }
                = st.gc.currentLoad - val := by
              unfold GcS.currentLoad
              exact currentLoad_erase _ _ _ hval
            refine ⟨?_, ?_, ?_, ?_, ?_, ?_, ?_⟩
            · show (GcS.addLoad { st.gc with loads := sdErase st.gc.loads (virtName b.id) } b.id val).1.currentLoad ≤ _
              rw [hl, hcl]; linarith
            · show (GcS.addLoad { st.gc with loads := sdErase st.gc.loads (virtName b.id) } b.id val).1.curMax = _ ∨ _
              rw [hc]; exact hcm _ hinv.curMax
            · intro k hk
              have hne : k ≠ b.id := fun e => hnotin (e ▸ hk)
              exact (find_replace_other st.bats { b with bat := dops.setSoc b.bat (dops.bat.soc vv.bat) } k hne).trans
                (hrestB k hk)
            · exact (map_replace_ids st.bats { b with bat := dops.setSoc b.bat (dops.bat.soc vv.bat) }).trans
                hinv.batIds
            · exact map_replace_min st.bats { b with bat := dops.setSoc b.bat (dops.bat.soc vv.bat) }
                (hinv.batMin b hbmem) hinv.batMin
            · exact hi.trans hinv.id
            · exact hco.trans hinv.cost

theorem oppsPost_fold (dops : DOps α B) (law : BatLaw dops.bat) (hex : UnloadExact dops.bat)
    (w : SWorld α B) (gc : GcS α) (saved : α) (avail : List (String × α)) (vveh : List (VehicleS α B))
    (ids : List String) (R : List String) (hR : R.Nodup)
    (hknown : ∀ k p, sdGet avail k = some p →
      0 ≤ p ∧ ∃ b, w.batteries.find? (·.id == k) = some b ∧ dops.bat.available b.bat = .ok p)
    (st st' : OppsPost α B) (hinv : PostInv w gc saved avail ids R st)
    (h : R.foldlM (oppsAfter dops saved avail vveh) st = .ok st') : PostInv w gc saved avail ids [] st' := by
  induction R generalizing st with
  | nil =>
    simp only [List.foldlM_nil, pure, Except.pure, Except.ok.injEq] at h
    subst h; exact hinv
  | cons bId R' ih =>
    simp only [List.nodup_cons] at hR
    simp only [List.foldlM_cons, bind, Except.bind] at h
    split at h
    · cases h
    · rename_i st1 hst1
      exact ih hR.2 st1
        (oppsAfter_inv dops law hex w gc saved avail vveh ids bId R' hR.1 hknown st st1 hinv hst1) h

theorem stepOpps_inv (dops : DOps α B) (law : BatLaw dops.bat) (hex : UnloadExact dops.bat)
    (de : DEnv α) (heps : 0 ≤ de.opps.eps) (lk : Look α)
    (w : SWorld α B) (ini : DInit α) (acc : List (String × α)) (gcId : String) (gc : GcS α)
    (stations : List (StationS α)) (cvs : List (VehicleS α B)) (batIds : List String)
    (w' : SWorld α B) (ini' : DInit α) (acc' : List (String × α))
    (hgc : gc ∈ w.gcs) (hnd : batIds.Nodup) (hmin : MinOK w.batteries) (h0 : GcOK w)
    (h : stepOppsRule dops de lk w ini acc gcId gc stations cvs batIds = .ok (w', ini', acc')) :
    GcOK w' ∧ SameMeta w w' ∧ w'.batteries.map (·.id) = w.batteries.map (·.id) ∧ MinOK w'.batteries ∧
      ini'.gcBattery = ini.gcBattery ∧ ini'.strategies = ini.strategies := by
  unfold stepOppsRule at h
  simp only [bind, Except.bind] at h
  split at h
  · cases h
  · rename_i prep hprep
    have hP0 : PrepInv dops.bat w gc batIds batIds ⟨gc, [], [], []⟩ := by
      refine ⟨rfl, rfl, rfl, ?_, fun _ _ => rfl, ?_⟩
      · rw [supOf_zero _ _ (fun k _ => by simp [availOf, sdGet])]; simp
      · intro k p hk; simp [sdGet] at hk
    have hP := oppsPrep_fold dops law de ini lk w (!cvs.isEmpty) gcId gc batIds hnd batIds hnd
      (fun k hk => hk) _ prep hP0 hprep
    have hnn : ∀ k, 0 ≤ availOf prep.avail k := by
      intro k
      unfold availOf
      cases hk : sdGet prep.avail k with
      | none => simp
      | some p => simpa using (hP.known k p hk).1
    have hsup0 := supOf_nonneg prep.avail batIds hnn
    split at h
    · cases h
    · rename_i r hr
      obtain ⟨vw', cmds⟩ := r
      obtain ⟨g1, hg1, hid, hcm, hcost⟩ := ruleStep_single _ _ _ prep.gc _ _ _ vw' cmds hr
      have hpl : prep.gc.currentLoad = gc.currentLoad := by
        unfold GcS.currentLoad; rw [hP.loads]
      have hup := C04_greedy_balanced_upper_batteries de.opps.rule dops.bat law hex (de.opps.env de.env.now)
        heps ⟨[prep.gc], stations ++ prep.vcs, cvs ++ prep.vveh, []⟩ vw' cmds (fun _ => 0) (fun _ => le_refl _)
        (by intro b hb; simp at hb) (by intro b hb; simp at hb) (by simp) (by simp)
        (by
          intro g hg
          simp only [List.mem_cons, List.not_mem_nil, or_false] at hg
          subst hg
          have := h0 gc hgc
          rw [hpl, hP.curMax]
          exact ⟨by linarith [this.1], by linarith [this.2]⟩) hr
      have hg1ok : g1.currentLoad ≤ g1.curMax := hup g1 (by rw [hg1]; simp)
      simp only [hg1] at h
      split at h
      · cases h
      · rename_i post hpost
        simp only [Except.ok.injEq, Prod.mk.injEq] at h
        obtain ⟨rfl, rfl, rfl⟩ := h
        have hQ0 : PostInv w gc gc.curMax prep.avail batIds batIds
            ⟨g1, cmds, (writeBack w (syncStations vw') (stations.map (·.id)) (cvs.map (·.id))).batteries⟩ := by
          refine ⟨?_, Or.inr ⟨?_, fun k hk hk' => absurd hk hk'⟩, ?_, ?_, ?_, ?_, ?_⟩
          · show g1.currentLoad ≤ _
            rw [← hP.curMax, ← hcm]; exact hg1ok
          · show g1.curMax = _
            rw [hcm, hP.curMax]
          · intro k _; show List.find? _ (writeBack w (syncStations vw') _ _).batteries = _; rw [writeBack_batteries]
          · show List.map _ (writeBack w (syncStations vw') _ _).batteries = _; rw [writeBack_batteries]
          · show MinOK (writeBack w (syncStations vw') _ _).batteries; rw [writeBack_batteries]; exact hmin
          · exact hid.trans hP.id
          · exact hcost.trans hP.cost
        have hQ := oppsPost_fold dops law hex w gc gc.curMax prep.avail _ batIds batIds hnd hP.known _ post hQ0 hpost
        have hload : post.gc.currentLoad ≤ gc.curMax := by
          have := hQ.load
          simpa [supOf] using this
        have hcur : post.gc.curMax = gc.curMax := by
          rcases hQ.curMax with hc | ⟨hc1, hc2⟩
          · exact hc
          · rw [hc1, supOf_zero _ _ (fun k hk => hc2 k hk (by simp))]; simp
        have hgcs : ∀ g ∈ ((writeBack w (syncStations vw') (stations.map (·.id)) (cvs.map (·.id))).setGc post.gc).gcs,
            g = post.gc ∨ (g ∈ w.gcs ∧ g.id ≠ post.gc.id) := by
          intro g hg
          rcases mem_setGc _ post.gc g hg with h | ⟨h, h'⟩
          · exact Or.inl h
          · rw [writeBack_gcs] at h; exact Or.inr ⟨h, h'⟩
        refine ⟨?_, ?_, hQ.batIds, hQ.batMin, rfl, rfl⟩
        · intro g hg
          rcases hgcs g hg with rfl | ⟨h, _⟩
          · exact ⟨by rw [hcur]; exact (h0 gc hgc).1, by rw [hcur]; exact hload⟩
          · exact h0 g h
        · intro g hg
          rcases hgcs g hg with rfl | ⟨h, _⟩
          · exact ⟨gc, hgc, hQ.id, hQ.cost, hcur⟩
          · exact ⟨g, h, rfl, rfl, rfl⟩

/-! ### the charging loop over the connectors, the final surplus pass, the whole step -/

/-- what one connector's treatment preserves -/
structure StepInv (w0 : SWorld α B) (gcb : List (String × List String)) (st : SWorld α B × DInit α × List (String × α)) :
    Prop where
  ok : GcOK st.1
  same : SameMeta w0 st.1
  batIds : st.1.batteries.map (·.id) = w0.batteries.map (·.id)
  batMin : MinOK st.1.batteries
  gcb : st.2.1.gcBattery = gcb

theorem stepGc_inv (dops : DOps α B) (law : BatLaw dops.bat) (hex : UnloadExact dops.bat)
    (htot : AvailTotal dops.bat) (de : DEnv α) (hed : 0 ≤ de.deps.eps) (heo : 0 ≤ de.opps.eps)
    (hd : de.deps.isRule) (ho : de.opps.isRule)
    (ncs : List (String × Option Int)) (conn : List (String × List String)) (lk : Look α)
    (w0 : SWorld α B) (gcb : List (String × List String)) (hgb : ∀ g, ((sdGet gcb g).getD []).Nodup)
    (st st' : SWorld α B × DInit α × List (String × α)) (gcId : String) (hinv : StepInv w0 gcb st)
    (h : stepGc dops de ncs conn lk st gcId = .ok st') : StepInv w0 gcb st' := by
  unfold stepGc at h
  split at h
  · cases h
  · rename_i gc hgc
    obtain ⟨hgm, _⟩ := gc?_some _ _ gc hgc
    simp only [bind, Except.bind] at h
    split at h
    · cases h
    · split at h
      · cases h
      · rename_i cands _ cvs _
        split at h
        · simp only [Except.ok.injEq] at h; subst h; exact hinv
        · split at h
          · cases h
          · rename_i kind _
            split at h
            · cases h
            · rename_i stations _
              have hnd : ((sdGet st.2.1.gcBattery gcId).getD []).Nodup := by rw [hinv.gcb]; exact hgb gcId
              obtain ⟨w', ini', acc'⟩ := st'
              cases kind with
              | deps =>
                unfold stepDeps at h; simp only [hd.1, hd.2] at h
                obtain ⟨a, b, c, d, e⟩ := stepDeps_inv dops law hex htot de hed st.1 st.2.1 st.2.2 gc stations cvs _
                  w' ini' acc' hgm hnd hinv.batMin hinv.ok h
                exact ⟨a, hinv.same.trans b, c.trans hinv.batIds, d, by rw [e]; exact hinv.gcb⟩
              | opps =>
                unfold stepOpps at h; simp only [ho.1, ho.2] at h
                obtain ⟨a, b, c, d, e, _⟩ := stepOpps_inv dops law hex de heo lk st.1 st.2.1 st.2.2 gcId gc stations
                  cvs _ w' ini' acc' hgm hnd hinv.batMin hinv.ok h
                exact ⟨a, hinv.same.trans b, c.trans hinv.batIds, d, e.trans hinv.gcb⟩

theorem stepGc_fold (dops : DOps α B) (law : BatLaw dops.bat) (hex : UnloadExact dops.bat)
    (htot : AvailTotal dops.bat) (de : DEnv α) (hed : 0 ≤ de.deps.eps) (heo : 0 ≤ de.opps.eps)
    (hd : de.deps.isRule) (ho : de.opps.isRule)
    (ncs : List (String × Option Int)) (conn : List (String × List String)) (lk : Look α)
    (w0 : SWorld α B) (gcb : List (String × List String)) (hgb : ∀ g, ((sdGet gcb g).getD []).Nodup)
    (ids : List String) (st st' : SWorld α B × DInit α × List (String × α)) (hinv : StepInv w0 gcb st)
    (h : ids.foldlM (stepGc dops de ncs conn lk) st = .ok st') : StepInv w0 gcb st' := by
  induction ids generalizing st with
  | nil =>
    simp only [List.foldlM_nil, pure, Except.pure, Except.ok.injEq] at h
    subst h; exact hinv
  | cons id rest ih =>
    simp only [List.foldlM_cons, bind, Except.bind] at h
    split at h
    · cases h
    · rename_i st1 hst1
      exact ih st1 (stepGc_inv dops law hex htot de hed heo hd ho ncs conn lk w0 gcb hgb st st1 id hinv hst1) h

/-- the final surplus pass (over the vehicles that hold a charging point) keeps limits and meta data -/
theorem distributeSurplusOn_inv (ops : BatOps α B) (law : BatLaw ops) (env : StratEnv α) (heps : 0 ≤ env.eps)
    (w w' : SWorld α B) (ids : List String) (cmds' : List (String × α)) (h0 : GcOK w)
    (h : distributeSurplusOn ops env w ids = .ok (w', cmds')) :
    GcOK w' ∧ SameMeta w w' ∧ w'.batteries = w.batteries := by
  unfold distributeSurplusOn at h
  simp only [bind, Except.bind] at h
  split at h
  · cases h
  · rename_i cheap _
    have key : ∀ (ids : List String) (st st' : SWorld α B × List (String × α)),
        Below (fun _ => (0 : α)) st.1 → (∀ g ∈ st.1.gcs, 0 ≤ g.curMax) →
        ids.foldlM (fun (st : SWorld α B × List (String × α)) id =>
          match st.1.vehicle? id with
          | none => Except.ok st
          | some v => surplusVehicle ops env cheap st.1 st.2 v) st = .ok st' →
        (Below (fun _ => (0 : α)) st'.1 ∧ (∀ g ∈ st'.1.gcs, 0 ≤ g.curMax)) ∧ SameMeta st.1 st'.1 ∧
          st'.1.batteries = st.1.batteries := by
      intro ids
      induction ids with
      | nil =>
        intro st st' h1 h2 h3
        simp only [List.foldlM_nil, pure, Except.pure, Except.ok.injEq] at h3
        subst h3; exact ⟨⟨h1, h2⟩, SameMeta.refl _, rfl⟩
      | cons id rest ih =>
        intro st st' h1 h2 h3
        simp only [List.foldlM_cons, bind, Except.bind] at h3
        split at h3
        · cases h3
        · rename_i st1 hst1
          split at hst1
          · simp only [Except.ok.injEq] at hst1
            subst hst1
            exact ih _ _ h1 h2 h3
          · rename_i v hv
            obtain ⟨w1, c1⟩ := st1
            obtain ⟨hb, hc⟩ := surplusVehicle_below ops law env heps (fun _ => (0 : α)) (fun _ => le_refl _)
              cheap st.1 st.2 v w1 c1 h2 h1 hst1
            have hm := surplusVehicle_sameMeta ops env cheap st.1 w1 st.2 c1 v hst1
            have hbat := surplusVehicle_batteries ops env cheap st.1 w1 st.2 c1 v hst1
            obtain ⟨r1, r2, r3⟩ := ih (w1, c1) st' hb hc h3
            exact ⟨r1, hm.trans r2, r3.trans hbat⟩
    obtain ⟨⟨r1, r1'⟩, r2, r3⟩ := key ids (w, []) (w', cmds')
      (fun g hg => by simpa using (h0 g hg).2) (fun g hg => (h0 g hg).1) h
    exact ⟨fun g hg => ⟨r1' g hg, by simpa using r1 g hg⟩, r2, r3⟩

/-! ### frame: one connector's treatment touches no other connector (no battery law needed) -/

theorem oppsBattery_gcid (dops : DOps α B) (de : DEnv α) (ini : DInit α) (lk : Look α) (w : SWorld α B)
    (occ : Bool) (gcId : String) (st st' : OppsPrep α B) (bId : String)
    (h : oppsBattery dops de ini lk w occ gcId st bId = .ok st') : st'.gc.id = st.gc.id := by
  unfold oppsBattery at h
  split at h
  · cases h
  · split at h
    · simp only [bind, Except.bind] at h
      split at h
      · cases h
      · split at h
        · simp only [Except.ok.injEq] at h; subst h; rfl
        · split at h
          · cases h
          · split at h
            · cases h
            · split at h
              · simp only [Except.ok.injEq] at h; subst h; rfl
              · simp only [Except.ok.injEq] at h; subst h; rfl
    · dsimp only at h
      split at h
      · cases h
      · split at h
        · cases h
        · simp only [bind, Except.bind] at h
          split at h
          · cases h
          · simp only [Except.ok.injEq] at h; subst h; rfl

theorem oppsAfter_gcid (dops : DOps α B) (saved : α) (avail : List (String × α)) (vveh : List (VehicleS α B))
    (st st' : OppsPost α B) (bId : String) (h : oppsAfter dops saved avail vveh st bId = .ok st') :
    st'.gc.id = st.gc.id := by
  unfold oppsAfter at h
  split at h
  · cases h
  · split at h
    · simp only [bind, Except.bind] at h
      split at h
      · cases h
      · simp only [Except.ok.injEq] at h; subst h
        exact (addLoad_currentLoad _ _ _).2.2.1
    · dsimp only at h
      split at h
      · simp only [Except.ok.injEq] at h; subst h; rfl
      · split at h
        · cases h
        · split at h
          · cases h
          · simp only [Except.ok.injEq] at h; subst h
            exact (addLoad_currentLoad _ _ _).2.2.1

theorem foldlM_preserves {σ ι : Type} (f : σ → ι → Py σ) (P : σ → σ → Prop) (hr : ∀ s, P s s)
    (ht : ∀ a b c, P a b → P b c → P a c) (hstep : ∀ s i s', f s i = .ok s' → P s s')
    (l : List ι) (s s' : σ) (h : l.foldlM f s = .ok s') : P s s' := by
  induction l generalizing s with
  | nil =>
    simp only [List.foldlM_nil, pure, Except.pure, Except.ok.injEq] at h
    subst h; exact hr _
  | cons i rest ih =>
    simp only [List.foldlM_cons, bind, Except.bind] at h
    split at h
    · cases h
    · rename_i s1 hs1
      exact ht _ _ _ (hstep s i s1 hs1) (ih s1 h)

theorem stepGc_frame (dops : DOps α B) (de : DEnv α) (hd : de.deps.isRule) (ho : de.opps.isRule)
    (ncs : List (String × Option Int))
    (conn : List (String × List String)) (lk : Look α)
    (st st' : SWorld α B × DInit α × List (String × α)) (gcId : String)
    (h : stepGc dops de ncs conn lk st gcId = .ok st') :
    st'.1.gcs.map (·.id) = st.1.gcs.map (·.id) ∧ ∀ g' ∈ st'.1.gcs, g'.id ≠ gcId → g' ∈ st.1.gcs := by
  unfold stepGc at h
  split at h
  · cases h
  · rename_i gc hgc
    obtain ⟨hgm, hgid⟩ := gc?_some _ _ gc hgc
    simp only [bind, Except.bind] at h
    split at h
    · cases h
    · split at h
      · cases h
      · rename_i cands _ cvs _
        split at h
        · simp only [Except.ok.injEq] at h; subst h; exact ⟨rfl, fun g hg _ => hg⟩
        · split at h
          · cases h
          · rename_i kind _
            split at h
            · cases h
            · rename_i stations _
              -- in both cases the new connector list is `setGc gX` with `gX.id = gcId`
              have fin : ∀ (gX : GcS α) (wb : SWorld α B), gX.id = gc.id → wb.gcs = st.1.gcs →
                  ((wb.setGc gX).gcs.map (·.id) = st.1.gcs.map (·.id) ∧
                   ∀ g' ∈ (wb.setGc gX).gcs, g'.id ≠ gcId → g' ∈ st.1.gcs) := by
                intro gX wb hX hwb
                refine ⟨by rw [setGc_ids, hwb], ?_⟩
                intro g' hg' hne
                rcases mem_setGc wb gX g' hg' with rfl | ⟨hm, _⟩
                · exact absurd (hX.trans hgid) hne
                · rw [hwb] at hm; exact hm
              cases kind with
              | deps =>
                unfold stepDeps at h; simp only [hd.1, hd.2] at h; unfold stepDepsRule at h
                simp only [bind, Except.bind] at h
                split at h
                · cases h
                · rename_i r hr
                  obtain ⟨vw', cmds⟩ := r
                  simp only [Except.ok.injEq] at h
                  subst h
                  obtain ⟨g1, hg1, hid, _, _⟩ := ruleStep_single _ _ _ gc _ _ _ vw' cmds hr
                  have hgcs : (mergeDeps st.1 (syncStations vw') stations cvs).gcs =
                      ((writeBack st.1 (syncStations vw') (stations.map (·.id)) (cvs.map (·.id))).setGc g1).gcs := by
                    unfold mergeDeps
                    simp only [foldl_setBattery_gcs, syncStations_gcs, hg1, List.foldl_cons, List.foldl_nil]
                  show (mergeDeps st.1 (syncStations vw') stations cvs).gcs.map _ = _ ∧
                    ∀ g' ∈ (mergeDeps st.1 (syncStations vw') stations cvs).gcs, _
                  rw [hgcs]
                  exact fin g1 _ hid (writeBack_gcs _ _ _ _)
              | opps =>
                unfold stepOpps at h; simp only [ho.1, ho.2] at h; unfold stepOppsRule at h
                simp only [bind, Except.bind] at h
                split at h
                · cases h
                · rename_i prep hprep
                  have hpid : prep.gc.id = gc.id :=
                    foldlM_preserves _ (fun (a b : OppsPrep α B) => b.gc.id = a.gc.id) (fun _ => rfl)
                      (fun _ _ _ h1 h2 => h2.trans h1)
                      (fun s i s' hs => oppsBattery_gcid dops de st.2.1 lk st.1 _ gcId s s' i hs) _ _ prep hprep
                  split at h
                  · cases h
                  · rename_i r hr
                    obtain ⟨vw', cmds⟩ := r
                    obtain ⟨g1, hg1, hid, _, _⟩ := ruleStep_single _ _ _ prep.gc _ _ _ vw' cmds hr
                    simp only [hg1] at h
                    split at h
                    · cases h
                    · rename_i post hpost
                      simp only [Except.ok.injEq] at h
                      subst h
                      have hqid : post.gc.id = g1.id :=
                        foldlM_preserves _ (fun (a b : OppsPost α B) => b.gc.id = a.gc.id) (fun _ => rfl)
                          (fun _ _ _ h1 h2 => h2.trans h1)
                          (fun s i s' hs => oppsAfter_gcid dops _ _ _ s s' i hs) _ _ post hpost
                      exact fin post.gc _ (hqid.trans (hid.trans hpid)) (writeBack_gcs _ _ _ _)

/-! ### a concrete battery for the non-vacuity examples -/

/-- an ideal battery (state = SoC, which the example does not track): charging takes what it is offered,
a target-power discharge delivers `min target A`, `A` kW are available -/
def toyOps (A : ℚ) : BatOps ℚ ℚ where
  soc b := b
  capacity _ := 100
  efficiency _ := 1
  unloadMaxPower _ := A
  load b mp _ tp := .ok (b, max (mp.getD (tp.getD 0)) 0)
  unload b _ _ tp := .ok (b, min (max (tp.getD 0) 0) A)
  available _ := .ok A

def toyDOps (A : ℚ) : DOps ℚ ℚ := ⟨toyOps A, fun _ soc => .ok soc, fun _ s => s, fun _ => A, List.sum⟩

theorem toyOps_law (A : ℚ) (hA : 0 ≤ A) : BatLaw (toyOps A) where
  load_max := by
    intro b p b' avg h
    simp only [toyOps, Option.getD_some, Except.ok.injEq, Prod.mk.injEq] at h
    obtain ⟨_, rfl⟩ := h
    exact ⟨le_max_right _ _, le_refl _⟩
  load_target := by
    intro b p b' avg h
    simp only [toyOps, Option.getD_some, Option.getD_none, Except.ok.injEq, Prod.mk.injEq] at h
    obtain ⟨_, rfl⟩ := h
    exact ⟨le_max_right _ _, le_refl _⟩
  unload_max := by
    intro b p ts b' avg h
    simp only [toyOps, Option.getD_none, Except.ok.injEq, Prod.mk.injEq] at h
    obtain ⟨_, rfl⟩ := h
    simp only [max_self]
    exact ⟨le_min (le_refl _) hA, le_trans (min_le_left _ _) (le_max_right _ _)⟩
  unload_target := by
    intro b x b' avg h
    simp only [toyOps, Option.getD_some, Except.ok.injEq, Prod.mk.injEq] at h
    obtain ⟨_, rfl⟩ := h
    exact ⟨le_min (le_max_right _ _) hA, min_le_left _ _⟩
  available_nonneg := by
    intro b a h
    simp only [toyOps, Except.ok.injEq] at h
    subst h; exact hA

theorem toyOps_exact (A : ℚ) : UnloadExact (toyOps A) := by
  intro b a x b' avg ha hx h
  simp only [toyOps, Except.ok.injEq] at ha
  simp only [toyOps, Option.getD_some, Except.ok.injEq, Prod.mk.injEq] at h
  obtain ⟨_, rfl⟩ := h
  subst ha
  rw [max_eq_left hx]

theorem toyOps_total (A : ℚ) : AvailTotal (toyOps A) := fun _ => ⟨A, rfl⟩

def toyEnv : DEnv ℚ :=
  { env := ⟨1/100000, 0, 4, 0, 900000000⟩, hours := 1/4, opps := ⟨.greedy, 1/100000, 0, 4, 900000000, none, none⟩,
    deps := ⟨.balanced, 1/100000, 0, 4, 900000000, none, none⟩ }

/-- opportunity connector GC1 (limit 10 kW, 4 kW fixed load, price above the threshold) with one vehicle at an
11 kW station and one stationary battery; depot connector GC2 (limit 20 kW) with one vehicle; 15-minute steps -/
def toyState : DState ℚ ℚ :=
  { world := ⟨[⟨"GC1", 10, some (.fixed (3/10)), [("load", 4)]⟩, ⟨"GC2", 20, some (.fixed (3/10)), []⟩],
              [⟨"CS_v1_opps", "GC1", 11, 0, 0⟩, ⟨"CS_v2_deps", "GC2", 11, 0, 0⟩],
              [⟨"v1", some "CS_v1_opps", 4/5, some 3600000000, 0, false, 1/2, 1/5⟩,
               ⟨"v2", some "CS_v2_deps", 4/5, some 3600000000, 0, false, 1/2, 1/5⟩],
              [⟨"BAT", "GC1", 0, 1/2⟩]⟩,
    numberCs := [("GC1", none), ("GC2", none)],
    connected := [("GC1", []), ("GC2", [])],
    init := { strategies := [("GC1", .opps), ("GC2", .deps)], gcBattery := [("GC1", ["BAT"])], virtualVt := [],
              virtualCs := [] },
    future := [] }

theorem toyState_wf :
    (∀ g, ((sdGet toyState.init.gcBattery g).getD []).Nodup) ∧
    (∀ b ∈ toyState.world.batteries, 0 ≤ b.minChargingPower) ∧
    (∀ g ∈ toyState.world.gcs, 0 ≤ g.curMax ∧ g.currentLoad ≤ g.curMax) := by
  refine ⟨?_, ?_, ?_⟩
  · intro g
    simp only [toyState, sdGet]
    split <;> simp
  · intro b hb
    simp only [toyState, List.mem_cons, List.not_mem_nil, or_false] at hb
    subst hb; exact le_refl _
  · intro g hg
    simp only [toyState, List.mem_cons, List.not_mem_nil, or_false] at hg
    rcases hg with rfl | rfl <;> norm_num [GcS.currentLoad]

end SpiceEv.Distrib
