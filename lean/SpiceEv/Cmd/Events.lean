/- driver commands for Model/Events.lean and Model/StrategyBase.lean (exact stream: Rat values,
Int microsecond times).  Formats are documented in harness/evwire.py, which renders the real
objects in exactly the same way. -/
import SpiceEv.Wire
import SpiceEv.Model.Events
import SpiceEv.Model.StrategyBase
namespace SpiceEv.Cmd.Events
open SpiceEv

section
variable {α : Type} [Add α] [Sub α] [Mul α] [Neg α] [LT α] [LE α]
  [DecidableLT α] [DecidableLE α] [OfNat α 0] [OfNat α 1] [Wire α]

def rNum (x : α) : String := Wire.render x
def rInt (x : Int) : String := toString x
def rStr (s : String) : String := s

/-! #### parsing -/

def pName : P String := P.tok
def pNum : P α := P.num α

def pCost : P (Cost α) := do
  let t ← P.tok
  if t == "E" then pure .empty
  else if t == "F" then (Cost.fixed <$> pNum)
  else if t == "P" then (Cost.poly <$> P.list pNum)
  else failure

def pKind : P VehKind := do
  let t ← P.tok
  if t == "a" then pure .arrival else if t == "d" then pure .departure
  else if t == "o" then pure .other else failure

def pUpdate : P (VehUpdate α) := do
  let eta ← P.opt (P.opt P.int)
  let etd ← P.opt (P.opt P.int)
  let desired ← P.opt (pNum (α := α))
  let socDelta ← P.opt (pNum (α := α))
  let station ← P.opt (P.opt pName)
  let schedule ← P.opt (pNum (α := α))
  pure { eta, etd, desired, socDelta, station, schedule }

def pEvent : P (Event α) := do
  let t ← P.tok
  let signal ← P.int
  let start ← P.int
  if t == "F" || t == "L" then
    let name ← pName; let gc ← pName; let v ← pNum (α := α)
    pure { signal, start, kind := if t == "F" then .fixedLoad name gc v else .localGen name gc v }
  else if t == "G" then
    let gc ← pName
    let mp ← P.opt (pNum (α := α)); let cost ← P.opt (pCost (α := α))
    let target ← P.opt (pNum (α := α)); let window ← P.opt P.bool
    pure { signal, start, kind := .gridSignal gc mp cost target window }
  else if t == "V" then
    let vid ← pName; let k ← pKind; let u ← pUpdate (α := α)
    pure { signal, start, kind := .vehicle vid k u }
  else failure

def pValuesList : P (String × ValuesList α) := do
  let name ← pName
  let start ← P.int; let stepUs ← P.int; let gc ← pName
  let factor ← pNum (α := α)
  let values ← P.list (pNum (α := α))
  pure (name, { start, stepUs, gc, values, factor })

def pConnector : P (String × Connector α) := do
  let name ← pName
  let maxPower ← pNum (α := α)
  let cost ← pCost (α := α)
  let target ← P.opt (pNum (α := α)); let window ← P.opt P.bool
  let loads ← P.list (do let k ← pName; let v ← pNum (α := α); pure (k, v))
  pure (name, Connector.new maxPower cost target window loads)

def pStation : P (String × Station α) := do
  let name ← pName; let maxPower ← pNum (α := α); let parent ← pName
  pure (name, { maxPower, parent })

def pVehicle : P (String × Vehicle α) := do
  let name ← pName
  let station ← P.opt pName; let eta ← P.opt P.int; let etd ← P.opt P.int
  let desired ← pNum (α := α); let soc ← pNum (α := α); let schedule ← P.opt (pNum (α := α))
  pure (name, { station, eta, etd, desired, soc, socDelta := none, schedule })

/-! #### rendering -/

def rCost : Cost α → String
  | .empty => "E"
  | .fixed v => "F " ++ rNum v
  | .poly cs => "P " ++ renderList rNum cs

def rKind : VehKind → String
  | .arrival => "a" | .departure => "d" | .other => "o"

def rUpdate (u : VehUpdate α) : String :=
  " ".intercalate [renderOpt (renderOpt rInt) u.eta, renderOpt (renderOpt rInt) u.etd,
    renderOpt rNum u.desired, renderOpt rNum u.socDelta, renderOpt (renderOpt rStr) u.station,
    renderOpt rNum u.schedule]

def rEvent (e : Event α) : String :=
  match e.kind with
  | .fixedLoad name gc v => s!"F {e.signal} {e.start} {name} {gc} {rNum v}"
  | .localGen name gc v => s!"L {e.signal} {e.start} {name} {gc} {rNum v}"
  | .gridSignal gc mp cost target window =>
    s!"G {e.signal} {e.start} {gc} {renderOpt rNum mp} {renderOpt rCost cost} {renderOpt rNum target} {renderOpt renderBool window}"
  | .vehicle vid k u => s!"V {e.signal} {e.start} {vid} {rKind k} {rUpdate u}"

def rEvents (l : List (Event α)) : String := renderList rEvent l

def rConnector (p : String × Connector α) : String :=
  let c := p.2
  s!"{p.1} {rNum c.maxPower} {renderOpt rNum c.curMaxPower} {rCost c.cost} {renderOpt rNum c.target} {renderOpt renderBool c.window} {renderList (fun (k, v) => k ++ " " ++ rNum v) c.loads}"

def rVehicle (p : String × Vehicle α) : String :=
  let v := p.2
  s!"{p.1} {renderOpt rStr v.station} {renderOpt rInt v.eta} {renderOpt rInt v.etd} {rNum v.desired} {rNum v.soc} {renderOpt rNum v.socDelta} {renderOpt rNum v.schedule}"

def rErr : Option PyErr → String
  | none => "ok"
  | some e => renderErr e

def rStep (r : StepResult α) : String :=
  let s := r.strat
  s!"# {rErr r.err} {s.now} ; P {rEvents r.popped} ; Q {rEvents s.world.queue} ; C {renderList rConnector s.world.connectors} ; V {renderList rVehicle s.world.vehicles} ; K {s.desiredCounter} {s.marginCounter} ; T {renderList (fun (k, l) => k ++ " " ++ renderList rInt l) s.tracker}"

/-- `GridConnector.add_load(key, value)` -/
def Connector.addLoad (c : Connector α) (key : String) (value : α) : Connector α :=
  match alGet? key c.loads with
  | some v => { c with loads := alSet key (v + value) c.loads }
  | none => { c with loads := alSet key value c.loads }

/-- `evrun`: build the strategy object, assemble and bucket all events, run the loop of
`Scenario.run` with the harness's `add_load` injections standing in for the strategy. -/
def cmdRun : P String := do
  let interval ← P.int
  let eps ← pNum (α := α); let margin ← pNum (α := α)
  let allowNeg ← P.bool; let resetNeg ← P.bool
  let concurrency ← pNum (α := α)
  let simStart ← P.int; let n ← P.nat
  let connectors ← P.list (pConnector (α := α))
  let stations ← P.list (pStation (α := α))
  let batteries ← P.list pName
  let vehicles ← P.list (pVehicle (α := α))
  let vehicleEvents ← P.list (pEvent (α := α))
  let gridSignals ← P.list (pEvent (α := α))
  let fixedLoads ← P.list (pValuesList (α := α))
  let localGen ← P.list (pValuesList (α := α))
  let inj ← P.list (do
    let step ← P.int; let gc ← pName; let k ← pName; let v ← pNum (α := α); pure (step, gc, k, v))
  let cfg : Cfg α := { interval, eps, margin, allowNeg, resetNeg }
  let evs : Events α := { fixedLoads, localGen, gridSignals, vehicleEvents }
  let all := evs.allEvents
  let w : World α := { connectors, stations, vehicles, batteries, queue := [] }
  match Strat.init w simStart interval concurrency with
  | .error e => pure (renderErr e)
  | .ok s0 =>
    let head := "S " ++ renderList (fun (k, (cs : Station α)) => k ++ " " ++ rNum cs.maxPower) s0.world.stations
    match getEventSteps simStart n interval all with
    | .error e => pure (head ++ " | " ++ renderErr e)
    | .ok st =>
      let b := s!"B {st.moved} {st.ignored} {renderList rEvents st.steps}"
      let rest (s : Strat α) : Strat α × Option PyErr :=
        let i := Int.fdiv (s.now - simStart) interval
        let s' := inj.foldl (fun s (step, gc, k, v) =>
          if step = i then
            match alGet? gc s.world.connectors with
            | some c => s.setConnector gc (Connector.addLoad c k v)
            | none => s
          else s) s
        (s', none)
      let rr := runLoop cfg rest id s0 st.steps
      pure (head ++ " | " ++ b ++ " | " ++ " ".intercalate (rr.trace.map rStep)
            ++ s!" | R {rErr rr.error} {rr.stepI}")

/-- `allevents`: only the assembled list (order of `all_events`) -/
def cmdAll : P String := do
  let vehicleEvents ← P.list (pEvent (α := α))
  let gridSignals ← P.list (pEvent (α := α))
  let fixedLoads ← P.list (pValuesList (α := α))
  let localGen ← P.list (pValuesList (α := α))
  let evs : Events α := { fixedLoads, localGen, gridSignals, vehicleEvents }
  pure (rEvents evs.allEvents)

def cmdPrice : P String := do
  let start ← P.int; let stepUs ← P.int; let gc ← pName
  let vals ← P.list (pNum (α := α))
  pure (rEvents (priceList start stepUs gc vals))

def pDT : P DT := do let loc ← P.int; let off ← P.opt P.int; pure { loc, off }

def cmdSched : P String := do
  let start ← P.opt pDT; let stepUs ← P.int; let gc ← pName
  let hasWindow ← P.bool
  let names ← P.list pName
  let rows ← P.list (do
    let time ← P.opt pDT; let target ← pNum (α := α); let window ← P.bool
    let perVehicle ← P.list (pNum (α := α))
    pure ({ time, target, window, perVehicle } : SchedRow α))
  pure (renderPy rEvents (scheduleFromRows start stepUs gc hasWindow names rows))
end

def handlers : List (String × Handler) :=
  [("evrun", byNumType (cmdRun (α := Rat)) (cmdRun (α := Float))),
   ("allevents", byNumType (cmdAll (α := Rat)) (cmdAll (α := Float))),
   ("pricecsv", byNumType (cmdPrice (α := Rat)) (cmdPrice (α := Float))),
   ("schedcsv", byNumType (cmdSched (α := Rat)) (cmdSched (α := Float)))]

end SpiceEv.Cmd.Events
