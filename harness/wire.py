"""Lossless number encoding shared with lean/SpiceEv/Wire.lean."""
import struct
from fractions import Fraction
from exact import Q


def enc(x):
    if isinstance(x, Q):
        return str(x.v)
    if isinstance(x, Fraction):
        return str(x)
    if isinstance(x, bool):
        return "1" if x else "0"
    if isinstance(x, int):
        return str(x)
    if isinstance(x, float):
        return "x%016x" % struct.unpack("<Q", struct.pack("<d", x))[0]
    raise TypeError("cannot encode %r" % (x,))


def encf(x):
    """encode as float bits (ints are converted like Python would in float arithmetic)"""
    return enc(float(x))


def dec(tok):
    if tok.startswith("x"):
        return struct.unpack("<d", struct.pack("<Q", int(tok[1:], 16)))[0]
    if tok.startswith("!"):
        return tok
    return Q(tok)


def canon(x):
    """canonical token for an implementation value (Q, float, int, exception marker)"""
    if isinstance(x, str):
        return x
    if x is None:
        return "!NoneResult"
    if isinstance(x, int) and not isinstance(x, bool):
        return str(x)
    return enc(x)


def err(e):
    return "!" + type(e).__name__


def ulps(a, b):
    """distance in units in the last place between two floats (inf if signs differ wildly)"""
    ia = struct.unpack("<q", struct.pack("<d", a))[0]
    ib = struct.unpack("<q", struct.pack("<d", b))[0]
    if ia < 0:
        ia = -(ia & 0x7FFFFFFFFFFFFFFF)
    if ib < 0:
        ib = -(ib & 0x7FFFFFFFFFFFFFFF)
    return abs(ia - ib)
