/-
Line protocol: whitespace-separated tokens.  Numbers are lossless:
  Rat   `n/d` or `n`            (Python: str(Fraction))
  Float `x<16 hex digits>`      (IEEE-754 bits)
-/
import SpiceEv.Py
namespace SpiceEv

class Wire (α : Type) where
  parse : String → Option α
  render : α → String

def parseInt? (s : String) : Option Int := s.toInt?

def parseRat? (s : String) : Option Rat :=
  match s.splitOn "/" with
  | [n] => (parseInt? n).map (fun i => (i : Rat))
  | [n, d] => do
      let n ← parseInt? n
      let d ← d.toNat?
      if d == 0 then none else some (mkRat n d)
  | _ => none

instance : Wire Rat where
  parse := parseRat?
  render q := if q.den == 1 then toString q.num else s!"{q.num}/{q.den}"

def hexVal (c : Char) : Option Nat :=
  if '0' ≤ c ∧ c ≤ '9' then some (c.toNat - '0'.toNat)
  else if 'a' ≤ c ∧ c ≤ 'f' then some (c.toNat - 'a'.toNat + 10)
  else none

def parseHex? (s : String) : Option Nat :=
  s.toList.foldlM (fun acc c => (hexVal c).map (fun v => acc * 16 + v)) 0

def hexDigit (n : Nat) : Char :=
  if n < 10 then Char.ofNat ('0'.toNat + n) else Char.ofNat ('a'.toNat + (n - 10))

def renderHex16 (n : Nat) : String :=
  String.ofList ((List.range 16).reverse.map (fun i => hexDigit ((n >>> (4 * i)) % 16)))

instance : Wire Float where
  parse s :=
    if s.startsWith "x" then (parseHex? (s.drop 1).toString).map (fun n => Float.ofBits n.toUInt64)
    else none
  render f := "x" ++ renderHex16 f.toBits.toNat

instance : Wire Nat where
  parse := String.toNat?
  render := toString

instance : Wire Int where
  parse := String.toInt?
  render := toString

/-- Token-stream parser. -/
abbrev P := StateT (List String) Option

def P.tok : P String := fun s => match s with | [] => none | t :: r => some (t, r)
def P.num (α) [Wire α] : P α := do let t ← P.tok; match Wire.parse t with | some v => pure v | none => failure
def P.nat : P Nat := P.num Nat
def P.int : P Int := P.num Int
def P.bool : P Bool := do let t ← P.tok; if t == "1" then pure true else if t == "0" then pure false else failure
def P.rep {β} (n : Nat) (p : P β) : P (List β) := (List.range n).mapM (fun _ => p)
def P.list {β} (p : P β) : P (List β) := do let n ← P.nat; P.rep n p
def P.opt {β} (p : P β) : P (Option β) := do
  let t ← P.tok
  if t == "N" then pure none else if t == "S" then (some <$> p) else failure
def P.eof : P Unit := fun s => match s with | [] => some ((), []) | _ => none

def renderErr (e : PyErr) : String := "!" ++ e.name
def renderPy {β} (f : β → String) : Py β → String
  | .ok v => f v
  | .error e => renderErr e
def renderList {β} (f : β → String) (l : List β) : String :=
  " ".intercalate (toString l.length :: l.map f)
def renderOpt {β} (f : β → String) : Option β → String
  | none => "N" | some v => "S " ++ f v
def renderBool (b : Bool) : String := if b then "1" else "0"

end SpiceEv

namespace SpiceEv
/-- a driver command: the tokens after the command name ↦ one output line (none = bad arguments) -/
abbrev Handler := List String → Option String

def runP (p : P String) : Handler := fun toks =>
  match (p <* P.eof).run toks with
  | some (out, _) => some out
  | none => none

/-- dispatch on the number-type token: `q` = Rat, `f` = Float -/
def byNumType (q : P String) (f : P String) : Handler
  | "q" :: rest => runP q rest
  | "f" :: rest => runP f rest
  | _ => none
end SpiceEv
