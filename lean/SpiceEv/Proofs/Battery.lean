/-
Helper lemmas for C01 / C02: the battery model (SpiceEv/Model/Battery.lean) read over the reals.
`ℝ` instance of `BatNum`: `Real.exp` (never overflows), `Real.log` (ValueError for x ≤ 0),
`List.sum`, `|·|`.
-/
import SpiceEv.Proofs.Curve
import SpiceEv.Model.Battery
import Mathlib.Analysis.SpecialFunctions.Log.Basic
import Mathlib.Analysis.SpecialFunctions.Exp
import Mathlib.Tactic.Linarith
import Mathlib.Tactic.Positivity
import Mathlib.Tactic.FieldSimp
import Mathlib.Tactic.Ring

set_option linter.unusedSectionVars false
set_option linter.unusedSimpArgs false
set_option linter.unusedVariables false
namespace SpiceEv

/-- the real-number reading of the extra operations of battery.py -/
noncomputable instance : BatNum ℝ where
  exp x := .ok (Real.exp x)
  log x := if 0 < x then .ok (Real.log x) else .error .valueError
  sum := List.sum
  abs x := |x|

@[simp] theorem batExp_real (x : ℝ) : (BatNum.exp x : Py ℝ) = .ok (Real.exp x) := rfl
@[simp] theorem batAbs_real (x : ℝ) : (BatNum.abs x : ℝ) = |x| := rfl
@[simp] theorem batSum_real (l : List ℝ) : (BatNum.sum l : ℝ) = l.sum := rfl
theorem batLog_pos {x : ℝ} (h : 0 < x) : (BatNum.log x : Py ℝ) = .ok (Real.log x) := by
  show (if 0 < x then _ else _) = _; simp [h]
theorem batLog_nonpos {x : ℝ} (h : x ≤ 0) : (BatNum.log x : Py ℝ) = .error .valueError := by
  show (if 0 < x then _ else _) = _; simp [not_lt.mpr h]

theorem eqZero_iff (x : ℝ) : eqZero x = true ↔ x = 0 := by
  unfold eqZero
  simp only [Bool.and_eq_true, decide_eq_true_eq]
  constructor
  · rintro ⟨h1, h2⟩; exact le_antisymm h1 h2
  · rintro rfl; exact ⟨le_refl _, le_refl _⟩

theorem fdiv_ok (a : ℝ) {b : ℝ} (hb : b ≠ 0) : fdiv a b = .ok (a / b) := by
  unfold fdiv
  have : eqZero b = false := by
    rcases h : eqZero b with _ | _
    · rfl
    · exact absurd ((eqZero_iff b).mp h) hb
  simp [this]

theorem fdiv_zero (a : ℝ) : fdiv a (0 : ℝ) = .error .zeroDivision := by
  unfold fdiv
  have : eqZero (0 : ℝ) = true := (eqZero_iff 0).mpr rfl
  simp [this]

/-! ### the exponential section in direction-normalised quantities

`μ` = slope of the clamped curve per unit of SoC *in the direction of travel*, `D` = distance to the
boundary, `τ` = time spent.  The distance travelled is `(y1/μ)(exp(μτ/c) − 1)`. -/

theorem expGain_pos {c y1 μ τ : ℝ} (hc : 0 < c) (hy1 : 0 < y1) (hμ : μ ≠ 0) (hτ : 0 < τ) :
    0 < (y1 / μ) * (Real.exp (μ * τ / c) - 1) := by
  rcases lt_or_gt_of_ne hμ with h | h
  · have hu : μ * τ / c < 0 := div_neg_of_neg_of_pos (mul_neg_of_neg_of_pos h hτ) hc
    have he : Real.exp (μ * τ / c) < 1 := by rw [← Real.exp_zero]; exact Real.exp_lt_exp.mpr hu
    have h1 : y1 / μ < 0 := div_neg_of_pos_of_neg hy1 h
    nlinarith
  · have hu : 0 < μ * τ / c := div_pos (mul_pos h hτ) hc
    have he : 1 < Real.exp (μ * τ / c) := by rw [← Real.exp_zero]; exact Real.exp_lt_exp.mpr hu
    have h1 : 0 < y1 / μ := div_pos hy1 h
    nlinarith

theorem expGain_le {c y1 y2 μ D τ : ℝ} (hc : 0 < c) (hy1 : 0 < y1) (hy2 : 0 ≤ y2) (hμ : μ ≠ 0)
    (hDpos : 0 < D) (hμD : y2 = y1 + μ * D) (hτ : 0 < τ)
    (hτ0 : 0 < y2 → τ ≤ Real.log (y2 / y1) * c / μ) :
    (y1 / μ) * (Real.exp (μ * τ / c) - 1) ≤ D := by
  have hD : D = (y2 - y1) / μ := by rw [hμD]; field_simp; ring
  rcases lt_or_gt_of_ne hμ with h | h
  · -- falling in the direction of travel: y1 * exp u ≥ y2
    have key : y2 ≤ y1 * Real.exp (μ * τ / c) := by
      rcases eq_or_lt_of_le hy2 with h0 | h0
      · rw [← h0]; positivity
      · have h1 := hτ0 h0
        have : Real.log (y2 / y1) ≤ μ * τ / c := by
          have h2 : μ * τ ≥ μ * (Real.log (y2 / y1) * c / μ) := by
            exact mul_le_mul_of_nonpos_left h1 h.le
          have h3 : μ * (Real.log (y2 / y1) * c / μ) = Real.log (y2 / y1) * c := by
            field_simp
          rw [h3] at h2
          rw [le_div_iff₀ hc]; linarith
        have h4 : y2 / y1 ≤ Real.exp (μ * τ / c) := by
          calc y2 / y1 = Real.exp (Real.log (y2 / y1)) := (Real.exp_log (div_pos h0 hy1)).symm
            _ ≤ _ := Real.exp_le_exp.mpr this
        rw [div_le_iff₀ hy1] at h4; linarith
    have e : (y1 / μ) * (Real.exp (μ * τ / c) - 1) - (y2 - y1) / μ
        = (y1 * Real.exp (μ * τ / c) - y2) / μ := by field_simp; ring
    have : (y1 * Real.exp (μ * τ / c) - y2) / μ ≤ 0 :=
      div_nonpos_of_nonneg_of_nonpos (by linarith) h.le
    rw [hD]; linarith
  · have hy21 : y1 < y2 := by rw [hμD]; nlinarith [mul_pos h hDpos]
    have h0 : 0 < y2 := lt_trans hy1 hy21
    have h1 := hτ0 h0
    have : μ * τ / c ≤ Real.log (y2 / y1) := by
      rw [div_le_iff₀ hc]
      have h2 : μ * τ ≤ μ * (Real.log (y2 / y1) * c / μ) := mul_le_mul_of_nonneg_left h1 h.le
      have h3 : μ * (Real.log (y2 / y1) * c / μ) = Real.log (y2 / y1) * c := by field_simp
      linarith
    have h4 : Real.exp (μ * τ / c) ≤ y2 / y1 := by
      calc _ ≤ Real.exp (Real.log (y2 / y1)) := Real.exp_le_exp.mpr this
        _ = y2 / y1 := Real.exp_log (div_pos h0 hy1)
    rw [le_div_iff₀ hy1] at h4
    have e : (y1 / μ) * (Real.exp (μ * τ / c) - 1) - (y2 - y1) / μ
        = (y1 * Real.exp (μ * τ / c) - y2) / μ := by field_simp; ring
    have : (y1 * Real.exp (μ * τ / c) - y2) / μ ≤ 0 :=
      div_nonpos_of_nonpos_of_nonneg (by linarith) h.le
    rw [hD]; linarith

/-- energy of the exponential section: never more than the larger end power times the time -/
theorem expGain_energy {c y1 y2 μ D τ : ℝ} (hc : 0 < c) (hy1 : 0 < y1) (hy2 : 0 ≤ y2) (hμ : μ ≠ 0)
    (hDpos : 0 < D) (hμD : y2 = y1 + μ * D) (hτ : 0 < τ)
    (hτ0 : 0 < y2 → τ ≤ Real.log (y2 / y1) * c / μ) :
    (y1 / μ) * (Real.exp (μ * τ / c) - 1) * c ≤ max y1 y2 * τ := by
  set u := μ * τ / c with hu
  have hτu : τ = u * c / μ := by rw [hu]; field_simp
  rcases lt_or_gt_of_ne hμ with h | h
  · -- exp u - 1 ≥ u, divided by μ < 0
    have h1 : u + 1 ≤ Real.exp u := Real.add_one_le_exp u
    have e : (y1 / μ) * (Real.exp u - 1) * c - y1 * τ = y1 * c * (Real.exp u - 1 - u) / μ := by
      rw [hτu]; field_simp
    have : y1 * c * (Real.exp u - 1 - u) / μ ≤ 0 :=
      div_nonpos_of_nonneg_of_nonpos (by have := mul_pos hy1 hc; nlinarith) h.le
    have h2 : y1 * τ ≤ max y1 y2 * τ := mul_le_mul_of_nonneg_right (le_max_left _ _) hτ.le
    linarith
  · have hle := expGain_le hc hy1 hy2 hμ hDpos hμD hτ hτ0
    -- y1 * exp u ≤ y2
    have hD : D = (y2 - y1) / μ := by rw [hμD]; field_simp; ring
    have hyE : y1 * Real.exp u ≤ y2 := by
      have e : (y1 / μ) * (Real.exp u - 1) - (y2 - y1) / μ = (y1 * Real.exp u - y2) / μ := by
        field_simp; ring
      have h3 : (y1 * Real.exp u - y2) / μ ≤ 0 := by rw [← e, ← hD]; linarith
      by_contra hcon
      have : 0 < (y1 * Real.exp u - y2) / μ := div_pos (by linarith) h
      linarith
    -- exp u - 1 ≤ u * exp u
    have h1 : -u + 1 ≤ Real.exp (-u) := Real.add_one_le_exp (-u)
    have hE : 0 < Real.exp u := Real.exp_pos u
    have h2 : Real.exp u - 1 ≤ u * Real.exp u := by
      have : Real.exp (-u) * Real.exp u = 1 := by rw [← Real.exp_add]; simp
      nlinarith
    have e : (y1 / μ) * (Real.exp u - 1) * c - y1 * Real.exp u * τ
        = y1 * c * (Real.exp u - 1 - u * Real.exp u) / μ := by
      rw [hτu]; field_simp
    have : y1 * c * (Real.exp u - 1 - u * Real.exp u) / μ ≤ 0 :=
      div_nonpos_of_nonpos_of_nonneg (by have := mul_pos hy1 hc; nlinarith) h.le
    have h3 : y1 * Real.exp u * τ ≤ max y1 y2 * τ :=
      mul_le_mul_of_nonneg_right (le_trans hyE (le_max_right _ _)) hτ.le
    linarith

/-- the time to the boundary is positive … -/
theorem expTau_pos {c y1 y2 μ D : ℝ} (hc : 0 < c) (hy1 : 0 < y1) (hy2 : 0 < y2) (hμ : μ ≠ 0)
    (hDpos : 0 < D) (hμD : y2 = y1 + μ * D) : 0 < Real.log (y2 / y1) * c / μ := by
  rcases lt_or_gt_of_ne hμ with h | h
  · have : y2 < y1 := by rw [hμD]; nlinarith [mul_neg_of_neg_of_pos h hDpos]
    have hl : Real.log (y2 / y1) < 0 :=
      Real.log_neg (div_pos hy2 hy1) (by rw [div_lt_one hy1]; exact this)
    exact div_pos_of_neg_of_neg (mul_neg_of_neg_of_pos hl hc) h
  · have : y1 < y2 := by rw [hμD]; nlinarith [mul_pos h hDpos]
    have hl : 0 < Real.log (y2 / y1) := Real.log_pos (by rw [lt_div_iff₀ hy1]; linarith)
    exact div_pos (mul_pos hl hc) h

/-- … and after exactly that time the boundary is reached -/
theorem expGain_at {c y1 y2 μ D : ℝ} (hc : 0 < c) (hy1 : 0 < y1) (hy2 : 0 < y2) (hμ : μ ≠ 0)
    (hμD : y2 = y1 + μ * D) :
    (y1 / μ) * (Real.exp (μ * (Real.log (y2 / y1) * c / μ) / c) - 1) = D := by
  have e : μ * (Real.log (y2 / y1) * c / μ) / c = Real.log (y2 / y1) := by field_simp
  rw [e, Real.exp_log (div_pos hy2 hy1), hμD]
  field_simp; ring

/-! ### one section of `_adjust_soc` -/

theorem signum_sigma_mul {σ τ : ℝ} (hσ : σ = 1 ∨ σ = -1) (hτ : 0 < τ) : signum (σ * τ) = σ := by
  rcases hσ with rfl | rfl
  · unfold signum; simp [hτ]
  · unfold signum
    have h1 : ¬ (0 < -1 * τ) := by linarith
    have h2 : -1 * τ < 0 := by linarith
    rw [if_neg h1, if_pos h2]

theorem abs_sigma_mul {σ τ : ℝ} (hσ : σ = 1 ∨ σ = -1) (hτ : 0 < τ) : |σ * τ| = τ := by
  rcases hσ with rfl | rfl
  · rw [one_mul, abs_of_pos hτ]
  · rw [abs_of_neg (by linarith)]; ring

theorem sigma_sq {σ : ℝ} (hσ : σ = 1 ∨ σ = -1) : σ * σ = 1 := by
  rcases hσ with rfl | rfl <;> norm_num

theorem div_sigma_mul {σ : ℝ} (hσ : σ = 1 ∨ σ = -1) (a μ : ℝ) : a / (σ * μ) = σ * (a / μ) := by
  rcases hσ with rfl | rfl
  · rw [one_mul, one_mul]
  · rw [neg_one_mul, div_neg, neg_one_mul]

/-- the `t = sign(t0) * min(|t0|, remaining)` step for `t0 = σ·τ0`, `τ0 > 0` -/
theorem tClip_eq {σ τ0 rem : ℝ} (hσ : σ = 1 ∨ σ = -1) (hτ0 : 0 < τ0) :
    signum (σ * τ0) * pymin (BatNum.abs (σ * τ0)) rem = σ * min τ0 rem := by
  rw [signum_sigma_mul hσ hτ0, pymin_eq, batAbs_real, abs_sigma_mul hσ hτ0]

theorem timeToBreak_lin {eps c x1 x2 m n σ rem : ℝ} (h : |m| < eps) (hn : n ≠ 0) :
    timeToBreak eps c x1 x2 m n σ rem = .ok ((x2 - x1) * c / n) := by
  unfold timeToBreak timeToBreakRaw
  simp [h, fdiv_ok _ hn]

theorem timeToBreak_log {eps c x1 x2 m n σ rem : ℝ} (h : ¬ |m| < eps) (hm : m ≠ 0)
    (hA : x1 + n / m ≠ 0) (hq : 0 < (x2 + n / m) / (x1 + n / m)) :
    timeToBreak eps c x1 x2 m n σ rem
      = .ok (Real.log ((x2 + n / m) / (x1 + n / m)) * c / m) := by
  unfold timeToBreak timeToBreakRaw
  simp [h, fdiv_ok _ hm, fdiv_ok _ hA, batLog_pos hq, bind, Except.bind]

theorem timeToBreak_fallback {eps c x1 x2 m n σ rem : ℝ} (h : ¬ |m| < eps) (hm : m ≠ 0)
    (hA : x1 + n / m ≠ 0) (hq : (x2 + n / m) / (x1 + n / m) ≤ 0) :
    timeToBreak eps c x1 x2 m n σ rem = .ok (σ * rem) := by
  unfold timeToBreak timeToBreakRaw
  simp [h, fdiv_ok _ hm, fdiv_ok _ hA, batLog_nonpos hq, bind, Except.bind]

theorem newSocOf_lin {eps c soc m n t : ℝ} (h : |m| < eps) (hc : c ≠ 0) :
    newSocOf eps c soc m n t = .ok (soc + n / c * t) := by
  unfold newSocOf
  simp [h, fdiv_ok _ hc, bind, Except.bind]

theorem newSocOf_exp {eps c soc m n t : ℝ} (h : ¬ |m| < eps) (hm : m ≠ 0) (hc : c ≠ 0) :
    newSocOf eps c soc m n t = .ok (-n / m + (n / m + soc) * Real.exp (m / c * t)) := by
  unfold newSocOf
  simp [h, fdiv_ok _ hm, fdiv_ok _ hc, bind, Except.bind]

/-- **One section.**  `σ` = direction (+1 charge, −1 discharge), boundary at distance
`D = σ(x2 − x1) ≥ ε`, power `y1 ≥ ε` here and `y2 ≥ 0` at the boundary.  The step never raises;
it spends a time `0 < τ ≤ remaining` and moves the SoC by `g` in the direction of travel with
`0 < g ≤ D`; it either uses up the time or lands exactly on the boundary; and its energy `g·c`
is at most `(max y1 y2 + ε)·τ`. -/
theorem sectionStep_spec {c eps σ x1 x2 y1 y2 rem : ℝ} (hc : 0 < c) (heps : 0 < eps)
    (hσ : σ = 1 ∨ σ = -1) (hdx : eps ≤ σ * (x2 - x1)) (hy1 : eps ≤ y1) (hy2 : 0 ≤ y2)
    (hx1 : |x1| ≤ 1) (hrem : 0 < rem) :
    ∃ τ g, sectionStep c eps σ x1 x2 y1 y2 rem = .ok (σ * τ, x1 + σ * g) ∧
      0 < τ ∧ τ ≤ rem ∧ 0 < g ∧ g ≤ σ * (x2 - x1) ∧ (τ = rem ∨ g = σ * (x2 - x1)) ∧
      g * c ≤ (max y1 y2 + eps) * τ := by
  have hσ2 := sigma_sq hσ
  have hDpos : 0 < σ * (x2 - x1) := lt_of_lt_of_le heps hdx
  have hdx0 : x2 - x1 ≠ 0 := by
    intro h; rw [h, mul_zero] at hDpos; exact lt_irrefl _ hDpos
  have hy1pos : 0 < y1 := lt_of_lt_of_le heps hy1
  have hc0 : c ≠ 0 := ne_of_gt hc
  obtain ⟨m, hm⟩ : ∃ m, m = (y2 - y1) / (x2 - x1) := ⟨_, rfl⟩
  obtain ⟨n, hn⟩ : ∃ n, n = y1 - m * x1 := ⟨_, rfl⟩
  obtain ⟨D, hD⟩ : ∃ D, D = σ * (x2 - x1) := ⟨_, rfl⟩
  have hdxD : x2 - x1 = σ * D := by rw [hD, ← mul_assoc, hσ2, one_mul]
  have hmdx : m * (x2 - x1) = y2 - y1 := by rw [hm, div_mul_cancel₀ _ hdx0]
  have hstep : sectionStep c eps σ x1 x2 y1 y2 rem = (do
      let t0 ← timeToBreak eps c x1 x2 m n σ rem
      let t := signum t0 * pymin (BatNum.abs t0) rem
      let newSoc ← newSocOf eps c x1 m n t
      (.ok (t, newSoc) : Py (ℝ × ℝ))) := by
    unfold sectionStep
    simp only [fdiv_ok _ hdx0, bind, Except.bind, ← hm, ← hn]
  rw [hstep, ← hD]
  rw [← hD] at hdx hDpos
  by_cases hlin : |m| < eps
  · -- constant-power section
    have hmx : |m * x1| < eps := by
      rw [abs_mul]
      calc |m| * |x1| ≤ |m| * 1 := mul_le_mul_of_nonneg_left hx1 (abs_nonneg _)
        _ < eps := by rw [mul_one]; exact hlin
    have hnpos : 0 < n := by
      have := (abs_lt.mp hmx).2; rw [hn]; linarith
    have hnle : n ≤ y1 + eps := by
      have := (abs_lt.mp hmx).1; rw [hn]; linarith
    have hτ0 : 0 < D * c / n := div_pos (mul_pos hDpos hc) hnpos
    have ht0 : (x2 - x1) * c / n = σ * (D * c / n) := by rw [hdxD]; ring
    rw [timeToBreak_lin hlin (ne_of_gt hnpos)]
    simp only [bind, Except.bind]
    rw [ht0, tClip_eq hσ hτ0, newSocOf_lin hlin hc0]
    refine ⟨min (D * c / n) rem, n / c * min (D * c / n) rem, ?_, lt_min hτ0 hrem, min_le_right _ _,
      mul_pos (div_pos hnpos hc) (lt_min hτ0 hrem), ?_, ?_, ?_⟩
    · simp only [Except.ok.injEq, Prod.mk.injEq, true_and]; ring
    · calc n / c * min (D * c / n) rem ≤ n / c * (D * c / n) :=
            mul_le_mul_of_nonneg_left (min_le_left _ _) (div_pos hnpos hc).le
        _ = D := by field_simp
    · rcases le_total (D * c / n) rem with h | h
      · right; rw [min_eq_left h]; field_simp
      · left; exact min_eq_right h
    · have e : n / c * min (D * c / n) rem * c = n * min (D * c / n) rem := by field_simp
      rw [e]
      have h1 : n ≤ max y1 y2 + eps := le_trans hnle (by linarith [le_max_left y1 y2])
      exact mul_le_mul_of_nonneg_right h1 (lt_min hτ0 hrem).le
  · -- exponential section
    have hmabs : eps ≤ |m| := not_lt.mp hlin
    have hm0 : m ≠ 0 := by
      intro h; rw [h, abs_zero] at hmabs; linarith
    obtain ⟨μ, hμ⟩ : ∃ μ, μ = σ * m := ⟨_, rfl⟩
    have hμ0 : μ ≠ 0 := by
      rw [hμ]; rcases hσ with rfl | rfl <;> simpa using hm0
    have hmμ : m = σ * μ := by rw [hμ, ← mul_assoc, hσ2, one_mul]
    have hμD : y2 = y1 + μ * D := by
      have : μ * D = (σ * σ) * (m * (x2 - x1)) := by rw [hμ, hD]; ring
      rw [this, hσ2, hmdx]; ring
    have hA : x1 + n / m = y1 / m := by rw [hn]; field_simp; ring
    have hA0 : x1 + n / m ≠ 0 := by rw [hA]; exact div_ne_zero (ne_of_gt hy1pos) hm0
    have hB : x2 + n / m = y2 / m := by
      have : x2 = x1 + (y2 - y1) / m := by rw [← hmdx]; field_simp; ring
      rw [this, hn]; field_simp; ring
    have hq : (x2 + n / m) / (x1 + n / m) = y2 / y1 := by
      rw [hA, hB]; field_simp
    -- the new SoC in normalised form
    have hnew : ∀ τ : ℝ, -n / m + (n / m + x1) * Real.exp (m / c * (σ * τ))
        = x1 + σ * ((y1 / μ) * (Real.exp (μ * τ / c) - 1)) := by
      intro τ
      have e1 : m / c * (σ * τ) = μ * τ / c := by rw [hμ]; ring
      have e2 : n / m + x1 = y1 / m := by rw [add_comm]; exact hA
      have e3 : -n / m = x1 - y1 / m := by rw [← hA]; ring
      have e4 : y1 / m = σ * (y1 / μ) := by rw [hmμ]; exact div_sigma_mul hσ _ _
      rw [e1, e2, e3, e4]; ring
    rcases eq_or_lt_of_le hy2 with h0 | h0
    · -- power 0 at the boundary: never reached, `log` raises, t = ±remaining
      have hq0 : (x2 + n / m) / (x1 + n / m) ≤ 0 := by rw [hq, ← h0, zero_div]
      rw [timeToBreak_fallback hlin hm0 hA0 hq0]
      simp only [bind, Except.bind]
      rw [tClip_eq hσ hrem, min_self, newSocOf_exp hlin hm0 hc0, hnew rem]
      have hτ0 : 0 < y2 → rem ≤ Real.log (y2 / y1) * c / μ := by
        intro h; rw [← h0] at h; exact absurd h (lt_irrefl _)
      refine ⟨rem, (y1 / μ) * (Real.exp (μ * rem / c) - 1), rfl, hrem, le_refl _,
        expGain_pos hc hy1pos hμ0 hrem, expGain_le hc hy1pos hy2 hμ0 hDpos hμD hrem hτ0,
        Or.inl rfl, ?_⟩
      have := expGain_energy hc hy1pos hy2 hμ0 hDpos hμD hrem hτ0
      nlinarith
    · -- boundary reachable after τ0 = log(y2/y1)·c/μ
      have hq1 : 0 < (x2 + n / m) / (x1 + n / m) := by rw [hq]; exact div_pos h0 hy1pos
      have hτpos := expTau_pos hc hy1pos h0 hμ0 hDpos hμD
      have ht0 : Real.log ((x2 + n / m) / (x1 + n / m)) * c / m
          = σ * (Real.log (y2 / y1) * c / μ) := by
        rw [hq, hmμ]; exact div_sigma_mul hσ _ _
      rw [timeToBreak_log hlin hm0 hA0 hq1]
      simp only [bind, Except.bind]
      rw [ht0, tClip_eq hσ hτpos, newSocOf_exp hlin hm0 hc0, hnew]
      set τ := min (Real.log (y2 / y1) * c / μ) rem with hτ
      have hτ1 : 0 < τ := lt_min hτpos hrem
      have hτ0 : 0 < y2 → τ ≤ Real.log (y2 / y1) * c / μ := fun _ => min_le_left _ _
      refine ⟨τ, (y1 / μ) * (Real.exp (μ * τ / c) - 1), rfl, hτ1, min_le_right _ _,
        expGain_pos hc hy1pos hμ0 hτ1, expGain_le hc hy1pos hy2 hμ0 hDpos hμD hτ1 hτ0, ?_, ?_⟩
      · rcases le_total (Real.log (y2 / y1) * c / μ) rem with h | h
        · right; rw [hτ, min_eq_left h]; exact expGain_at hc hy1pos h0 hμ0 hμD
        · left; rw [hτ, min_eq_right h]
      · have := expGain_energy hc hy1pos hy2 hμ0 hDpos hμD hτ1 hτ0
        nlinarith

/-! ### the boundary-advance loop -/

theorem pyIndex_nat {β : Type} (l : List β) (k : Nat) (v : β) (h : l[k]? = some v) :
    pyIndex l (k : Int) = .ok v := by
  unfold pyIndex
  have h0 : ¬ ((k : Int) < 0) := by omega
  simp [h0, h]

theorem getLast_index {β : Type} (l : List β) (k : Nat) (v w : β) (h : l[k]? = some v)
    (hl : l.getLast? = some w) (hk : ¬ (k + 1 < l.length)) : v = w := by
  have hklt : k < l.length := by
    by_contra hc
    rw [List.getElem?_eq_none (by omega)] at h; cases h
  have hk' : k = l.length - 1 := by omega
  rw [List.getLast?_eq_getElem?] at hl
  rw [hk'] at h
  rw [h] at hl
  exact Option.some.inj hl

/-- charging: the inner `while` stops (no `IndexError`) at a boundary at least `ε` ahead -/
theorem advance_charge (pts : List (ℝ × ℝ)) (eps target soc : ℝ)
    (hlast : ∃ l, pts.getLast? = some l ∧ l.1 = 1) (ht1 : target ≤ 1) (hloop : eps < target - soc) :
    ∀ (fuel k : Nat) (bsoc : ℝ), (∃ p, pts[k]? = some p ∧ bsoc = min target p.1) →
      pts.length - k + 1 ≤ fuel →
      ∃ (k' : Nat) (bsoc' : ℝ),
        advanceBoundary pts false eps target 1 soc fuel (k : Int) bsoc = .ok ((k' : Int), bsoc') ∧
        k ≤ k' ∧ (∃ p, pts[k']? = some p ∧ bsoc' = min target p.1) ∧ eps ≤ bsoc' - soc ∧
        (bsoc - soc < eps → k < k') := by
  intro fuel
  induction fuel with
  | zero => intro k bsoc _ hf; omega
  | succ fuel ih =>
    intro k bsoc hb hf
    obtain ⟨p, hp, hbs⟩ := hb
    unfold advanceBoundary
    by_cases hcond : 1 * (bsoc - soc) < eps
    · rw [if_pos hcond]
      rw [one_mul] at hcond
      -- the current boundary is a curve point strictly below the target, hence not the last point
      have hlt : bsoc < target := by linarith
      have hbp : bsoc = p.1 := by
        rw [hbs]; rw [hbs] at hlt
        exact min_eq_right (le_of_lt (by
          by_contra hcon
          rw [min_eq_left (not_lt.mp hcon)] at hlt; exact lt_irrefl _ hlt))
      have hk1 : k + 1 < pts.length := by
        by_contra hcon
        obtain ⟨l, hl1, hl2⟩ := hlast
        have := getLast_index pts k p l hp hl1 hcon
        rw [this] at hbp; rw [hbp, hl2] at hlt; linarith
      obtain ⟨q, hq⟩ : ∃ q, pts[k + 1]? = some q := ⟨pts[k + 1], List.getElem?_eq_getElem hk1⟩
      have hcast : ((k + 1 : Nat) : Int) = (k : Int) + 1 := by omega
      have hpi : pyIndex pts ((k : Int) + 1) = .ok q := by
        rw [← hcast]; exact pyIndex_nat pts (k + 1) q hq
      have hba : boundaryAt pts false target ((k : Int) + 1) = .ok (min target q.1) := by
        unfold boundaryAt
        simp [hpi, bind, Except.bind]
      simp only [Bool.false_eq_true, if_false, hba, bind, Except.bind]
      obtain ⟨k', bsoc', h1, h2, h3, h4, _⟩ := ih (k + 1) (min target q.1) ⟨q, hq, rfl⟩ (by omega)
      rw [hcast] at h1
      exact ⟨k', bsoc', h1, by omega, h3, h4, fun _ => by omega⟩
    · rw [if_neg hcond]
      rw [one_mul] at hcond
      exact ⟨k, bsoc, rfl, le_refl _, ⟨p, hp, hbs⟩, not_lt.mp hcond, fun h => absurd h hcond⟩

/-- discharging: boundary index `-1` (left of the curve) is encoded as `none` -/
def disIdx : Option Nat → Int
  | none => -1
  | some k => (k : Int)

def DisBoundary (pts : List (ℝ × ℝ)) (target : ℝ) (k : Option Nat) (bsoc : ℝ) : Prop :=
  match k with
  | none => bsoc = target
  | some k => ∃ p, pts[k]? = some p ∧ bsoc = max target p.1

def disDist : Option Nat → Nat
  | none => 0
  | some k => k + 1

theorem advance_discharge (pts : List (ℝ × ℝ)) (eps target soc : ℝ) (hloop : eps < -1 * (target - soc)) :
    ∀ (fuel : Nat) (k : Option Nat) (bsoc : ℝ), DisBoundary pts target k bsoc →
      disDist k + 1 ≤ fuel →
      ∃ (k' : Option Nat) (bsoc' : ℝ),
        advanceBoundary pts true eps target (-1) soc fuel (disIdx k) bsoc = .ok (disIdx k', bsoc') ∧
        disDist k' ≤ disDist k ∧ DisBoundary pts target k' bsoc' ∧ eps ≤ -1 * (bsoc' - soc) ∧
        (-1 * (bsoc - soc) < eps → disDist k' < disDist k) := by
  intro fuel
  induction fuel with
  | zero => intro k bsoc _ hf; omega
  | succ fuel ih =>
    intro k bsoc hb hf
    unfold advanceBoundary
    by_cases hcond : -1 * (bsoc - soc) < eps
    · rw [if_pos hcond]
      cases k with
      | none =>
        -- boundary = target, which is more than ε away: the loop condition is false
        simp only [DisBoundary] at hb
        rw [hb] at hcond; linarith
      | some k =>
        simp only [DisBoundary] at hb
        obtain ⟨p, hp, hbs⟩ := hb
        have hklt : k < pts.length := by
          by_contra hc
          rw [List.getElem?_eq_none (by omega)] at hp; cases hp
        cases k with
        | zero =>
          have hidx : (disIdx (some 0) + -1) = disIdx none := by
            simp [disIdx]
          have hba : boundaryAt pts true target (disIdx none) = .ok target := by
            unfold boundaryAt; simp [disIdx]
          simp only [if_true, hidx, hba, bind, Except.bind]
          obtain ⟨k', bsoc', h1, h2, h3, h4, _⟩ := ih none target (by simp [DisBoundary])
            (by simp [disDist] at hf ⊢; omega)
          exact ⟨k', bsoc', h1, by simp [disDist] at h2 ⊢; omega, h3, h4,
            fun _ => by simp [disDist] at h2 ⊢; omega⟩
        | succ j =>
          have hidx : (disIdx (some (j + 1)) + -1) = disIdx (some j) := by
            simp [disIdx]
          obtain ⟨q, hq⟩ : ∃ q, pts[j]? = some q :=
            ⟨pts[j]'(by omega), List.getElem?_eq_getElem (by omega)⟩
          have hba : boundaryAt pts true target (disIdx (some j)) = .ok (max target q.1) := by
            unfold boundaryAt
            have h0 : (0 : Int) ≤ (j : Int) := by omega
            simp [disIdx, h0, pyIndex_nat pts j q hq, bind, Except.bind]
          simp only [if_true, hidx, hba, bind, Except.bind]
          obtain ⟨k', bsoc', h1, h2, h3, h4, _⟩ := ih (some j) (max target q.1) ⟨q, hq, rfl⟩
            (by simp [disDist] at hf ⊢; omega)
          exact ⟨k', bsoc', h1, by simp [disDist] at h2 ⊢; omega, h3, h4,
            fun _ => by simp [disDist] at h2 ⊢; omega⟩
    · rw [if_neg hcond]
      exact ⟨k, bsoc, rfl, le_refl _, hb, not_lt.mp hcond, fun h => absurd h hcond⟩

/-! ### one pass through the outer loop -/

/-- what `_adjust_soc` needs of the (clamped) curve: well-formed, bounded by `Y` -/
structure CurveOK (cv : Curve ℝ) (Y : ℝ) : Prop where
  sorted : StrictSoc cv.points
  last : ∃ l, cv.points.getLast? = some l ∧ l.1 = 1
  nonneg : ∀ p ∈ cv.points, 0 ≤ p.2
  bound : ∀ s, s ≤ 1 → interp cv.points s ≤ Y

theorem adjustIter_core (cv : Curve ℝ) (dis : Bool) (c eps target σ Y : ℝ) (st : AdjState ℝ)
    (bi : Int) (bs : ℝ) (hcv : CurveOK cv Y) (hc : 0 < c) (heps : 0 < eps)
    (hσ : σ = if dis then -1 else 1)
    (hadv : advanceBoundary cv.points dis eps target σ st.soc (cv.points.length + 2) st.bidx st.bsoc
      = .ok (bi, bs))
    (hbs1 : bs ≤ 1) (hsoc1 : st.soc ≤ 1) (hsocm1 : -1 ≤ st.soc)
    (hgap : eps ≤ σ * (bs - st.soc)) (hrem : 0 < st.remaining) :
    ∃ st' cont, adjustIter cv dis c eps target σ st = .ok (st', cont) ∧
      st'.bidx = bi ∧ st'.bsoc = bs ∧
      0 ≤ σ * (st'.soc - st.soc) ∧ σ * (st'.soc - st.soc) ≤ σ * (bs - st.soc) ∧
      0 ≤ st'.remaining ∧ st'.remaining ≤ st.remaining ∧
      st'.energies.sum = st.energies.sum + σ * (st'.soc - st.soc) * c ∧
      σ * (st'.soc - st.soc) * c ≤ (Y + eps) * (st.remaining - st'.remaining) ∧
      (cont = true → (st'.remaining = 0 ∨ st'.soc = bs)) ∧
      (cont = false → st'.soc = st.soc ∧ st'.remaining = st.remaining ∧ st'.energies = st.energies) ∧
      (interp cv.points st.soc < eps → cont = false) ∧
      (cont = false → interp cv.points st.soc < eps) ∧
      (cont = true → ∃ τ g, sectionStep c eps σ st.soc bs (interp cv.points st.soc)
          (interp cv.points bs) st.remaining = .ok (σ * τ, st.soc + σ * g) ∧
        st'.soc = st.soc + σ * g ∧ st'.remaining = st.remaining - τ ∧
        st'.energies = st.energies ++ [g * c]) := by
  have hσ' : σ = 1 ∨ σ = -1 := by cases dis <;> simp [hσ]
  have hσ2 := sigma_sq hσ'
  have hy1e := powerFromSoc_eq cv st.soc hcv.sorted hcv.last hsoc1
  have hy2e := powerFromSoc_eq cv bs hcv.sorted hcv.last hbs1
  have hy2 : 0 ≤ interp cv.points bs := interp_nonneg cv.points hcv.sorted hcv.nonneg bs
  unfold adjustIter
  simp only [hadv, hy1e, hy2e, bind, Except.bind]
  by_cases hzero : interp cv.points st.soc < eps
  · -- no power at the current SoC: break
    rw [if_pos hzero]
    refine ⟨_, false, rfl, rfl, rfl, ?_, ?_, hrem.le, le_refl _, ?_, ?_, ?_, ?_, fun _ => rfl,
      fun _ => hzero, (fun h => by cases h)⟩
    · simp
    · simp only [sub_self, mul_zero]; linarith
    · simp
    · simp
    · intro h; cases h
    · intro _; exact ⟨rfl, rfl, rfl⟩
  · rw [if_neg hzero]
    have hx1 : |st.soc| ≤ 1 := abs_le.mpr ⟨hsocm1, hsoc1⟩
    obtain ⟨τ, g, hstep, hτ0, hτr, hg0, hgD, hor, hen⟩ :=
      sectionStep_spec hc heps hσ' hgap (not_lt.mp hzero) hy2 hx1 hrem
    simp only [hstep]
    have hdir : (if dis = true then decide (st.soc + σ * g ≤ st.soc)
        else decide (st.soc ≤ st.soc + σ * g)) = true := by
      cases dis
      · simp only [Bool.false_eq_true, if_false] at hσ ⊢
        rw [hσ]; simp; linarith
      · simp only [if_true] at hσ ⊢
        rw [hσ]; simp; linarith
    have hed : |st.soc + σ * g - st.soc| * c = g * c := by
      have : st.soc + σ * g - st.soc = σ * g := by ring
      rw [this, abs_sigma_mul hσ' hg0]
    have hgc : 0 < g * c := mul_pos hg0 hc
    have hnew1 : st.soc + σ * g ≤ 1 := by
      rcases hσ' with h | h
      · rw [h] at hgD ⊢; linarith
      · rw [h]; linarith
    simp only [pyassert, hdir, if_true, batAbs_real, hed, not_le.mpr hgc, if_false]
    have hle : decide (st.soc + σ * g ≤ 1 + eps) = true := by
      simp only [decide_eq_true_eq]; linarith
    simp only [hle, if_true, pymin_eq, min_eq_left hnew1, abs_sigma_mul hσ' hτ0]
    refine ⟨_, true, rfl, rfl, rfl, ?_, ?_, ?_, ?_, ?_, ?_, ?_, ?_, fun h => absurd h hzero,
      (fun h => by cases h), fun _ => ⟨τ, g, rfl, rfl, rfl, rfl⟩⟩
    · show 0 ≤ σ * (st.soc + σ * g - st.soc)
      have : σ * (st.soc + σ * g - st.soc) = (σ * σ) * g := by ring
      rw [this, hσ2, one_mul]; exact hg0.le
    · show σ * (st.soc + σ * g - st.soc) ≤ _
      have : σ * (st.soc + σ * g - st.soc) = (σ * σ) * g := by ring
      rw [this, hσ2, one_mul]; exact hgD
    · show 0 ≤ st.remaining - τ
      linarith
    · show st.remaining - τ ≤ st.remaining
      linarith
    · show (st.energies ++ [g * c]).sum = st.energies.sum + σ * (st.soc + σ * g - st.soc) * c
      have : σ * (st.soc + σ * g - st.soc) = (σ * σ) * g := by ring
      rw [this, hσ2, one_mul, List.sum_append]; simp
    · show σ * (st.soc + σ * g - st.soc) * c ≤ (Y + eps) * (st.remaining - (st.remaining - τ))
      have : σ * (st.soc + σ * g - st.soc) = (σ * σ) * g := by ring
      rw [this, hσ2, one_mul]
      have hY : max (interp cv.points st.soc) (interp cv.points bs) + eps ≤ Y + eps := by
        have := max_le (hcv.bound st.soc hsoc1) (hcv.bound bs hbs1); linarith
      have : (max (interp cv.points st.soc) (interp cv.points bs) + eps) * τ ≤ (Y + eps) * τ :=
        mul_le_mul_of_nonneg_right hY hτ0.le
      have e : st.remaining - (st.remaining - τ) = τ := by ring
      rw [e]; linarith
    · intro _
      rcases hor with h | h
      · left; show st.remaining - τ = 0; rw [h]; ring
      · right; show st.soc + σ * g = bs
        rw [h, ← mul_assoc, hσ2]; ring
    · intro h; cases h

/-! ### the outer loop, charging -/

/-- loop invariant while charging -/
def InvC (pts : List (ℝ × ℝ)) (target : ℝ) (st : AdjState ℝ) (k : Nat) : Prop :=
  st.bidx = (k : Int) ∧ (∃ p, pts[k]? = some p ∧ st.bsoc = min target p.1) ∧
  -1 ≤ st.soc ∧ st.soc ≤ 1 ∧ 0 ≤ st.remaining

/-- variant: twice the number of boundaries ahead, plus one if the current one is not yet reached -/
noncomputable def measC (pts : List (ℝ × ℝ)) (eps : ℝ) (st : AdjState ℝ) (k : Nat) : Nat :=
  2 * (pts.length - k) + (if st.bsoc - st.soc < eps then 0 else 1)

theorem adjustLoop_charge (cv : Curve ℝ) (c eps target Y : ℝ) (hcv : CurveOK cv Y) (hc : 0 < c)
    (heps : 0 < eps) (ht1 : target ≤ 1) :
    ∀ (fuel : Nat) (st : AdjState ℝ) (k : Nat), InvC cv.points target st k →
      (st.remaining ≤ eps ∨ measC cv.points eps st k + 2 ≤ fuel) → 1 ≤ fuel →
      ∃ st', adjustLoop cv false c eps target 1 fuel st = .ok st' ∧
        st.soc ≤ st'.soc ∧ st'.soc ≤ max st.soc target ∧
        0 ≤ st'.remaining ∧ st'.remaining ≤ st.remaining ∧
        st'.energies.sum = st.energies.sum + (st'.soc - st.soc) * c ∧
        (st'.soc - st.soc) * c ≤ (Y + eps) * (st.remaining - st'.remaining) ∧
        (interp cv.points st.soc < eps → st'.soc = st.soc ∧ st'.energies = st.energies) := by
  intro fuel
  induction fuel with
  | zero => intro st k _ _ h; omega
  | succ fuel ih =>
    intro st k hinv hfuel _
    obtain ⟨hbidx, hb, hsm1, hs1, hrem0⟩ := hinv
    unfold adjustLoop
    by_cases hcond : eps < st.remaining ∧ eps < 1 * (target - st.soc)
    · rw [if_pos hcond]
      obtain ⟨hrem, htgt⟩ := hcond
      rw [one_mul] at htgt
      have hfuel' : measC cv.points eps st k + 2 ≤ fuel + 1 := by
        rcases hfuel with h | h
        · exact absurd hrem (not_lt.mpr h)
        · exact h
      obtain ⟨k', bs, hadv, hkk', hb', hgap, hstrict⟩ :=
        advance_charge cv.points eps target st.soc hcv.last ht1 htgt (cv.points.length + 2) k st.bsoc hb
          (by omega)
      rw [← hbidx] at hadv
      obtain ⟨p', hp', hbs'⟩ := hb'
      have hbst : bs ≤ target := by rw [hbs']; exact min_le_left _ _
      have hgap' : eps ≤ 1 * (bs - st.soc) := by rw [one_mul]; exact hgap
      obtain ⟨st', cont, hiter, hbi, hbsoc, hd0, hd1, hr0, hr1, hen, hpw, hcontT, hcontF, hz, _⟩ :=
        adjustIter_core cv false c eps target 1 Y st (k' : Int) bs hcv hc heps (by simp) hadv
          (le_trans hbst ht1) hs1 hsm1 hgap' (lt_trans heps hrem)
      simp only [one_mul] at hd0 hd1 hen hpw
      simp only [hiter, bind, Except.bind]
      cases cont with
      | false =>
        obtain ⟨e1, e2, e3⟩ := hcontF rfl
        refine ⟨st', rfl, by rw [e1], by rw [e1]; exact le_max_left _ _, hr0, hr1, ?_, ?_,
          fun _ => ⟨e1, e3⟩⟩
        · rw [e1, e3]; ring
        · rw [e1, e2]; simp
      | true =>
        simp only [if_true]
        have hs' : st.soc ≤ st'.soc := by linarith
        have hs'b : st'.soc ≤ bs := by linarith
        have hklen : k' < cv.points.length := by
          by_contra hcon
          rw [List.getElem?_eq_none (by omega)] at hp'; cases hp'
        have hinv' : InvC cv.points target st' k' :=
          ⟨hbi, ⟨p', hp', by rw [hbsoc]; exact hbs'⟩, by linarith, by linarith, hr0⟩
        have hfuel2 : st'.remaining ≤ eps ∨ measC cv.points eps st' k' + 2 ≤ fuel := by
          rcases hcontT rfl with h | h
          · left; rw [h]; exact heps.le
          · right
            have hflag : st'.bsoc - st'.soc < eps := by rw [hbsoc, h, sub_self]; exact heps
            unfold measC at hfuel' ⊢
            rw [if_pos hflag]
            by_cases hf : st.bsoc - st.soc < eps
            · have := hstrict hf
              rw [if_pos hf] at hfuel'; omega
            · rw [if_neg hf] at hfuel'; omega
        have hfuel1 : 1 ≤ fuel := by unfold measC at hfuel'; omega
        obtain ⟨st'', hloop, g1, g2, g3, g4, g5, g6, _⟩ := ih st' k' hinv' hfuel2 hfuel1
        refine ⟨st'', hloop, le_trans hs' g1, ?_, g3, le_trans g4 hr1, ?_, ?_, ?_⟩
        · have : max st'.soc target = target := max_eq_right (le_trans hs'b hbst)
          rw [this] at g2; exact le_trans g2 (le_max_right _ _)
        · rw [g5, hen]; ring
        · have : (st''.soc - st.soc) * c = (st''.soc - st'.soc) * c + (st'.soc - st.soc) * c := by ring
          rw [this]
          have : (Y + eps) * (st.remaining - st''.remaining)
              = (Y + eps) * (st'.remaining - st''.remaining) + (Y + eps) * (st.remaining - st'.remaining) := by
            ring
          rw [this]; linarith
        · intro hzero; exact absurd (hz hzero) (by simp)
    · rw [if_neg hcond]
      exact ⟨st, rfl, le_refl _, le_max_left _ _, hrem0, le_refl _, by ring, by simp,
        fun _ => ⟨rfl, rfl⟩⟩

/-! ### the outer loop, discharging -/

def InvD (pts : List (ℝ × ℝ)) (target : ℝ) (st : AdjState ℝ) (k : Option Nat) : Prop :=
  st.bidx = disIdx k ∧ DisBoundary pts target k st.bsoc ∧ st.soc ≤ 1 ∧ 0 ≤ st.remaining

noncomputable def measD (eps : ℝ) (st : AdjState ℝ) (k : Option Nat) : Nat :=
  2 * disDist k + (if -1 * (st.bsoc - st.soc) < eps then 0 else 1)

theorem disBoundary_ge {pts : List (ℝ × ℝ)} {target : ℝ} {k : Option Nat} {bs : ℝ}
    (h : DisBoundary pts target k bs) : target ≤ bs := by
  cases k with
  | none => simp only [DisBoundary] at h; rw [h]
  | some k =>
    simp only [DisBoundary] at h
    obtain ⟨p, _, hb⟩ := h; rw [hb]; exact le_max_left _ _

theorem disDist_le_length {pts : List (ℝ × ℝ)} {target : ℝ} {k : Option Nat} {bs : ℝ}
    (h : DisBoundary pts target k bs) : disDist k ≤ pts.length := by
  cases k with
  | none => simp [disDist]
  | some k =>
    simp only [DisBoundary] at h
    obtain ⟨p, hp, _⟩ := h
    have : k < pts.length := by
      by_contra hcon
      rw [List.getElem?_eq_none (by omega)] at hp; cases hp
    simp [disDist]; omega

theorem adjustLoop_discharge (cv : Curve ℝ) (c eps target Y : ℝ) (hcv : CurveOK cv Y) (hc : 0 < c)
    (heps : 0 < eps) (htm1 : -1 ≤ target) :
    ∀ (fuel : Nat) (st : AdjState ℝ) (k : Option Nat), InvD cv.points target st k →
      (st.remaining ≤ eps ∨ measD eps st k + 2 ≤ fuel) → 1 ≤ fuel →
      ∃ st', adjustLoop cv true c eps target (-1) fuel st = .ok st' ∧
        st'.soc ≤ st.soc ∧ min st.soc target ≤ st'.soc ∧
        0 ≤ st'.remaining ∧ st'.remaining ≤ st.remaining ∧
        st'.energies.sum = st.energies.sum + (st.soc - st'.soc) * c ∧
        (st.soc - st'.soc) * c ≤ (Y + eps) * (st.remaining - st'.remaining) ∧
        (interp cv.points st.soc < eps → st'.soc = st.soc ∧ st'.energies = st.energies) := by
  intro fuel
  induction fuel with
  | zero => intro st k _ _ h; omega
  | succ fuel ih =>
    intro st k hinv hfuel _
    obtain ⟨hbidx, hb, hs1, hrem0⟩ := hinv
    unfold adjustLoop
    by_cases hcond : eps < st.remaining ∧ eps < -1 * (target - st.soc)
    · rw [if_pos hcond]
      obtain ⟨hrem, htgt⟩ := hcond
      have hfuel' : measD eps st k + 2 ≤ fuel + 1 := by
        rcases hfuel with h | h
        · exact absurd hrem (not_lt.mpr h)
        · exact h
      have hdl := disDist_le_length hb
      obtain ⟨k', bs, hadv, hkk', hb', hgap, hstrict⟩ :=
        advance_discharge cv.points eps target st.soc htgt (cv.points.length + 2) k st.bsoc hb
          (by omega)
      rw [← hbidx] at hadv
      have hbst : target ≤ bs := disBoundary_ge hb'
      have hsm1 : -1 ≤ st.soc := by linarith
      obtain ⟨st', cont, hiter, hbi, hbsoc, hd0, hd1, hr0, hr1, hen, hpw, hcontT, hcontF, hz, _⟩ :=
        adjustIter_core cv true c eps target (-1) Y st (disIdx k') bs hcv hc heps (by simp) hadv
          (by linarith) hs1 hsm1 hgap (lt_trans heps hrem)
      simp only [hiter, bind, Except.bind]
      cases cont with
      | false =>
        obtain ⟨e1, e2, e3⟩ := hcontF rfl
        refine ⟨st', rfl, by rw [e1], by rw [e1]; exact min_le_left _ _, hr0, hr1, ?_, ?_,
          fun _ => ⟨e1, e3⟩⟩
        · rw [e1, e3]; ring
        · rw [e1, e2]; simp
      | true =>
        simp only [if_true]
        have hs' : st'.soc ≤ st.soc := by linarith
        have hs'b : bs ≤ st'.soc := by linarith
        have hinv' : InvD cv.points target st' k' :=
          ⟨hbi, by rw [hbsoc]; exact hb', by linarith, hr0⟩
        have hfuel2 : st'.remaining ≤ eps ∨ measD eps st' k' + 2 ≤ fuel := by
          rcases hcontT rfl with h | h
          · left; rw [h]; exact heps.le
          · right
            have hflag : -1 * (st'.bsoc - st'.soc) < eps := by
              rw [hbsoc, h, sub_self, mul_zero]; exact heps
            unfold measD at hfuel' ⊢
            rw [if_pos hflag]
            by_cases hf : -1 * (st.bsoc - st.soc) < eps
            · have := hstrict hf
              rw [if_pos hf] at hfuel'; omega
            · rw [if_neg hf] at hfuel'; omega
        have hfuel1 : 1 ≤ fuel := by unfold measD at hfuel'; omega
        obtain ⟨st'', hloop, g1, g2, g3, g4, g5, g6, _⟩ := ih st' k' hinv' hfuel2 hfuel1
        refine ⟨st'', hloop, le_trans g1 hs', ?_, g3, le_trans g4 hr1, ?_, ?_, ?_⟩
        · have : min st'.soc target = target := min_eq_right (le_trans hbst hs'b)
          rw [this] at g2; exact le_trans (min_le_right _ _) g2
        · rw [g5, hen]; ring
        · have : (st.soc - st''.soc) * c = (st'.soc - st''.soc) * c + (st.soc - st'.soc) * c := by ring
          rw [this]
          have : (Y + eps) * (st.remaining - st''.remaining)
              = (Y + eps) * (st'.remaining - st''.remaining) + (Y + eps) * (st.remaining - st'.remaining) := by
            ring
          rw [this]
          have : (st.soc - st'.soc) * c = -1 * (st'.soc - st.soc) * c := by ring
          linarith
        · intro hzero; exact absurd (hz hzero) (by simp)
    · rw [if_neg hcond]
      exact ⟨st, rfl, le_refl _, min_le_left _ _, hrem0, le_refl _, by ring, by simp,
        fun _ => ⟨rfl, rfl⟩⟩

/-! ### `_adjust_soc` -/

theorem sectionBoundaryAux_bounds (pts : Array (ℝ × ℝ)) (soc : ℝ) :
    ∀ (fuel i1 i2 : Nat), i1 < pts.size → i2 < pts.size →
      (sectionBoundaryAux pts soc fuel i1 i2).1 < pts.size ∧
      (sectionBoundaryAux pts soc fuel i1 i2).2 < pts.size := by
  intro fuel
  induction fuel with
  | zero => intro i1 i2 h1 h2; exact ⟨h1, h2⟩
  | succ fuel ih =>
    intro i1 i2 h1 h2
    unfold sectionBoundaryAux
    by_cases h : i1 + 1 < pts.size
    · rw [if_pos h]
      cases hx : pts[i1 + 1]? with
      | none => exact ⟨h1, h2⟩
      | some x2 =>
        simp only
        by_cases hle : x2.1 ≤ soc
        · rw [if_pos hle]; exact ih (i1 + 1) (i1 + 1) h h
        · rw [if_neg hle]; exact ⟨h1, h⟩
    · rw [if_neg h]; exact ⟨h1, h2⟩

theorem sectionBoundary_bounds (cv : Curve ℝ) (soc : ℝ) (hlen : 2 ≤ cv.points.length) :
    (cv.sectionBoundary soc).1 < cv.points.length ∧ (cv.sectionBoundary soc).2 < cv.points.length := by
  unfold Curve.sectionBoundary
  have := sectionBoundaryAux_bounds cv.points.toArray soc cv.points.length 0 1
    (by simp; omega) (by simp; omega)
  simpa using this

theorem adjustSoc_charge (b : Battery ℝ) (T : ℝ) (cv : Curve ℝ) (target Y : ℝ) (hcv : CurveOK cv Y)
    (hlen : 2 ≤ cv.points.length) (hc : 0 < b.capacity) (heps : 0 < b.eps) (hT : 0 ≤ T)
    (hst : b.soc ≤ target) (ht1 : target ≤ 1) (hsm1 : -1 ≤ b.soc) :
    ∃ s' avg, b.adjustSoc T cv target = .ok ({ b with soc := s' }, avg) ∧
      b.soc ≤ s' ∧ s' ≤ target ∧ avg * T = (s' - b.soc) * b.capacity ∧ 0 ≤ avg ∧ avg ≤ Y + b.eps ∧
      (interp cv.points b.soc < b.eps → s' = b.soc ∧ avg = 0) := by
  have hd : decide (target < b.soc) = false := by simp; exact hst
  obtain ⟨_, hi2⟩ := sectionBoundary_bounds cv b.soc hlen
  obtain ⟨p, hp⟩ : ∃ p, cv.points[(cv.sectionBoundary b.soc).2]? = some p :=
    ⟨_, List.getElem?_eq_getElem hi2⟩
  unfold Battery.adjustSoc
  simp only [hd, Bool.false_eq_true, if_false, pyIndex_nat _ _ _ hp, bind, Except.bind, pymin_eq]
  set k := (cv.sectionBoundary b.soc).2 with hk
  set st0 : AdjState ℝ := ⟨b.soc, T, (k : Int), min target p.1, []⟩ with hst0
  have hinv : InvC cv.points target st0 k := ⟨rfl, ⟨p, hp, rfl⟩, hsm1, le_trans hst ht1, hT⟩
  obtain ⟨st', hloop, g1, g2, g3, g4, g5, g6, g7⟩ :=
    adjustLoop_charge cv b.capacity b.eps target Y hcv hc heps ht1 (adjustFuel cv) st0 k hinv
      (Or.inr (by unfold measC adjustFuel; split <;> omega)) (by unfold adjustFuel; omega)
  simp only [hloop]
  have hY : 0 ≤ Y + b.eps := by
    have := interp_nonneg cv.points hcv.sorted hcv.nonneg 0
    have := hcv.bound 0 (by norm_num); linarith
  have hsum : st'.energies.sum = (st'.soc - b.soc) * b.capacity := by
    rw [g5]; simp [hst0]
  have hmax : max b.soc target = target := max_eq_right hst
  refine ⟨st'.soc, _, rfl, g1, by rw [← hmax]; exact g2, ?_, ?_, ?_, ?_⟩
  · rcases eq_or_lt_of_le hT with h0 | h0
    · -- T = 0: no pass through the loop
      rw [← h0, fdiv_zero]; simp only [zero_mul]
      have : st'.soc = b.soc := by
        have h1 : (st'.soc - b.soc) * b.capacity ≤ (Y + b.eps) * (T - st'.remaining) := g6
        have h2 : st'.remaining = 0 := le_antisymm (by rw [h0]; exact g4) g3
        rw [h2, ← h0] at h1; simp at h1
        have : b.soc ≤ st'.soc := g1
        nlinarith
      rw [this]; ring
    · rw [fdiv_ok _ (ne_of_gt h0)]; simp only [batSum_real]
      rw [hsum]; field_simp
  · rcases eq_or_lt_of_le hT with h0 | h0
    · rw [← h0, fdiv_zero]
    · rw [fdiv_ok _ (ne_of_gt h0)]; simp only [batSum_real]
      rw [hsum]
      exact div_nonneg (mul_nonneg (by linarith [g1]) hc.le) hT
  · rcases eq_or_lt_of_le hT with h0 | h0
    · rw [← h0, fdiv_zero]; exact hY
    · rw [fdiv_ok _ (ne_of_gt h0)]; simp only [batSum_real]
      rw [hsum, div_le_iff₀ h0]
      have h1 : (st'.soc - b.soc) * b.capacity ≤ (Y + b.eps) * (T - st'.remaining) := g6
      have : (Y + b.eps) * (T - st'.remaining) ≤ (Y + b.eps) * T :=
        mul_le_mul_of_nonneg_left (by linarith) hY
      linarith
  · intro hz
    obtain ⟨e1, e2⟩ := g7 hz
    refine ⟨e1, ?_⟩
    rw [e2]; simp only [hst0, batSum_real, List.sum_nil]
    rcases eq_or_lt_of_le hT with h0 | h0
    · rw [← h0, fdiv_zero]
    · rw [fdiv_ok _ (ne_of_gt h0)]; simp

theorem adjustSoc_discharge (b : Battery ℝ) (T : ℝ) (cv : Curve ℝ) (target Y : ℝ) (hcv : CurveOK cv Y)
    (hlen : 2 ≤ cv.points.length) (hc : 0 < b.capacity) (heps : 0 < b.eps) (hT : 0 ≤ T)
    (hst : target < b.soc) (htm1 : -1 ≤ target) (hs1 : b.soc ≤ 1) :
    ∃ s' avg, b.adjustSoc T cv target = .ok ({ b with soc := s' }, avg) ∧
      s' ≤ b.soc ∧ target ≤ s' ∧ avg * T = (b.soc - s') * b.capacity ∧ 0 ≤ avg ∧ avg ≤ Y + b.eps ∧
      (interp cv.points b.soc < b.eps → s' = b.soc ∧ avg = 0) := by
  have hd : decide (target < b.soc) = true := by simp; exact hst
  obtain ⟨hi1, _⟩ := sectionBoundary_bounds cv b.soc hlen
  obtain ⟨p, hp⟩ : ∃ p, cv.points[(cv.sectionBoundary b.soc).1]? = some p :=
    ⟨_, List.getElem?_eq_getElem hi1⟩
  unfold Battery.adjustSoc
  simp only [hd, if_true, pyIndex_nat _ _ _ hp, bind, Except.bind, pymax_eq]
  set k := (cv.sectionBoundary b.soc).1 with hk
  set st0 : AdjState ℝ := ⟨b.soc, T, (k : Int), max target p.1, []⟩ with hst0
  have hinv : InvD cv.points target st0 (some k) := ⟨rfl, ⟨p, hp, rfl⟩, hs1, hT⟩
  obtain ⟨st', hloop, g1, g2, g3, g4, g5, g6, g7⟩ :=
    adjustLoop_discharge cv b.capacity b.eps target Y hcv hc heps htm1 (adjustFuel cv) st0 (some k) hinv
      (Or.inr (by
        have hm : measD b.eps st0 (some k) ≤ 2 * (k + 1) + 1 := by
          unfold measD; simp only [disDist]; split_ifs <;> omega
        unfold adjustFuel; omega)) (by unfold adjustFuel; omega)
  simp only [hloop]
  have hY : 0 ≤ Y + b.eps := by
    have := interp_nonneg cv.points hcv.sorted hcv.nonneg 0
    have := hcv.bound 0 (by norm_num); linarith
  have hsum : st'.energies.sum = (b.soc - st'.soc) * b.capacity := by
    rw [g5]; simp [hst0]
  have hmin : min b.soc target = target := min_eq_right hst.le
  refine ⟨st'.soc, _, rfl, g1, by rw [← hmin]; exact g2, ?_, ?_, ?_, ?_⟩
  · rcases eq_or_lt_of_le hT with h0 | h0
    · rw [← h0, fdiv_zero]; simp only [zero_mul]
      have : st'.soc = b.soc := by
        have h1 : (b.soc - st'.soc) * b.capacity ≤ (Y + b.eps) * (T - st'.remaining) := g6
        have h2 : st'.remaining = 0 := le_antisymm (by rw [h0]; exact g4) g3
        rw [h2, ← h0] at h1; simp at h1
        have : st'.soc ≤ b.soc := g1
        nlinarith
      rw [this]; ring
    · rw [fdiv_ok _ (ne_of_gt h0)]; simp only [batSum_real]
      rw [hsum]; field_simp
  · rcases eq_or_lt_of_le hT with h0 | h0
    · rw [← h0, fdiv_zero]
    · rw [fdiv_ok _ (ne_of_gt h0)]; simp only [batSum_real]
      rw [hsum]
      exact div_nonneg (mul_nonneg (by linarith [g1]) hc.le) hT
  · rcases eq_or_lt_of_le hT with h0 | h0
    · rw [← h0, fdiv_zero]; exact hY
    · rw [fdiv_ok _ (ne_of_gt h0)]; simp only [batSum_real]
      rw [hsum, div_le_iff₀ h0]
      have h1 : (b.soc - st'.soc) * b.capacity ≤ (Y + b.eps) * (T - st'.remaining) := g6
      have : (Y + b.eps) * (T - st'.remaining) ≤ (Y + b.eps) * T :=
        mul_le_mul_of_nonneg_left (by linarith) hY
      linarith
  · intro hz
    obtain ⟨e1, e2⟩ := g7 hz
    refine ⟨e1, ?_⟩
    rw [e2]; simp only [hst0, batSum_real, List.sum_nil]
    rcases eq_or_lt_of_le hT with h0 | h0
    · rw [← h0, fdiv_zero]
    · rw [fdiv_ok _ (ne_of_gt h0)]; simp

/-- when the loop condition is false from the start nothing happens (any direction) -/
theorem adjustSoc_noop (b : Battery ℝ) (T : ℝ) (cv : Curve ℝ) (target : ℝ)
    (hlen : 2 ≤ cv.points.length)
    (hno : ¬ (b.eps < T ∧ b.eps < (if target < b.soc then -1 else 1) * (target - b.soc))) :
    ∃ avg, b.adjustSoc T cv target = .ok ({ b with soc := b.soc }, avg) ∧ avg * T = 0 ∧ avg = 0 := by
  obtain ⟨hi1, hi2⟩ := sectionBoundary_bounds cv b.soc hlen
  obtain ⟨p1, hp1⟩ : ∃ p, cv.points[(cv.sectionBoundary b.soc).1]? = some p :=
    ⟨_, List.getElem?_eq_getElem hi1⟩
  obtain ⟨p2, hp2⟩ : ∃ p, cv.points[(cv.sectionBoundary b.soc).2]? = some p :=
    ⟨_, List.getElem?_eq_getElem hi2⟩
  unfold Battery.adjustSoc
  by_cases hd : target < b.soc
  · have hd' : decide (target < b.soc) = true := by simp; exact hd
    rw [if_pos hd] at hno
    simp only [hd', if_true, pyIndex_nat _ _ _ hp1, bind, Except.bind]
    have hl : ∀ st0 : AdjState ℝ, st0.soc = b.soc → st0.remaining = T →
        adjustLoop cv true b.capacity b.eps target (-1) (adjustFuel cv) st0 = .ok st0 := by
      intro st0 h1 h2
      unfold adjustFuel adjustLoop
      rw [if_neg (by rw [h1, h2]; exact hno)]
    rw [hl _ rfl rfl]
    simp only [batSum_real, List.sum_nil]
    by_cases hT : T = 0
    · rw [hT, fdiv_zero]; exact ⟨0, rfl, by ring, rfl⟩
    · rw [fdiv_ok _ hT]; exact ⟨0 / T, rfl, by simp, by simp⟩
  · have hd' : decide (target < b.soc) = false := by simp; exact not_lt.mp hd
    rw [if_neg hd] at hno
    simp only [hd', Bool.false_eq_true, if_false, pyIndex_nat _ _ _ hp2, bind, Except.bind]
    have hl : ∀ st0 : AdjState ℝ, st0.soc = b.soc → st0.remaining = T →
        adjustLoop cv false b.capacity b.eps target 1 (adjustFuel cv) st0 = .ok st0 := by
      intro st0 h1 h2
      unfold adjustFuel adjustLoop
      rw [if_neg (by rw [h1, h2]; exact hno)]
    rw [hl _ rfl rfl]
    simp only [batSum_real, List.sum_nil]
    by_cases hT : T = 0
    · rw [hT, fdiv_zero]; exact ⟨0, rfl, by ring, rfl⟩
    · rw [fdiv_ok _ hT]; exact ⟨0 / T, rfl, by simp, by simp⟩

end SpiceEv
