/-
C05 — charging-station and vehicle power limits, for the strategy `peak_load_window`
(model: Model/StratPeakLoadWindow.lean, tied to the code at the bit level by `./check S_PEAK_LOAD_WINDOW`).

All statements are about one `step_gc` call (`PeakLoadWindow.step` is the fold of `step_gc` over the
connectors), for ALL worlds, event tables, window tables and clocks, and every battery obeying `BatLaw`
(0 ≤ average power ≤ the requested power — C01).
-/
import SpiceEv.Proofs.StratPeakLoadWindow
set_option linter.unusedSectionVars false
namespace SpiceEv
open SpiceEv.PeakLoadWindow
variable {α B : Type} [Field α] [LinearOrder α] [IsStrictOrderedRing α]

/-- **Only a station with a connected vehicle carries power; no vehicle is ever discharged.**
Every command of `step_gc` belongs to a station of this connector to which a vehicle of the world is connected,
and is non-negative (so in particular a vehicle without V2G capability is never discharged — the strategy never
discharges any vehicle). -/
theorem C05_peak_load_window_only_connected_never_discharged (ops : BatOps α B) (law : BatLaw ops)
    (env : PEnv α) (w w' : PWorld α B) (g : PGc α) (level : String) (cmds : List (String × α))
    (h : stepGc ops env w g level = .ok (w', cmds)) :
    ∀ kv ∈ cmds, 0 ≤ kv.2 ∧ ∃ pv ∈ w.vehicles, ∃ cs, pv.v.cs = some kv.1 ∧ w.station? kv.1 = some cs ∧
      cs.parent = g.gc.id := by
  intro kv hkv
  obtain ⟨pv, hpv, cs, h1, h2, h3, h4, _, _⟩ := stepGc_commands ops law env w g level w' cmds h kv hkv
  exact ⟨h4, pv, hpv, cs, h1, h2, h3⟩

/-- **Vehicle curve.** Every command is the average power of exactly ONE `Battery.load` call on the battery of
the connected vehicle in its state before the step (planning simulations are undone): what the vehicle's
charging curve allows over the timestep is what that one call returns (C01/C02 bound it by the curve). -/
theorem C05_peak_load_window_one_load_call (ops : BatOps α B) (law : BatLaw ops)
    (env : PEnv α) (w w' : PWorld α B) (g : PGc α) (level : String) (cmds : List (String × α))
    (h : stepGc ops env w g level = .ok (w', cmds)) :
    ∀ kv ∈ cmds, ∃ pv ∈ w.vehicles, pv.v.cs = some kv.1 ∧
      ∃ request bat', ops.load pv.v.bat none none (some request) = .ok (bat', kv.2) := by
  intro kv hkv
  obtain ⟨pv, hpv, cs, h1, _, _, _, h5, _⟩ := stepGc_commands ops law env w g level w' cmds h kv hkv
  exact ⟨pv, hpv, h1, h5⟩

/-- **Station maximum.**  Every command is at most what the station can still give,
`max(0, cs.max_power − cs.current_power)` (`cs.max_power` is the CONCURRENCY-scaled maximum) — with or without a
generation surplus at the connector.

This is a theorem about the REPAIRED final loop (fixes/PLW2.diff): the surplus is handed out through `clamp_power`.
On the pinned code (`vehicle.schedule -= min(timesteps[0]["power"], 0)`, finding D6, key
`C05:station_limit:peak_load_window:charge`) it held only without surplus. -/
theorem C05_peak_load_window_station_max (ops : BatOps α B) (law : BatLaw ops)
    (env : PEnv α) (w w' : PWorld α B) (g : PGc α) (level : String) (cmds : List (String × α))
    (h : stepGc ops env w g level = .ok (w', cmds)) :
    ∀ kv ∈ cmds, ∃ cs, w.station? kv.1 = some cs ∧ kv.2 ≤ max 0 (cs.maxPower - cs.currentPower) := by
  intro kv hkv
  obtain ⟨pv, hpv, cs, _, h2, _, _, _, h6⟩ := stepGc_commands ops law env w g level w' cmds h kv hkv
  exact ⟨cs, h2, h6⟩

/-- **The whole step.**  `PeakLoadWindow.step` (all connectors in dict order, each `step_gc` working on the world the
previous ones left): every command is non-negative — no vehicle is ever discharged — and addresses a charging station
of the world. -/
theorem C05_peak_load_window_step_never_discharges (ops : BatOps α B) (law : BatLaw ops) (env : PEnv α)
    (w w' : PWorld α B) (cmds : List (String × α)) (h : step ops env w = .ok (w', cmds)) :
    ∀ kv ∈ cmds, 0 ≤ kv.2 ∧ ∃ cs, w.station? kv.1 = some cs :=
  step_commands ops law env w w' cmds h

/-- non-vacuity of the step theorem: the example world as a whole step -/
example : cmdsOf (step (toyOps 10 11) exEnv (exWorld [("load", 2)] 11 (1/2) 1 2)) = [("cs1", 5/2)] := by
  decide +kernel

/-- non-vacuity (the `step_gc` theorems): fixed load 2 kW, an 11 kW station, a vehicle that needs 5 kWh within two
hours outside any window → one command of 2.5 kW -/
example : cmdsOf (stepGc (toyOps 10 11) exEnv (exWorld [("load", 2)] 11 (1/2) 1 2) (exGc [("load", 2)]) "MV")
    = [("cs1", 5/2)] ∧ (0 : ℚ) ≤ sumLoads exEnv (exGc [("load", 2)]).gc.loads := by
  decide +kernel

/-- the situation of finding D6 on the repaired loop: 20 kW generation surplus, a 3.7 kW station, a vehicle that has
already reached its desired SoC 0.5: it is offered the surplus through `clamp_power` and takes 3.7 kW (pinned code: 5 kW) -/
example : cmdsOf (stepGc (toyOps 10 11) exEnv (exWorld [("pv", -20)] (37/10) (1/2) (1/2) 2) (exGc [("pv", -20)]) "MV")
    = [("cs1", 37/10)] ∧ sumLoads exEnv (exGc [("pv", -20)]).gc.loads < 0 := by
  decide +kernel

end SpiceEv
