/-
The greedy/balanced step on a sub-world (the connected vehicles, some stations) embeds into the step on the
whole world: the result of the whole world is the result of the sub-world laid over the (reset) whole world.
-/
import SpiceEv.Proofs.StratDistributedRunDefs
set_option linter.unusedSectionVars false
set_option linter.unusedVariables false
namespace SpiceEv.DistRun
open SpiceEv SpiceEv.Distrib SpiceEv.Frame

/-! ### generic list facts (objects with a string id) -/

section Gen
variable {β : Type} (idf : β → String)

theorem find?_map_pres (f : β → β) (hf : ∀ x, idf (f x) = idf x) (l : List β) (k : String) :
    (l.map f).find? (fun x => idf x == k) = (l.find? (fun x => idf x == k)).map f := by
  induction l with
  | nil => rfl
  | cons x xs ih =>
    simp only [List.map_cons, List.find?_cons, hf x]
    cases h : (idf x == k) with
    | true => rfl
    | false => exact ih

theorem map_ids_pres (f : β → β) (hf : ∀ x, idf (f x) = idf x) (l : List β) :
    (l.map f).map idf = l.map idf := by
  rw [List.map_map]
  apply List.map_congr_left
  intro x _
  exact hf x

theorem setL_id (b x : β) : idf (if idf x == idf b then b else x) = idf x := by
  by_cases h : (idf x == idf b) = true
  · rw [if_pos h]; exact (by simpa using h : idf x = idf b).symm
  · rw [if_neg h]

theorem find?_id {l : List β} {k : String} {y : β} (h : l.find? (fun x => idf x == k) = some y) :
    y ∈ l ∧ idf y = k :=
  ⟨List.mem_of_find?_eq_some h, by simpa using List.find?_some h⟩

theorem getD_find?_id (t : List β) (x : β) :
    idf ((t.find? (fun y => idf y == idf x)).getD x) = idf x := by
  cases h : t.find? (fun y => idf y == idf x) with
  | none => rfl
  | some y => exact (find?_id idf h).2

theorem find?_ne_none_iff (l : List β) (k : String) :
    l.find? (fun x => idf x == k) ≠ none ↔ k ∈ l.map idf := by
  constructor
  · intro h
    cases hf : l.find? (fun x => idf x == k) with
    | none => exact (h hf).elim
    | some y =>
      obtain ⟨hm, hid⟩ := find?_id idf hf
      exact List.mem_map.mpr ⟨y, hm, hid⟩
  · intro h hn
    obtain ⟨y, hy, hid⟩ := List.mem_map.mp h
    rw [List.find?_eq_none] at hn
    exact hn y hy (by simpa using hid)

/-- overlay of lists: every object of `X` is replaced by the object of `t` with its id, if there is one -/
def ovL (X t : List β) : List β := X.map (fun x => (t.find? (fun y => idf y == idf x)).getD x)

theorem ovL_ids (X t : List β) : (ovL idf X t).map idf = X.map idf :=
  map_ids_pres idf _ (fun x => getD_find?_id idf t x) X

theorem ovL_find? (X t : List β) (k : String) :
    (ovL idf X t).find? (fun x => idf x == k)
      = (X.find? (fun x => idf x == k)).map (fun x => (t.find? (fun y => idf y == idf x)).getD x) :=
  find?_map_pres idf _ (fun x => getD_find?_id idf t x) X k

theorem ovL_find?_some (X t : List β) (k : String) (y : β) (ht : t.find? (fun x => idf x == k) = some y)
    (hX : k ∈ X.map idf) : (ovL idf X t).find? (fun x => idf x == k) = some y := by
  rw [ovL_find?]
  cases hx : X.find? (fun x => idf x == k) with
  | none => exact ((find?_ne_none_iff idf X k).mpr hX hx).elim
  | some x =>
    obtain ⟨_, hid⟩ := find?_id idf hx
    simp only [Option.map_some, hid, ht, Option.getD_some]

theorem ovL_find?_none (X t : List β) (k : String) (ht : t.find? (fun x => idf x == k) = none) :
    (ovL idf X t).find? (fun x => idf x == k) = X.find? (fun x => idf x == k) := by
  rw [ovL_find?]
  cases hx : X.find? (fun x => idf x == k) with
  | none => rfl
  | some x =>
    obtain ⟨_, hid⟩ := find?_id idf hx
    simp only [Option.map_some, hid, ht, Option.getD_none]

theorem ovL_setL (X t : List β) (b : β) (hb : t.find? (fun x => idf x == idf b) ≠ none) :
    ovL idf X (t.map (fun x => if idf x == idf b then b else x))
      = (ovL idf X t).map (fun x => if idf x == idf b then b else x) := by
  unfold ovL
  rw [List.map_map]
  apply List.map_congr_left
  intro x _
  simp only [Function.comp]
  rw [find?_map_pres idf _ (fun y => setL_id idf b y) t (idf x)]
  cases hx : t.find? (fun y => idf y == idf x) with
  | some y => rfl
  | none =>
    simp only [Option.map_none, Option.getD_none]
    have hne : (idf x == idf b) = false := by
      simp only [beq_eq_false_iff_ne, ne_eq]
      intro he
      rw [he] at hx
      exact hb hx
    simp [hne]

theorem find?_of_nodup (l : List β) (hn : (l.map idf).Nodup) (x : β) (hx : x ∈ l) :
    l.find? (fun y => idf y == idf x) = some x := by
  cases hf : l.find? (fun y => idf y == idf x) with
  | none =>
    rw [List.find?_eq_none] at hf
    exact (hf x hx (by simp)).elim
  | some y =>
    obtain ⟨hy, hid⟩ := find?_id idf hf
    rw [List.inj_on_of_nodup_map hn hy hx hid]

end Gen

/-! ### lookups in and writes to an overlay -/

section World
variable {α B : Type} [Field α] [LinearOrder α] [IsStrictOrderedRing α]

/-- what the passes keep of the small world `ss` relative to the fixed big world `Xr` -/
structure Inv (p : String → Bool) (Xr ss : SWorld α B) : Prop where
  veh : ss.vehicles.map (·.id) = (Xr.vehicles.map (·.id)).filter p
  sta : ∀ k ∈ ss.stations.map (·.id), k ∈ Xr.stations.map (·.id)
  bats : ss.batteries = []

theorem sworld_ext (a b : SWorld α B) (h1 : a.gcs = b.gcs) (h2 : a.stations = b.stations)
    (h3 : a.vehicles = b.vehicles) (h4 : a.batteries = b.batteries) : a = b := by
  cases a; cases b; simp only at h1 h2 h3 h4; subst h1 h2 h3 h4; rfl

theorem overlay_vehicle?_sel (p : String → Bool) (Xr ss : SWorld α B) (hI : Inv p Xr ss) (k : String)
    (v : VehicleS α B) (h : ss.vehicle? k = some v) : (overlay Xr ss).vehicle? k = some v := by
  refine ovL_find?_some (fun v : VehicleS α B => v.id) Xr.vehicles ss.vehicles k v h ?_
  have h1 : k ∈ ss.vehicles.map (·.id) :=
    (find?_ne_none_iff (fun v : VehicleS α B => v.id) ss.vehicles k).mp (by
      intro hn; unfold SWorld.vehicle? at h; rw [h] at hn; cases hn)
  rw [hI.veh] at h1
  exact (List.mem_filter.mp h1).1

theorem small_vehicle?_none (p : String → Bool) (Xr ss : SWorld α B) (hI : Inv p Xr ss) (k : String)
    (hp : p k = false) : ss.vehicle? k = none := by
  by_contra hne
  have h1 := (find?_ne_none_iff (fun v : VehicleS α B => v.id) ss.vehicles k).mp hne
  rw [hI.veh] at h1
  have := (List.mem_filter.mp h1).2
  rw [hp] at this
  cases this

theorem small_vehicle?_some (p : String → Bool) (Xr ss : SWorld α B) (hI : Inv p Xr ss) (k : String)
    (hk : k ∈ Xr.vehicles.map (·.id)) (hp : p k = true) : ss.vehicle? k ≠ none := by
  apply (find?_ne_none_iff (fun v : VehicleS α B => v.id) ss.vehicles k).mpr
  rw [hI.veh]
  exact List.mem_filter.mpr ⟨hk, hp⟩

theorem overlay_vehicle?_unsel (p : String → Bool) (Xr ss : SWorld α B) (hI : Inv p Xr ss) (k : String)
    (hk : k ∈ Xr.vehicles.map (·.id)) (hp : p k = false) :
    ∃ x ∈ Xr.vehicles, x.id = k ∧ (overlay Xr ss).vehicle? k = some x := by
  have hnone := small_vehicle?_none p Xr ss hI k hp
  have h2 : (overlay Xr ss).vehicle? k = Xr.vehicle? k :=
    ovL_find?_none (fun v : VehicleS α B => v.id) Xr.vehicles ss.vehicles k hnone
  cases hx : Xr.vehicle? k with
  | none => exact ((find?_ne_none_iff (fun v : VehicleS α B => v.id) Xr.vehicles k).mpr hk hx).elim
  | some x =>
    obtain ⟨hm, hid⟩ := find?_id (fun v : VehicleS α B => v.id) hx
    exact ⟨x, hm, hid, by rw [h2, hx]⟩

theorem overlay_station?_sel (p : String → Bool) (Xr ss : SWorld α B) (hI : Inv p Xr ss) (k : String)
    (s : StationS α) (h : ss.station? k = some s) : (overlay Xr ss).station? k = some s := by
  refine ovL_find?_some (fun s : StationS α => s.id) Xr.stations ss.stations k s h ?_
  apply hI.sta
  exact (find?_ne_none_iff (fun s : StationS α => s.id) ss.stations k).mp (by
    intro hn; unfold SWorld.station? at h; rw [h] at hn; cases hn)

theorem overlay_setVehicle (Xr ss : SWorld α B) (v' : VehicleS α B) (h : ss.vehicle? v'.id ≠ none) :
    overlay Xr (ss.setVehicle v') = (overlay Xr ss).setVehicle v' := by
  exact sworld_ext _ _ rfl rfl (ovL_setL (fun v : VehicleS α B => v.id) Xr.vehicles ss.vehicles v' h) rfl

theorem overlay_setStation (Xr ss : SWorld α B) (s' : StationS α) (h : ss.station? s'.id ≠ none) :
    overlay Xr (ss.setStation s') = (overlay Xr ss).setStation s' := by
  exact sworld_ext _ _ rfl (ovL_setL (fun s : StationS α => s.id) Xr.stations ss.stations s' h) rfl rfl

theorem overlay_setGc (Xr ss : SWorld α B) (g' : GcS α) :
    overlay Xr (ss.setGc g') = (overlay Xr ss).setGc g' := rfl

theorem inv_setVehicle (p : String → Bool) (Xr ss : SWorld α B) (hI : Inv p Xr ss) (v' : VehicleS α B) :
    Inv p Xr (ss.setVehicle v') := by
  refine ⟨?_, hI.sta, hI.bats⟩
  rw [← hI.veh]
  exact map_ids_pres (fun v : VehicleS α B => v.id) _ (fun x => setL_id _ v' x) ss.vehicles

theorem inv_setStation (p : String → Bool) (Xr ss : SWorld α B) (hI : Inv p Xr ss) (s' : StationS α) :
    Inv p Xr (ss.setStation s') := by
  refine ⟨hI.veh, ?_, hI.bats⟩
  have : (ss.setStation s').stations.map (·.id) = ss.stations.map (·.id) :=
    map_ids_pres (fun s : StationS α => s.id) _ (fun x => setL_id _ s' x) ss.stations
  rw [this]
  exact hI.sta

theorem inv_setGc (p : String → Bool) (Xr ss : SWorld α B) (hI : Inv p Xr ss) (g' : GcS α) :
    Inv p Xr (ss.setGc g') := ⟨hI.veh, hI.sta, hI.bats⟩

/-- the write of all three passes -/
theorem overlay_book (p : String → Bool) (Xr ss : SWorld α B) (hI : Inv p Xr ss) (v' : VehicleS α B)
    (g' : GcS α) (s' : StationS α) (hv : ss.vehicle? v'.id ≠ none) (hs : ss.station? s'.id ≠ none) :
    overlay Xr (((ss.setVehicle v').setGc g').setStation s')
      = (((overlay Xr ss).setVehicle v').setGc g').setStation s'
    ∧ Inv p Xr (((ss.setVehicle v').setGc g').setStation s') := by
  constructor
  · rw [overlay_setStation Xr ((ss.setVehicle v').setGc g') s' hs, overlay_setGc, overlay_setVehicle _ _ _ hv]
  · exact inv_setStation p Xr _ (inv_setGc p Xr _ (inv_setVehicle p Xr ss hI v') g') s'

end World

/-! ### fold simulation, small to big -/

theorem foldlM_emb {σ τ ι ε : Type} (f : σ → ι → Except ε σ) (f' : τ → ι → Except ε τ)
    (ρ : τ → σ) (q : ι → Bool) (I : τ → Prop) :
    ∀ (l : List ι),
      (∀ t x t', x ∈ l → q x = true → I t → f' t x = .ok t' → f (ρ t) x = .ok (ρ t') ∧ I t') →
      (∀ t x, x ∈ l → q x = false → I t → f (ρ t) x = .ok (ρ t)) →
      ∀ (t t' : τ), I t → (l.filter q).foldlM f' t = .ok t' → l.foldlM f (ρ t) = .ok (ρ t') ∧ I t' := by
  intro l
  induction l with
  | nil =>
    intro _ _ t t' hi h
    simp only [List.filter_nil, List.foldlM_nil, pure, Except.pure, Except.ok.injEq] at h
    subst h
    exact ⟨rfl, hi⟩
  | cons x xs ih =>
    intro hp hn t t' hi h
    have ih' := ih (fun t y t' hy => hp t y t' (List.mem_cons_of_mem _ hy))
      (fun t y hy => hn t y (List.mem_cons_of_mem _ hy))
    cases hqx : q x with
    | true =>
      simp only [List.filter_cons, hqx, if_true, List.foldlM_cons, bind, Except.bind] at h
      cases hs : f' t x with
      | error e => simp [hs] at h
      | ok t1 =>
        simp only [hs] at h
        obtain ⟨h1, hi1⟩ := hp t x t1 List.mem_cons_self hqx hi hs
        simp only [List.foldlM_cons, bind, Except.bind, h1]
        exact ih' t1 t' hi1 h
    | false =>
      simp only [List.filter_cons, hqx, Bool.false_eq_true, if_false] at h
      simp only [List.foldlM_cons, bind, Except.bind, hn t x List.mem_cons_self hqx hi]
      exact ih' t t' hi h

section Passes
variable {α B : Type} [Field α] [LinearOrder α] [IsStrictOrderedRing α]

/-- the state of the vehicle pass laid over `Xr` -/
def embA (Xr : SWorld α B) (st : SWorld α B × List (String × α) × List (String × α)) :
    SWorld α B × List (String × α) × List (String × α) := (overlay Xr st.1, st.2.1, st.2.2)

theorem allocVehicle_emb_sel (p : String → Bool) (Xr : SWorld α B) (rule : Rule) (ops : BatOps α B)
    (env : StratEnv α) (st st' : SWorld α B × List (String × α) × List (String × α)) (vid : String)
    (hI : Inv p Xr st.1) (h : allocVehicle rule ops env st vid = .ok st') :
    allocVehicle rule ops env (embA Xr st) vid = .ok (embA Xr st') ∧ Inv p Xr st'.1 := by
  obtain ⟨v, hv, hc⟩ := allocVehicle_cases rule ops env st st' vid h
  have hv' : (embA Xr st).1.vehicle? vid = some v := overlay_vehicle?_sel p Xr st.1 hI vid v hv
  rcases hc with ⟨hcs, rfl⟩ | ⟨csId, cs, gc, cheap, power, used, bat', avg, hcs, hst, hgc, hch, hpl, hcc, rfl⟩
  · exact ⟨allocVehicle_eval_none rule ops env _ vid v hv' hcs, hI⟩
  · obtain ⟨hvm, hvid⟩ := vehicle?_some _ _ _ hv
    obtain ⟨hsm, hsid⟩ := station?_some' _ _ _ hst
    have hst' : (embA Xr st).1.station? csId = some cs := overlay_station?_sel p Xr st.1 hI csId cs hst
    have hgc' : (embA Xr st).1.gc? cs.parent = some gc := hgc
    obtain ⟨hb1, hb2⟩ := overlay_book p Xr st.1 hI { v with bat := bat' } (gc.addLoad csId avg).1
      { cs with currentPower := cs.currentPower + avg }
      (by show st.1.vehicle? v.id ≠ none; rw [hvid, hv]; exact Option.some_ne_none v)
      (by show st.1.station? cs.id ≠ none; rw [hsid, hst]; exact Option.some_ne_none cs)
    refine ⟨?_, hb2⟩
    rw [allocVehicle_eval rule ops env (embA Xr st) vid v csId cs gc cheap power used bat' avg hv' hcs hst'
      hgc' hch hpl hcc]
    unfold embA
    simp only [hb1]

theorem allocVehicle_emb_unsel (p : String → Bool) (Xr : SWorld α B) (rule : Rule) (ops : BatOps α B)
    (env : StratEnv α) (st : SWorld α B × List (String × α) × List (String × α)) (vid : String)
    (hidle : ∀ x ∈ Xr.vehicles, p x.id = false → x.cs = none)
    (hI : Inv p Xr st.1) (hk : vid ∈ Xr.vehicles.map (·.id)) (hp : p vid = false) :
    allocVehicle rule ops env (embA Xr st) vid = .ok (embA Xr st) := by
  obtain ⟨x, hx, hid, hv'⟩ := overlay_vehicle?_unsel p Xr st.1 hI vid hk hp
  exact allocVehicle_eval_none rule ops env (embA Xr st) vid x hv' (hidle x hx (by rw [hid]; exact hp))

/-- **the vehicle pass of the small world inside the big one** -/
theorem allocFold_emb (p : String → Bool) (Xr : SWorld α B) (rule : Rule) (ops : BatOps α B)
    (env : StratEnv α) (ids : List String) (hids : ∀ k ∈ ids, k ∈ Xr.vehicles.map (·.id))
    (hidle : ∀ x ∈ Xr.vehicles, p x.id = false → x.cs = none)
    (st st' : SWorld α B × List (String × α) × List (String × α)) (hI : Inv p Xr st.1)
    (h : (ids.filter p).foldlM (allocVehicle rule ops env) st = .ok st') :
    ids.foldlM (allocVehicle rule ops env) (embA Xr st) = .ok (embA Xr st') ∧ Inv p Xr st'.1 :=
  foldlM_emb (allocVehicle rule ops env) (allocVehicle rule ops env) (embA Xr) p (fun s => Inv p Xr s.1) ids
    (fun t x t' _ _ hi hs => allocVehicle_emb_sel p Xr rule ops env t t' x hi hs)
    (fun t x hx hq hi => allocVehicle_emb_unsel p Xr rule ops env t x hidle hi (hids x hx) hq)
    st st' hI h

/-- the body of the surplus loop, by vehicle id -/
def surplusBodyK (ops : BatOps α B) (env : StratEnv α) (cheap : List (String × Bool))
    (st : SWorld α B × List (String × α)) (k : String) : Py (SWorld α B × List (String × α)) :=
  match st.1.vehicle? k with
  | none => .ok st
  | some v => surplusVehicle ops env cheap st.1 st.2 v

theorem surplusBodyK_of (ops : BatOps α B) (env : StratEnv α) (cheap : List (String × Bool))
    (st : SWorld α B × List (String × α)) (k : String) (v0 : VehicleS α B) (h : v0.id = k) :
    surplusBodyK ops env cheap st k = surplusBody ops env cheap st v0 := by
  subst h; rfl

theorem surplusFold_ids (ops : BatOps α B) (env : StratEnv α) (cheap : List (String × Bool))
    (l : List (VehicleS α B)) (st : SWorld α B × List (String × α)) :
    l.foldlM (surplusBody ops env cheap) st = (l.map (·.id)).foldlM (surplusBodyK ops env cheap) st := by
  rw [List.foldlM_map]
  rfl

def embS (Xr : SWorld α B) (st : SWorld α B × List (String × α)) : SWorld α B × List (String × α) :=
  (overlay Xr st.1, st.2)

theorem surplusBodyK_emb_sel (p : String → Bool) (Xr : SWorld α B) (ops : BatOps α B)
    (env : StratEnv α) (cheap : List (String × Bool)) (st st' : SWorld α B × List (String × α)) (k : String)
    (hk : k ∈ Xr.vehicles.map (·.id)) (hp : p k = true)
    (hI : Inv p Xr st.1) (h : surplusBodyK ops env cheap st k = .ok st') :
    surplusBodyK ops env cheap (embS Xr st) k = .ok (embS Xr st') ∧ Inv p Xr st'.1 := by
  cases hv0 : st.1.vehicle? k with
  | none => exact (small_vehicle?_some p Xr st.1 hI k hk hp hv0).elim
  | some v0 =>
    obtain ⟨_, hv0id⟩ := vehicle?_some _ _ _ hv0
    rw [surplusBodyK_of ops env cheap _ k v0 hv0id] at h ⊢
    rcases surplusBody_cases ops env cheap st st' v0 h with ⟨hv, he⟩ | ⟨v, hv, hc⟩
    · rw [hv0id, hv0] at hv; cases hv
    · have hv' : (embS Xr st).1.vehicle? v0.id = some v := overlay_vehicle?_sel p Xr st.1 hI v0.id v hv
      rcases hc with ⟨hcs, rfl⟩ | ⟨csId, cs, gc, r, hcs, hst, hgc, hloc, rfl⟩
      · refine ⟨?_, hI⟩
        unfold surplusBody
        simp only [hv', surplusVehicle_eq, hcs]
      · obtain ⟨hvm, hvid⟩ := vehicle?_some _ _ _ hv
        obtain ⟨hsm, hsid⟩ := station?_some' _ _ _ hst
        have hst' : (embS Xr st).1.station? csId = some cs := overlay_station?_sel p Xr st.1 hI csId cs hst
        have hgc' : (embS Xr st).1.gc? cs.parent = some gc := hgc
        rw [surplusBody_eval ops env cheap (embS Xr st) v0 v csId cs gc r hv' hcs hst' hgc' hloc]
        cases r with
        | none => exact ⟨rfl, hI⟩
        | some t =>
          obtain ⟨bat', d, cur'⟩ := t
          obtain ⟨hb1, hb2⟩ := overlay_book p Xr st.1 hI { v with bat := bat' } (gc.addLoad csId d).1
            { cs with currentPower := cur' }
            (by show st.1.vehicle? v.id ≠ none; rw [hvid, hv]; exact Option.some_ne_none v)
            (by show st.1.station? cs.id ≠ none; rw [hsid, hst]; exact Option.some_ne_none cs)
          refine ⟨?_, hb2⟩
          unfold surplusWrite embS
          simp only [hb1]

theorem surplusBodyK_emb_unsel (p : String → Bool) (Xr : SWorld α B) (ops : BatOps α B)
    (env : StratEnv α) (cheap : List (String × Bool)) (st : SWorld α B × List (String × α)) (k : String)
    (hidle : ∀ x ∈ Xr.vehicles, p x.id = false → x.cs = none)
    (hI : Inv p Xr st.1) (hk : k ∈ Xr.vehicles.map (·.id)) (hp : p k = false) :
    surplusBodyK ops env cheap (embS Xr st) k = .ok (embS Xr st) := by
  obtain ⟨x, hx, hid, hv'⟩ := overlay_vehicle?_unsel p Xr st.1 hI k hk hp
  have hcs : x.cs = none := hidle x hx (by rw [hid]; exact hp)
  have hv'' : (embS Xr st).1.vehicle? k = some x := hv'
  unfold surplusBodyK
  simp only [hv'', surplusVehicle_eq, hcs]

/-- **the surplus pass of the small world inside the big one** -/
theorem distributeSurplus_emb (p : String → Bool) (Xr : SWorld α B) (ops : BatOps α B) (env : StratEnv α)
    (hidle : ∀ x ∈ Xr.vehicles, p x.id = false → x.cs = none)
    (ss ss' : SWorld α B) (cmds : List (String × α)) (hI : Inv p Xr ss)
    (h : distributeSurplus ops env ss = .ok (ss', cmds)) :
    distributeSurplus ops env (overlay Xr ss) = .ok (overlay Xr ss', cmds) ∧ Inv p Xr ss' := by
  rw [distributeSurplus_unfold] at h ⊢
  have hg : (overlay Xr ss).gcs = ss.gcs := rfl
  rw [hg]
  cases hc : ss.gcs.mapM (cheapEntry env) with
  | error e => simp [hc, bind, Except.bind] at h
  | ok cheap =>
    simp only [hc, bind, Except.bind] at h ⊢
    rw [surplusFold_ids] at h ⊢
    have hbig : (overlay Xr ss).vehicles.map (·.id) = Xr.vehicles.map (·.id) :=
      ovL_ids (fun v : VehicleS α B => v.id) Xr.vehicles ss.vehicles
    rw [hbig]
    rw [hI.veh] at h
    exact foldlM_emb (surplusBodyK ops env cheap) (surplusBodyK ops env cheap) (embS Xr) p
      (fun s => Inv p Xr s.1) (Xr.vehicles.map (·.id))
      (fun t x t' hx hq hi hs => surplusBodyK_emb_sel p Xr ops env cheap t t' x hx hq hi hs)
      (fun t x hx hq hi => surplusBodyK_emb_unsel p Xr ops env cheap t x hidle hi hx hq)
      (ss, []) (ss', cmds) hI h

/-- the battery pass without batteries -/
theorem updateBatteries_nil (ops : BatOps α B) (env : StratEnv α) (w w' : SWorld α B)
    (hb : w.batteries = []) (h : updateBatteries ops env w = .ok w') :
    w' = w ∧ ∀ u : SWorld α B, u.gcs = w.gcs → u.batteries = [] → updateBatteries ops env u = .ok u := by
  rw [updateBatteries_unfold] at h
  cases hc : w.gcs.mapM (cheapEntry env) with
  | error e => simp [hc, bind, Except.bind] at h
  | ok cheap =>
    simp only [hc, bind, Except.bind, hb, List.foldlM_nil, pure, Except.pure, Except.ok.injEq] at h
    refine ⟨h.symm, ?_⟩
    intro u hug hub
    rw [updateBatteries_unfold, hug, hc, hub]
    rfl

/-! ### the initial relation and the whole step -/

theorem overlay_init (p : String → Bool) (X t : SWorld α B) (hs : Sub p X t) :
    overlay (resetStations X) (resetStations t) = resetStations X := by
  apply sworld_ext
  · exact hs.gcs
  · show (resetStations X).stations.map (fun x => ((resetStations t).station? x.id).getD x)
      = (resetStations X).stations
    conv_rhs => rw [← List.map_id (resetStations X).stations]
    apply List.map_congr_left
    intro x hx
    have h0 : (resetStations t).station? x.id
        = (t.station? x.id).map (fun s => { s with currentPower := 0 }) :=
      find?_map_pres (fun s : StationS α => s.id) (fun s => { s with currentPower := 0 }) (fun _ => rfl)
        t.stations x.id
    rw [h0]
    cases hts : t.station? x.id with
    | none => rfl
    | some s =>
      simp only [Option.map_some, Option.getD_some, id]
      obtain ⟨hsm, hsid⟩ := station?_some' _ _ _ hts
      obtain ⟨hsX, _⟩ := station?_some' _ _ _ (hs.sta s hsm)
      unfold resetStations at hx
      simp only [List.mem_map] at hx
      obtain ⟨x0, hx0, rfl⟩ := hx
      have : s = x0 := List.inj_on_of_nodup_map hs.stN hsX hx0 hsid
      rw [this]
  · show X.vehicles.map (fun x => (t.vehicle? x.id).getD x) = X.vehicles
    conv_rhs => rw [← List.map_id X.vehicles]
    apply List.map_congr_left
    intro x hx
    cases htv : t.vehicle? x.id with
    | none => rfl
    | some y =>
      simp only [Option.getD_some, id]
      obtain ⟨hym, hyid⟩ := vehicle?_some _ _ _ htv
      rw [hs.veh] at hym
      exact List.inj_on_of_nodup_map hs.veN (List.mem_filter.mp hym).1 hx hyid
  · rfl

theorem inv_init (p : String → Bool) (X t : SWorld α B) (hs : Sub p X t) :
    Inv p (resetStations X) (resetStations t) := by
  refine ⟨?_, ?_, hs.batsT⟩
  · show t.vehicles.map (·.id) = (X.vehicles.map (·.id)).filter p
    rw [hs.veh, List.filter_map]
    rfl
  · intro k hk
    have h1 : (resetStations t).stations.map (·.id) = t.stations.map (·.id) :=
      map_ids_pres (fun s : StationS α => s.id) (fun s => { s with currentPower := 0 }) (fun _ => rfl) t.stations
    have h2 : (resetStations X).stations.map (·.id) = X.stations.map (·.id) :=
      map_ids_pres (fun s : StationS α => s.id) (fun s => { s with currentPower := 0 }) (fun _ => rfl) X.stations
    rw [h1] at hk
    rw [h2]
    obtain ⟨s, hsm, rfl⟩ := List.mem_map.mp hk
    obtain ⟨hsX, _⟩ := station?_some' _ _ _ (hs.sta s hsm)
    exact List.mem_map.mpr ⟨s, hsX, rfl⟩

theorem sortedIds_sub (p : String → Bool) (X t : SWorld α B) (hs : Sub p X t) :
    sortedVehicleIds (resetStations t) = (sortedVehicleIds (resetStations X)).filter p := by
  unfold sortedVehicleIds
  rw [← mergeSort_filter_ids]
  congr 1
  exact (inv_init p X t hs).veh

/-- `Greedy.step` / `Balanced.step` ignores unconnected vehicles and stations without a vehicle: if the step returns on the
sub-world `t` of `X`, it returns on `X` with the same commands, and the result is `t'` laid over `X` (idle stations reset) -/
theorem ruleStep_embed (p : String → Bool) (rule : Rule) (ops : BatOps α B) (env : StratEnv α)
    (X t t' : SWorld α B) (cmds : List (String × α)) (hs : Sub p X t)
    (h : ruleStep rule ops env t = .ok (t', cmds)) :
    ruleStep rule ops env X = .ok (overlay (resetStations X) t', cmds) := by
  unfold ruleStep at h ⊢
  have hav : availBatPower ops X = availBatPower ops t := by
    unfold availBatPower
    rw [hs.gcs, hs.batsT, hs.batsX]
  rw [hav]
  cases ha : availBatPower ops t with
  | error e => simp [ha, bind, Except.bind] at h
  | ok avail =>
    simp only [ha, bind, Except.bind] at h ⊢
    cases hf : (sortedVehicleIds (resetStations t)).foldlM (allocVehicle rule ops env)
        (resetStations t, [], avail) with
    | error e => simp [hf] at h
    | ok st1 =>
      obtain ⟨w1, c1, a1⟩ := st1
      simp only [hf] at h
      rw [sortedIds_sub p X t hs] at hf
      have hidle : ∀ x ∈ (resetStations X).vehicles, p x.id = false → x.cs = none := hs.idle
      have hids : ∀ k ∈ sortedVehicleIds (resetStations X), k ∈ (resetStations X).vehicles.map (·.id) := by
        intro k hk
        unfold sortedVehicleIds at hk
        exact List.mem_mergeSort.mp hk
      obtain ⟨hf', hI1⟩ := allocFold_emb p (resetStations X) rule ops env _ hids hidle
        (resetStations t, [], avail) (w1, c1, a1) (inv_init p X t hs) hf
      have h0 : embA (resetStations X) (resetStations t, ([] : List (String × α)), avail)
          = (resetStations X, [], avail) := by
        unfold embA
        simp only [overlay_init p X t hs]
      rw [h0] at hf'
      rw [hf']
      simp only [embA]
      cases hd : distributeSurplus ops env w1 with
      | error e => simp [hd] at h
      | ok r2 =>
        obtain ⟨w2, c2⟩ := r2
        simp only [hd] at h
        obtain ⟨hd', hI2⟩ := distributeSurplus_emb p (resetStations X) ops env hidle w1 w2 c2 hI1 hd
        rw [hd']
        simp only
        cases hu : updateBatteries ops env w2 with
        | error e => simp [hu] at h
        | ok w3 =>
          simp only [hu, Except.ok.injEq, Prod.mk.injEq] at h
          obtain ⟨rfl, rfl⟩ := h
          obtain ⟨rfl, hub⟩ := updateBatteries_nil ops env w2 w3 hI2.bats hu
          rw [hub (overlay (resetStations X) w3) rfl hs.batsX]

end Passes

end SpiceEv.DistRun
