/-
"Only a station with a connected vehicle carries power" needs nothing about connector loads: the part `CInv false` of
the invariant (vehicle keys unchanged; power ≠ 0 → a vehicle connected) goes through the connector loop without
`LoopInv` / `LoopHyp` / `SideOK` — the stations written back are those of the connected vehicles whatever the
sub-strategy booked, and the sub-strategies return the vehicles with their keys (`sideConn_false`).
-/
import SpiceEv.Proofs.StratDistributedConnNeg
set_option linter.unusedSectionVars false
set_option linter.unusedSimpArgs false
set_option linter.unusedVariables false
namespace SpiceEv.Distrib.Conn
open SpiceEv SpiceEv.Frame SpiceEv.Distrib
variable {α B : Type} [Field α] [LinearOrder α] [IsStrictOrderedRing α]

/-- one connector's treatment preserves `CInv false` — no premise on the state -/
theorem stepGc_loopA (KS : List (String × Option String × Bool)) (hc : KeyCons KS)
    (dops : DOps α B) (law : BatLaw dops.bat) (de : DEnv α)
    (ncs : List (String × Option Int)) (conn : List (String × List String)) (lk : Look α)
    (st st' : SWorld α B × DInit α × List (String × α)) (gcId : String)
    (hinvC : CInv false KS st.1)
    (h : stepGc dops de ncs conn lk st gcId = .ok st') : CInv false KS st'.1 := by
  have hcd := sideConn_false dops law de.deps de
  have hco := sideConn_false dops law de.opps de
  unfold stepGc at h
  split at h
  · cases h
  · rename_i gc hgc
    simp only [bind, Except.bind] at h
    split at h
    · cases h
    · split at h
      · cases h
      · rename_i cands _ _ cvs hcv
        split at h
        · simp only [Except.ok.injEq] at h; subst h; exact hinvC
        · split at h
          · cases h
          · rename_i kind _
            split at h
            · cases h
            · rename_i stations hst
              have hcvm := connectedAt_mem st.1 gcId cands cvs hcv
              have hstc := subStations_conn st.1 cvs stations hst
              have hkc : KeyCons (cvs.map vkey) := keyCons_sub KS cvs st.1 (by rw [hinvC.1]; exact hc) hcvm
              obtain ⟨w', ini', acc'⟩ := st'
              cases kind with
              | deps =>
                unfold stepDeps at h
                rcases subClass de.deps with ⟨hps, hpl⟩ | ⟨cfg, hps⟩ | ⟨hps, cfg, hpl⟩
                · simp only [hps, hpl] at h
                  unfold stepDepsRule at h
                  simp only [bind, Except.bind] at h
                  split at h
                  · cases h
                  · rename_i r hr
                    obtain ⟨vw', cmds⟩ := r
                    simp only [Except.ok.injEq, Prod.mk.injEq] at h
                    obtain ⟨rfl, rfl, rfl⟩ := h
                    obtain ⟨c1, _⟩ := ruleStep_subConn false _ dops.bat law _ gc stations cvs _ vw' cmds hr hkc
                    exact depsFinishC false KS hc st.1 vw' stations cvs hinvC hcvm hstc c1 (fun hn => by cases hn)
                · simp only [hps] at h
                  unfold stepDepsPS at h
                  simp only [bind, Except.bind] at h
                  split at h
                  · cases h
                  · rename_i r hr
                    obtain ⟨vw', cmds, evs'⟩ := r
                    simp only [Except.ok.injEq, Prod.mk.injEq] at h
                    obtain ⟨rfl, rfl, rfl⟩ := h
                    have hsubc : SubConn false (psRun dops de.deps cfg de.env.now st.2.1.depsEvents
                        (subFuture de.future gc.id cvs)) := by
                      simp only [SideConn, hps] at hcd
                      exact hcd _ _
                    obtain ⟨c1, _⟩ := hsubc gc stations cvs _ vw' cmds (by unfold psRun; rw [hr]; rfl) hkc
                    exact depsFinishC false KS hc st.1 vw' stations cvs hinvC hcvm hstc c1 (fun hn => by cases hn)
                · simp only [hps, hpl] at h
                  unfold stepDepsPLW at h
                  simp only [bind, Except.bind] at h
                  split at h
                  · cases h
                  · rename_i r hr
                    obtain ⟨vw', cmds, pk'⟩ := r
                    simp only [Except.ok.injEq, Prod.mk.injEq] at h
                    obtain ⟨rfl, rfl, rfl⟩ := h
                    have hsubc : SubConn false (plwRun dops de.deps cfg de st.2.1.depsPeaks []) := by
                      simp only [SideConn, hps, hpl] at hcd
                      exact hcd _ _
                    obtain ⟨c1, _⟩ := hsubc gc stations cvs _ vw' cmds (by unfold plwRun; rw [hr]; rfl) hkc
                    exact depsFinishC false KS hc st.1 vw' stations cvs hinvC hcvm hstc c1 (fun hn => by cases hn)
              | opps =>
                unfold stepOpps at h
                rcases subClass de.opps with ⟨hps, hpl⟩ | ⟨cfg, hps⟩ | ⟨hps, cfg, hpl⟩
                · simp only [hps, hpl] at h
                  unfold stepOppsRule at h
                  simp only [bind, Except.bind] at h
                  split at h
                  · cases h
                  · rename_i prep hprep
                    have hcase := oppsPrep_case dops de st.2.1 lk st.1 gcId _ gc prep cvs stations hst hprep
                    split at h
                    · cases h
                    · rename_i r hr
                      obtain ⟨vw', cmds⟩ := r
                      simp only at h
                      split at h
                      · rename_i gc1 hg1
                        split at h
                        · cases h
                        · rename_i post hpost
                          simp only [Except.ok.injEq, Prod.mk.injEq] at h
                          obtain ⟨rfl, rfl, rfl⟩ := h
                          exact oppsFinishC false KS hc st.1 vw' stations prep.vcs cvs prep.vveh post.gc post.bats
                            hinvC hcvm hstc hcase (fun hk => by
                              obtain ⟨c1, _⟩ := ruleStep_subConn false _ dops.bat law _ prep.gc _ _ _ vw' cmds hr hk
                              exact ⟨c1, fun hn => by cases hn⟩)
                      · cases h
                · simp only [hps] at h
                  unfold stepOppsPS at h
                  simp only [bind, Except.bind] at h
                  split at h
                  · cases h
                  · rename_i prep hprep
                    have hcase := oppsPrep_case dops de st.2.1 lk st.1 gcId _ gc prep cvs stations hst hprep
                    split at h
                    · cases h
                    · rename_i r hr
                      obtain ⟨vw', cmds, evs'⟩ := r
                      simp only at h
                      split at h
                      · rename_i gc1 hg1
                        split at h
                        · cases h
                        · rename_i post hpost
                          simp only [Except.ok.injEq, Prod.mk.injEq] at h
                          obtain ⟨rfl, rfl, rfl⟩ := h
                          have hsubc : SubConn false (psRun dops de.opps cfg de.env.now st.2.1.oppsEvents
                              (subFuture de.future gcId cvs)) := by
                            simp only [SideConn, hps] at hco
                            exact hco _ _
                          exact oppsFinishC false KS hc st.1 vw' stations prep.vcs cvs prep.vveh post.gc post.bats
                            hinvC hcvm hstc hcase (fun hk => by
                              obtain ⟨c1, _⟩ := hsubc prep.gc _ _ _ vw' cmds (by unfold psRun; rw [hr]; rfl) hk
                              exact ⟨c1, fun hn => by cases hn⟩)
                      · cases h
                · simp only [hps, hpl] at h
                  unfold stepOppsPLW at h
                  simp only [bind, Except.bind] at h
                  split at h
                  · cases h
                  · rename_i prep hprep
                    have hcase := oppsPrep_case dops de st.2.1 lk st.1 gcId _ gc prep cvs stations hst hprep
                    split at h
                    · cases h
                    · rename_i r hr
                      obtain ⟨vw', cmds, pk'⟩ := r
                      simp only at h
                      split at h
                      · rename_i gc1 hg1
                        split at h
                        · cases h
                        · rename_i post hpost
                          simp only [Except.ok.injEq, Prod.mk.injEq] at h
                          obtain ⟨rfl, rfl, rfl⟩ := h
                          have hsubc : SubConn false (plwRun dops de.opps cfg de st.2.1.oppsPeaks
                              (prep.vveh.filterMap (fun v => (sdGet st.2.1.virtualVt (virtName v.id)).map
                                (fun vt => (v.id, vt.chargingCurve.points.map (·.2), (none : Option α)))))) := by
                            simp only [SideConn, hps, hpl] at hco
                            exact hco _ _
                          exact oppsFinishC false KS hc st.1 vw' stations prep.vcs cvs prep.vveh post.gc post.bats
                            hinvC hcvm hstc hcase (fun hk => by
                              obtain ⟨c1, _⟩ := hsubc prep.gc _ _ _ vw' cmds (by unfold plwRun; rw [hr]; rfl) hk
                              exact ⟨c1, fun hn => by cases hn⟩)
                      · cases h

/-- **after the complete step, from distinct vehicle ids alone**: the vehicle keys are those of the beginning and a
station with power has a connected vehicle -/
theorem step_connA (dops : DOps α B) (law : BatLaw dops.bat) (de : DEnv α)
    (s s' : DState α B) (cmds : List (String × α)) (hvnd : (s.world.vehicles.map (·.id)).Nodup)
    (h : step dops de s = .ok (s', cmds)) : CInv false (VK s.world) s'.world := by
  have hc : KeyCons (VK s.world) := vk_nodup s.world hvnd
  unfold step at h
  simp only [bind, Except.bind] at h
  split at h
  · cases h
  · rename_i lk _
    split at h
    · cases h
    · rename_i connected _
      split at h
      · cases h
      · rename_i st1 hfold
        obtain ⟨w1, ini1, c1⟩ := st1
        simp only at h
        split at h
        · cases h
        · rename_i ids _
          split at h
          · cases h
          · rename_i r hsur
            obtain ⟨w2, c2⟩ := r
            simp only [Except.ok.injEq, Prod.mk.injEq] at h
            obtain ⟨rfl, _⟩ := h
            have i2 : CInv false (VK s.world) w1 :=
              foldlM_inv (stepGc dops de s.numberCs connected lk)
                (fun (st : SWorld α B × DInit α × List (String × α)) => CInv false (VK s.world) st.1)
                (fun st g st' hi hs => stepGc_loopA (VK s.world) hc dops law de s.numberCs connected lk st st' g hi hs)
                _ (resetStations s.world, s.init, []) (w1, ini1, c1) (cinv_reset false s.world) hfold
            exact distributeSurplusOn_cinv false (VK s.world) hc dops.bat law de.env w1 w2 ids c2 i2 hsur

end SpiceEv.Distrib.Conn
