"""C07 — "the concrete strategy's own step keeps what events set": digests of the event-set connector attributes and
of the pending event queue (`world_state.future_events`), used

* by `steptie` to extend every step tie's result line (implementation side: digest AFTER the concrete step; model side:
  the digest BEFORE it — the strategy models provably keep these attributes, `Properties/C07_Strategies.lean`, or do not
  carry them at all, so "unchanged" IS the model's answer), and
* by `runoracle.check_c07_keeps` (oracle clause on real runs of all eight strategies).

What a strategy writes by design (and the model renders itself in the core of its result line) is listed in
`written_by_design`: peak_load_window overwrites `gc.window` with its own time-window predicate every step
(peak_load_window.py `gc.window = ...`; theorem `C07_peak_load_window_window_written`), flex_window re-writes the value it
read (`gc.window = timesteps[0]["window"]`), distributed inherits this from a peak_load_window sub-strategy.
"""
import datetime
import zlib

EPOCH = datetime.datetime(1970, 1, 1, tzinfo=datetime.timezone.utc)
SEP, SEP0 = " |K| ", " |K0| "


def us(dt):
    if dt is None:
        return "N"
    if dt.tzinfo is None:
        dt = dt.replace(tzinfo=datetime.timezone.utc)
    d = dt - EPOCH
    return str((d.days * 86400 + d.seconds) * 1000000 + d.microseconds)


def _num(x):
    if x is None:
        return "N"
    try:
        return float(x).hex()
    except Exception:
        return "?" + repr(x).replace(" ", "")


def _cost(c):
    if not c:
        return "N" if c is None else "E"
    try:
        v = c.get("value")
        if isinstance(v, (list, tuple)):
            return "%s:%s" % (c.get("type"), ",".join(_num(x) for x in v))
        return "%s:%s" % (c.get("type"), _num(v))
    except Exception:
        return "?" + repr(c).replace(" ", "")


def _payload(ev):
    """content token of an event: every attribute, canonical text, hashed (an edited value / update dict shows)"""
    items = []
    for k, v in sorted(vars(ev).items()):
        if isinstance(v, datetime.datetime):
            v = us(v)
        elif isinstance(v, dict):
            v = sorted((str(a), us(b) if isinstance(b, datetime.datetime) else repr(b)) for a, b in v.items())
        items.append((k, repr(v)))
    return "%08x" % (zlib.crc32(repr(items).encode()) & 0xffffffff)


def queue_digest(ws):
    """kinds, start / signal times and a content hash of the pending events, in queue order"""
    q = getattr(ws, "future_events", None) or []
    out = [str(len(q))]
    for ev in q:
        out.append("%s:%s:%s:%s" % (type(ev).__name__, us(getattr(ev, "start_time", None)),
                                    us(getattr(ev, "signal_time", None)), _payload(ev)))
    return out


def gc_attrs(ws):
    """{gc id: {attr: token}} — limit, cost, target, window, and the entries of fixed-load / generation names"""
    names = set(ws.charging_stations) | set(ws.batteries)
    out = {}
    for gid, gc in ws.grid_connectors.items():
        out[gid] = {"cur_max_power": _num(gc.cur_max_power), "cost": _cost(gc.cost), "target": _num(gc.target),
                    "window": "N" if gc.window is None else ("1" if gc.window else "0"),
                    "loads": ",".join("%s=%s" % (k, _num(v)) for k, v in gc.current_loads.items()
                                      if k not in names and not str(k).startswith("stationary_"))}
    return out


ATTRS = ("cur_max_power", "cost", "target", "window", "loads")
VATTRS = ("cs", "desired_soc", "etd", "eta", "schedule")


def vehicle_attrs(ws):
    """{vehicle id: {attr: token}} — what vehicle events set (`setattr(vehicle, k, v)` for the keys of `update`)"""
    out = {}
    for vid, v in ws.vehicles.items():
        sch = getattr(v, "schedule", None)
        out[vid] = {"cs": str(v.connected_charging_station), "desired_soc": _num(v.desired_soc),
                    "etd": us(v.estimated_time_of_departure), "eta": us(getattr(v, "estimated_time_of_arrival", None)),
                    "schedule": _num(sch) if not isinstance(sch, (dict, list)) else "?" + repr(sch).replace(" ", "")}
    return out


def written_by_design(strat_or_name, sub=()):
    """labels of attributes the strategy itself writes (rendered by its model in the core line)"""
    name = strat_or_name if isinstance(strat_or_name, str) else type(strat_or_name).__name__
    name = name.lower().replace("_", "")
    subs = [str(s).lower().replace("_", "") for s in sub]
    if not isinstance(strat_or_name, str):
        for attr in ("strat_deps", "strat_opps"):
            s = getattr(strat_or_name, attr, None)
            if s is not None:
                subs.append(type(s).__name__.lower())
    if name == "peakloadwindow" or (name == "distributed" and any(s in ("peakloadwindow", "flexwindow") for s in subs)):
        return {"window", "schedule"}        # peak_load_window also uses `vehicle.schedule` as scratch for its plan
    return set()


def digest(strat):
    """one text: per connector the attributes the strategy is expected to keep, then the queue"""
    skip = written_by_design(strat)
    ws = strat.world_state
    parts = []
    for gid, a in gc_attrs(ws).items():
        parts.append(gid + " " + " ".join("%s=%s" % (k, a[k] if k not in skip else "*") for k in ATTRS))
    for vid, a in vehicle_attrs(ws).items():
        parts.append(vid + " " + " ".join("%s=%s" % (k, a[k] if k not in skip else "*") for k in VATTRS))
    q = queue_digest(ws)
    if len(q) > 13:          # long queues: count, hash of the whole, the first entries
        q = [q[0], "%08x" % (zlib.crc32(" ".join(q).encode()) & 0xffffffff)] + q[1:9]
    return " ; ".join(parts) + " Q " + " ".join(q)


def split(line):
    """(core, after, before) of an extended implementation line; (line, None, None) for a plain one"""
    if SEP not in line:
        return line, None, None
    core, _, rest = line.partition(SEP)
    after, _, before = rest.partition(SEP0)
    return core, after, before


def diff(after, before):
    if after == before:
        return None
    a, b = after.split(" "), before.split(" ")
    for i, (x, y) in enumerate(zip(a, b)):
        if x != y:
            return "event-set state changed by the concrete step (token %d): before %s after %s" % (i, y, x)
    return "event-set state changed by the concrete step: %d tokens before, %d after" % (len(b), len(a))
