/- driver commands for Model/Curve.lean -/
import SpiceEv.Wire
import SpiceEv.Model.Curve
namespace SpiceEv.Cmd.Curve
open SpiceEv

section
variable {α : Type} [Add α] [Sub α] [Mul α] [Div α] [LT α] [LE α]
  [DecidableLT α] [DecidableLE α] [OfNat α 0] [OfNat α 1] [Wire α]

def rNum (x : α) : String := Wire.render x
def rPoint (p : α × α) : String := rNum p.1 ++ " " ++ rNum p.2
def rCurve (c : Curve α) : String := renderList rPoint c.points ++ " " ++ rNum c.maxPower
def pPoint : P (α × α) := do let a ← P.num α; let b ← P.num α; pure (a, b)

/-- `curve T <n> pts… L pre post <k> socs…` →
    `new | clamped | lookups on new | lookups on clamped | boundaries on new | boundaries on clamped` -/
def cmdCurve : P String := do
  let pts ← P.list (pPoint (α := α))
  let L ← P.num α; let pre ← P.num α; let post ← P.num α
  let socs ← P.list (P.num α)
  let c := Curve.new pts
  let cl := c.bind (fun c => c.clamped L pre post)
  let look (c : Py (Curve α)) : String :=
    match c with
    | .error _ => "-"
    | .ok c => " ".intercalate (socs.map (fun s => renderPy rNum (c.powerFromSoc s)))
  let bnd (c : Py (Curve α)) : String :=
    match c with
    | .error _ => "-"
    | .ok c => " ".intercalate (socs.map (fun s =>
        let b := c.sectionBoundary s; s!"{b.1},{b.2}"))
  pure (s!"{renderPy rCurve c} | {renderPy rCurve cl} | {look c} | {look cl} | {bnd c} | {bnd cl}")
end

def handlers : List (String × Handler) :=
  [("curve", byNumType (cmdCurve (α := Rat)) (cmdCurve (α := Float)))]

end SpiceEv.Cmd.Curve
