/-
Lemmas about the model of `BalancedMarket` (Model/StratBalancedMarket.lean) under the abstract
battery law `BatLaw` (Proofs/Strategies.lean).
-/
import SpiceEv.Proofs.Basic
import SpiceEv.Proofs.Strategies
import SpiceEv.Model.StratBalancedMarket
import Mathlib.Tactic.Linarith
set_option linter.unusedSectionVars false
set_option linter.unusedSimpArgs false
set_option linter.unusedVariables false
namespace SpiceEv.BalancedMarket
open SpiceEv
variable {α B : Type} [Field α] [LinearOrder α] [IsStrictOrderedRing α]

/-! ### generic fold lemma -/

theorem foldlM_inv {σ β : Type} (f : σ → β → Py σ) (P : σ → Prop)
    (hf : ∀ s b s', P s → f s b = .ok s' → P s') :
    ∀ (l : List β) (s s' : σ), P s → l.foldlM f s = .ok s' → P s' := by
  intro l
  induction l with
  | nil =>
    intro s s' hs h
    simp only [List.foldlM_nil, pure, Except.pure, Except.ok.injEq] at h
    subst h; exact hs
  | cons b rest ih =>
    intro s s' hs h
    simp only [List.foldlM_cons, bind, Except.bind] at h
    split at h
    · cases h
    · rename_i s1 h1
      exact ih s1 s' (hf s b s1 hs h1) h

/-! ### station invariant -/

/-- a station is within its maximum in both directions -/
def SInv (cs : StationS α) : Prop := -cs.maxPower ≤ cs.currentPower ∧ cs.currentPower ≤ cs.maxPower

/-- every planned power is a non-negative power that fits into the station -/
def PInv (cs : StationS α) (power : List α) : Prop :=
  ∀ x ∈ power, 0 ≤ x ∧ cs.currentPower + x ≤ cs.maxPower

theorem clampV_fit (cs : StationS α) (vmin p : α) (h : cs.currentPower ≤ cs.maxPower) :
    0 ≤ clampV cs vmin p ∧ cs.currentPower + clampV cs vmin p ≤ cs.maxPower :=
  ⟨(clampPower_bounds _ _ _ _ _).1, clampPower_station _ _ _ _ _ h⟩

theorem PInv_set (cs : StationS α) (power : List α) (i : Nat) (p : α) (h : PInv cs power)
    (hp : 0 ≤ p ∧ cs.currentPower + p ≤ cs.maxPower) : PInv cs (power.set i p) := by
  intro x hx
  rcases List.mem_or_eq_of_mem_set hx with hx | rfl
  · exact h x hx
  · exact hp

theorem naivePass_PInv (ops : Ops α B) (cs : StationS α) (vmin : α) (ts : List (TS α))
    (same : List Nat) (power power' : List α) (sim sim' : B) (hcs : cs.currentPower ≤ cs.maxPower)
    (hp : PInv cs power)
    (h : naivePass ops cs vmin ts same power sim = .ok (power', sim')) : PInv cs power' := by
  unfold naivePass at h
  refine foldlM_inv _ (fun st => PInv cs st.1) ?_ same (power, sim) (power', sim') hp h
  intro s i s' hs hstep
  simp only [bind, Except.bind] at hstep
  split at hstep
  · cases hstep
  · split at hstep
    · cases hstep
    · simp only [pure, Except.pure, Except.ok.injEq] at hstep
      subst hstep
      exact PInv_set cs _ _ _ hs (clampV_fit cs vmin _ hcs)

theorem bisectPass_PInv (ops : Ops α B) (cs : StationS α) (vmin : α) (ts : List (TS α))
    (same : List Nat) (cur : α) (power power' : List α) (sim sim' : B)
    (hcs : cs.currentPower ≤ cs.maxPower) (hp : PInv cs power)
    (h : bisectPass ops cs vmin ts same cur power sim = .ok (power', sim')) : PInv cs power' := by
  unfold bisectPass at h
  refine foldlM_inv _ (fun st => PInv cs st.1) ?_ same (power, sim) (power', sim') hp h
  intro s i s' hs hstep
  simp only [bind, Except.bind] at hstep
  split at hstep
  · cases hstep
  · split at hstep
    · cases hstep
    · simp only [pure, Except.pure, Except.ok.injEq] at hstep
      subst hstep
      exact PInv_set cs _ _ _ hs (clampV_fit cs vmin _ hcs)

theorem bisect_PInv (ops : Ops α B) (eps : α) (cs : StationS α) (vmin : α) (ts : List (TS α))
    (same : List Nat) (oldSoc desired : α) (hcs : cs.currentPower ≤ cs.maxPower) :
    ∀ (fuel : Nat) (minP maxP : α) (safe : Bool) (power power' : List α) (sim sim' : B),
      PInv cs power →
      bisect ops eps cs vmin ts same oldSoc desired fuel minP maxP safe power sim = .ok (power', sim') →
      PInv cs power' := by
  intro fuel
  induction fuel with
  | zero => intro minP maxP safe power power' sim sim' hp h; simp [bisect] at h
  | succ n ih =>
    intro minP maxP safe power power' sim sim' hp h
    unfold bisect at h
    split at h
    · simp only [bind, Except.bind] at h
      split at h
      · cases h
      · rename_i r hr
        obtain ⟨pw, sm⟩ := r
        have hpw := bisectPass_PInv ops cs vmin ts same _ power pw _ sm hcs hp hr
        simp only at h
        split at h
        · exact ih _ _ _ pw power' sm sim' hpw h
        · exact ih _ _ _ pw power' sm sim' hpw h
    · simp only [Except.ok.injEq, Prod.mk.injEq] at h
      obtain ⟨rfl, _⟩ := h
      exact hp

/-! ### the bookkeeping of a real charge / discharge -/

@[simp] theorem book_cs (st : VSt α B) (avg : α) :
    (st.book avg).cs = { st.cs with currentPower := st.cs.currentPower + avg } := rfl

theorem SInv_book (st : VSt α B) (avg : α) (hlo : -st.cs.maxPower ≤ st.cs.currentPower + avg)
    (hhi : st.cs.currentPower + avg ≤ st.cs.maxPower) : SInv (st.book avg).cs := by
  rw [book_cs]; exact ⟨hlo, hhi⟩

/-- the price-ordered planning loop keeps the station within its maximum -/
theorem chargeLoop_SInv (ops : Ops α B) (law : BatLaw ops.toBatOps) (env : Env α) (v : VehicleS α B)
    (ts : List (TS α)) (sorted : List (α × Nat)) :
    ∀ (fuel : Nat) (st st' : VSt α B), SInv st.cs → PInv st.cs st.power →
      chargeLoop ops env v ts sorted fuel st = .ok st' → SInv st'.cs := by
  intro fuel
  induction fuel with
  | zero => intro st st' _ _ h; simp [chargeLoop] at h
  | succ n ih =>
    intro st st' hs hp h
    unfold chargeLoop at h
    split at h
    · simp only [Except.ok.injEq] at h; subst h; exact hs
    · rename_i cost startIdx hsorted
      simp only at h
      generalize ((if cost < env.priceThreshold then 1 else v.desiredSoc) - env.eps) = desired at h
      split at h
      · simp only [Except.ok.injEq] at h; subst h; exact hs
      · simp only [bind, Except.bind] at h
        split at h
        · cases h
        · rename_i r1 hr1
          obtain ⟨pw1, sm1⟩ := r1
          have hp1 := naivePass_PInv ops st.cs v.minChargingPower ts _ st.power pw1 st.sim sm1 hs.2 hp hr1
          simp only at h
          split at h
          · cases h
          · rename_i r2 hr2
            obtain ⟨pw2, sm2⟩ := r2
            have hp2 : PInv st.cs pw2 := by
              split at hr2
              · exact bisect_PInv ops env.eps st.cs v.minChargingPower ts _ _ _ hs.2 _ _ _ _ pw1 pw2 sm1 sm2 hp1 hr2
              · simp only [pure, Except.pure, Except.ok.injEq, Prod.mk.injEq] at hr2
                obtain ⟨rfl, _⟩ := hr2
                exact hp1
            simp only at h
            split at h
            · cases h
            · rename_i p0 hp0
              split at h
              · split at h
                · cases h
                · rename_i r3 hr3
                  obtain ⟨bat', avg⟩ := r3
                  simp only [Except.ok.injEq] at h
                  subst h
                  have hmem : p0 ∈ pw2 := List.mem_of_mem_head? hp0
                  obtain ⟨h0, hfit⟩ := hp2 p0 hmem
                  have hl := law.load_target _ _ _ _ hr3
                  rw [max_eq_left h0] at hl
                  apply SInv_book
                  · show -st.cs.maxPower ≤ st.cs.currentPower + avg
                    have := hs.1; linarith [hl.1]
                  · show st.cs.currentPower + avg ≤ st.cs.maxPower
                    linarith [hl.2]
              · exact ih _ st' (by exact hs) (by exact hp2) h

/-- the power noted for the current timestep by the V2G search fits into the station in both directions -/
def SPInv (cs : StationS α) (sp : Option α) : Prop :=
  ∀ x, sp = some x → -(cs.maxPower + cs.currentPower) ≤ x ∧ cs.currentPower + x ≤ cs.maxPower

theorem compStep_SPInv (ops : Ops α B) (v : VehicleS α B) (cs : StationS α) (ts : List (TS α))
    (realSoc v2gCost : α) (hcs : SInv cs) (c c' : CompSt α B) (e : α × Nat)
    (hc : SPInv cs c.simPower)
    (h : compStep ops v cs ts realSoc v2gCost c e = .ok c') : SPInv cs c'.simPower := by
  unfold compStep at h
  split at h
  · simp only [Except.ok.injEq] at h; subst h; exact hc
  · split at h
    · simp only [Except.ok.injEq] at h; subst h; exact hc
    · split at h
      · simp only [Except.ok.injEq] at h; subst h; exact hc
      · simp only [bind, Except.bind] at h
        split at h
        · cases h
        · rename_i t ht
          split at h
          · cases h
          · rename_i cur hcur
            split at h
            · cases h
            · rename_i sim hsim
              simp only [Except.ok.injEq] at h
              subst h
              intro x hx
              simp only at hx
              split at hx
              · simp only [Option.some.injEq] at hx
                subst hx
                obtain ⟨h0, hfit⟩ := clampV_fit cs v.minChargingPower (t.power - cur) hcs.2
                refine ⟨?_, hfit⟩
                have := hcs.1; linarith
              · exact hc x hx

theorem applyV2g_SInv (ops : Ops α B) (law : BatLaw ops.toBatOps) (v : VehicleS α B)
    (st st' : VSt α B) (sp : α) (hs : SInv st.cs)
    (hsp : -(st.cs.maxPower + st.cs.currentPower) ≤ sp ∧ st.cs.currentPower + sp ≤ st.cs.maxPower)
    (h : applyV2g ops v st sp = .ok st') : SInv st'.cs := by
  unfold applyV2g at h
  split at h
  · rename_i hpos
    simp only [bind, Except.bind] at h
    split at h
    · cases h
    · rename_i r hr
      obtain ⟨bat', avg⟩ := r
      simp only [Except.ok.injEq] at h
      subst h
      have hl := law.load_target _ _ _ _ hr
      rw [max_eq_left hpos.le] at hl
      apply SInv_book
      · show -st.cs.maxPower ≤ st.cs.currentPower + avg
        have := hs.1; linarith [hl.1]
      · show st.cs.currentPower + avg ≤ st.cs.maxPower
        linarith [hl.2, hsp.2]
  · split at h
    · rename_i hneg
      simp only [bind, Except.bind] at h
      split at h
      · cases h
      · rename_i r hr
        obtain ⟨bat', avg⟩ := r
        simp only [Except.ok.injEq] at h
        subst h
        have hl := law.unload_max _ _ _ _ _ hr
        have hneg' : 0 ≤ -sp := by linarith
        rw [max_eq_left hneg'] at hl
        apply SInv_book
        · show -st.cs.maxPower ≤ st.cs.currentPower + -avg
          linarith [hl.2, hsp.1]
        · show st.cs.currentPower + -avg ≤ st.cs.maxPower
          have := hs.2; linarith [hl.1]
    · simp only [Except.ok.injEq] at h
      subst h
      apply SInv_book
      · show -st.cs.maxPower ≤ st.cs.currentPower + 0
        have := hs.1; linarith
      · show st.cs.currentPower + 0 ≤ st.cs.maxPower
        have := hs.2; linarith

/-- the V2G search keeps the station within its maximum in both directions -/
theorem v2gLoop_SInv (ops : Ops α B) (law : BatLaw ops.toBatOps) (env : Env α) (v : VehicleS α B)
    (ts : List (TS α)) (sorted : List (α × Nat)) :
    ∀ (k : Nat) (st st' : VSt α B), SInv st.cs →
      v2gLoop ops env v ts sorted k st = .ok st' → SInv st'.cs := by
  intro k
  induction k with
  | zero => intro st st' hs h; simp only [v2gLoop, Except.ok.injEq] at h; subst h; exact hs
  | succ k ih =>
    intro st st' hs h
    unfold v2gLoop at h
    split at h
    · simp only [Except.ok.injEq] at h; subst h; exact hs
    · simp only [bind, Except.bind] at h
      split at h
      · cases h
      · rename_i r hr
        obtain ⟨v2gCost, v2gTs⟩ := r
        simp only at h
        split at h
        · simp only [Except.ok.injEq] at h; subst h; exact hs
        · split at h
          · cases h
          · rename_i t ht
            split at h
            · cases h
            · rename_i sim hsim
              split at h
              · cases h
              · rename_i c hc
                -- the discharge power noted for the current timestep
                have hp : ∀ p0 : α,
                    -(st.cs.maxPower + st.cs.currentPower) ≤
                      pymin (pymax (pymax (t.power - ((2 : Nat) : α) * t.maxPower)
                        (-(st.cs.maxPower + st.cs.currentPower))) p0) 0 ∧
                    st.cs.currentPower + pymin (pymax (pymax (t.power - ((2 : Nat) : α) * t.maxPower)
                        (-(st.cs.maxPower + st.cs.currentPower))) p0) 0 ≤ st.cs.maxPower := by
                  intro p0
                  simp only [pymin_eq, pymax_eq]
                  constructor
                  · apply le_min
                    · exact le_trans (le_max_right _ _) (le_max_left _ _)
                    · have := hs.1; linarith
                  · have := min_le_right (max (max (t.power - ((2 : Nat) : α) * t.maxPower)
                      (-(st.cs.maxPower + st.cs.currentPower))) p0) 0
                    have := hs.2; linarith
                have hinit : SPInv st.cs (if v2gTs == 0 then some (pymin (pymax (pymax
                    (t.power - ((2 : Nat) : α) * t.maxPower)
                    (-(st.cs.maxPower + st.cs.currentPower))) (-(ops.unloadMaxPower st.bat))) 0)
                    else none) := by
                  intro x hx
                  split at hx
                  · simp only [Option.some.injEq] at hx; subst hx; exact hp _
                  · cases hx
                have hcinv : SPInv st.cs c.simPower :=
                  foldlM_inv _ (fun c => SPInv st.cs c.simPower)
                    (fun c e c' hc' hstep => compStep_SPInv ops v st.cs ts _ _ hs c c' e hc' hstep)
                    _ _ c hinit hc
                split at h
                · rename_i sp hsp
                  split at hsp
                  · rename_i hb
                    have := hcinv sp hsp
                    refine applyV2g_SInv ops law v _ st' sp ?_ ?_ h
                    · simp only [hb, if_true]; exact hs
                    · simp only [hb, if_true]; exact this
                  · cases hsp
                · refine ih _ st' ?_ h
                  split
                  · exact hs
                  · exact hs

/-! ### the world: every station within its maximum -/

def WInv (w : SWorld α B) : Prop := ∀ s ∈ w.stations, SInv s

theorem vehicleBody_WInv (ops : Ops α B) (law : BatLaw ops.toBatOps) (env : Env α)
    (g g' : GSt α B) (vid : String) (hinv : WInv g.w)
    (h : vehicleBody ops env g vid = .ok g') : WInv g'.w := by
  unfold vehicleBody at h
  split at h
  · cases h
  · rename_i v hv
    split at h
    · cases h
    · rename_i csId hcs
      split at h
      · cases h
      · rename_i cs hst
        obtain ⟨hsm, _⟩ := station?_some _ _ cs hst
        split at h
        · cases h
        · rename_i etd hetd
          simp only [bind, Except.bind] at h
          split at h
          · cases h
          · rename_i sorted hsorted
            split at h
            · cases h
            · rename_i st1 hch
              have hs1 : SInv st1.cs := by
                refine chargeLoop_SInv ops law env v g.ts sorted _ _ st1 (hinv cs hsm) ?_ hch
                intro x hx
                have : x = 0 := List.eq_of_mem_replicate hx
                subst this
                have := (hinv cs hsm).2
                exact ⟨le_refl _, by simpa using this⟩
              split at h
              · cases h
              · rename_i st2 hv2g
                have hs2 : SInv st2.cs := by
                  split at hv2g
                  · exact v2gLoop_SInv ops law env v g.ts sorted _ st1 st2 hs1 hv2g
                  · simp only [pure, Except.pure, Except.ok.injEq] at hv2g
                    subst hv2g; exact hs1
                split at h
                · cases h
                · rename_i ts' hts
                  simp only [Except.ok.injEq] at h
                  subst h
                  intro s hs
                  rcases mem_setStation _ _ s hs with rfl | hs'
                  · exact hs2
                  · simp only [setVehicle_stations] at hs'
                    exact hinv s hs'

theorem surplusBody_WInv (ops : Ops α B) (law : BatLaw ops.toBatOps) (env : Env α)
    (g g' : GSt α B) (vid : String) (hinv : WInv g.w)
    (h : surplusBody ops env g vid = .ok g') : WInv g'.w := by
  unfold surplusBody at h
  split at h
  · cases h
  · rename_i v hv
    split at h
    · cases h
    · rename_i csId hcs
      split at h
      · cases h
      · rename_i cs hst
        obtain ⟨hsm, _⟩ := station?_some _ _ cs hst
        simp only at h
        split at h
        · simp only [bind, Except.bind] at h
          split at h
          · cases h
          · rename_i r hr
            obtain ⟨bat', avg⟩ := r
            simp only [Except.ok.injEq] at h
            subst h
            have hcsinv := hinv cs hsm
            obtain ⟨h0, hfit⟩ := clampV_fit cs v.minChargingPower (-currentLoadExcl g.gc g.dis) hcsinv.2
            have hl := law.load_max _ _ _ _ hr
            rw [max_eq_left h0] at hl
            intro s hs
            rcases mem_setStation _ _ s hs with rfl | hs'
            · constructor
              · show -cs.maxPower ≤ cs.currentPower + avg
                have := hcsinv.1; linarith [hl.1]
              · show cs.currentPower + avg ≤ cs.maxPower
                linarith [hl.2]
            · simp only [setVehicle_stations] at hs'
              exact hinv s hs'
        · simp only [Except.ok.injEq] at h
          subst h; exact hinv

theorem batteryBody_stations (ops : Ops α B) (env : Env α) (nCheap : Option Nat)
    (g g' : GSt α B) (bid : String)
    (h : batteryBody ops env nCheap g bid = .ok g') : g'.w.stations = g.w.stations := by
  unfold batteryBody at h
  split at h
  · cases h
  · rename_i b hb
    split at h
    · simp only [Except.ok.injEq] at h; subst h; rfl
    · split at h
      · cases h
      · rename_i n
        simp only [bind, Except.bind] at h
        split at h
        · cases h
        · split at h
          · cases h
          · split at h
            · cases h
            · split at h
              · split at h
                · cases h
                · simp only [Except.ok.injEq] at h; subst h; rfl
              · simp only [Except.ok.injEq] at h; subst h; rfl

theorem stepGc_WInv (ops : Ops α B) (law : BatLaw ops.toBatOps) (env : Env α)
    (w w' : SWorld α B) (gcId : String) (cmds : List (String × α)) (hinv : WInv w)
    (h : stepGc ops env w gcId = .ok (w', cmds)) : WInv w' := by
  unfold stepGc at h
  split at h
  · cases h
  · rename_i gc hgc
    simp only [bind, Except.bind] at h
    split at h
    · cases h
    · rename_i vs hvs
      split at h
      · cases h
      · rename_i vids hvids
        split at h
        · cases h
        · rename_i ts hts
          split at h
          · cases h
          · rename_i g1 hg1
            split at h
            · cases h
            · rename_i g2 hg2
              split at h
              · cases h
              · rename_i nCheap hn
                split at h
                · cases h
                · rename_i g3 hg3
                  simp only [Except.ok.injEq, Prod.mk.injEq] at h
                  obtain ⟨rfl, _⟩ := h
                  have h1 : WInv g1.w :=
                    foldlM_inv _ (fun g => WInv g.w)
                      (fun g vid g' hg hstep => vehicleBody_WInv ops law env g g' vid hg hstep)
                      vids _ g1 hinv hg1
                  have h2 : WInv g2.w :=
                    foldlM_inv _ (fun g => WInv g.w)
                      (fun g vid g' hg hstep => surplusBody_WInv ops law env g g' vid hg hstep)
                      vids _ g2 h1 hg2
                  have h3 : g3.w.stations = g2.w.stations :=
                    foldlM_inv _ (fun g => g.w.stations = g2.w.stations)
                      (fun g bid g' hg hstep => by
                        rw [batteryBody_stations ops env nCheap g g' bid hstep]; exact hg)
                      _ _ g3 rfl hg3
                  intro s hs
                  simp only [setGc_stations] at hs
                  rw [h3] at hs
                  exact h2 s hs

/-- after `BalancedMarket.step` every station is within its maximum in both directions -/
theorem step_WInv (ops : Ops α B) (law : BatLaw ops.toBatOps) (env : Env α)
    (w w' : SWorld α B) (cmds : List (String × α)) (hmax : ∀ s ∈ w.stations, 0 ≤ s.maxPower)
    (h : step ops env w = .ok (w', cmds)) : WInv w' := by
  unfold step at h
  have h0 : WInv (resetStations w) := by
    intro s hs
    unfold resetStations at hs
    simp only [List.mem_map] at hs
    obtain ⟨x, hx, rfl⟩ := hs
    have := hmax x hx
    constructor
    · show -x.maxPower ≤ 0
      linarith
    · exact this
  refine foldlM_inv _ (fun (st : SWorld α B × List (String × α)) => WInv st.1) ?_ _ _ (w', cmds) h0 h
  intro st gid st' hst hstep
  simp only [bind, Except.bind] at hstep
  split at hstep
  · cases hstep
  · rename_i r hr
    obtain ⟨w1, c1⟩ := r
    simp only [pure, Except.pure, Except.ok.injEq] at hstep
    subst hstep
    exact stepGc_WInv ops law env st.1 w1 gid c1 hst hr

/-! ### signal following: the planning loop -/

/-- the SoC the planning loop wants to reach with timesteps of price `cost` -/
def desiredAt (env : Env α) (v : VehicleS α B) (cost : α) : α :=
  (if cost < env.priceThreshold then 1 else v.desiredSoc) - env.eps

/-- a vehicle whose (simulated) SoC already meets the target of the cheapest remaining price level is
not charged by the planning loop: the loop ends at once, nothing is booked -/
theorem chargeLoop_satisfied (ops : Ops α B) (env : Env α) (v : VehicleS α B) (ts : List (TS α))
    (sorted : List (α × Nat)) (fuel : Nat) (st : VSt α B) (cost : α) (i : Nat)
    (hs : sorted[st.sortedIdx]? = some (cost, i)) (hd : desiredAt env v cost ≤ ops.soc st.sim) :
    chargeLoop ops env v ts sorted (fuel + 1) st = .ok { st with sortedIdx := 0 } := by
  unfold chargeLoop
  simp only [hs]
  unfold desiredAt at hd
  rw [if_pos hd]

theorem samePrice_next (env : Env α) (sorted : List (α × Nat)) (i : Nat) (cost : α) (s : Nat) :
    i + 1 ≤ (samePrice env sorted i cost s).2 := by
  unfold samePrice; simp only; omega

/-- the planning loop books a real charge only in an iteration whose price group is headed by the
current timestep (index 0) while the simulated SoC is still below that price level's target;
otherwise connector, station, real battery and commands are untouched -/
theorem chargeLoop_frame (ops : Ops α B) (env : Env α) (v : VehicleS α B) (ts : List (TS α))
    (sorted : List (α × Nat)) :
    ∀ (fuel : Nat) (st st' : VSt α B), chargeLoop ops env v ts sorted fuel st = .ok st' →
      (st'.bat = st.bat ∧ st'.gc = st.gc ∧ st'.cs = st.cs ∧ st'.cmds = st.cmds ∧ st'.dis = st.dis) ∨
      (∃ j cost s, st.sortedIdx ≤ j ∧ sorted[j]? = some (cost, s) ∧
        (samePrice env sorted j cost s).1.contains 0 = true ∧ j < st'.sortedIdx ∧
        st'.dis = st.dis) := by
  intro fuel
  induction fuel with
  | zero => intro st st' h; simp [chargeLoop] at h
  | succ n ih =>
    intro st st' h
    unfold chargeLoop at h
    split at h
    · simp only [Except.ok.injEq] at h; subst h; exact Or.inl ⟨rfl, rfl, rfl, rfl, rfl⟩
    · rename_i cost startIdx hsorted
      simp only at h
      generalize ((if cost < env.priceThreshold then 1 else v.desiredSoc) - env.eps) = desired at h
      split at h
      · simp only [Except.ok.injEq] at h; subst h; exact Or.inl ⟨rfl, rfl, rfl, rfl, rfl⟩
      · simp only [bind, Except.bind] at h
        split at h
        · cases h
        · rename_i r1 hr1
          obtain ⟨pw1, sm1⟩ := r1
          simp only at h
          split at h
          · cases h
          · rename_i r2 hr2
            obtain ⟨pw2, sm2⟩ := r2
            simp only at h
            split at h
            · cases h
            · rename_i p0 hp0
              split at h
              · rename_i hcond
                split at h
                · cases h
                · rename_i r3 hr3
                  obtain ⟨bat', avg⟩ := r3
                  simp only [Except.ok.injEq] at h
                  subst h
                  right
                  simp only [Bool.and_eq_true] at hcond
                  obtain ⟨h0, _⟩ := hcond
                  exact ⟨st.sortedIdx, cost, startIdx, le_refl _, hsorted, h0,
                    by have := samePrice_next env sorted st.sortedIdx cost startIdx; exact this, rfl⟩
              · rcases ih _ st' h with hfr | ⟨j, c, s, hj, hsj, hc0, hlt, hdis⟩
                · exact Or.inl hfr
                · right
                  refine ⟨j, c, s, ?_, hsj, hc0, hlt, hdis⟩
                  have := samePrice_next env sorted st.sortedIdx cost startIdx
                  have hj' : (samePrice env sorted st.sortedIdx cost startIdx).2 ≤ j := hj
                  omega

/-- if the price group at the head of the order does not contain the current timestep and the
simulated SoC after planning that group meets the target of the next price level (or there is none),
the planning loop ends without booking anything: only `power`, the simulated battery and the loop
index change -/
theorem chargeLoop_cheapest_suffices (ops : Ops α B) (env : Env α) (v : VehicleS α B)
    (ts : List (TS α)) (sorted : List (α × Nat)) (fuel : Nat) (st : VSt α B) (c0 : α) (s0 : Nat)
    (hs : sorted[st.sortedIdx]? = some (c0, s0))
    (hne : (samePrice env sorted st.sortedIdx c0 s0).1.contains 0 = false)
    (hnot : ¬ desiredAt env v c0 ≤ ops.soc st.sim)
    (pw1 : List α) (sm1 : B)
    (h1 : naivePass ops st.cs v.minChargingPower ts (samePrice env sorted st.sortedIdx c0 s0).1
      st.power st.sim = .ok (pw1, sm1))
    (pw2 : List α) (sm2 : B)
    (h2 : (if desiredAt env v c0 ≤ ops.soc sm1 then
        bisect ops env.eps st.cs v.minChargingPower ts (samePrice env sorted st.sortedIdx c0 s0).1
          (ops.soc st.sim) (desiredAt env v c0) bisectFuel 0 (st.cs.maxPower - pymin st.cs.currentPower 0) false pw1 sm1
      else pure (pw1, sm1)) = .ok (pw2, sm2))
    (hp : pw2 ≠ [])
    (hnext : ∀ c1 s1, sorted[(samePrice env sorted st.sortedIdx c0 s0).2]? = some (c1, s1) →
      desiredAt env v c1 ≤ ops.soc sm2) :
    ∃ idx, chargeLoop ops env v ts sorted (fuel + 2) st =
      .ok { st with sortedIdx := idx, power := pw2, sim := sm2 } := by
  unfold desiredAt at hnot h2 hnext
  obtain ⟨p0, rest, rfl⟩ := List.exists_cons_of_ne_nil hp
  unfold chargeLoop
  simp only [hs, if_neg hnot, bind, Except.bind, h1]
  simp only [h2, List.head?_cons]
  have hcond : ((samePrice env sorted st.sortedIdx c0 s0).1.contains 0 && !isZero p0) = false := by
    rw [hne]; rfl
  simp only [hcond, Bool.false_eq_true, if_false]
  unfold chargeLoop
  cases hn : sorted[(samePrice env sorted st.sortedIdx c0 s0).2]? with
  | none => exact ⟨(samePrice env sorted st.sortedIdx c0 s0).2, by simp only [hn]⟩
  | some e =>
    obtain ⟨c1, s1⟩ := e
    have := hnext c1 s1 hn
    exact ⟨0, by simp only [hn, if_pos this]⟩

/-- (repair BM1) if the price group being planned contains the current timestep and its planned power
is not zero, that pass books the real charge `load(target_power = power[0])` — whether or not the
current timestep is the first member of the group -/
theorem chargeLoop_present_in_group (ops : Ops α B) (env : Env α) (v : VehicleS α B)
    (ts : List (TS α)) (sorted : List (α × Nat)) (fuel : Nat) (st : VSt α B) (c0 : α) (s0 : Nat)
    (hs : sorted[st.sortedIdx]? = some (c0, s0))
    (hin : (samePrice env sorted st.sortedIdx c0 s0).1.contains 0 = true)
    (hnot : ¬ desiredAt env v c0 ≤ ops.soc st.sim)
    (pw1 : List α) (sm1 : B)
    (h1 : naivePass ops st.cs v.minChargingPower ts (samePrice env sorted st.sortedIdx c0 s0).1
      st.power st.sim = .ok (pw1, sm1))
    (p0 : α) (rest : List α) (sm2 : B)
    (h2 : (if desiredAt env v c0 ≤ ops.soc sm1 then
        bisect ops env.eps st.cs v.minChargingPower ts (samePrice env sorted st.sortedIdx c0 s0).1
          (ops.soc st.sim) (desiredAt env v c0) bisectFuel 0 (st.cs.maxPower - pymin st.cs.currentPower 0) false pw1 sm1
      else pure (pw1, sm1)) = .ok (p0 :: rest, sm2))
    (hp0 : p0 ≠ 0) (bat' : B) (avg : α)
    (hl : ops.load st.bat none none (some p0) = .ok (bat', avg)) :
    chargeLoop ops env v ts sorted (fuel + 1) st =
      .ok ({ st with sortedIdx := (samePrice env sorted st.sortedIdx c0 s0).2, power := p0 :: rest,
                     sim := sm2, bat := bat' }.book avg) := by
  unfold desiredAt at hnot h2
  unfold chargeLoop
  simp only [hs, if_neg hnot, bind, Except.bind, h1]
  simp only [h2, List.head?_cons]
  have hz : isZero p0 = false := by
    rcases h : isZero p0 with _ | _
    · rfl
    · exact absurd ((isZero_iff p0).mp h) hp0
  have hcond : ((samePrice env sorted st.sortedIdx c0 s0).1.contains 0 && !isZero p0) = true := by
    rw [hin, hz]; rfl
  simp only [hcond, if_true, hl]

/-! ### cheapest first: the order in which the timesteps are planned -/

def tsLe (a b : α × Nat) : Bool :=
  decide (a.1 < b.1) || (!(decide (b.1 < a.1)) && decide (a.2 ≤ b.2))

theorem tsLe_iff (a b : α × Nat) : tsLe a b = true ↔ a.1 < b.1 ∨ (a.1 = b.1 ∧ a.2 ≤ b.2) := by
  unfold tsLe
  simp only [Bool.or_eq_true, decide_eq_true_eq, Bool.and_eq_true, Bool.not_eq_true',
    decide_eq_false_iff_not, not_lt]
  constructor
  · rintro (h | ⟨h1, h2⟩)
    · exact Or.inl h
    · rcases lt_or_eq_of_le h1 with h | h
      · exact Or.inl h
      · exact Or.inr ⟨h, h2⟩
  · rintro (h | ⟨h1, h2⟩)
    · exact Or.inl h
    · exact Or.inr ⟨h1.le, h2⟩

theorem tsLe_trans (a b c : α × Nat) (h1 : tsLe a b = true) (h2 : tsLe b c = true) :
    tsLe a c = true := by
  rw [tsLe_iff] at *
  rcases h1 with h1 | ⟨e1, l1⟩ <;> rcases h2 with h2 | ⟨e2, l2⟩
  · exact Or.inl (lt_trans h1 h2)
  · exact Or.inl (e2 ▸ h1)
  · exact Or.inl (e1 ▸ h2)
  · exact Or.inr ⟨e1.trans e2, le_trans l1 l2⟩

theorem tsLe_total (a b : α × Nat) : (tsLe a b || tsLe b a) = true := by
  rw [Bool.or_eq_true, tsLe_iff, tsLe_iff]
  rcases lt_trichotomy a.1 b.1 with h | h | h
  · exact Or.inl (Or.inl h)
  · rcases le_total a.2 b.2 with l | l
    · exact Or.inl (Or.inr ⟨h, l⟩)
    · exact Or.inr (Or.inr ⟨h.symm, l⟩)
  · exact Or.inr (Or.inl h)

theorem insertSorted_perm {β : Type} (le : β → β → Bool) (x : β) (l : List β) :
    (insertSorted le x l).Perm (x :: l) := by
  induction l with
  | nil => exact List.Perm.refl _
  | cons y ys ih =>
    unfold insertSorted
    split
    · exact List.Perm.refl _
    · exact ((List.Perm.cons y ih).trans (List.Perm.swap x y ys))

theorem isort_perm {β : Type} (le : β → β → Bool) (l : List β) : (isort le l).Perm l := by
  induction l with
  | nil => exact List.Perm.refl _
  | cons x xs ih =>
    unfold isort
    exact (insertSorted_perm le x _).trans (List.Perm.cons x ih)

theorem insertSorted_pairwise {β : Type} (le : β → β → Bool)
    (trans : ∀ a b c, le a b = true → le b c = true → le a c = true)
    (total : ∀ a b, (le a b || le b a) = true) (x : β) (l : List β)
    (h : l.Pairwise (fun a b => le a b = true)) :
    (insertSorted le x l).Pairwise (fun a b => le a b = true) := by
  induction l with
  | nil => simp [insertSorted]
  | cons y ys ih =>
    unfold insertSorted
    rw [List.pairwise_cons] at h
    split
    · rename_i hxy
      rw [List.pairwise_cons]
      refine ⟨?_, List.pairwise_cons.mpr h⟩
      intro b hb
      rcases List.mem_cons.mp hb with rfl | hb
      · exact hxy
      · exact trans _ _ _ hxy (h.1 b hb)
    · rename_i hxy
      have hyx : le y x = true := by
        have := total x y
        simp only [Bool.or_eq_true] at this
        rcases this with h1 | h1
        · exact absurd h1 hxy
        · exact h1
      rw [List.pairwise_cons]
      refine ⟨?_, ih h.2⟩
      intro b hb
      rcases List.mem_cons.mp ((insertSorted_perm le x ys).mem_iff.mp hb) with rfl | hb
      · exact hyx
      · exact h.1 b hb

theorem isort_pairwise {β : Type} (le : β → β → Bool)
    (trans : ∀ a b c, le a b = true → le b c = true → le a c = true)
    (total : ∀ a b, (le a b || le b a) = true) (l : List β) :
    (isort le l).Pairwise (fun a b => le a b = true) := by
  induction l with
  | nil => simp [isort]
  | cons x xs ih =>
    unfold isort
    exact insertSorted_pairwise le trans total x _ ih

/-- `sorted_ts` is a rearrangement of the (price, index) pairs of the timesteps in which the vehicle
is present, ordered by price (cheapest first), equal prices by time -/
theorem sortedTs_spec (vts : List (TS α)) (sorted : List (α × Nat)) (h : sortedTs vts = .ok sorted) :
    ∃ costs : List α, vts.mapM (fun t => cost1 t.cost) = .ok costs ∧
      sorted.Perm costs.zipIdx ∧
      sorted.Pairwise (fun a b => a.1 < b.1 ∨ (a.1 = b.1 ∧ a.2 ≤ b.2)) := by
  unfold sortedTs at h
  simp only [bind, Except.bind] at h
  split at h
  · cases h
  · rename_i costs hc
    simp only [Except.ok.injEq] at h
    subst h
    refine ⟨costs, hc, isort_perm _ _, ?_⟩
    have := isort_pairwise (fun (a b : α × Nat) => tsLe a b)
      (fun a b c h1 h2 => tsLe_trans a b c h1 h2) (fun a b => tsLe_total a b) costs.zipIdx
    refine List.Pairwise.imp ?_ this
    intro a b hab
    exact (tsLe_iff a b).mp hab

/-! ### prices that never fall: planning order = time order -/

theorem isort_of_pairwise {β : Type} (le : β → β → Bool) (l : List β)
    (h : l.Pairwise (fun a b => le a b = true)) : isort le l = l := by
  induction l with
  | nil => rfl
  | cons x xs ih =>
    rw [List.pairwise_cons] at h
    unfold isort
    rw [ih h.2]
    cases xs with
    | nil => rfl
    | cons y ys =>
      unfold insertSorted
      rw [if_pos (h.1 y (List.mem_cons_self ..))]

theorem mem_zipIdx_ge {β : Type} : ∀ (xs : List β) (k : Nat) (b : β × Nat),
    b ∈ xs.zipIdx k → k ≤ b.2 ∧ b.1 ∈ xs := by
  intro xs
  induction xs with
  | nil => intro k b hb; simp at hb
  | cons x xs ih =>
    intro k b hb
    rw [List.zipIdx_cons] at hb
    rcases List.mem_cons.mp hb with rfl | hb
    · exact ⟨le_refl _, List.mem_cons_self ..⟩
    · obtain ⟨h1, h2⟩ := ih (k + 1) b hb
      exact ⟨by omega, List.mem_cons_of_mem _ h2⟩

theorem zipIdx_pairwise_tsLe : ∀ (costs : List α) (k : Nat), costs.Pairwise (· ≤ ·) →
    (costs.zipIdx k).Pairwise (fun a b => tsLe a b = true) := by
  intro costs
  induction costs with
  | nil => intro k _; simp
  | cons x xs ih =>
    intro k h
    rw [List.pairwise_cons] at h
    rw [List.zipIdx_cons, List.pairwise_cons]
    refine ⟨?_, ih (k + 1) h.2⟩
    intro b hb
    obtain ⟨h1, h2⟩ := mem_zipIdx_ge xs (k + 1) b hb
    rw [tsLe_iff]
    rcases lt_or_eq_of_le (h.1 b.1 h2) with hlt | heq
    · exact Or.inl hlt
    · exact Or.inr ⟨heq, by show k ≤ b.2; omega⟩

/-- when the prices of the timesteps in which the vehicle is present never fall, the planning order is
the time order -/
theorem sortedTs_time_order (vts : List (TS α)) (costs : List α)
    (hc : vts.mapM (fun t => cost1 t.cost) = .ok costs) (hmono : costs.Pairwise (· ≤ ·)) :
    sortedTs vts = .ok costs.zipIdx := by
  unfold sortedTs
  simp only [bind, Except.bind, hc]
  congr 1
  exact isort_of_pairwise _ _ (zipIdx_pairwise_tsLe costs 0 hmono)

/-! ### connector headroom: the planning loop -/

/-- the power planned for the current timestep is within the forecast headroom `t0.power` (or 0) -/
def HInv (t0 : TS α) (power : List α) : Prop := ∀ p, power[0]? = some p → p ≤ max 0 t0.power

theorem HInv_set (t0 : TS α) (ts : List (TS α)) (h0 : ts[0]? = some t0) (power : List α)
    (i : Nat) (t : TS α) (p : α) (ht : lget ts i = .ok t) (hp : p ≤ max 0 t.power)
    (h : HInv t0 power) : HInv t0 (power.set i p) := by
  intro q hq
  cases power with
  | nil => simp at hq
  | cons x xs =>
    cases i with
    | zero =>
      simp only [List.set_cons_zero, List.getElem?_cons_zero, Option.some.injEq] at hq
      subst hq
      unfold lget at ht
      rw [h0] at ht
      simp only [Except.ok.injEq] at ht
      subst ht
      exact hp
    | succ n =>
      simp only [List.set_cons_succ, List.getElem?_cons_zero, Option.some.injEq] at hq
      subst hq
      exact h _ (by simp)

theorem clampV_le (cs : StationS α) (vmin p : α) : clampV cs vmin p ≤ max 0 p :=
  (clampPower_bounds _ _ _ _ _).2

theorem naivePass_HInv (ops : Ops α B) (cs : StationS α) (vmin : α) (ts : List (TS α)) (t0 : TS α)
    (h0 : ts[0]? = some t0) (same : List Nat) (power power' : List α) (sim sim' : B)
    (hp : HInv t0 power)
    (h : naivePass ops cs vmin ts same power sim = .ok (power', sim')) : HInv t0 power' := by
  unfold naivePass at h
  refine foldlM_inv _ (fun st => HInv t0 st.1) ?_ same (power, sim) (power', sim') hp h
  intro s i s' hs hstep
  simp only [bind, Except.bind] at hstep
  split at hstep
  · cases hstep
  · rename_i t ht
    split at hstep
    · cases hstep
    · simp only [pure, Except.pure, Except.ok.injEq] at hstep
      subst hstep
      exact HInv_set t0 ts h0 _ i t _ ht (clampV_le cs vmin _) hs

theorem bisectPass_HInv (ops : Ops α B) (cs : StationS α) (vmin : α) (ts : List (TS α)) (t0 : TS α)
    (h0 : ts[0]? = some t0) (same : List Nat) (cur : α) (power power' : List α) (sim sim' : B)
    (hp : HInv t0 power)
    (h : bisectPass ops cs vmin ts same cur power sim = .ok (power', sim')) : HInv t0 power' := by
  unfold bisectPass at h
  refine foldlM_inv _ (fun st => HInv t0 st.1) ?_ same (power, sim) (power', sim') hp h
  intro s i s' hs hstep
  simp only [bind, Except.bind] at hstep
  split at hstep
  · cases hstep
  · rename_i t ht
    split at hstep
    · cases hstep
    · simp only [pure, Except.pure, Except.ok.injEq] at hstep
      subst hstep
      refine HInv_set t0 ts h0 _ i t _ ht ?_ hs
      refine le_trans (clampV_le cs vmin _) ?_
      simp only [pymin_eq]
      exact max_le_max (le_refl _) (min_le_left _ _)

theorem bisect_HInv (ops : Ops α B) (eps : α) (cs : StationS α) (vmin : α) (ts : List (TS α))
    (t0 : TS α) (h0 : ts[0]? = some t0) (same : List Nat) (oldSoc desired : α) :
    ∀ (fuel : Nat) (minP maxP : α) (safe : Bool) (power power' : List α) (sim sim' : B),
      HInv t0 power →
      bisect ops eps cs vmin ts same oldSoc desired fuel minP maxP safe power sim = .ok (power', sim') →
      HInv t0 power' := by
  intro fuel
  induction fuel with
  | zero => intro minP maxP safe power power' sim sim' hp h; simp [bisect] at h
  | succ n ih =>
    intro minP maxP safe power power' sim sim' hp h
    unfold bisect at h
    split at h
    · simp only [bind, Except.bind] at h
      split at h
      · cases h
      · rename_i r hr
        obtain ⟨pw, sm⟩ := r
        have hpw := bisectPass_HInv ops cs vmin ts t0 h0 same _ power pw _ sm hp hr
        simp only at h
        split at h
        · exact ih _ _ _ pw power' sm sim' hpw h
        · exact ih _ _ _ pw power' sm sim' hpw h
    · simp only [Except.ok.injEq, Prod.mk.injEq] at h
      obtain ⟨rfl, _⟩ := h
      exact hp

/-- the planning loop raises the connector load by at most the forecast headroom of the current
timestep (and never lowers it) -/
theorem chargeLoop_headroom (ops : Ops α B) (law : BatLaw ops.toBatOps) (env : Env α) (v : VehicleS α B)
    (ts : List (TS α)) (t0 : TS α) (h0 : ts[0]? = some t0) (sorted : List (α × Nat)) :
    ∀ (fuel : Nat) (st st' : VSt α B), HInv t0 st.power →
      chargeLoop ops env v ts sorted fuel st = .ok st' →
      st.gc.currentLoad ≤ st'.gc.currentLoad ∧
      st'.gc.currentLoad ≤ st.gc.currentLoad + max 0 t0.power ∧ st'.gc.curMax = st.gc.curMax := by
  intro fuel
  induction fuel with
  | zero => intro st st' _ h; simp [chargeLoop] at h
  | succ n ih =>
    intro st st' hp h
    have hmx : (0 : α) ≤ max 0 t0.power := le_max_left _ _
    unfold chargeLoop at h
    split at h
    · simp only [Except.ok.injEq] at h; subst h; exact ⟨le_refl _, by linarith, rfl⟩
    · rename_i cost startIdx hsorted
      simp only at h
      generalize ((if cost < env.priceThreshold then 1 else v.desiredSoc) - env.eps) = desired at h
      split at h
      · simp only [Except.ok.injEq] at h; subst h; exact ⟨le_refl _, by simp, rfl⟩
      · simp only [bind, Except.bind] at h
        split at h
        · cases h
        · rename_i r1 hr1
          obtain ⟨pw1, sm1⟩ := r1
          have hp1 := naivePass_HInv ops st.cs v.minChargingPower ts t0 h0 _ st.power pw1 st.sim sm1 hp hr1
          simp only at h
          split at h
          · cases h
          · rename_i r2 hr2
            obtain ⟨pw2, sm2⟩ := r2
            have hp2 : HInv t0 pw2 := by
              split at hr2
              · exact bisect_HInv ops env.eps st.cs v.minChargingPower ts t0 h0 _ _ _ _ _ _ _ pw1 pw2 sm1 sm2 hp1 hr2
              · simp only [pure, Except.pure, Except.ok.injEq, Prod.mk.injEq] at hr2
                obtain ⟨rfl, _⟩ := hr2
                exact hp1
            simp only at h
            split at h
            · cases h
            · rename_i p0 hp0
              split at h
              · split at h
                · cases h
                · rename_i r3 hr3
                  obtain ⟨bat', avg⟩ := r3
                  simp only [Except.ok.injEq] at h
                  subst h
                  have hle : p0 ≤ max 0 t0.power := hp2 p0 (by rw [← List.head?_eq_getElem?]; exact hp0)
                  have hl := law.load_target _ _ _ _ hr3
                  obtain ⟨hc1, hc2, _, _⟩ := addLoad_currentLoad st.gc st.cs.id avg
                  have hav : avg ≤ max 0 t0.power := le_trans hl.2 (max_le hle hmx)
                  refine ⟨?_, ?_, ?_⟩
                  · show st.gc.currentLoad ≤ (st.gc.addLoad st.cs.id avg).1.currentLoad
                    rw [hc1]; linarith [hl.1]
                  · show (st.gc.addLoad st.cs.id avg).1.currentLoad ≤ _
                    rw [hc1]; linarith
                  · exact hc2
              · exact ih { st with sortedIdx := (samePrice env sorted st.sortedIdx cost startIdx).2, power := pw2, sim := sm2 } st' hp2 h

/-! ### the planning window (remaining timesteps, rounded up) -/

theorem ceilDiv_eq' (a b : Int) (hb : 0 ≤ b) : ceilDiv a b = -((-a) / b) := by
  unfold ceilDiv
  have h : a.fdiv (-b) = (-a).fdiv b := by
    have := Int.neg_fdiv_neg (-a) b
    rwa [Int.neg_neg] at this
  rw [h, Int.fdiv_eq_ediv_of_nonneg _ hb]

theorem ceilDiv_spec' (a b : Int) (hb : 0 < b) :
    (ceilDiv a b - 1) * b < a ∧ a ≤ ceilDiv a b * b := by
  rw [ceilDiv_eq' a b hb.le]
  have h1 := Int.emod_add_mul_ediv (-a) b
  have h2 := Int.emod_nonneg (-a) hb.ne'
  have h3 := Int.emod_lt_of_pos (-a) hb
  constructor <;> nlinarith

/-- every timestep that begins before the estimated departure is in the planning window
`timesteps[:ts_leave]` -/
theorem sliceTo_window {β : Type} (ts : List β) (now etd interval : Int) (hi : 0 < interval) (k : Nat)
    (hk : (k : Int) * interval < etd - now) :
    (sliceTo ts (ceilDiv (etd - now) interval))[k]? = ts[k]? := by
  obtain ⟨_, h2⟩ := ceilDiv_spec' (etd - now) interval hi
  have hlt : (k : Int) < ceilDiv (etd - now) interval := by
    by_contra hc
    have hc' : ceilDiv (etd - now) interval ≤ k := not_lt.mp hc
    have : ceilDiv (etd - now) interval * interval ≤ (k : Int) * interval :=
      Int.mul_le_mul_of_nonneg_right hc' hi.le
    linarith
  have hpos : 0 ≤ ceilDiv (etd - now) interval := by omega
  unfold sliceTo
  rw [if_pos hpos, List.getElem?_take]
  have : k < (ceilDiv (etd - now) interval).toNat := by omega
  rw [if_pos this]

end SpiceEv.BalancedMarket
