/-
C04 — Grid-connector power limit, strategy flex_window (Model/StratFlexWindow.lean, tied to
spice_ev/strategies/flex_window.py step by step at the bit level by harness/s_flex_window.py).

What is proved here is about the whole `FlexWindow.step` with LOAD_STRAT = "balanced" (the default):
forecast, `distribute_balanced_vehicles`, `distribute_surplus_to_vehicles` / `distribute_balanced_v2g`,
`load_surplus_to_batteries` / `distribute_balanced_batteries`, for every world with one connector (the
class asserts that), any vehicles, stations, batteries, future events, and any battery obeying the
law `FwLaw` (0 ≤ average power ≤ offered power — C01/C02).

The model is the code WITH the repairs fixes/FW1 … FW5 (see notes/S_FLEX_WINDOW.md, "Repairs"). Before them the
code broke the limit in three situations: LOAD_STRAT greedy (`distribute_power` offered every vehicle the whole
budget — FW4), greedy/needy battery/V2G passes budgeting against the *forecast* load (FW5), and LOAD_STRAT
balanced outside a window when a stationary battery discharged after V2G discharge had made the connector load
negative (FW3 — the case formerly excluded in `C04_flex_window_balanced_lower_partial`).
-/
import SpiceEv.Proofs.StratFlexWindow
set_option linter.unusedSectionVars false
namespace SpiceEv
open SpiceEv.FlexWindow
variable {α B : Type} [Field α] [LinearOrder α] [IsStrictOrderedRing α]

/-- **flex_window (balanced) never draws more than the limit.** If before the step the connector's
load (fixed load − generation) is at most its currently valid limit `cur_max ≥ 0`, it still is after
the whole step; the connector keeps its id and limit. No hypothesis on windows, events, batteries,
V2G, minimum powers; the bisection results are irrelevant (every applied power is re-checked against
the headroom of the step — which is exactly what the greedy/needy branch does not do). -/
theorem C04_flex_window_balanced_upper (ops : BatOps α B) (law : FwLaw ops) (env : FEnv α)
    (hstrat : env.strat = .balanced) (heps : 0 ≤ env.base.eps)
    (w w' : SWorld α B) (window win' : Option Bool) (events : List (FEvent α))
    (cmds : List (String × α)) (g : GcS α) (hg : w.gcs = [g]) (hM : 0 ≤ g.curMax)
    (h0 : g.currentLoad ≤ g.curMax)
    (h : FlexWindow.step ops env w window events = .ok (w', win', cmds)) :
    ∃ g', w'.gcs = [g'] ∧ g'.id = g.id ∧ g'.curMax = g.curMax ∧ g'.currentLoad ≤ g'.curMax := by
  obtain ⟨g', hg', h1, h2, h3, _, _⟩ :=
    step_balanced_rel ops law env hstrat heps false w w' window win' events cmds g hg hM h
  exact ⟨g', hg', h2, h1, by rw [h1]; exact le_trans h3 (max_le h0 (le_refl _))⟩

/-- **In a window step nothing is discharged** (balanced): when the window in force for the step
(`gc.window` after the step) is open, the connector load never decreases — so the feed-in limit
`−cur_max ≤ load` is preserved as well. -/
theorem C04_flex_window_balanced_window_monotone (ops : BatOps α B) (law : FwLaw ops) (env : FEnv α)
    (hstrat : env.strat = .balanced) (heps : 0 ≤ env.base.eps)
    (w w' : SWorld α B) (window win' : Option Bool) (events : List (FEvent α))
    (cmds : List (String × α)) (g : GcS α) (hg : w.gcs = [g]) (hM : 0 ≤ g.curMax)
    (hwin : win' = some true)
    (h : FlexWindow.step ops env w window events = .ok (w', win', cmds)) :
    ∃ g', w'.gcs = [g'] ∧ g.currentLoad ≤ g'.currentLoad := by
  obtain ⟨g', hg', _, _, _, h4, _⟩ :=
    step_balanced_rel ops law env hstrat heps false w w' window win' events cmds g hg hM h
  exact ⟨g', hg', h4 (by rw [hwin]; rfl)⟩

/-- **flex_window (balanced) never feeds in more than the limit** (code with repair FW3): if before the step
`−cur_max ≤ load`, it still is after the whole step — no side condition. V2G discharge outside a window is
bounded by `cur_max + load`; since FW3 `distribute_balanced_batteries` bounds its discharge bracket by the
same feed-in headroom (`max_power = min(cur_max − load, cur_max + load)` when discharging), so the batteries
together take at most `max (cur_max + load) 0`. (Before FW3 this needed "no stationary battery or no V2G
vehicle": finding `C04:strategy_breaks_limit:flex_window:feedin:batteries`, mechanism 3a.) -/
theorem C04_flex_window_balanced_lower (ops : BatOps α B) (law : FwLaw ops) (env : FEnv α)
    (hstrat : env.strat = .balanced) (heps : 0 ≤ env.base.eps)
    (w w' : SWorld α B) (window win' : Option Bool) (events : List (FEvent α))
    (cmds : List (String × α)) (g : GcS α) (hg : w.gcs = [g]) (hM : 0 ≤ g.curMax)
    (h0 : -g.curMax ≤ g.currentLoad)
    (h : FlexWindow.step ops env w window events = .ok (w', win', cmds)) :
    ∃ g', w'.gcs = [g'] ∧ g'.curMax = g.curMax ∧ -g'.curMax ≤ g'.currentLoad := by
  obtain ⟨g', hg', h1, _, _, _, h5⟩ :=
    step_balanced_rel ops law env hstrat heps true w w' window win' events cmds g hg hM h
  refine ⟨g', hg', h1, ?_⟩
  rw [h1]
  exact le_trans (le_min h0 (le_refl _)) (h5 rfl)

/-- **flex_window (greedy) keeps the connector within ± the limit** — whole `step` with LOAD_STRAT greedy, code with
the repairs FW1 … FW5: if before the step `−cur_max ≤ load ≤ cur_max` (`0 ≤ cur_max`), it still is afterwards, for
every world with one connector. FW4: `distribute_power` hands out at most the budget `total_power − load ≤
cur_max − load` in total (`distributePower_greedy_sum`); FW5: the V2G pass and the battery pass bound the current
step by the actual headroom `cur_max ∓ load`; the surplus pass (`Strategy.distribute_surplus_power`) charges at most
the surplus and discharges at most the load. (Before the repairs false: findings `draw:vehicles`, `draw:batteries`,
`feedin:*`.) -/
theorem C04_flex_window_greedy_limit (ops : BatOps α B) (law : FwLaw ops) (env : FEnv α)
    (hstrat : env.strat = .greedy) (heps : 0 ≤ env.base.eps)
    (w w' : SWorld α B) (window win' : Option Bool) (events : List (FEvent α))
    (cmds : List (String × α)) (g : GcS α) (hg : w.gcs = [g]) (hM : 0 ≤ g.curMax)
    (hlo : -g.curMax ≤ g.currentLoad) (hhi : g.currentLoad ≤ g.curMax)
    (h : FlexWindow.step ops env w window events = .ok (w', win', cmds)) :
    ∃ g', w'.gcs = [g'] ∧ g'.curMax = g.curMax ∧ -g'.curMax ≤ g'.currentLoad ∧ g'.currentLoad ≤ g'.curMax := by
  obtain ⟨g', hg', h1, _, h3, _, h5⟩ :=
    step_ps_rel ops law env (by rw [hstrat]; decide) (DPBound.greedy ops law.toBatLaw env hstrat) heps
      w w' window win' events cmds g hg hM h
  refine ⟨g', hg', h1, ?_, ?_⟩
  · rw [h1]; exact le_trans (le_min hlo (le_refl _)) (h5 rfl)
  · rw [h1]; exact le_trans h3 (max_le hhi (le_refl _))

/-- **flex_window (needy) keeps the connector within ± the limit** — same statement for LOAD_STRAT needy (code with
FW1 … FW5), in exact arithmetic: the builtin `sum` is the plain sum and battery capacities are ≥ 0, so that the shares
`energy_i / Σ energy` of `distribute_power` add up to 1 (`distributePower_needy_sum`). In floating point the shares can
add up to 1 + a few ulp; that slack is below the monitor's EPS and outside this theorem. -/
theorem C04_flex_window_needy_limit (ops : BatOps α B) (law : FwLaw ops) (env : FEnv α)
    (hstrat : env.strat = .needy) (hsum : env.sum = List.sum) (hcap : ∀ b, 0 ≤ ops.capacity b)
    (heps : 0 ≤ env.base.eps)
    (w w' : SWorld α B) (window win' : Option Bool) (events : List (FEvent α))
    (cmds : List (String × α)) (g : GcS α) (hg : w.gcs = [g]) (hM : 0 ≤ g.curMax)
    (hlo : -g.curMax ≤ g.currentLoad) (hhi : g.currentLoad ≤ g.curMax)
    (h : FlexWindow.step ops env w window events = .ok (w', win', cmds)) :
    ∃ g', w'.gcs = [g'] ∧ g'.curMax = g.curMax ∧ -g'.curMax ≤ g'.currentLoad ∧ g'.currentLoad ≤ g'.curMax := by
  obtain ⟨g', hg', h1, _, h3, _, h5⟩ :=
    step_ps_rel ops law env (by rw [hstrat]; decide) (DPBound.needy ops law.toBatLaw env hstrat hsum hcap) heps
      w w' window win' events cmds g hg hM h
  refine ⟨g', hg', h1, ?_, ?_⟩
  · rw [h1]; exact le_trans (le_min hlo (le_refl _)) (h5 rfl)
  · rw [h1]; exact le_trans h3 (max_le hhi (le_refl _))

/-- Non-vacuity (greedy and needy, one vehicle, kernel-checked; the example environment uses `List.sum` and the ideal
battery has capacity 10): a V2G-capable vehicle at a 2 kW station on a 10 kW connector gets 2 kW. -/
example : resLoads (FlexWindow.step idealOps (exEnv .greedy) exWorld5 (some true) []) = some ([2], [2]) := by
  decide +kernel
example : resLoads (FlexWindow.step idealOps (exEnv .needy) exWorld5 (some true) []) = some ([2], [2]) := by
  decide +kernel
example : (exEnv .needy).sum = List.sum ∧ ∀ b, 0 ≤ idealOps.capacity b := ⟨rfl, fun _ => by simp [idealOps]⟩
/- needy, two vehicles on the 3 kW connector: 1.5 kW each (evaluated) -/
#guard resLoads (FlexWindow.step idealOps (exEnv .needy) exWorld2 (some true) []) == some ([3], [3 / 2, 3 / 2])

/-- **The fuel of every bisection suffices.** A bisection of the model (`while hi − lo > EPS`) started
with `hi − lo ≤ EPS · 2^fuel` never reports FUEL by itself (the driver runs with fuel 200, the
brackets of flex_window are at most `2 · cur_max`, so 200 halvings cover every connector below
`1e-5 · 2^199` kW). -/
theorem C04_flex_window_bisect_fuel {σ : Type} (eps : α) (body : α → σ → FPy (Bool × σ))
    (fuel : Nat) (lo hi : α) (st : σ) (hgap : hi - lo ≤ eps * 2 ^ fuel)
    (h : bisectM eps body fuel lo hi st = .error (.py .fuel)) :
    ∃ mid s, body mid s = .error (.py .fuel) :=
  bisectM_fuel eps body fuel lo hi st hgap h

/-- Non-vacuity: the ideal battery obeys the law; on a 10 kW connector with 3 kW load the balanced
step charges one vehicle and ends at ≈ 5 kW. -/
example : FwLaw idealOps := idealOps_law
example : resLoads (FlexWindow.step idealOps (exEnv .balanced) exWorld (some true) []) =
    some ([10485701 / 2097152], [4194245 / 2097152]) := by decide +kernel
/- two vehicles on a 3 kW connector, balanced: the second one gets what is left, the load is exactly 3
(`#guard`: evaluated, not kernel-checked — `List.mergeSort` on two elements does not reduce in the kernel) -/
#guard resLoads (FlexWindow.step idealOps (exEnv .balanced) exWorld2 (some true) []) ==
    some ([3], [4194245 / 2097152, 2097211 / 2097152])

/- greedy after repair FW4 (`distribute_power` subtracts what a vehicle took): the first vehicle takes the whole
3 kW, the second gets nothing, the connector ends at exactly 3 kW (before FW4: ≈ 2 kW each = 4 kW on the 3 kW
connector, finding `C04:strategy_breaks_limit:flex_window:draw:vehicles`). -/
#guard resLoads (FlexWindow.step idealOps (exEnv .greedy) exWorld2 (some true) []) == some ([3], [3, 0])

/-- **The former witness (balanced, V2G vehicle + battery outside a window) after repair FW3:** the full V2G vehicle
discharges ≈ 5 kW (allowed: 4 + 1), the connector is at ≈ −4 kW, the battery's bracket `min(4 − load, 4 + load)`
is ≈ 0 and it adds nothing more: the 4 kW connector ends at ≈ −3.99999 kW (before FW3: −7.3 kW). -/
example : resLoads (FlexWindow.step idealOps (exEnv .balanced) exWorld3 (some false) []) =
    some ([-1099509530619 / 274877906944], [-2621435 / 524288]) := by decide +kernel

/-- Non-vacuity of the side condition "battery but no V2G vehicle": outside a window the vehicle of
`exWorldBat` takes ≈ 2 kW, the battery discharges ≈ 3.3 kW, the connector ends at ≈ 1.7 kW (within ±10 kW). -/
def exWorldBat : SWorld ℚ ℚ :=
  ⟨[⟨"GC", 10, some (.fixed (3/10)), [("load", 3)]⟩], [⟨"CS", "GC", 11, 0, 0⟩],
   [⟨"v1", some "CS", 4/5, some (3 * hourUs), 0, false, 1/2, 1/5⟩], [⟨"BAT", "GC", 0, 1⟩]⟩
example : resLoads (FlexWindow.step idealOps (exEnv .balanced) exWorldBat (some false) []) =
    some ([7330098956539 / 4398046511104], [4194245 / 2097152]) := by decide +kernel

end SpiceEv
