/-
Models of the strategy constructors (`__init__`) as far as they derive state that `step` (or the run loop) uses later:

* `Strategy.__init__`            (spice_ev/strategy.py)                  → `baseInit`
* `PeakLoadWindow.__init__`      (strategies/peak_load_window.py)        → `plwInit`   (complete: JSON window table
    conversion, year replacement, connector defaults, signal-time shifting of the local events, look-ahead end, event
    table, initial peak power — the peak loop itself is `PeakLoadWindow.initPeaks` of Model/StratPeakLoadWindow.lean)
* `Schedule.__init__`            (strategies/schedule.py)                → `scheduleInit`
* `FlexWindow.__init__`          (strategies/flex_window.py)             → `flexWindowInit`
* `BalancedMarket.__init__`      (strategies/balanced_market.py)         → `marketInit` (= `baseInit` + the signal shift
                                   `horizonShift`, the same function as `BalancedMarket.initSignalTime` of
                                   Model/StratBalancedMarket.lean that the strategy's own tie runs)
* `PeakShaving.__init__`         (strategies/peak_shaving.py)            → `peakShavingInit` (= `baseInit` + the options
                                   HORIZON / perfect_foresight + `PeakShaving.initEvents` of Model/StratPeakShaving.lean)

Core Lean only (the driver links without Mathlib).  Transliterated statement by statement, including the exceptions
raised for bad options / bad files.

Representation (what the adapter `harness/s_init.py` copies field by field — it never computes a derived value):
* a date string of the JSON file: `DateStr.ymd y m d` for text of the shape `dddd-dd-dd` (the three numbers as written,
  not range-checked), `DateStr.bad year4` for any other text (`year4` = `int(text[:4])` if that parses);
  `date.fromisoformat` of a `bad` string is a `ValueError` (Python ≥ 3.11 also accepts `YYYYMMDD` and week dates: the
  adapter refuses those as "not modelled");
* a time string: `TimeStr.hms h m s us` for `dd:dd`, `dd:dd:dd`, `dd:dd:dd.dddddd`, otherwise `bad` (`ValueError`);
* datetimes of events are UTC instants in µs (all datetimes of a scenario are timezone-aware), the scenario start is a
  `DateTime` (its local date decides the year and the windows);
* dicts are insertion-ordered association lists.
-/
import SpiceEv.Py
import SpiceEv.Time
import SpiceEv.Model.Util
import SpiceEv.Model.Strategies
import SpiceEv.Model.StratPeakLoadWindow
import SpiceEv.Model.StratPeakShaving
namespace SpiceEv.StratInit
open SpiceEv SpiceEv.PeakLoadWindow

/-! ## the proleptic Gregorian calendar of CPython's `datetime` (`_ymd2ord`, `_ord2ymd`) -/

/-- `_is_leap(year)` -/
def isLeap (y : Int) : Bool := y % 4 == 0 && (y % 100 != 0 || y % 400 == 0)

/-- `_days_before_year(year)` -/
def daysBeforeYear (year : Int) : Int :=
  let y := year - 1
  y * 365 + y / 4 - y / 100 + y / 400

/-- `_DAYS_IN_MONTH[month]` (February = 28) -/
def daysInMonthTable : Int → Int
  | 1 => 31 | 2 => 28 | 3 => 31 | 4 => 30 | 5 => 31 | 6 => 30
  | 7 => 31 | 8 => 31 | 9 => 30 | 10 => 31 | 11 => 30 | 12 => 31 | _ => 0

/-- `_days_in_month(year, month)` -/
def daysInMonth (y m : Int) : Int := if m == 2 && isLeap y then 29 else daysInMonthTable m

/-- `_DAYS_BEFORE_MONTH[month]` -/
def daysBeforeMonthTable : Int → Int
  | 1 => 0 | 2 => 31 | 3 => 59 | 4 => 90 | 5 => 120 | 6 => 151
  | 7 => 181 | 8 => 212 | 9 => 243 | 10 => 273 | 11 => 304 | 12 => 334 | _ => 0

/-- `_days_before_month(year, month)` -/
def daysBeforeMonth (y m : Int) : Int := daysBeforeMonthTable m + (if m > 2 && isLeap y then 1 else 0)

/-- `_check_date_fields`: `ValueError` unless `1 ≤ year ≤ 9999`, `1 ≤ month ≤ 12`, `1 ≤ day ≤ dim` -/
def validYmd (y m d : Int) : Bool :=
  decide (1 ≤ y) && decide (y ≤ 9999) && decide (1 ≤ m) && decide (m ≤ 12) && decide (1 ≤ d) && decide (d ≤ daysInMonth y m)

/-- `date(y, m, d).toordinal()` = `_ymd2ord` -/
def ymdToOrd (y m d : Int) : Int := daysBeforeYear y + daysBeforeMonth y m + d

/-- the year of `_ord2ymd(n)` (`date.fromordinal(n).year`) -/
def ordToYear (ordinal : Int) : Int :=
  let n := ordinal - 1
  let n400 := n / 146097
  let n := n % 146097
  let n100 := n / 36524
  let n := n % 36524
  let n4 := n / 1461
  let n := n % 1461
  let n1 := n / 365
  let year := n400 * 400 + 1 + n100 * 100 + n4 * 4 + n1
  if n1 == 4 || n100 == 4 then year - 1 else year

/-- a calendar date as `datetime.date` holds it -/
structure Ymd where
  y : Int
  m : Int
  d : Int
  deriving Repr, DecidableEq

def Ymd.ord (x : Ymd) : Int := ymdToOrd x.y x.m x.d

/-- the text of a `"start"` / `"end"` entry -/
inductive DateStr where
  | ymd (y m d : Int)
  | bad (year4 : Option Int)
  deriving Repr, DecidableEq

/-- `int(text[:4])` -/
def DateStr.year4 : DateStr → Py Int
  | .ymd y _ _ => .ok y
  | .bad (some y) => .ok y
  | .bad none => .error .valueError

/-- `datetime.date.fromisoformat(text)` -/
def DateStr.parse : DateStr → Py Ymd
  | .ymd y m d => if validYmd y m d then .ok ⟨y, m, d⟩ else .error .valueError
  | .bad _ => .error .valueError

/-- `date.replace(year=y')`: `ValueError` for 29 February in a non-leap year (or a year out of range) -/
def Ymd.replaceYear (x : Ymd) (y' : Int) : Py Ymd :=
  if validYmd y' x.m x.d then .ok ⟨y', x.m, x.d⟩ else .error .valueError

/-- the text of one end of a window -/
inductive TimeStr where
  | hms (h m s us : Int)
  | bad
  deriving Repr, DecidableEq

/-- `datetime.time.fromisoformat(text)` as µs since midnight -/
def TimeStr.parse : TimeStr → Py Int
  | .hms h m s us =>
    match mkTimeOfDay? h m s us with
    | some t => .ok t
    | none => .error .valueError
  | .bad => .error .valueError

/-- one season of the JSON file; `none` = the key is missing -/
structure SeasonJ where
  start : Option DateStr
  stop : Option DateStr
  windows : Option (List (String × List (TimeStr × TimeStr)))
  deriving Repr

/-! ## PeakLoadWindow.__init__: the window table -/

/-- `years.add(int(window["start"][:4]))` over all operators and seasons, in file order (a list, duplicates kept:
only membership and the minimum are read) -/
def collectYears (file : List (String × List (String × SeasonJ))) : Py (List Int) :=
  file.foldlM (fun acc op =>
    op.2.foldlM (fun acc (s : String × SeasonJ) =>
      match s.2.start with
      | none => .error .keyError
      | some ds => do
        let y ← ds.year4
        pure (acc ++ [y])) acc) []

/-- `sorted(years)[0]` -/
def minYear : List Int → Int
  | [] => 0
  | y :: ys => ys.foldl (fun m x => if x < m then x else m) y

/-- one date entry: parse, and replace the year when it is the table's oldest year;
`replace = some (old_year, replace_year)` when the scenario year is not among the start years -/
def convertDate (replace : Option (Int × Int)) (ds : Option DateStr) : Py Int :=
  match ds with
  | none => .error .keyError
  | some ds => do
    let dt ← ds.parse
    match replace with
    | some (oldYear, newYear) =>
      -- `if replace_year and start_date.year == old_year` (a year is never 0, so `replace_year` is truthy)
      if dt.y == oldYear then do
        let dt' ← dt.replaceYear newYear
        pure dt'.ord
      else pure dt.ord
    | none => pure dt.ord

/-- `[(time.fromisoformat(t[0]), time.fromisoformat(t[1])) for t in windows]` -/
def convertWindows (ws : List (TimeStr × TimeStr)) : Py (List (Int × Int)) :=
  ws.mapM (fun w => do
    let a ← w.1.parse
    let b ← w.2.parse
    pure (a, b))

/-- the body of `for season, info in grid_operator_seasons.items():` -/
def convertSeasonJ (replace : Option (Int × Int)) (s : SeasonJ) : Py Season := do
  let a ← convertDate replace s.start
  let b ← convertDate replace s.stop
  match s.windows with
  | none => pure { start := a, stop := b, windows := none }      -- `info.get("windows", {})`: nothing to convert
  | some lv => do
    let lv' ← lv.mapM (fun (l : String × List (TimeStr × TimeStr)) => do
      let ws ← convertWindows l.2
      pure (l.1, ws))
    pure { start := a, stop := b, windows := some lv' }

/-- the year check and the conversion loop: the converted `self.time_windows` -/
def convertFile (startYear : Int) (file : List (String × List (String × SeasonJ))) :
    Py (List (String × List (String × Season))) := do
  let years ← collectYears file
  -- `assert len(years) > 0, "No time windows given"`
  pyassert (!years.isEmpty)
  let replace : Option (Int × Int) :=
    if years.contains startYear then none else some (minYear years, startYear)
  file.mapM (fun op => do
    let ss ← op.2.mapM (fun (s : String × SeasonJ) => do
      let s' ← convertSeasonJ replace s.2
      pure (s.1, s'))
    pure (op.1, ss))

/-! ## PeakLoadWindow.__init__: connector defaults -/

/-- what the constructor reads / writes of a grid connector besides its loads -/
structure GcIn (α : Type) where
  id : String
  level : Option String
  operator : Option String
  loads : List (String × α)

/-- `if gc.voltage_level is None: gc.voltage_level = "MV"`;
`if gc.grid_operator is None: gc.grid_operator = grid_operator` — the loop variable of the conversion loop after the
loop, i.e. the LAST operator of the file (the warning text says "first") -/
def gcDefaults {α : Type} (lastOp : Option String) (g : GcIn α) : GcIn α :=
  { g with
    level := match g.level with | none => some "MV" | some l => some l
    operator := match g.operator with | none => lastOp | some o => some o }

/-! ## PeakLoadWindow.__init__: events -/

/-- a local event with its times (UTC instants, µs) -/
structure LEv (α : Type) where
  signal : Int
  start : Int
  ev : Ev α

/-- a vehicle event as far as the constructor reads it -/
inductive VEv where
  /-- `event_type == "arrival"`, `update["estimated_time_of_departure"]` (`none` = `KeyError`) -/
  | arrival (etd : Option Int)
  /-- `event_type == "departure"` with its `start_time` -/
  | departure (start : Int)
  | other
  deriving Repr

/-- `event.signal_time = min(event.signal_time, start_time)` -/
def shiftSignal (t0 : Int) (signal : Int) : Int := pymin signal t0

/-- `changed += event.signal_time < old_signal_time` over the list -/
def countChanged {α : Type} (t0 : Int) (evs : List (LEv α)) : Nat :=
  (evs.filter (fun e => decide (shiftSignal t0 e.signal < e.signal))).length

/-- `stop_time = max(stop_time, …)` over the vehicle events -/
def extendStop (stop : Int) (ves : List VEv) : Py Int :=
  ves.foldlM (fun stop ve =>
    match ve with
    | .arrival none => .error .keyError
    | .arrival (some etd) => .ok (pymax stop etd)
    | .departure s => .ok (pymax stop s)
    | .other => .ok stop) stop

/-- the inner `while True:` of the table loop: the prefix of the (sorted) remaining events that start at or before
`cur` -/
def takeDue {α : Type} (cur : Int) : List (LEv α) → List (LEv α) × List (LEv α)
  | [] => ([], [])
  | e :: rest =>
    if cur < e.start then ([], e :: rest)
    else
      let r := takeDue cur rest
      (e :: r.1, r.2)

/-- `while cur_time <= stop_time: cur_time += interval; …; self.events.append(cur_events)`;
`cur` is `cur_time` before the increment -/
def buildTable {α : Type} (interval stop : Int) : Nat → Int → List (LEv α) → Py (List (List (LEv α)))
  | fuel, cur, evs =>
    if cur ≤ stop then
      match fuel with
      | 0 => .error .fuel
      | fuel + 1 =>
        let cur' := cur + interval
        let r := takeDue cur' evs
        match buildTable interval stop fuel cur' r.2 with
        | .error e => .error e
        | .ok t => .ok (r.1 :: t)
    else .ok []

/-- number of passes of the table loop for a positive interval (`table_fuel_suffices`) -/
def tableFuel (interval stop cur : Int) : Nat := ((stop - cur) / interval).toNat + 1

section
variable {α : Type} [Add α] [Sub α] [Mul α] [Div α] [Neg α] [LT α] [LE α]
  [DecidableLT α] [DecidableLE α] [OfNat α 0] [OfNat α 1] [NatCast α] [IntCast α]

/-! ## Strategy.__init__ -/

/-- keyword arguments that override the defaults of `Strategy.__init__` (`for k, v in kwargs.items(): setattr`) -/
structure BaseOpts (α : Type) where
  concurrency : Option α := none
  margin : Option α := none
  priceThreshold : Option α := none
  eps : Option α := none
  allowNegativeSoc : Option Bool := none
  resetNegativeSoc : Option Bool := none

/-- the literals of `Strategy.__init__` (the driver passes `0.1` and `1e-5` as correctly rounded doubles; compared with
the literals extracted from the Python source by the constants stream) -/
structure BaseConsts (α : Type) where
  margin : α
  eps : α

/-- the attributes derived by `Strategy.__init__` -/
structure BaseState (α : Type) where
  now : DateTime                       -- self.current_time = start_time - interval
  tsPerHour : α                        -- timedelta(hours=1) / interval
  stations : List (String × α)         -- cs.max_power after the CONCURRENCY scaling
  margin : α
  priceThreshold : α
  eps : α
  allowNegativeSoc : Bool
  resetNegativeSoc : Bool
  usesSchedule : Bool
  usesWindow : Bool

/-- `Strategy.__init__(components, start_time, **kwargs)` -/
def baseInit (c : BaseConsts α) (o : BaseOpts α) (start : DateTime) (interval : Int)
    (stations : List (String × α)) : Py (BaseState α) :=
  -- `timedelta(hours=1) / self.interval`
  if interval = 0 then .error .zeroDivision
  else .ok {
    now := start.add (-interval)
    tsPerHour := ((3600000000 : Int) : α) / ((interval : Int) : α)
    -- `cs.max_power = kwargs.get('CONCURRENCY', 1.0) * cs.max_power`
    stations := stations.map (fun s => (s.1, (o.concurrency.getD 1) * s.2))
    margin := o.margin.getD c.margin
    priceThreshold := o.priceThreshold.getD 0
    eps := o.eps.getD c.eps
    allowNegativeSoc := o.allowNegativeSoc.getD false
    resetNegativeSoc := o.resetNegativeSoc.getD false
    usesSchedule := false
    usesWindow := false }

/-! ## PeakLoadWindow.__init__ -/

structure PlwIn (α : Type) where
  start : DateTime                                     -- start_time
  interval : Int
  stop : Int                                           -- kwargs["stop_time"] (instant)
  /-- `kwargs.get("time_windows")`: `none` = option missing → `Exception`; the content of the file otherwise -/
  file : Option (List (String × List (String × SeasonJ)))
  gcs : List (GcIn α)
  signals : List (LEv α)                               -- events.grid_operator_signals (all have a connector id)
  loadLists : List (List (LEv α))                      -- per fixed-load list: get_events(name, FixedLoad)
  genLists : List (List (LEv α))                       -- per generation list: get_events(name, LocalEnergyGeneration)
  vehicleEvents : List VEv
  sum : List α → α                                     -- builtin `sum`

structure PlwState (α : Type) where
  base : BaseState α
  windows : List (String × List (String × Season))     -- self.time_windows
  gcs : List (GcIn α)                                  -- voltage level / operator after the defaults
  signalTimes : List Int                               -- signal_time of events.grid_operator_signals afterwards
  changed : Nat
  stop : Int                                           -- the local `stop_time` (end of the look-ahead)
  table : List (List (LEv α))                          -- self.events
  peaks : List (String × α)                            -- self.peak_power

/-- drop the season names: what `time_windows[operator].values()` iterates over -/
def seasonsOf (w : List (String × List (String × Season))) : List (String × List Season) :=
  w.map (fun op => (op.1, op.2.map (·.2)))

/-- `PeakLoadWindow.__init__` after `super().__init__` -/
def plwInit (c : BaseConsts α) (o : BaseOpts α) (stations : List (String × α)) (inp : PlwIn α) :
    Py (PlwState α) := do
  let base ← baseInit c o inp.start inp.interval stations
  let base := { base with usesWindow := true }
  -- `if self.time_windows is None: raise Exception(…)`
  let file ← match inp.file with
    | none => (.error .exception : Py _)
    | some f => pure f
  let windows ← convertFile (ordToYear inp.start.date) file
  -- `grid_operator` leaks from the conversion loop: the last key
  let lastOp := (file.getLast?).map (·.1)
  let gcs := inp.gcs.map (gcDefaults lastOp)
  -- perfect foresight for grid and local load events
  let localEvents := inp.signals ++ inp.loadLists.flatten ++ inp.genLists.flatten
  let t0 := inp.start.instant
  let changed := countChanged t0 localEvents
  let shifted := localEvents.map (fun e => { e with signal := shiftSignal t0 e.signal })
  let sorted := sortByKey (fun (e : LEv α) => e.start) shifted
  -- extend look-ahead to last vehicle departure in scenario
  let stop ← extendStop inp.stop inp.vehicleEvents
  let cur0 := t0 - inp.interval
  let table ← buildTable inp.interval stop (tableFuel inp.interval stop cur0) cur0 sorted
  -- peak power within time windows
  let pgcs : List (PGc α) := gcs.map (fun g =>
    { gc := ⟨g.id, 0, none, g.loads⟩, operator := g.operator.getD "~None", level := g.level, window := none, peak := 0 })
  let env : PEnv α := ⟨base.eps, base.tsPerHour, inp.start, inp.interval, t0, inp.stop, seasonsOf windows, [], inp.sum, 0⟩
  let peaks ← initPeaks env pgcs (table.map (fun b => b.map (·.ev))) inp.start
    (gcs.map (fun g => (g.id, g.loads))) (gcs.map (fun g => (g.id, (0 : α))))
  pure { base := base, windows := windows, gcs := gcs,
         signalTimes := inp.signals.map (fun e => shiftSignal t0 e.signal), changed := changed, stop := stop,
         table := table, peaks := peaks }

/-! ## Schedule.__init__ -/

structure ScheduleState (α : Type) where
  base : BaseState α
  loadStrat : String
  iterations : Nat
  inCore : Bool              -- self.currently_in_core_standing_time
  overcharge : Bool          -- self.overcharge_necessary
  warnCore : Bool            -- self.warn_core_standing_time

/-- `Schedule.__init__`: `loadStrat` = the option `LOAD_STRAT` if given; `nGcs` = number of grid connectors;
`hasCore` = `core_standing_time is not None` -/
def scheduleInit (c : BaseConsts α) (o : BaseOpts α) (start : DateTime) (interval : Int)
    (stations : List (String × α)) (loadStrat : Option String) (iterations : Option Nat) (warnCore : Option Bool)
    (nGcs : Nat) (hasCore : Bool) : Py (ScheduleState α) := do
  let base ← baseInit c o start interval stations
  let ls := loadStrat.getD "collective"
  let base := { base with usesSchedule := true }
  -- `assert self.LOAD_STRAT in allowed_substrats`
  pyassert (["collective", "individual"].contains ls)
  if ls == "collective" then do
    pyassert (nGcs == 1)
    pyassert hasCore
  pure { base := base, loadStrat := ls, iterations := iterations.getD 12, inCore := false, overcharge := false,
         warnCore := warnCore.getD false }

/-! ## FlexWindow.__init__ -/

/-- which `sort_key` the constructor installs; `none`: an unknown `LOAD_STRAT` is NOT rejected — the `else:` branch
evaluates a string and goes on, the object has no `sort_key` and the first step that sorts raises `AttributeError` -/
inductive FlexSort where
  | greedy | needy | balanced
  deriving Repr, DecidableEq

structure FlexState (α : Type) where
  base : BaseState α
  loadStrat : String
  horizonHours : α
  sortKey : Option FlexSort

def flexWindowInit (c : BaseConsts α) (o : BaseOpts α) (start : DateTime) (interval : Int)
    (stations : List (String × α)) (loadStrat : Option String) (horizon : Option α) (nGcs : Nat) :
    Py (FlexState α) := do
  let base ← baseInit c o start interval stations
  -- `assert (len(self.world_state.grid_connectors) == 1), "Only one grid connector supported"`
  pyassert (nGcs == 1)
  let base := { base with usesWindow := true }
  let ls := loadStrat.getD "balanced"
  let key := if ls == "greedy" then some FlexSort.greedy
    else if ls == "needy" then some FlexSort.needy
    else if ls == "balanced" then some FlexSort.balanced
    else none
  pure { base := base, loadStrat := ls, horizonHours := horizon.getD ((24 : Nat) : α), sortKey := key }

end

/-! ## BalancedMarket / PeakShaving: the signal shift of the foresight strategies -/

/-- `event.signal_time = max(min(event.signal_time, event.start_time - horizon), start_time)`
(balanced_market: price/grid signals; peak_shaving with perfect foresight: all events) — the same expression as
`BalancedMarket.initSignalTime` (`market_shift_eq`, Proofs/StratInit.lean) -/
def horizonShift (signal start horizon t0 : Int) : Int := pymax (pymin signal (start - horizon)) t0


section
variable {α : Type} [Add α] [Sub α] [Mul α] [Div α] [Neg α] [LT α] [LE α]
  [DecidableLT α] [DecidableLE α] [OfNat α 0] [OfNat α 1] [NatCast α] [IntCast α]

/-! ## BalancedMarket.__init__ -/

structure MarketState (α : Type) where
  base : BaseState α
  horizonHours : α                 -- self.HORIZON (hours, as given)
  signalTimes : List Int           -- signal_time of events.grid_operator_signals afterwards
  changed : Nat

/-- `BalancedMarket.__init__`: `horizon` = the option `HORIZON` (hours) if given, `horizonUs` = what
`datetime.timedelta(hours=self.HORIZON)` is in µs (CPython's rounding of a float number of hours; `none` when the option
is missing: 24 h); `signals` = (signal_time, start_time) of `events.grid_operator_signals` -/
def marketInit (c : BaseConsts α) (o : BaseOpts α) (start : DateTime) (interval : Int)
    (stations : List (String × α)) (horizon : Option α) (horizonUs : Option Int) (signals : List (Int × Int)) :
    Py (MarketState α) := do
  let base ← baseInit c o start interval stations
  let hz := horizonUs.getD (24 * usPerHour)
  let t0 := start.instant
  pure { base := base, horizonHours := horizon.getD ((24 : Nat) : α),
         signalTimes := signals.map (fun e => horizonShift e.1 e.2 hz t0),
         changed := (signals.filter (fun e => decide (horizonShift e.1 e.2 hz t0 < e.1))).length }

end

section
variable {α : Type} [Add α] [Sub α] [Mul α] [Div α] [Neg α] [LT α] [LE α]
  [DecidableLT α] [DecidableLE α] [OfNat α 0] [OfNat α 1] [NatCast α] [IntCast α]

/-! ## PeakShaving.__init__ -/

structure ShavingState (α : Type) where
  base : BaseState α
  horizonUs : Int                                        -- self.HORIZON = timedelta(hours=HORIZON), in µs
  perfectForesight : Bool
  /-- `self.events` when `perfect_foresight` (otherwise the attribute stays the scenario's `Events` object) -/
  events : Option (List (PeakShaving.Signalled α))
  changed : Nat

/-- `PeakShaving.__init__`: `horizonUs` = `timedelta(hours=HORIZON)` in µs when the option is given (default 24 h),
`pf` = truthiness of the option `perfect_foresight` when given (default True); the four event groups with their signal
times as the scenario's `Events` object holds them (fixed-load / generation lists expanded by `get_events`); `t0` = the
scenario start as an instant in the time base of these events (the event format of Model/StratPeakShaving.lean counts µs
from the Unix epoch, `DateTime.instant` from ordinal 0) -/
def peakShavingInit (c : BaseConsts α) (o : BaseOpts α) (start : DateTime) (interval : Int)
    (stations : List (String × α)) (horizonUs : Option Int) (pf : Option Bool) (t0 : Int)
    (vehicleEvents signals : List (PeakShaving.Signalled α)) (loads gens : List (List (PeakShaving.Signalled α))) :
    Py (ShavingState α) := do
  let base ← baseInit c o start interval stations
  let hz := horizonUs.getD (24 * usPerHour)
  if pf.getD true then
    let r := PeakShaving.initEvents hz t0 vehicleEvents signals loads gens
    pure { base := base, horizonUs := hz, perfectForesight := true, events := some r.1, changed := r.2 }
  else
    pure { base := base, horizonUs := hz, perfectForesight := false, events := none, changed := 0 }

end

end SpiceEv.StratInit
