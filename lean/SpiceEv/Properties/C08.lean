/-
C08 — Vehicle trip state machine and negative-SoC policy.

Property theorems only; helper lemmas are in SpiceEv/Proofs/Events.lean and EventsVeh.lean.  All
statements are about the executable model of the `VehicleEvent` branch of `Strategy.step`
(SpiceEv/Model/StrategyBase.lean: `applyEvent`, `Strat.step`) and of the first `try/except` of
`Scenario.run` (`runLoop`), for arbitrary states, event sequences and option values, over an
arbitrary linearly ordered field of SoC values.

Vocabulary: `Vehicle.applyUpdate` = the `setattr` loop over the event's `update` dict;
`departureSoc` = the SoC a departing vehicle is judged by (the code's past-departure rule);
`isDeficientDeparture` / `isMarginDeparture` = "departure of a known, connected vehicle below the
desired SoC − ε" resp. "… non-negative and below (1−margin)·desired − ε", judged in the state in which
the event is applied; `countAlong` / `runCount` = number of such events along the trajectory;
`addresses vid e` = `e` is a vehicle event for `vid`; `touchesSoc` = `e` is `vid`'s arrival or its
departure dated more than one interval in the past.
-/
import SpiceEv.Proofs.EventsVeh
import Mathlib.Tactic.NormNum
set_option linter.unusedSectionVars false
set_option linter.unusedSimpArgs false
set_option linter.unusedVariables false
namespace SpiceEv
variable {α : Type} [Field α] [LinearOrder α] [IsStrictOrderedRing α]

/-- **Arrival** of a known vehicle.  The announced station / departure time / desired SoC are taken
over (attributes absent from the update keep their value).  Without a `soc_delta` (neither in this
update nor left over from an earlier event) the step raises `AssertionError`.  Otherwise the SoC
becomes `soc + soc_delta` and the `soc_delta` attribute is removed — so it is applied once: a second
arrival without a fresh `soc_delta` hits the assertion.  If `soc + soc_delta + ε < 0` the step time is
appended to the vehicle's tracker entry and then: not allowed → `RuntimeError` (SoC already lowered,
`soc_delta` still present); allowed → SoC kept, or `0` iff a reset is requested. -/
theorem C08_arrival (cfg : Cfg α) (s : Strat α) (ev : Event α) (vid : String) (upd : VehUpdate α)
    (v0 : Vehicle α) (hk : ev.kind = .vehicle vid .arrival upd)
    (hv : alGet? vid s.world.vehicles = some v0) :
    let v := v0.applyUpdate upd
    (v.station = (match upd.station with | some x => x | none => v0.station) ∧
     v.etd = (match upd.etd with | some x => x | none => v0.etd) ∧
     v.desired = (match upd.desired with | some x => x | none => v0.desired) ∧
     v.socDelta = (match upd.socDelta with | some x => some x | none => v0.socDelta) ∧
     v.soc = v0.soc) ∧
    (v.socDelta = none → applyEvent cfg s ev = (s.setVehicle vid v, some .assertion)) ∧
    ∀ d, v.socDelta = some d →
      (¬ (v0.soc + d + cfg.eps < 0) →
        applyEvent cfg s ev
          = (s.setVehicle vid { v with soc := v0.soc + d, socDelta := none }, none)) ∧
      (v0.soc + d + cfg.eps < 0 → cfg.allowNeg = true →
        applyEvent cfg s ev
          = (({ s with tracker := trackerAdd vid s.now s.tracker } : Strat α).setVehicle vid
              { v with soc := if cfg.resetNeg then 0 else v0.soc + d, socDelta := none }, none)) ∧
      (v0.soc + d + cfg.eps < 0 → cfg.allowNeg = false →
        applyEvent cfg s ev
          = (({ s with tracker := trackerAdd vid s.now s.tracker } : Strat α).setVehicle vid
              { v with soc := v0.soc + d }, some .runtime)) ∧
      alGet? vid (trackerAdd vid s.now s.tracker) = some ((alGet? vid s.tracker).getD [] ++ [s.now]) := by
  intro v
  refine ⟨⟨rfl, rfl, rfl, rfl, rfl⟩, ?_, ?_⟩
  · intro hd
    rw [applyEvent_vehicle cfg s ev vid .arrival upd hk]
    unfold applyVehicleEvent arriveVehicle
    simp only [hv]
    show (match v.socDelta with | none => _ | some d => _) = _
    rw [hd]
  · intro d hd
    have hsoc : v.soc = v0.soc := rfl
    have key : applyEvent cfg s ev = arriveVehicle cfg s vid v := by
      rw [applyEvent_vehicle cfg s ev vid .arrival upd hk]
      unfold applyVehicleEvent
      simp only [hv]
      rfl
    rw [key]
    unfold arriveVehicle
    rw [hd]
    simp only [hsoc]
    refine ⟨?_, ?_, ?_, alGet?_trackerAdd vid s.now s.tracker⟩
    · intro hneg; simp only [hneg, if_false]
    · intro hneg hallow
      simp only [hneg, if_true, hallow]
      cases cfg.resetNeg <;> simp
    · intro hneg hallow
      simp only [hneg, if_true, hallow]
      simp

/-- **Departure** of a known vehicle: never an exception; the vehicle is disconnected and its
departure estimate cleared; the SoC is unchanged unless the departure is dated more than one interval
before the current step (then the code sets it to the desired SoC); the counters are incremented iff
the vehicle was connected and its SoC is below `desired − ε`, resp. non-negative and below
`(1 − margin)·desired − ε`. -/
theorem C08_departure (cfg : Cfg α) (s : Strat α) (ev : Event α) (vid : String) (upd : VehUpdate α)
    (v0 : Vehicle α) (hk : ev.kind = .vehicle vid .departure upd)
    (hv : alGet? vid s.world.vehicles = some v0) :
    let v := v0.applyUpdate upd
    let soc' := if ev.start < s.now - cfg.interval then v.desired else v0.soc
    applyEvent cfg s ev =
      ({ s.setVehicle vid { v with etd := none, soc := soc', station := none } with
          desiredCounter := s.desiredCounter +
            (if v0.station.isSome && decide (soc' < v.desired - cfg.eps) then 1 else 0)
          marginCounter := s.marginCounter +
            (if v0.station.isSome && decide (0 ≤ soc') &&
              decide (soc' < (1 - cfg.margin) * v.desired - cfg.eps) then 1 else 0) }, none) := by
  intro v soc'
  rw [applyEvent_vehicle cfg s ev vid .departure upd hk]
  unfold applyVehicleEvent
  simp only [hv, departVehicle_eq]
  rfl

/-- events for unknown vehicles are skipped, vehicle events of any other type only update attributes -/
theorem C08_unknown_and_other (cfg : Cfg α) (s : Strat α) (ev : Event α) (vid : String)
    (k : VehKind) (upd : VehUpdate α) (hk : ev.kind = .vehicle vid k upd) :
    (alGet? vid s.world.vehicles = none → applyEvent cfg s ev = (s, none)) ∧
    (∀ v0, alGet? vid s.world.vehicles = some v0 → k = .other →
      applyEvent cfg s ev = (s.setVehicle vid (v0.applyUpdate upd), none)) := by
  rw [applyEvent_vehicle cfg s ev vid k upd hk]
  unfold applyVehicleEvent
  constructor
  · intro h; simp only [h]
  · intro v0 h hk'; subst hk'; simp only [h]

/-- **Counters.**  After a whole run of the loop of `Scenario.run` (ended by an exception or not)
the two counters equal their initial value (0 for a constructed strategy) plus the number of
departures in the history that were below the desired SoC (resp. below the margin), each judged in the
state in which it was applied.  `rest`/`roe` (the strategy's own action, the error epilogue) are only
assumed not to write the counters. -/
theorem C08_counters (cfg : Cfg α) (rest : Strat α → Strat α × Option PyErr) (roe : Strat α → Strat α)
    (hrest : KeepsCounters (fun s => (rest s).1)) (hroe : KeepsCounters roe)
    (B : List (List (Event α))) (s : Strat α) :
    (runLoop cfg rest roe s B).strat.desiredCounter
      = s.desiredCounter + runCount cfg (isDeficientDeparture cfg) rest s B ∧
    (runLoop cfg rest roe s B).strat.marginCounter
      = s.marginCounter + runCount cfg (isMarginDeparture cfg) rest s B ∧
    ∀ b : List (Event α),
      (s.step cfg b).strat.desiredCounter = s.desiredCounter +
        countAlong cfg (isDeficientDeparture cfg) (s.tick cfg) (s.step cfg b).popped ∧
      (s.step cfg b).strat.marginCounter = s.marginCounter +
        countAlong cfg (isMarginDeparture cfg) (s.tick cfg) (s.step cfg b).popped :=
  ⟨(run_counters cfg rest roe hrest hroe B s).1, (run_counters cfg rest roe hrest hroe B s).2,
   fun b => step_counters cfg s b⟩

/-- a strategy action that leaves a disconnected vehicle `vid` disconnected with the same SoC -/
def KeepsDisconnected (vid : String) (rest : Strat α → Strat α × Option PyErr) : Prop :=
  ∀ s v, alGet? vid s.world.vehicles = some v → v.station = none →
    ∃ v', alGet? vid (rest s).1.world.vehicles = some v' ∧ v'.soc = v.soc ∧ v'.station = none

/-- **SoC of a disconnected vehicle.**  (a) Event processing changes the SoC of a vehicle only at its
own arrival or — the one exception the code makes on purpose — at its own departure dated more than
one interval in the past (then `soc := desired_soc`); this holds for every step, exception or not.
(b) Over a run: a vehicle that is disconnected stays disconnected with the same SoC as long as no
event addressed to it is applied (the strategy's own action is only assumed to leave disconnected
vehicles alone, which holds for greedy/balanced/distributed — they only charge connected vehicles —
and for `apply_battery_losses` because vehicles carry no loss rate). -/
theorem C08_disconnected_const (cfg : Cfg α) (vid : String) :
    (∀ (s : Strat α) (b : List (Event α)),
      (∀ e ∈ (s.step cfg b).popped, touchesSoc cfg (s.now + cfg.interval) vid e = false) →
      (alGet? vid (s.step cfg b).strat.world.vehicles).map (·.soc)
        = (alGet? vid s.world.vehicles).map (·.soc)) ∧
    ∀ (rest : Strat α → Strat α × Option PyErr) (roe : Strat α → Strat α),
      KeepsDisconnected vid rest →
      ∀ (B : List (List (Event α))) (s : Strat α) (v : Vehicle α),
        alGet? vid s.world.vehicles = some v → v.station = none →
        ∀ (j : Nat) (r : StepResult α), (runLoop cfg rest roe s B).trace[j]? = some r →
          (∀ e ∈ appliedLog (runLoop cfg rest roe s B).trace j, addresses vid e = false) →
          ∃ v', alGet? vid r.strat.world.vehicles = some v' ∧ v'.soc = v.soc ∧ v'.station = none := by
  refine ⟨fun s b h => step_soc cfg s b vid h, ?_⟩
  intro rest roe hrest B
  induction B with
  | nil => intro s v _ _ j r h; simp [runLoop] at h
  | cons b B ih =>
    intro s v hv hdis j r hr hno
    unfold runLoop at hr hno
    dsimp only at hr hno
    cases he : (s.step cfg b).err with
    | some e =>
      simp only [he] at hr hno
      cases j with
      | zero =>
        simp at hr; subst hr
        have := step_vehicle_other cfg s b vid (fun e he' => hno e (by simp [appliedLog, he']))
        exact ⟨v, by rw [this, hv], rfl, hdis⟩
      | succ j => simp at hr
    | none =>
      simp only [he] at hr hno
      cases hrs : rest (s.step cfg b).strat with
      | mk s' oe =>
        simp only [hrs] at hr hno
        cases oe with
        | some e =>
          simp only [] at hr hno
          cases j with
          | zero =>
            simp at hr; subst hr
            have := step_vehicle_other cfg s b vid (fun e he' => hno e (by simp [appliedLog, he']))
            exact ⟨v, by rw [this, hv], rfl, hdis⟩
          | succ j => simp at hr
        | none =>
          simp only [] at hr hno
          cases j with
          | zero =>
            simp at hr; subst hr
            have := step_vehicle_other cfg s b vid (fun e he' => hno e (by simp [appliedLog, he']))
            exact ⟨v, by rw [this, hv], rfl, hdis⟩
          | succ j =>
            simp only [List.getElem?_cons_succ] at hr
            have h0 := step_vehicle_other cfg s b vid (fun e he' => hno e (by
              simp only [appliedLog, List.take_succ_cons, List.flatMap_cons, List.mem_append]
              exact Or.inl he'))
            obtain ⟨v1, k1, k2, k3⟩ := hrest (s.step cfg b).strat v (by rw [h0, hv]) hdis
            rw [hrs] at k1
            obtain ⟨v', g1, g2, g3⟩ := ih s' v1 k1 k3 j r hr (fun e he' => hno e (by
              simp only [appliedLog, List.take_succ_cons, List.flatMap_cons, List.mem_append]
              exact Or.inr he'))
            exact ⟨v', g1, g2.trans k2, g3⟩

/-- **An error in event processing aborts the run.**  If the `i`-th base step raises, the error is
latched (`error` of the run is that exception), the strategy's own action is not executed in that step
(`restOnError` runs instead), the loop leaves after that iteration (`step_i = i + 1`, no further
bucket is processed).  Conversely a run that ends without error executed every step. -/
theorem C08_error_aborts (cfg : Cfg α) (rest : Strat α → Strat α × Option PyErr)
    (roe : Strat α → Strat α) (B : List (List (Event α))) (s : Strat α) :
    (∀ (i : Nat) (r : StepResult α) (e : PyErr),
      (runLoop cfg rest roe s B).trace[i]? = some r → r.err = some e →
        (runLoop cfg rest roe s B).error = some e ∧ (runLoop cfg rest roe s B).stepI = i + 1 ∧
        (runLoop cfg rest roe s B).trace.length = i + 1 ∧
        (runLoop cfg rest roe s B).strat = roe r.strat) ∧
    ((runLoop cfg rest roe s B).error = none →
      (runLoop cfg rest roe s B).stepI = B.length ∧
      (runLoop cfg rest roe s B).trace.length = B.length ∧
      ∀ r ∈ (runLoop cfg rest roe s B).trace, r.err = none) ∧
    (runLoop cfg rest roe s B).stepI = (runLoop cfg rest roe s B).trace.length := by
  induction B generalizing s with
  | nil => simp [runLoop]
  | cons b B ih =>
    unfold runLoop
    dsimp only
    cases he : (s.step cfg b).err with
    | some e =>
      simp only []
      refine ⟨?_, by simp, by simp⟩
      intro i r e' hr hre
      cases i with
      | zero =>
        simp at hr; subst hr
        rw [he] at hre; cases hre
        simp
      | succ i => simp at hr
    | none =>
      simp only []
      cases hrs : rest (s.step cfg b).strat with
      | mk s' oe =>
        cases oe with
        | some e =>
          simp only []
          refine ⟨?_, by simp, by simp⟩
          intro i r e' hr hre
          cases i with
          | zero => simp at hr; subst hr; rw [he] at hre; cases hre
          | succ i => simp at hr
        | none =>
          simp only []
          obtain ⟨i1, i2, i3⟩ := ih s'
          refine ⟨?_, ?_, by simp [i3]⟩
          · intro i r e' hr hre
            cases i with
            | zero => simp at hr; subst hr; rw [he] at hre; cases hre
            | succ i =>
              simp only [List.getElem?_cons_succ] at hr
              obtain ⟨a1, a2, a3, a4⟩ := i1 i r e' hr hre
              exact ⟨a1, by rw [a2], by simp [a3], a4⟩
          · intro hnone
            obtain ⟨a1, a2, a3⟩ := i2 hnone
            refine ⟨by rw [a1]; simp, by simp [a2], ?_⟩
            intro r hr
            rcases List.mem_cons.mp hr with rfl | hr'
            · exact he
            · exact a3 r hr'

/-! ### Non-vacuity: concrete instances over ℚ -/
namespace C08Ex

def exWorld8 : World ℚ :=
  { connectors := [("g1", Connector.new 100 (.fixed 1) none none [])], stations := [("cs1", ⟨11, "g1"⟩)],
    vehicles := [("v1", ⟨some "cs1", none, some 1800, 3/4, 1/2, none, none⟩)], batteries := [], queue := [] }
def exS8 : Strat ℚ :=
  { world := exWorld8, now := -900, tracker := [], desiredCounter := 0, marginCounter := 0 }
def exCfg8 (allow reset : Bool) : Cfg ℚ := ⟨900, 1/100000, 1/10, allow, reset⟩
def exDep : Event ℚ := ⟨0, 0, .vehicle "v1" .departure {}⟩
def exArr : Event ℚ :=
  ⟨0, 900, .vehicle "v1" .arrival { socDelta := some (-3/4), station := some (some "cs1"), etd := some (some 3600) }⟩

example : Strat.init exWorld8 0 900 1 = .ok exS8 := by simp [Strat.init, exS8, exWorld8]

/-- departure at 1/2 < 3/4 − ε of a connected vehicle: both counters 1, vehicle disconnected, ETD
cleared; arrival one step later with consumption 3/4: SoC −1/4, time recorded, not allowed ⇒
`RuntimeError`, run stops with `step_i = 2` although three buckets were given. -/
example :
    let rr := runLoop (exCfg8 false false) (fun s => (s, none)) id exS8 [[exDep, exArr], [], []]
    rr.error = some .runtime ∧ rr.stepI = 2 ∧ rr.trace.length = 2 ∧
    rr.strat.desiredCounter = 1 ∧ rr.strat.marginCounter = 1 ∧ rr.strat.tracker = [("v1", [900])] ∧
    (alGet? "v1" rr.strat.world.vehicles).map (fun v => (v.soc, v.station, v.etd)) =
      some (-1/4, some "cs1", some 3600) := by
  simp [runLoop, Strat.step, Strat.tick, finishStep, processQueue, sortByStart, List.mergeSort, exS8, exWorld8,
    exCfg8, exDep, exArr, applyEvent, applyVehicleEvent, arriveVehicle, departVehicle, Vehicle.applyUpdate,
    trackerAdd, alGet?, alHas, alSet, Strat.setVehicle, resetConnectors, resetLoads, Connector.new, Cost.falsy]
  norm_num
  simp [alGet?]

/-- the arrival alone with negative SoC allowed and reset requested: no exception, time recorded,
SoC reset to 0, `soc_delta` consumed (hypotheses of `C08_arrival` are satisfiable in its negative branch) -/
example :
    let r := applyEvent (exCfg8 true true) { exS8 with now := 900 } exArr
    r.2 = none ∧ r.1.tracker = [("v1", [900])] ∧
    (alGet? "v1" r.1.world.vehicles).map (fun v => (v.soc, v.socDelta, v.station)) = some (0, none, some "cs1") := by
  simp [exS8, exWorld8, exCfg8, exArr, applyEvent, applyVehicleEvent, arriveVehicle, Vehicle.applyUpdate,
    trackerAdd, alGet?, alSet, Strat.setVehicle]
  norm_num
  simp [alGet?]

end C08Ex
end SpiceEv
