/-
C06 — reported powers and SoCs balance, for the strategy `peak_load_window`
(model: Model/StratPeakLoadWindow.lean with the repairs PLW1/PLW2, tied to the code at the bit level by
`./check S_PEAK_LOAD_WINDOW`).

`step_gc` changes the world only through booked battery calls: every vehicle command is the average power of that
vehicle's ONE `Battery.load` call and the connector's load rises by exactly that; each stationary battery books the
signed average power of its ONE `load` / `unload` call; the look-ahead simulations (search on varying curves,
constant-curve plan, peak shaving, bisection, the first battery loop) leave no trace in the world.
The battery-level identity (SoC change = average power × time × efficiency / capacity) is C01's subject; the run-loop
bookkeeping around the step is `C06_*` of Properties/C06.lean.
-/
import SpiceEv.Proofs.StratPeakLoadWindowBooking
set_option linter.unusedSectionVars false
namespace SpiceEv
open SpiceEv.PeakLoadWindow
variable {α B : Type} [Field α] [LinearOrder α] [IsStrictOrderedRing α]

/-- **The connector books exactly the battery calls.**  For one `step_gc` call there are two lists of booked calls —
`vcalls`: `(station, avg_power)` of ONE `Battery.load` call each, on the battery of a vehicle of the world (state before
the step) connected to that station; `bcalls`: `(battery id, signed avg_power)` of ONE `load` (+) or `unload` (−) call
each on a stationary battery of this connector (state before the step) — such that every command is one of the
`vcalls`, and the connector's load after the step is its load before plus the sum of all booked powers (its limit
is unchanged).  For all worlds, prognoses, window tables; battery: `BatLaw`. -/
theorem C06_peak_load_window_connector_books_calls (ops : BatOps α B) (law : BatLaw ops) (env : PEnv α)
    (w w' : PWorld α B) (g : PGc α) (level : String) (cmds : List (String × α))
    (h : stepGc ops env w g level = .ok (w', cmds)) :
    ∃ vcalls bcalls : List (String × α),
      (∀ kv ∈ vcalls, VCall ops w kv) ∧
      (∀ kv ∈ bcalls, BCall ops (w.batteries.filter (fun b => b.parent == g.gc.id)) kv) ∧
      (∀ kv ∈ cmds, kv ∈ vcalls) ∧
      ∀ g' ∈ w'.gcs, g'.gc.id = g.gc.id → g'.gc.curMax = g.gc.curMax ∧
        g'.gc.currentLoad = g.gc.currentLoad + (vcalls.map (·.2)).sum + (bcalls.map (·.2)).sum := by
  obtain ⟨vc, bc, h1, h2, h3, h4, _⟩ := stepGc_book ops law env w g level w' cmds h
  exact ⟨vc, bc, h1, h2, h3, h4⟩

/-- **The look-ahead leaves no trace.**  After one `step_gc` call: the charging stations are unchanged; every other
connector is literally a connector of the world before; every vehicle is literally a vehicle of the world before, or
one of them with a new `schedule` and — if it was charged — the battery its ONE booked `load` call returned
(`VDerived`); every stationary battery is literally a battery of the world before or a battery of this connector with
the state its ONE booked `load` / `unload` call returned (`BDerived`).  None of the simulated charges of the planning
stages or of the first battery loop survives. -/
theorem C06_peak_load_window_no_trace (ops : BatOps α B) (law : BatLaw ops) (env : PEnv α)
    (w w' : PWorld α B) (g : PGc α) (level : String) (cmds : List (String × α))
    (h : stepGc ops env w g level = .ok (w', cmds)) :
    w'.stations = w.stations ∧
    (∀ g' ∈ w'.gcs, g'.gc.id ≠ g.gc.id → g' ∈ w.gcs) ∧
    (∀ x' ∈ w'.vehicles, x' ∈ w.vehicles ∨ VDerived ops w x') ∧
    (∀ b' ∈ w'.batteries, b' ∈ w.batteries ∨
      BDerived ops (w.batteries.filter (fun b => b.parent == g.gc.id)) b') := by
  obtain ⟨vc, bc, _, _, _, _, h5, h6, h7, h8⟩ := stepGc_book ops law env w g level w' cmds h
  exact ⟨h8, h5, h6, h7⟩

/-- **A vehicle that gets no command keeps its battery.**  If the final loop books nothing for a list of plans (all
planned powers ≤ 0, no surplus), the connector's loads and the commands are untouched — whatever the planning stages
simulated. -/
theorem C06_peak_load_window_no_command_no_change (ops : BatOps α B) (surplus : α) (hs : ¬ 0 < surplus)
    (plans : List (PVeh α B × α)) (w w' : PWorld α B) (gc gc' : GcS α) (cmds cmds' : List (String × α))
    (hq : ∀ q ∈ plans, q.2 ≤ 0)
    (h : chargeVehicles ops plans surplus (w, gc, cmds) = .ok (w', gc', cmds')) : gc' = gc ∧ cmds' = cmds :=
  chargeVehicles_no_cmd ops surplus hs plans _ _ hq h

/-- non-vacuity (vehicle): 2 kW fixed load, a vehicle (10 kWh, SoC 0.5) planned with 2.5 kW: one command of 2.5 kW, the
connector goes from 2 to 4.5 kW, the vehicle's SoC is what that one `load` call returns (0.75) — although the plan
simulated the whole standing time up to SoC 1 -/
example :
    cmdsOf (stepGc (toyOps 10 11) exEnv (exWorld [("load", 2)] 11 (1/2) 1 2) (exGc [("load", 2)]) "MV") = [("cs1", 5/2)] ∧
    worldOf (stepGc (toyOps 10 11) exEnv (exWorld [("load", 2)] 11 (1/2) 1 2) (exGc [("load", 2)]) "MV")
      = some ([9/2], [3/4], []) ∧
    (toyOps 10 11).load (1/2) none none (some (5/2)) = .ok (3/4, 5/2) := by
  decide +kernel

/-- non-vacuity (stationary battery, inside the window at 02:00, limit 5 kW, 4 kW load, peak 5 kW): the battery books
+1 kW (one `load` call, SoC 0.5 → 0.6); with 7 kW load at a 10 kW limit and peak 5 kW it books −2 kW (one `unload` call,
SoC 0.5 → 0.3) -/
example :
    let g1 : PGc ℚ := ⟨⟨"G", 5, none, [("load", 4)]⟩, "op", some "MV", none, 5⟩
    let g2 : PGc ℚ := ⟨⟨"G", 10, none, [("load", 7)]⟩, "op", some "MV", none, 5⟩
    let w (g : PGc ℚ) : PWorld ℚ ℚ := { gcs := [g], stations := [], vehicles := [], batteries := [⟨"B", "G", 0, 1/2⟩] }
    worldOf (stepGc (toyOps 10 11) (exEnvAt 2) (w g1) g1 "MV") = some ([5], [], [3/5]) ∧
    worldOf (stepGc (toyOps 10 11) (exEnvAt 2) (w g2) g2 "MV") = some ([5], [], [3/10]) ∧
    (toyOps 10 11).load (1/2) none none (some 1) = .ok (3/5, 1) ∧
    (toyOps 10 11).unload (1/2) none none (some 2) = .ok (3/10, 2) := by
  decide +kernel

end SpiceEv
