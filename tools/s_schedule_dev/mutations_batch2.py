"""mutation trial on the scratch repo copy ($VERIF_REPO must be a scratch copy, it is edited and restored)"""
import subprocess, re
import os, sys
HERE = os.path.dirname(os.path.abspath(__file__))
VERIF = os.path.abspath(os.path.join(HERE, "..", ".."))
REPO = os.environ.get("VERIF_REPO", "/repo")
assert REPO not in ("/repo",), "point VERIF_REPO at a scratch copy"
P = os.path.join(REPO, "spice_ev/strategies/schedule.py")
orig = open(P).read()
MUTS = [
 ("N1 v2g: desired_soc of a non-final charge window 1 -> vehicle.desired_soc", "desired_soc = vehicle.desired_soc if window_change == 0 else 1", "desired_soc = vehicle.desired_soc"),
 ("N2 v2g: discharge power bound min(cs.max_power, max_discharge_power) -> cs.max_power", "                            power = min(cs.max_power, max_discharge_power)\n", "                            power = cs.max_power\n"),
 ("N3 v2g: soc < discharge_limit + EPS -> <=", "if sim_vehicle.battery.soc < discharge_limit + self.EPS:", "if sim_vehicle.battery.soc <= discharge_limit + self.EPS:"),
 ("N4 evaluate: missing_energy > EPS -> >= 0", "if missing_energy > self.EPS:", "if missing_energy >= 0:"),
 ("N5 collect_future: generation sign", 'gc_info[-1]["current_loads"][event.name] = -event.value', 'gc_info[-1]["current_loads"][event.name] = event.value'),
 ("N6 collect_future: event.start_time > cur_time -> >=", None, None),
 ("N7 evaluate: extra energy load uses TS_to_charge_vehicles+1", "timedelta=TS_to_charge_vehicles * self.interval,", "timedelta=(TS_to_charge_vehicles + 1) * self.interval,"),
 ("N8 during: excess dt ignores charged timesteps", "dt = dt_to_end_core_standing_time - TS_to_charge_vehicles * self.interval", "dt = dt_to_end_core_standing_time"),
 ("N9 during: last step test <= interval -> < interval", "if dt_to_end_core_standing_time <= self.interval:", "if dt_to_end_core_standing_time < self.interval:"),
 ("N10 after_cst: time_until_departure from interval end", "time_until_departure = vehicle.estimated_time_of_departure - self.current_time", "time_until_departure = vehicle.estimated_time_of_departure - self.current_time - self.interval"),
 ("N11 sim_balanced: ITERATIONS test idx < -> <=", "while (idx < self.ITERATIONS or not safe)", "while (idx <= self.ITERATIONS or not safe)"),
 ("N12 v2g: sort vehicles by id reversed", "and (v.vehicle_type.v2g)], key=lambda x: x[1])", "and (v.vehicle_type.v2g)], key=lambda x: x[1], reverse=True)"),
 ("N13 during: sorted by energy needed descending", "vehicles = sorted(self.energy_needed_per_vehicle.items(), key=lambda i: i[1])", "vehicles = sorted(self.energy_needed_per_vehicle.items(), key=lambda i: -i[1])"),
]
which = sys.argv[1:]
for name, a, b in MUTS:
    tag = name.split()[0]
    if which and tag not in which: continue
    src = orig
    if tag == "N6":
        i = src.index("def collect_future_gc_info"); j = src.index("if event.start_time > cur_time:", i)
        src = src[:j] + "if event.start_time >= cur_time:" + src[j+len("if event.start_time > cur_time:"):]
    elif tag == "M11":
        a2 = a.replace("            power = clamp_power(power, vehicle, cs)\n", "", 1)
        assert a in src; src = src.replace(a, a2)
    elif tag == "R1":
        # 1. bisection midpoint with swapped (commutative) operands; 2. current load read once per battery already ->
        # needed_power computed from the two headrooms' common term; 3. try/except IndexError -> explicit bound check
        src = src.replace("                    add_power = (max_power + min_power) / 2\n", "                    add_power = (min_power + max_power) / 2\n")
        old = ("                    try:\n                        event = self.world_state.future_events[event_idx]\n"
               "                    except IndexError:\n                        # no more events\n                        charging = False\n                        break\n"
               "                    if event.start_time > cur_time:\n                        # not this timestep\n                        break\n"
               "                    # event handled: don't handle again, so increase index\n                    event_idx += 1\n"
               "                    if type(event) is events.VehicleEvent and event.vehicle_id == vid:")
        assert old in src
        new = ("                    if event_idx >= len(self.world_state.future_events):\n                        charging = False\n                        break\n"
               "                    event = self.world_state.future_events[event_idx]\n"
               "                    if not (event.start_time <= cur_time):\n                        break\n"
               "                    event_idx = event_idx + 1\n"
               "                    if isinstance(event, events.VehicleEvent) and vid == event.vehicle_id:")
        src = src.replace(old, new)
        src = src.replace("            if needed_power < -self.EPS:\n                # too much power drawn: support with battery\n                power = -needed_power\n",
                          "            if -self.EPS > needed_power:\n                power = 0 - needed_power\n                power = -needed_power\n")
        src = src.replace("        for cs in self.world_state.charging_stations.values():\n            cs.current_power = 0\n\n        charging_stations = {}\n",
                          "        charging_stations = dict()\n        for station in list(self.world_state.charging_stations.values()):\n            station.current_power = 0\n")
        assert src != orig
    else:
        assert a in src, name
        src = src.replace(a, b)
    open(P, "w").write(src)
    try:
        out = subprocess.run(["/venv/bin/python", os.path.join(HERE, "dev.py"), "0", "100"], capture_output=True, text=True).stdout
    finally:
        open(P, "w").write(orig)
    first = [l for l in out.splitlines() if l.startswith("DISAGREE")][:1]
    summ = [l for l in out.splitlines() if l.startswith("steps")]
    print(name, "=>", summ, first[0][:200] if first else "")
    sys.stdout.flush()
