/-
Python semantics used by the executable model.  Import-free (core Lean only) so that the
driver links without Mathlib.  Every definition is generic in the number type `α`; the
driver instantiates `α := Rat` (exact, compared with `fractions.Fraction`) and `α := Float`
(IEEE, compared with Python floats); proof files instantiate an ordered field.
-/
namespace SpiceEv

/-- Python exceptions the model distinguishes (kinds, not messages). -/
inductive PyErr where
  | assertion | zeroDivision | valueError | keyError | indexError | typeError
  | overflow | runtime | exception | noneResult | fuel
  deriving Repr, DecidableEq, Inhabited

def PyErr.name : PyErr → String
  | .assertion => "AssertionError" | .zeroDivision => "ZeroDivisionError"
  | .valueError => "ValueError" | .keyError => "KeyError" | .indexError => "IndexError"
  | .typeError => "TypeError" | .overflow => "OverflowError" | .runtime => "RuntimeError"
  | .exception => "Exception" | .noneResult => "NoneResult" | .fuel => "FUEL"

abbrev Py := Except PyErr

section
variable {α : Type} [LT α] [DecidableLT α]

/-- Python `min(a, b)`: the first minimal argument. -/
@[inline] def pymin (a b : α) : α := if b < a then b else a
/-- Python `max(a, b)`: the first maximal argument. -/
@[inline] def pymax (a b : α) : α := if a < b then b else a

variable [OfNat α 0]
/-- `x == 0` for numbers, phrased with `<` only (Float has no lawful `DecidableEq`). -/
@[inline] def isZero (x : α) : Bool := !(decide (x < 0)) && !(decide (0 < x))

/-- Python true division: raises `ZeroDivisionError` (also for floats). -/
@[inline] def pydiv [Div α] (a b : α) : Py α :=
  if isZero b then .error .zeroDivision else .ok (a / b)

/-- Python `abs`. -/
@[inline] def pyabs [Neg α] (a : α) : α := if a < 0 then -a else a

/-- `assert c` -/
@[inline] def pyassert (c : Bool) : Py Unit := if c then .ok () else .error .assertion
end

/-- `a <= b` as Bool for types with decidable `≤`. -/
@[inline] def leb {α} [LE α] [DecidableLE α] (a b : α) : Bool := decide (a ≤ b)
@[inline] def ltb {α} [LT α] [DecidableLT α] (a b : α) : Bool := decide (a < b)

end SpiceEv
