/-
C04 — the grid-connector power limit, for the allocation of the strategy `peak_load_window`
(model: Model/StratPeakLoadWindow.lean, tied to the code at the bit level by `./check S_PEAK_LOAD_WINDOW`).

The property's sentence: "Whenever fixed load and generation alone respect that limit, no charging strategy's
decisions break it."  The unchanged code breaks it in specific situations (known findings
`C04:strategy_breaks_limit:peak_load_window:draw:*`); the theorems below prove the sentence for one `step_gc`
call under the hypotheses that exclude exactly those situations, and the examples exhibit the excluded behaviour.
The monitor part of C04 (an over-limit step is never reported as valid) is `C04_monitor` for every strategy.
-/
import SpiceEv.Proofs.StratPeakLoadWindowStep
set_option linter.unusedSectionVars false
namespace SpiceEv
open SpiceEv.PeakLoadWindow
variable {α B : Type} [Field α] [LinearOrder α] [IsStrictOrderedRing α]

/-- **Vehicles never break the limit.**  For a connector without stationary battery whose loads before the step
(fixed load − generation, surplus allowed) are at most the currently valid limit `cur_max_power ≥ 0`: after `step_gc` —
balanced plan outside windows, peak shaving and bisection inside, surplus handed out once through `clamp_power`, for
any number of vehicles, any prognosis, event table, windows and curves — the connector's load is still at most the
limit, and not below what it was (no vehicle is discharged).  Battery: `BatLaw` (0 ≤ avg ≤ request) and exact delivery
(`LoadIdem`, `LoadMin`: the battery delivers `min(target, feasible)`); exact sums (`env.sum = List.sum`).

This is a theorem about the REPAIRED final loop (fixes/PLW2.diff); on the pinned code it needed `0 ≤ load` (finding D6:
the whole surplus to every vehicle).  `_partial`: what is still excluded is a battery without exact delivery —
mechanism (c) of the notes: the shaving/bisection stages re-simulate the accounted level of the current step from its
own average (`battery.py` at negative SoC, finding B14); witness `oddOps` below.  Stationary batteries: next theorem. -/
theorem C04_peak_load_window_vehicles_partial (ops : BatOps α B) (law : BatLaw ops) (idem : LoadIdem ops)
    (lmin : LoadMin ops) (env : PEnv α) (hi : 0 < env.interval) (hsum : ∀ l, env.sum l = l.sum)
    (w w' : PWorld α B) (g : PGc α) (level : String) (cmds : List (String × α))
    (hb : ∀ b ∈ w.batteries, (b.parent == g.gc.id) = false)
    (hcm : 0 ≤ g.gc.curMax) (hlim : g.gc.currentLoad ≤ g.gc.curMax)
    (h : stepGc ops env w g level = .ok (w', cmds)) :
    ∀ g' ∈ w'.gcs, g'.gc.id = g.gc.id →
      g'.gc.curMax = g.gc.curMax ∧ g.gc.currentLoad ≤ g'.gc.currentLoad ∧ g'.gc.currentLoad ≤ g.gc.curMax :=
  stepGc_limit_nobat ops law idem lmin env hi hsum w g level w' cmds hb hcm hlim h

/-- three vehicles (100 kWh, up to 50 kW, SoC = desired SoC = 0.5, leaving in two hours) at 50 kW stations of
the example connector (limit 20 kW) -/
def exThree (loads : List (String × ℚ)) : PWorld ℚ ℚ :=
  { gcs := [exGc loads],
    stations := [⟨"cs1", "G", 50, 0, 0⟩, ⟨"cs2", "G", 50, 0, 0⟩, ⟨"cs3", "G", 50, 0, 0⟩],
    vehicles := [⟨⟨"v1", some "cs1", 1/2, some (2 * exHour), 0, false, 0, 1/2⟩, [50, 50], none⟩,
                 ⟨⟨"v2", some "cs2", 1/2, some (2 * exHour), 0, false, 0, 1/2⟩, [50, 50], none⟩,
                 ⟨⟨"v3", some "cs3", 1/2, some (2 * exHour), 0, false, 0, 1/2⟩, [50, 50], none⟩],
    batteries := [] }

/-- non-vacuity: 18 kW fixed load at a 20 kW limit, a vehicle that wants 2.5 kW: it gets the 2 kW that are left -/
example : cmdsOf (stepGc (toyOps 10 11) exEnv (exWorld [("load", 18)] 11 (1/2) 1 2) (exGc [("load", 18)]) "MV")
      = [("cs1", 2)] ∧
    loadOf (stepGc (toyOps 10 11) exEnv (exWorld [("load", 18)] 11 (1/2) 1 2) (exGc [("load", 18)]) "MV") = [20] := by
  decide +kernel

/-- the hypotheses of the theorem hold together for that example (instantiation) -/
example (w' : PWorld ℚ ℚ) (cmds : List (String × ℚ))
    (h : stepGc (toyOps 10 11) exEnv (exWorld [("load", 18)] 11 (1/2) 1 2) (exGc [("load", 18)]) "MV" = .ok (w', cmds)) :
    ∀ g' ∈ w'.gcs, g'.gc.id = "G" → g'.gc.curMax = 20 ∧ (exGc [("load", 18)]).gc.currentLoad ≤ g'.gc.currentLoad ∧
      g'.gc.currentLoad ≤ 20 :=
  C04_peak_load_window_vehicles_partial (toyOps 10 11) (toyOps_law 10 11) (toyOps_idem 10 11) (toyOps_lmin 10 11)
    exEnv (by decide) (fun _ => rfl) _ w' (exGc [("load", 18)]) "MV" cmds (by simp [exWorld])
    (by decide +kernel) (by decide +kernel) h

/-- the situation of finding D6 on the repaired loop: 20 kW generation surplus at a 20 kW limit, three vehicles that
need nothing: the first takes the surplus, nothing is left for the others, the connector ends at 0 kW
(pinned code: 20 kW to each, +40 kW) -/
example : cmdsOf (stepGc (toyOps 100 50) exEnv (exThree [("pv", -20)]) (exGc [("pv", -20)]) "MV")
      = [("cs1", 20)] ∧
    loadOf (stepGc (toyOps 100 50) exEnv (exThree [("pv", -20)]) (exGc [("pv", -20)]) "MV") = [0] := by
  decide +kernel

/-- … and the theorem applies to it (surplus allowed) -/
example (w' : PWorld ℚ ℚ) (cmds : List (String × ℚ))
    (h : stepGc (toyOps 100 50) exEnv (exThree [("pv", -20)]) (exGc [("pv", -20)]) "MV" = .ok (w', cmds)) :
    ∀ g' ∈ w'.gcs, g'.gc.id = "G" → g'.gc.curMax = 20 ∧ (exGc [("pv", -20)]).gc.currentLoad ≤ g'.gc.currentLoad ∧
      g'.gc.currentLoad ≤ 20 :=
  C04_peak_load_window_vehicles_partial (toyOps 100 50) (toyOps_law 100 50) (toyOps_idem 100 50) (toyOps_lmin 100 50)
    exEnv (by decide) (fun _ => rfl) _ w' (exGc [("pv", -20)]) "MV" cmds (by simp [exThree])
    (by decide +kernel) (by decide +kernel) h

/-- **the hypothesis of exact delivery cannot be dropped (mechanism (c) of the notes):** a connector with a 10 kW limit
and no load at all, two empty vehicles that leave in an hour, and the battery `oddOps` (obeys `BatLaw`, violates
`LoadIdem`): the first vehicle is planned with 10 kW and takes 6 kW, but the shaving and bisection stages re-simulate
the accounted level from its own average (6 → 3 → 1.5 kW), so the second vehicle is planned with 8.5 kW and takes
6 kW as well: 12 kW on a 10 kW connector.  (Real-code instance: negative SoC, see notes/S_PEAK_LOAD_WINDOW.md §5c.) -/
example :
    let g : PGc ℚ := ⟨⟨"G", 10, none, []⟩, "op", some "MV", none, 0⟩
    let w : PWorld ℚ ℚ :=
      { gcs := [g], stations := [⟨"cs1", "G", 20, 0, 0⟩, ⟨"cs2", "G", 20, 0, 0⟩],
        vehicles := [⟨⟨"v1", some "cs1", 1, some exHour, 0, false, 0, 0⟩, [20, 20], none⟩,
                     ⟨⟨"v2", some "cs2", 1, some exHour, 0, false, 0, 0⟩, [20, 20], none⟩],
        batteries := [] }
    cmdsOf (stepGc oddOps exEnv w g "MV") = [("cs1", 6), ("cs2", 6)] ∧
    loadOf (stepGc oddOps exEnv w g "MV") = [12] ∧ g.gc.currentLoad = 0 := by
  decide +kernel

example : BatLaw oddOps ∧ ¬ LoadIdem oddOps := ⟨oddOps_law, oddOps_not_idem⟩

/-- **Vehicles and stationary batteries never break the limit** — with or without a generation surplus.  As above, now
with any number of stationary batteries at the connector (first loop: discharge above / charge below
`min(self.peak_power, cur_max_power)` inside a window, balanced charging until the window change outside; second loop:
restore, add the surplus still in `gc_loads`, apply, write the real average back): if the loads before the step are at
most `cur_max_power ≥ 0` and `self.peak_power ≥ 0`, the connector's load after `step_gc` is at most `cur_max_power` and at
least `min(load_before, 0)` (so within `±cur_max_power` when it was).  Well-formedness: the batteries of the connector
have distinct ids that are neither keys of the connector's loads nor station ids of vehicles, and non-negative
minimum charging powers.  Battery: `BatLaw`, `LoadIdem`, `LoadMin`.

Proof idea for the surplus case: the vehicle hand-out leaves the connector in `[load_before, max(prognosis, 0)]`; the
first battery loop keeps the total of `gc_loads` at most the limit; in the second loop, while that total is negative,
a charging battery asked for `planned + surplus` delivers at least what it delivered for `planned` and at most the
surplus more (`LoadMin`), so the total rises monotonically but not above 0; once it is non-negative the loop repeats
the simulated calls exactly; and the connector ends exactly at the final total.

`_partial`: still excluded is a battery without exact target-power delivery (mechanism (c), finding PLWc). -/
theorem C04_peak_load_window_limit_partial (ops : BatOps α B) (law : BatLaw ops) (idem : LoadIdem ops)
    (lmin : LoadMin ops) (env : PEnv α) (hi : 0 < env.interval) (hsum : ∀ l, env.sum l = l.sum)
    (w w' : PWorld α B) (g : PGc α) (level : String) (cmds : List (String × α))
    (hbid : ((w.batteries.filter (fun b => b.parent == g.gc.id)).map (·.id)).Nodup)
    (hbkey : ∀ b ∈ w.batteries, (b.parent == g.gc.id) = true → sdGet g.gc.loads b.id = none)
    (hbcs : ∀ b ∈ w.batteries, (b.parent == g.gc.id) = true → ∀ pv ∈ w.vehicles, pv.v.cs ≠ some b.id)
    (hbmin : ∀ b ∈ w.batteries, (b.parent == g.gc.id) = true → 0 ≤ b.minChargingPower)
    (hpk0 : 0 ≤ g.peak)
    (hcm : 0 ≤ g.gc.curMax) (hlim : g.gc.currentLoad ≤ g.gc.curMax)
    (h : stepGc ops env w g level = .ok (w', cmds)) :
    ∀ g' ∈ w'.gcs, g'.gc.id = g.gc.id →
      g'.gc.curMax = g.gc.curMax ∧ min g.gc.currentLoad 0 ≤ g'.gc.currentLoad ∧
        g'.gc.currentLoad ≤ g.gc.curMax :=
  stepGc_limit_bat2 ops law idem lmin env hi hsum w g level w' cmds hbid hbkey hbcs hbmin hpk0 hcm hlim h

/-- a connector with a 5 kW limit, the given loads and `peak_power`, and one stationary battery -/
def exBatGcL (loads : List (String × ℚ)) (peak : ℚ) : PGc ℚ := ⟨⟨"G", 5, none, loads⟩, "op", some "MV", none, peak⟩
def exBatWorldL (loads : List (String × ℚ)) (peak : ℚ) : PWorld ℚ ℚ :=
  { gcs := [exBatGcL loads peak], stations := [], vehicles := [], batteries := [⟨"B", "G", 0, 1/2⟩] }
def exBatGc (peak : ℚ) : PGc ℚ := exBatGcL [("load", 4)] peak
def exBatWorld (peak : ℚ) : PWorld ℚ ℚ := exBatWorldL [("load", 4)] peak

/-- non-vacuity: at 02:00 (inside the window), `peak_power` = 5 kW = the limit: the battery is charged with the 1 kW
that is left below the peak, the connector ends at 5 kW -/
example : loadOf (stepGc (toyOps 10 11) (exEnvAt 2) (exBatWorld 5) (exBatGc 5) "MV") = [5] := by
  decide +kernel

example (w' : PWorld ℚ ℚ) (cmds : List (String × ℚ))
    (h : stepGc (toyOps 10 11) (exEnvAt 2) (exBatWorld 5) (exBatGc 5) "MV" = .ok (w', cmds)) :
    ∀ g' ∈ w'.gcs, g'.gc.id = "G" → g'.gc.curMax = 5 ∧ min (exBatGc 5).gc.currentLoad 0 ≤ g'.gc.currentLoad ∧
      g'.gc.currentLoad ≤ 5 :=
  C04_peak_load_window_limit_partial (toyOps 10 11) (toyOps_law 10 11) (toyOps_idem 10 11) (toyOps_lmin 10 11)
    (exEnvAt 2) (by decide) (fun _ => rfl) _ w' (exBatGc 5) "MV" cmds (by decide +kernel) (by decide +kernel)
    (by simp [exBatWorld, exBatWorldL]) (by decide +kernel) (by decide +kernel) (by decide +kernel) (by decide +kernel) h

/-- non-vacuity of the surplus case: 3 kW generation surplus outside windows (00:00, window change in two steps): the
battery plans 2.5 kW (balanced), 0.5 kW surplus is left in `gc_loads`, the second loop asks for 3 kW: the connector ends
at 0 kW; inside the window (02:00) with a battery that can only take 1 kW the connector ends at −2 kW -/
example : loadOf (stepGc (toyOps 10 11) exEnv (exBatWorldL [("pv", -3)] 0) (exBatGcL [("pv", -3)] 0) "MV") = [0] ∧
    loadOf (stepGc (toyOps 10 1) (exEnvAt 2) (exBatWorldL [("pv", -3)] 5) (exBatGcL [("pv", -3)] 5) "MV") = [-2] := by
  decide +kernel

example (w' : PWorld ℚ ℚ) (cmds : List (String × ℚ))
    (h : stepGc (toyOps 10 11) exEnv (exBatWorldL [("pv", -3)] 0) (exBatGcL [("pv", -3)] 0) "MV" = .ok (w', cmds)) :
    ∀ g' ∈ w'.gcs, g'.gc.id = "G" → g'.gc.curMax = 5 ∧
      min (exBatGcL [("pv", -3)] 0).gc.currentLoad 0 ≤ g'.gc.currentLoad ∧ g'.gc.currentLoad ≤ 5 :=
  C04_peak_load_window_limit_partial (toyOps 10 11) (toyOps_law 10 11) (toyOps_idem 10 11) (toyOps_lmin 10 11)
    exEnv (by decide) (fun _ => rfl) _ w' (exBatGcL [("pv", -3)] 0) "MV" cmds (by decide +kernel) (by decide +kernel)
    (by simp [exBatWorldL]) (by decide +kernel) (by decide +kernel) (by decide +kernel) (by decide +kernel) h

/-- the situation of the former finding on the repaired branch (PLW1): `peak_power` = 6 kW above the 5 kW limit: inside
the window the battery is charged with the 1 kW that is left below the LIMIT, the connector ends at 5 kW -/
example : loadOf (stepGc (toyOps 10 11) (exEnvAt 2) (exBatWorld 6) (exBatGc 6) "MV") = [5] := by
  decide +kernel

/-- **The whole step: every connector stays within its limit** — with or without generation surpluses.
`PeakLoadWindow.step` is the fold of `step_gc` over the connectors, each call working on the world the previous ones left.
If connector ids, vehicle ids and battery ids are unique and EVERY connector satisfies the premise `GcOK` before the step
(load within `±cur_max_power`, i.e. fixed load and generation respect the limit; `cur_max_power ≥ 0`; `peak_power ≥ 0`; the
batteries at it have ids that are neither load keys nor station ids, and non-negative minimum powers), then after the
step every connector's load is within `±cur_max_power`.  The proof needs the frame of `step_gc` (`stepGc_frame`: a call
writes only its own connector, the battery state of its batteries and battery state / schedule of vehicles).

`_partial`: excluded is only a battery without exact target-power delivery (`LoadIdem`, `LoadMin`; mechanism (c),
finding PLWc). -/
theorem C04_peak_load_window_step_limit_partial (ops : BatOps α B) (law : BatLaw ops) (idem : LoadIdem ops)
    (lmin : LoadMin ops) (env : PEnv α) (hi : 0 < env.interval) (hsum : ∀ l, env.sum l = l.sum) (w w' : PWorld α B)
    (cmds : List (String × α))
    (hgn : (w.gcs.map (fun g => g.gc.id)).Nodup) (hvn : ((vmeta w.vehicles).map Prod.fst).Nodup)
    (hbn : ((bmeta w.batteries).map Prod.fst).Nodup)
    (hok : ∀ g ∈ w.gcs, GcOK (vmeta w.vehicles) (bmeta w.batteries) g)
    (h : step ops env w = .ok (w', cmds)) :
    ∀ g' ∈ w'.gcs, -g'.gc.curMax ≤ g'.gc.currentLoad ∧ g'.gc.currentLoad ≤ g'.gc.curMax :=
  step_limit ops law idem lmin env hi hsum w w' cmds hgn hvn hbn hok h

/-- two connectors (G: 20 kW limit, 18 kW load; H: 10 kW limit, 3 kW load and 9 kW generation, one battery), one
vehicle at each -/
def exTwoH : PGc ℚ := ⟨⟨"H", 10, none, [("load", 3), ("pv", -9)]⟩, "op", some "MV", none, 5⟩
def exTwo : PWorld ℚ ℚ :=
  { gcs := [exGc [("load", 18)], exTwoH],
    stations := [⟨"cs1", "G", 11, 0, 0⟩, ⟨"cs2", "H", 11, 0, 0⟩],
    vehicles := [⟨⟨"v1", some "cs1", 1, some (2 * exHour), 0, false, 0, 1/2⟩, [11, 11], none⟩,
                 ⟨⟨"v2", some "cs2", 1, some (2 * exHour), 0, false, 0, 1/2⟩, [11, 11], none⟩],
    batteries := [⟨"B", "H", 0, 1/2⟩] }

/-- non-vacuity of the step theorem: G gets the 2 kW that are left; H has a 6 kW surplus: its vehicle is planned with
2.5 kW and takes 5 kW (surplus hand-out), its battery (outside windows) charges balanced until the window begins:
2.5 kW; H ends at 1.5 kW -/
example : cmdsOf (step (toyOps 10 11) exEnv exTwo) = [("cs1", 2), ("cs2", 5)] ∧
    loadOf (step (toyOps 10 11) exEnv exTwo) = [20, 3/2] := by
  decide +kernel

example (w' : PWorld ℚ ℚ) (cmds : List (String × ℚ)) (h : step (toyOps 10 11) exEnv exTwo = .ok (w', cmds)) :
    ∀ g' ∈ w'.gcs, -g'.gc.curMax ≤ g'.gc.currentLoad ∧ g'.gc.currentLoad ≤ g'.gc.curMax := by
  refine C04_peak_load_window_step_limit_partial (toyOps 10 11) (toyOps_law 10 11) (toyOps_idem 10 11)
    (toyOps_lmin 10 11) exEnv
    (by decide) (fun _ => rfl) exTwo w' cmds (by decide +kernel) (by decide +kernel) (by decide +kernel) ?_ h
  intro g hg
  simp only [exTwo, List.mem_cons, List.not_mem_nil, or_false] at hg
  rcases hg with rfl | rfl
  · exact ⟨by decide +kernel, by decide +kernel, by decide +kernel, by decide +kernel, by decide +kernel,
      by decide +kernel, by decide +kernel⟩
  · exact ⟨by decide +kernel, by decide +kernel, by decide +kernel, by decide +kernel, by decide +kernel,
      by decide +kernel, by decide +kernel⟩

end SpiceEv
