/-
Helper lemmas for C18: the executable report model (SpiceEv/Model/Report.lean) over an arbitrary
linearly ordered field, plus the rounding facts on ℚ used by the driver instantiation.
-/
import SpiceEv.Proofs.Basic
import SpiceEv.Model.Report
import Mathlib.Tactic.Linarith
import Mathlib.Tactic.Ring
import Mathlib.Tactic.NormNum
import Mathlib.Tactic.Positivity
import Mathlib.Algebra.BigOperators.Group.List.Basic
import Mathlib.Data.Rat.Floor
import Mathlib.Data.List.Forall2
import Mathlib.Tactic.FieldSimp
set_option linter.unusedSectionVars false
set_option linter.unusedSimpArgs false
set_option linter.unusedVariables false
set_option linter.unusedTactic false
set_option linter.unreachableTactic false
namespace SpiceEv.Report
open SpiceEv

/-! ### `Except` plumbing -/

theorem bind_ok {β γ : Type} {x : Py β} {f : β → Py γ} {r : γ} (h : (x >>= f) = .ok r) :
    ∃ a, x = .ok a ∧ f a = .ok r := by
  cases x with
  | error e => simp [bind, Except.bind] at h
  | ok a => exact ⟨a, rfl, by simpa [bind, Except.bind] using h⟩

theorem mapM_ok_forall₂ {β γ : Type} (f : β → Py γ) :
    ∀ (l : List β) (r : List γ), l.mapM f = .ok r → List.Forall₂ (fun a b => f a = .ok b) l r := by
  intro l
  induction l with
  | nil => intro r h; simp [pure, Except.pure] at h; subst h; exact List.Forall₂.nil
  | cons a l ih =>
    intro r h
    rw [List.mapM_cons] at h
    obtain ⟨b, hb, h⟩ := bind_ok h
    obtain ⟨bs, hbs, h⟩ := bind_ok h
    simp [pure, Except.pure] at h; subst h
    exact List.Forall₂.cons hb (ih bs hbs)

theorem mapM_ok_length {β γ : Type} (f : β → Py γ) (l : List β) (r : List γ)
    (h : l.mapM f = .ok r) : r.length = l.length :=
  (mapM_ok_forall₂ f l r h).length_eq.symm

/-! ### round-half-even on ℚ (the driver's `rnd`) -/

theorem floor_le' (x : ℚ) : (x.floor : ℚ) ≤ x := Int.floor_le x
theorem lt_floor_add_one' (x : ℚ) : x < (x.floor : ℚ) + 1 := Int.lt_floor_add_one x
theorem floor_nonneg' (x : ℚ) (hx : 0 ≤ x) : 0 ≤ x.floor := Int.floor_nonneg.mpr hx

theorem roundHalfEven_cases (x : ℚ) :
    (roundHalfEven x = x.floor ∧ x - x.floor ≤ 1 / 2) ∨
    (roundHalfEven x = x.floor + 1 ∧ 1 / 2 ≤ x - x.floor) := by
  unfold roundHalfEven
  by_cases a : x - (x.floor : ℚ) < 1 / 2
  · left; simp only [if_pos a]; exact ⟨trivial, a.le⟩
  · simp only [if_neg a]
    by_cases b : 1 / 2 < x - (x.floor : ℚ)
    · right; simp only [if_pos b]; exact ⟨trivial, b.le⟩
    · simp only [if_neg b]
      have e : x - (x.floor : ℚ) = 1 / 2 := le_antisymm (not_lt.mp b) (not_lt.mp a)
      by_cases c : x.floor % 2 = 0
      · left; simp only [if_pos c]; exact ⟨trivial, e.le⟩
      · right; simp only [if_neg c]; exact ⟨trivial, e.ge⟩

theorem roundHalfEven_bounds (x : ℚ) :
    |(roundHalfEven x : ℚ) - x| ≤ 1 / 2 := by
  have h1 := floor_le' x
  have h2 := lt_floor_add_one' x
  rw [abs_le]
  rcases roundHalfEven_cases x with ⟨e, h⟩ | ⟨e, h⟩ <;> rw [e] <;> push_cast <;>
    constructor <;> linarith

theorem roundHalfEven_nonneg (x : ℚ) (hx : 0 ≤ x) : 0 ≤ roundHalfEven x := by
  have := floor_nonneg' x hx
  rcases roundHalfEven_cases x with ⟨e, _⟩ | ⟨e, _⟩ <;> rw [e] <;> omega

theorem pyRoundRat_close (p : Nat) (x : ℚ) :
    |pyRoundRat p x - x| ≤ 1 / (2 * 10 ^ p) := by
  unfold pyRoundRat
  have hp : (0 : ℚ) < ((10 ^ p : ℕ) : ℚ) := by positivity
  have hb := roundHalfEven_bounds (x * ((10 ^ p : ℕ) : ℚ))
  set r : ℚ := (roundHalfEven (x * ((10 ^ p : ℕ) : ℚ)) : ℚ)
  have : r / ((10 ^ p : ℕ) : ℚ) - x = (r - x * ((10 ^ p : ℕ) : ℚ)) / ((10 ^ p : ℕ) : ℚ) := by
    field_simp
  rw [this, abs_div, abs_of_pos hp, div_le_iff₀ hp]
  calc |r - x * ((10 ^ p : ℕ) : ℚ)| ≤ 1 / 2 := hb
    _ = 1 / (2 * 10 ^ p) * ((10 ^ p : ℕ) : ℚ) := by push_cast; field_simp

theorem pyRoundRat_nonneg (p : Nat) (x : ℚ) (hx : 0 ≤ x) : 0 ≤ pyRoundRat p x := by
  unfold pyRoundRat
  have hp : (0 : ℚ) < ((10 ^ p : ℕ) : ℚ) := by positivity
  have := roundHalfEven_nonneg (x * ((10 ^ p : ℕ) : ℚ)) (mul_nonneg hx hp.le)
  exact div_nonneg (by exact_mod_cast this) hp.le

theorem forall₂_map_eq {β γ δ : Type} {P : β → γ → Prop} {f : β → δ} {g : γ → δ}
    {l₁ : List β} {l₂ : List γ} (h : List.Forall₂ P l₁ l₂) (hP : ∀ a b, P a b → f a = g b) :
    l₁.map f = l₂.map g := by
  induction h with
  | nil => rfl
  | cons hab _ ih => simp [hP _ _ hab, ih]

theorem zipIdx_map_comp {β γ : Type} (g : β → γ) (l : List β) (n : Nat) :
    (l.zipIdx n).map (fun p => g p.1) = l.map g := by
  induction l generalizing n with
  | nil => rfl
  | cons a l ih => simp [List.zipIdx_cons, ih]

section field
variable {α : Type} [Field α] [LinearOrder α] [IsStrictOrderedRing α]

theorem foldl_add (l : List α) (a : α) : l.foldl (· + ·) a = a + l.sum := by
  induction l generalizing a with
  | nil => simp
  | cons x xs ih => simp [ih, add_assoc]

@[simp] theorem pysum_eq_sum (l : List α) : pysum l = l.sum := by
  unfold pysum; rw [foldl_add]; simp

@[simp] theorem truthy_iff (x : α) : truthy x = true ↔ x ≠ 0 := by
  unfold truthy
  rcases h : isZero x with _ | _
  · simp; intro hx; have := (isZero_iff x).mpr hx; rw [h] at this; exact absurd this (by simp)
  · simp; exact (isZero_iff x).mp h

/-! ### split_feedin -/

theorem splitFeedinRaw_eq (grid gen cs : α) :
    splitFeedinRaw grid gen cs =
      (max (min (-gen) grid) 0,
       max (min (-cs) (grid - max (min (-gen) grid) 0)) 0,
       max (grid - max (min (-gen) grid) 0 - max (min (-cs) (grid - max (min (-gen) grid) 0)) 0) 0) := by
  simp [splitFeedinRaw]

/-! ### aggregate_timeseries: rows against the header -/

/-- the three feed-in parts of a step before rounding -/
def feedRaw (f : Flags) (csIds : List String) (s : StepData α) : α × α × α :=
  splitFeedinRaw (-s.totalLoad) (if f.hasGeneration then -s.localGen else 0)
    (pymin (csSumOf csIds s) 0)

/-- **Reference row**: every cell of a time-series row together with the name of its column. -/
def namedRow (rnd : α → α) (R : RunData α) (f : Flags) (csIds : List String)
    (cbu : List (String × List String)) (idx : Nat) (s : StepData α)
    (bat flex : List (Cell α)) : List (String × Cell α) :=
  [("timestep", Cell.int idx), ("time", Cell.time s.time)]
  ++ (if f.hasPrice then [("price [ct/kWh]", Cell.raw s.price)] else [])
  ++ [("grid supply [kW]", Cell.num (-(rnd s.totalLoad)))]
  ++ (if f.hasFixedLoads then [("fixed load [kW]", Cell.num (rnd (sumFixedLoads R s)))] else [])
  ++ (if f.hasGeneration then [("local generation [kW]", Cell.num (-(rnd s.localGen)))] else [])
  ++ (if f.hasBatteries then ["battery power [kW]", "bat. stored energy [kWh]"].zip bat else [])
  ++ (if f.hasFlex then ["flex band min [kW]", "flex band base [kW]", "flex band max [kW]",
                         "max energy flex [kWh]"].zip flex else [])
  ++ (if f.hasSchedule then [("schedule [kW]",
        match s.schedule with | some v => Cell.num (rnd v) | none => Cell.none)] else [])
  ++ (if f.hasWindows then [("window signal [-]",
        match s.window with | some b => Cell.bool b | none => Cell.none)] else [])
  ++ (if f.hasGeneration then [("generation feed-in [kW]", Cell.num (rnd (feedRaw f csIds s).1))] else [])
  ++ (if f.hasV2G then [("V2G feed-in [kW]", Cell.num (rnd (feedRaw f csIds s).2.1))] else [])
  ++ (if f.hasBatteries then [("battery feed-in [kW]", Cell.num (rnd (feedRaw f csIds s).2.2))] else [])
  ++ [("sum CS power [kW]", Cell.num (rnd (csSumOf csIds s)))]
  ++ cbu.map (fun uc => ("sum UC " ++ uc.1, Cell.num (rnd
        (((gcCommands csIds s).filter (fun kv => uc.2.contains kv.1)).map (·.2)).sum)))
  ++ [("# occupied CS [-]", Cell.int s.connCharge.length),
      ("# CS in use [-]", Cell.int (s.connCharge.filter (fun kv => kv.2 ≠ 0)).length)]
  ++ cbu.map (fun uc => ("# occupied UC " ++ uc.1,
        Cell.int (s.connCharge.filter (fun kv => strIn uc.1 kv.1)).length))
  ++ csIds.map (fun cs => (cs ++ " [kW]", Cell.num (rnd (((gcCommands csIds s).lookup cs).getD 0))))

theorem feedCells_eq (rnd : α → α) (f : Flags) (csIds : List String) (s : StepData α) :
    feedCells rnd f csIds s =
      (if f.hasGeneration then [Cell.num (rnd (feedRaw f csIds s).1)] else [])
      ++ (if f.hasV2G then [Cell.num (rnd (feedRaw f csIds s).2.1)] else [])
      ++ (if f.hasBatteries then [Cell.num (rnd (feedRaw f csIds s).2.2)] else []) := by
  unfold feedCells feedSplit splitFeedin feedRaw
  cases f.hasGeneration <;> cases f.hasV2G <;> cases f.hasBatteries <;> simp

theorem zip_append' {β γ : Type} {l₁ l₂ : List β} {r₁ r₂ : List γ} (h : l₁.length = r₁.length) :
    (l₁ ++ l₂).zip (r₁ ++ r₂) = l₁.zip r₁ ++ l₂.zip r₂ := List.zip_append h

theorem zip_map_map {β γ δ : Type} (l : List β) (f : β → γ) (g : β → δ) :
    (l.map f).zip (l.map g) = l.map (fun x => (f x, g x)) := by
  induction l with
  | nil => rfl
  | cons a l ih => simp [ih]

theorem filter_truthy (l : List (String × α)) :
    l.filter (fun kv => truthy kv.2) = l.filter (fun kv => kv.2 ≠ 0) := by
  congr 1; funext kv
  rcases h : truthy kv.2 with _ | _
  · have : ¬ kv.2 ≠ 0 := fun hne => by rw [(truthy_iff kv.2).mpr hne] at h; exact absurd h (by simp)
    simp [this]
  · have := (truthy_iff kv.2).mp h; simp [this]

theorem zip_header_row (rnd : α → α) (R : RunData α) (f : Flags) (csIds : List String)
    (cbu : List (String × List String)) (idx : Nat) (s : StepData α) (bat flex : List (Cell α))
    (hbat : bat.length = if f.hasBatteries then 2 else 0)
    (hflex : flex.length = if f.hasFlex then 4 else 0) :
    (tsHeader f (cbu.map (·.1)) csIds).zip (tsRowWith rnd R f csIds cbu idx s bat flex)
      = namedRow rnd R f csIds cbu idx s bat flex := by
  unfold tsHeader tsRowWith namedRow
  rw [feedCells_eq]
  simp only [List.append_assoc]
  unfold headCells priceCells gridCells fixedCells genCells schedCells winCells csSumCells
    ucSumCells occCells ucOccCells perCsCells
  rw [zip_append' (by rfl)]
  rw [zip_append' (by split <;> rfl)]
  rw [zip_append' (by rfl)]
  rw [zip_append' (by split <;> rfl)]
  rw [zip_append' (by split <;> rfl)]
  rw [zip_append' (by rw [hbat]; split <;> rfl)]
  rw [zip_append' (by rw [hflex]; split <;> rfl)]
  rw [zip_append' (by split <;> [split; skip] <;> rfl)]
  rw [zip_append' (by split <;> rfl)]
  rw [zip_append' (by split <;> rfl)]
  rw [zip_append' (by split <;> rfl)]
  rw [zip_append' (by split <;> rfl)]
  rw [zip_append' (by rfl)]
  rw [zip_append' (by simp)]
  rw [zip_append' (by rfl)]
  rw [zip_append' (by simp)]
  simp only [List.map_map, zip_map_map, filter_truthy, pysum_eq_sum]
  have seg : ∀ {β : Type} {a b c d : List β}, a = b → c = d → a ++ c = b ++ d := by
    intro β a b c d h1 h2; rw [h1, h2]
  refine seg rfl <| seg ?_ <| seg rfl <| seg ?_ <| seg ?_ <| seg ?_ <| seg ?_ <| seg ?_ <| seg ?_ <|
    seg ?_ <| seg ?_ <| seg ?_ <| seg rfl <| seg ?_ <| seg rfl <| seg ?_ ?_
  · split <;> rfl
  · split <;> rfl
  · split <;> rfl
  · split <;> rfl
  · split <;> rfl
  · split
    · cases s.schedule <;> rfl
    · rfl
  · split <;> rfl
  · split <;> rfl
  · split <;> rfl
  · split <;> rfl
  · rfl
  · rfl
  · rfl


theorem schedCells_length (rnd : α → α) (f : Flags) (s : StepData α) :
    (schedCells rnd f s).length = if f.hasSchedule then 1 else 0 := by
  unfold schedCells; split
  · cases s.schedule <;> rfl
  · rfl

theorem tsRowWith_length (rnd : α → α) (R : RunData α) (f : Flags) (csIds : List String)
    (cbu : List (String × List String)) (idx : Nat) (s : StepData α) (bat flex : List (Cell α))
    (hbat : bat.length = if f.hasBatteries then 2 else 0)
    (hflex : flex.length = if f.hasFlex then 4 else 0) :
    (tsRowWith rnd R f csIds cbu idx s bat flex).length = (tsHeader f (cbu.map (·.1)) csIds).length := by
  unfold tsHeader tsRowWith
  rw [feedCells_eq]
  simp only [List.length_append, schedCells_length, hbat, hflex]
  unfold headCells priceCells gridCells fixedCells genCells winCells csSumCells
    ucSumCells occCells ucOccCells perCsCells
  simp only [apply_ite List.length, List.length_cons, List.length_nil, List.length_map,
    Nat.zero_add, Nat.reduceAdd]
  ring

theorem batCells_ok {rnd : α → α} {R : RunData α} {f : Flags} {idx : Nat} {s : StepData α}
    {l : List (Cell α)} (h : batCells rnd R f idx s = .ok l) :
    (f.hasBatteries = false ∧ l = []) ∨
    (f.hasBatteries = true ∧ ∃ stored, batteryStored R idx = .ok stored ∧
      l = [Cell.num (rnd (batteryPower R s)), Cell.num (rnd stored)]) := by
  unfold batCells at h
  cases hb : f.hasBatteries with
  | false =>
    left; simp [hb, pure, Except.pure] at h
    first | exact ⟨rfl, h⟩ | exact ⟨rfl, h.symm⟩
  | true =>
    right; simp only [hb, if_true] at h
    obtain ⟨st, hst, h⟩ := bind_ok h
    simp [pure, Except.pure] at h
    first | exact ⟨rfl, st, hst, h⟩ | exact ⟨rfl, st, hst, h.symm⟩

theorem batCells_length {rnd : α → α} {R : RunData α} {f : Flags} {idx : Nat} {s : StepData α}
    {l : List (Cell α)} (h : batCells rnd R f idx s = .ok l) :
    l.length = if f.hasBatteries then 2 else 0 := by
  rcases batCells_ok h with ⟨hb, rfl⟩ | ⟨hb, st, _, rfl⟩ <;> simp [hb]

theorem flexCells_ok {rnd : α → α} {R : RunData α} {f : Flags} {idx : Nat} {s : StepData α}
    {l : List (Cell α)} (h : flexCells rnd R f idx s = .ok l) :
    (f.hasFlex = false ∧ l = []) ∨
    (f.hasFlex = true ∧ ∃ mfe, maxFlexEnergy R s = .ok mfe ∧
      ((∃ mn base mx ivs a b c, R.flex = .band mn base mx ivs ∧ mn[idx]? = some a ∧
          base[idx]? = some b ∧ mx[idx]? = some c ∧
          l = [Cell.num (rnd a), Cell.num (rnd b), Cell.num (rnd c), Cell.num (rnd mfe)]) ∨
       ((R.flex = .skipped ∨ R.flex = .failed) ∧ l = [Cell.int 0, Cell.int 0, Cell.int 0, Cell.int 0]))) := by
  unfold flexCells at h
  cases hb : f.hasFlex with
  | false =>
    left; simp [hb, pure, Except.pure] at h
    first | exact ⟨rfl, h⟩ | exact ⟨rfl, h.symm⟩
  | true =>
    right; simp only [hb, if_true] at h
    obtain ⟨mfe, hm, h⟩ := bind_ok h
    refine ⟨rfl, mfe, hm, ?_⟩
    cases hf : R.flex with
    | skipped =>
      right; simp [hf, pure, Except.pure] at h
      first | exact ⟨Or.inl rfl, h⟩ | exact ⟨Or.inl rfl, h.symm⟩
    | failed =>
      right; simp [hf, pure, Except.pure] at h
      first | exact ⟨Or.inr rfl, h⟩ | exact ⟨Or.inr rfl, h.symm⟩
    | band mn base mx ivs =>
      left
      simp only [hf] at h
      obtain ⟨a, ha, h⟩ := bind_ok h
      obtain ⟨b, hb', h⟩ := bind_ok h
      obtain ⟨c, hc, h⟩ := bind_ok h
      simp [pure, Except.pure] at h
      have idx_ok : ∀ {xs : List α} {v : α}, pyIndex xs idx = .ok v → xs[idx]? = some v := by
        intro xs v hv; unfold pyIndex at hv
        cases hx : xs[idx]? with
        | none => simp [hx] at hv
        | some w => simp [hx] at hv; rw [hv]
      first
        | exact ⟨mn, base, mx, ivs, a, b, c, rfl, idx_ok ha, idx_ok hb', idx_ok hc, h⟩
        | exact ⟨mn, base, mx, ivs, a, b, c, rfl, idx_ok ha, idx_ok hb', idx_ok hc, h.symm⟩

theorem flexCells_length {rnd : α → α} {R : RunData α} {f : Flags} {idx : Nat} {s : StepData α}
    {l : List (Cell α)} (h : flexCells rnd R f idx s = .ok l) :
    l.length = if f.hasFlex then 4 else 0 := by
  rcases flexCells_ok h with ⟨hb, rfl⟩ | ⟨hb, mfe, _, ⟨_, _, _, _, _, _, _, _, _, _, _, rfl⟩ | ⟨_, rfl⟩⟩ <;>
    simp [hb]

theorem tsRow_ok {rnd : α → α} {R : RunData α} {f : Flags} {csIds : List String}
    {cbu : List (String × List String)} {idx : Nat} {s : StepData α} {row : List (Cell α)}
    (h : tsRow rnd R f csIds cbu idx s = .ok row) :
    ∃ bat flex, batCells rnd R f idx s = .ok bat ∧ flexCells rnd R f idx s = .ok flex ∧
      row = tsRowWith rnd R f csIds cbu idx s bat flex := by
  unfold tsRow at h
  obtain ⟨bat, hb, h⟩ := bind_ok h
  obtain ⟨flex, hf, h⟩ := bind_ok h
  simp [pure, Except.pure] at h
  first | exact ⟨bat, flex, hb, hf, h⟩ | exact ⟨bat, flex, hb, hf, h.symm⟩


/-! ### aggregate_timeseries as a whole -/

theorem aggregateTimeseries_ok {rnd : α → α} {R : RunData α} {header : List String}
    {rows : List (List (Cell α))} (h : aggregateTimeseries rnd R = .ok (header, rows)) :
    header = tsHeader (flagsOf R) ((csByUc (csIdsOf R)).map (·.1)) (csIdsOf R) ∧
    List.Forall₂ (fun (p : StepData α × Nat) row =>
      tsRow rnd R (flagsOf R) (csIdsOf R) (csByUc (csIdsOf R)) p.2 p.1 = .ok row) R.steps.zipIdx rows := by
  unfold aggregateTimeseries at h
  obtain ⟨rs, hrs, h⟩ := bind_ok h
  simp [pure, Except.pure] at h
  obtain ⟨h1, h2⟩ := h
  subst h2
  exact ⟨h1.symm, mapM_ok_forall₂ _ _ _ hrs⟩

theorem rows_at {rnd : α → α} {R : RunData α} {header : List String}
    {rows : List (List (Cell α))} (h : aggregateTimeseries rnd R = .ok (header, rows)) :
    rows.length = R.steps.length ∧
    ∀ (i : Nat) (hi : i < R.steps.length), ∃ row, rows[i]? = some row ∧
      tsRow rnd R (flagsOf R) (csIdsOf R) (csByUc (csIdsOf R)) i R.steps[i] = .ok row := by
  obtain ⟨_, hf⟩ := aggregateTimeseries_ok h
  have hlen : R.steps.zipIdx.length = rows.length := hf.length_eq
  rw [List.length_zipIdx] at hlen
  refine ⟨hlen.symm, ?_⟩
  intro i hi
  have hi' : i < rows.length := hlen ▸ hi
  refine ⟨rows[i], List.getElem?_eq_getElem hi', ?_⟩
  have := (List.forall₂_iff_get.mp hf).2 i (by rw [List.length_zipIdx]; exact hi) hi'
  simpa [List.getElem_zipIdx] using this

/-! ### sum of the station columns -/

theorem lookup_cons' {β : Type} (c k : String) (v : β) (L : List (String × β)) :
    ((k, v) :: L).lookup c = if c = k then some v else L.lookup c := by
  rw [List.lookup_cons]
  by_cases h : c = k
  · subst h; simp
  · have : (c == k) = false := by simpa using h
    simp [this, h]

theorem lookup_filter_mem {β : Type} (C : List String) (L : List (String × β)) (c : String)
    (hc : c ∈ C) : (L.filter (fun kv => C.contains kv.1)).lookup c = L.lookup c := by
  induction L with
  | nil => rfl
  | cons kv L ih =>
    obtain ⟨k, v⟩ := kv
    by_cases hk : C.contains k = true
    · rw [List.filter_cons_of_pos (by simpa using hk), lookup_cons', lookup_cons', ih]
    · rw [List.filter_cons_of_neg (by simpa using hk), lookup_cons', ih]
      have : c ≠ k := by
        rintro rfl; exact hk (by simpa using hc)
      simp [this]

theorem lookup_none_of_not_mem {β : Type} (L : List (String × β)) (k : String)
    (h : k ∉ L.map (·.1)) : L.lookup k = none := by
  induction L with
  | nil => rfl
  | cons kv L ih =>
    obtain ⟨k', v⟩ := kv
    simp only [List.map_cons, List.mem_cons, not_or] at h
    rw [lookup_cons', if_neg h.1, ih h.2]

theorem sum_ite_nodup (C : List String) (hC : C.Nodup) (k : String) (v : α) (h : String → α) :
    (C.map (fun c => if c = k then v else h c)).sum
      = (if k ∈ C then v - h k else 0) + (C.map h).sum := by
  induction C with
  | nil => simp
  | cons c C ih =>
    have hnd := List.nodup_cons.mp hC
    rw [List.map_cons, List.sum_cons, List.map_cons, List.sum_cons, ih hnd.2]
    by_cases hck : c = k
    · subst hck
      simp [hnd.1]; ring
    · have : k ≠ c := fun e => hck e.symm
      by_cases hk : k ∈ C
      · simp [hck, this, hk]; ring
      · simp [hck, this, hk]

theorem sum_lookup_eq_sum_filter (C : List String) (hC : C.Nodup) (L : List (String × α))
    (hL : (L.map (·.1)).Nodup) :
    (C.map (fun c => (L.lookup c).getD 0)).sum
      = ((L.filter (fun kv => C.contains kv.1)).map (·.2)).sum := by
  induction L with
  | nil => simp
  | cons kv L ih =>
    obtain ⟨k, v⟩ := kv
    simp only [List.map_cons, List.nodup_cons] at hL
    have e : (fun c => (((k, v) :: L).lookup c).getD 0)
        = (fun c => if c = k then v else (L.lookup c).getD 0) := by
      funext c; rw [lookup_cons']; split <;> rfl
    rw [e, sum_ite_nodup C hC, ih hL.2, lookup_none_of_not_mem L k hL.1]
    by_cases hk : k ∈ C
    · rw [List.filter_cons_of_pos (by simpa using hk)]; simp [hk]
    · rw [List.filter_cons_of_neg (by simpa using hk)]; simp [hk]

/-- the written "sum CS power" is, before rounding, the sum of the per-station columns -/
theorem csSum_eq_sum_perCs (csIds : List String) (s : StepData α)
    (hc : (s.commands.map (·.1)).Nodup) (hs : csIds.Nodup) :
    csSumOf csIds s = (csIds.map (fun cs => ((gcCommands csIds s).lookup cs).getD 0)).sum := by
  unfold csSumOf gcCommands
  rw [pysum_eq_sum, ← sum_lookup_eq_sum_filter csIds hs s.commands hc]
  congr 1
  apply List.map_congr_left
  intro c hcm
  rw [lookup_filter_mem csIds s.commands c hcm]

/-! ### generate_soc_timeseries -/

theorem pyIndex_ok {β : Type} {xs : List β} {i : Nat} {v : β} (h : pyIndex xs i = .ok v) :
    xs[i]? = some v := by
  unfold pyIndex at h
  cases hx : xs[i]? with
  | none => simp [hx] at h
  | some w => simp [hx] at h; rw [h]

/-- entry of the SoC series for one step: connected value if there is one, else the
disconnected one (which is only looked at in that case) -/
def SocEntryOk (i : Nat) (s : StepData α) (e : Option α) : Prop :=
  ∃ a, s.socs[i]? = some a ∧
    ((∃ v, a = some v ∧ e = some v) ∨ (a = none ∧ s.disconnect[i]? = some e))

theorem socSeries_ok {R : RunData α} {cols : List (String × List (Option α))}
    (h : socSeries R = .ok cols) :
    List.Forall₂ (fun (p : String × Nat) (c : String × List (Option α)) =>
        c.1 = p.1 ∧ List.Forall₂ (SocEntryOk p.2) R.steps c.2)
      (sortedStr (R.vehicles.map (·.1))).zipIdx cols := by
  unfold socSeries at h
  have := mapM_ok_forall₂ _ _ _ h
  refine this.imp ?_
  intro p c hpc
  obtain ⟨col, hcol, hpc⟩ := bind_ok hpc
  simp [pure, Except.pure] at hpc
  subst hpc
  refine ⟨rfl, (mapM_ok_forall₂ _ _ _ hcol).imp ?_⟩
  intro s e hse
  obtain ⟨a, ha, hse⟩ := bind_ok hse
  refine ⟨a, pyIndex_ok ha, ?_⟩
  cases a with
  | none => right; exact ⟨rfl, pyIndex_ok hse⟩
  | some v => left; simp [pure, Except.pure] at hse; exact ⟨v, rfl, hse.symm⟩

theorem socEntryOk_entry {i : Nat} {s : StepData α} {e : Option α} (h : SocEntryOk i s e)
    {a d : Option α} (ha : s.socs[i]? = some a) (hd : s.disconnect[i]? = some d) :
    e = socEntry a d := by
  obtain ⟨a', ha', h⟩ := h
  rw [ha] at ha'; cases ha'
  rcases h with ⟨v, rfl, rfl⟩ | ⟨rfl, hd'⟩
  · rfl
  · rw [hd] at hd'; cases hd'; rfl

/-! ### aggregate_local_results -/

/-- minute of the (local) day at which step `idx` starts -/
def minuteOfDay (startLocal interval : Int) (idx : Nat) : Int :=
  ((startLocal + interval * (idx : Int)) % 86400000000) / 60000000

theorem windowIndex_spec (startLocal interval : Int) (idx : Nat) :
    0 ≤ minuteOfDay startLocal interval idx ∧ minuteOfDay startLocal interval idx < 1440 ∧
    ((240 ≤ minuteOfDay startLocal interval idx ∧ minuteOfDay startLocal interval idx < 600 ∧
        windowIndex startLocal interval idx = 0) ∨
     (600 ≤ minuteOfDay startLocal interval idx ∧ minuteOfDay startLocal interval idx < 960 ∧
        windowIndex startLocal interval idx = 1) ∨
     (960 ≤ minuteOfDay startLocal interval idx ∧ minuteOfDay startLocal interval idx < 1320 ∧
        windowIndex startLocal interval idx = 2) ∨
     ((minuteOfDay startLocal interval idx < 240 ∨ 1320 ≤ minuteOfDay startLocal interval idx) ∧
        windowIndex startLocal interval idx = 3)) := by
  simp only [windowIndex, minuteOfDay]
  omega

theorem windowIndex_lt (startLocal interval : Int) (idx : Nat) :
    windowIndex startLocal interval idx < 4 := by
  rcases (windowIndex_spec startLocal interval idx).2.2 with h | h | h | h <;> omega

theorem pydiv_ok_inv {a b r : α} (h : pydiv a b = .ok r) : b ≠ 0 ∧ r = a / b := by
  by_cases hb : b = 0
  · subst hb; rw [pydiv_zero] at h; cases h
  · rw [pydiv_ok a hb] at h; cases h; exact ⟨hb, rfl⟩

theorem modifyNth_length {β : Type} (l : List β) (i : Nat) (f : β → β) :
    (modifyNth l i f).length = l.length := by
  simp [modifyNth]

theorem modifyNth_getElem? {β : Type} (l : List β) (i j : Nat) (f : β → β) :
    (modifyNth l i f)[j]? = if j = i then l[j]?.map f else l[j]? := by
  unfold modifyNth
  rw [List.getElem?_map, List.getElem?_zipIdx]
  cases l[j]? with
  | none => simp
  | some a =>
    by_cases h : j = i
    · subst h; simp
    · simp [h]

theorem aggStep_ok {R : RunData α} {st st' : AggState α} {p : StepData α × Nat}
    (h : aggStep R st p = .ok st') :
    (∃ fr, st'.loadWindow = modifyNth st.loadWindow (windowIndex R.startLocal R.interval p.2)
        (fun w => w ++ [(fr, p.1.totalLoad)])) ∧
    st'.maxFixed = max st.maxFixed (fixedLoadOf R p.1) ∧
    st'.maxVariable = max st.maxVariable (p.1.totalLoad - fixedLoadOf R p.1) := by
  unfold aggStep at h
  obtain ⟨fr, hfr, h⟩ := bind_ok h
  obtain ⟨lc, hlc, h⟩ := bind_ok h
  simp [pure, Except.pure] at h
  subst h
  exact ⟨⟨fr, rfl⟩, rfl, rfl⟩

/-- loads collected in bucket `w` -/
def bucketLoads (st : AggState α) (w : Nat) : List α := (st.loadWindow[w]?.getD []).map (·.2)

theorem aggFold_ok (R : RunData α) :
    ∀ (ps : List (StepData α × Nat)) (st0 st : AggState α),
      ps.foldlM (aggStep R) st0 = .ok st →
      st.loadWindow.length = st0.loadWindow.length ∧
      (∀ w, w < st0.loadWindow.length → bucketLoads st w = bucketLoads st0 w ++
        ((ps.filter (fun p => windowIndex R.startLocal R.interval p.2 = w)).map (·.1.totalLoad))) ∧
      st.maxFixed = (ps.map (fun p => fixedLoadOf R p.1)).foldl max st0.maxFixed ∧
      st.maxVariable = (ps.map (fun p => p.1.totalLoad - fixedLoadOf R p.1)).foldl max st0.maxVariable := by
  intro ps
  induction ps with
  | nil =>
    intro st0 st h
    simp [pure, Except.pure] at h; subst h
    simp
  | cons p ps ih =>
    intro st0 st h
    rw [List.foldlM_cons] at h
    obtain ⟨st1, h1, h⟩ := bind_ok h
    obtain ⟨⟨fr, hlw⟩, hmf, hmv⟩ := aggStep_ok h1
    obtain ⟨hl, hb, hf, hv⟩ := ih st1 st h
    have hl1 : st1.loadWindow.length = st0.loadWindow.length := by rw [hlw, modifyNth_length]
    refine ⟨hl.trans hl1, ?_, ?_, ?_⟩
    · intro w hw
      rw [hb w (hl1 ▸ hw)]
      have : bucketLoads st1 w = bucketLoads st0 w ++
          (if windowIndex R.startLocal R.interval p.2 = w then [p.1.totalLoad] else []) := by
        unfold bucketLoads
        rw [hlw, modifyNth_getElem?]
        have hw' : st0.loadWindow[w]? = some st0.loadWindow[w] := List.getElem?_eq_getElem hw
        by_cases e : w = windowIndex R.startLocal R.interval p.2
        · subst e
          rw [if_pos rfl, if_pos rfl, hw']
          simp
        · have e' : ¬ windowIndex R.startLocal R.interval p.2 = w := fun x => e x.symm
          rw [if_neg e, if_neg e']; simp
      rw [this, List.append_assoc]
      congr 1
      by_cases e : windowIndex R.startLocal R.interval p.2 = w
      · simp [List.filter_cons, e]
      · simp [List.filter_cons, e]
    · rw [hf, hmf]; rfl
    · rw [hv, hmv]; rfl

theorem foldl_max_spec (l : List α) (a : α) :
    a ≤ l.foldl max a ∧ (∀ x ∈ l, x ≤ l.foldl max a) ∧ (l.foldl max a = a ∨ l.foldl max a ∈ l) := by
  induction l generalizing a with
  | nil => simp
  | cons x xs ih =>
    obtain ⟨h1, h2, h3⟩ := ih (max a x)
    refine ⟨le_trans (le_max_left _ _) h1, ?_, ?_⟩
    · intro y hy
      rcases List.mem_cons.mp hy with rfl | hy
      · exact le_trans (le_max_right _ _) h1
      · exact h2 y hy
    · rcases h3 with h | h
      · rcases le_total a x with hax | hax
        · right; rw [List.foldl_cons, h, max_eq_right hax]; exact List.mem_cons_self
        · left; rw [List.foldl_cons, h, max_eq_left hax]
      · right; exact List.mem_cons_of_mem _ h

theorem pymaxList_ok {l : List α} {m : α} (h : pymaxList l = .ok m) :
    m ∈ l ∧ ∀ x ∈ l, x ≤ m := by
  cases l with
  | nil => simp [pymaxList] at h
  | cons x xs =>
    simp only [pymaxList] at h
    have e : (fun (m y : α) => if m < y then y else m) = max := by
      funext a b; rw [max_def]; by_cases hab : a < b
      · simp [hab, hab.le]
      · have hba : b ≤ a := not_lt.mp hab
        rw [if_neg hab]
        by_cases hle : a ≤ b
        · rw [if_pos hle]; exact le_antisymm hle hba
        · rw [if_neg hle]
    rw [e] at h; cases h
    obtain ⟨h1, h2, h3⟩ := foldl_max_spec xs x
    refine ⟨?_, ?_⟩
    · rcases h3 with h | h
      · rw [h]; exact List.mem_cons_self
      · exact List.mem_cons_of_mem _ h
    · intro y hy
      rcases List.mem_cons.mp hy with rfl | hy
      · exact h1
      · exact h2 y hy

theorem aggregateLocal_ok {R : RunData α} {ts : Option (List String × List (List (Cell α)))}
    {res : LocalResults α} (h : aggregateLocal R ts = .ok res) :
    ∃ st, aggLoop R = .ok st ∧ fAvgFlex R st = .ok res.avgFlexPerWindow ∧
      fSumEnergy R = .ok res.sumEnergy ∧ fSumPerWindow R st = .ok res.sumEnergyPerWindow ∧
      fAvgSingle R st = .ok res.avgStandSingle ∧ fAvgTotal R st = .ok res.avgStandTotal ∧
      fPerc st = .ok res.percStandWindow ∧ res.avgNeededEnergy = fNeeded R ∧
      fPlw R = .ok res.plwThreshold ∧ fPeaks R st = .ok res.powerPeaks ∧
      fAvgDrawn R = .ok res.avgDrawn ∧ fGenEnergy R = .ok res.localGenEnergy ∧
      fFeedIn R ts = .ok res.feedIn ∧ fMaxStored R = .ok res.maxStored ∧
      fBatCycles R = .ok res.batCycles ∧ fVehicleCycles R = .ok res.vehicleCycles ∧
      res.vehicleCap = vehicleCapOf R ∧ res.vehicleEnergy = vehicleEnergyOf R := by
  unfold aggregateLocal at h
  obtain ⟨st, h1, h⟩ := bind_ok h
  obtain ⟨a2, h2, h⟩ := bind_ok h
  obtain ⟨a3, h3, h⟩ := bind_ok h
  obtain ⟨a4, h4, h⟩ := bind_ok h
  obtain ⟨a5, h5, h⟩ := bind_ok h
  obtain ⟨a6, h6, h⟩ := bind_ok h
  obtain ⟨a7, h7, h⟩ := bind_ok h
  obtain ⟨a8, h8, h⟩ := bind_ok h
  obtain ⟨a9, h9, h⟩ := bind_ok h
  obtain ⟨a10, h10, h⟩ := bind_ok h
  obtain ⟨a11, h11, h⟩ := bind_ok h
  obtain ⟨a12, h12, h⟩ := bind_ok h
  obtain ⟨a13, h13, h⟩ := bind_ok h
  obtain ⟨a14, h14, h⟩ := bind_ok h
  obtain ⟨a15, h15, h⟩ := bind_ok h
  simp only [pure, Except.pure, Except.ok.injEq] at h
  subst h
  exact ⟨st, h1, h2, h3, h4, h5, h6, h7, rfl, h8, h9, h10, h11, h12, h13, h14, h15, rfl, rfl⟩

/-- generic accumulation loop: every iteration adds `G b` to the accumulator -/
theorem foldlM_acc_ok {β : Type} (F : α → β → Py α) (G : β → α)
    (hF : ∀ acc b r, F acc b = .ok r → r = acc + G b) :
    ∀ (l : List β) (a r : α), l.foldlM F a = .ok r → r = a + (l.map G).sum := by
  intro l
  induction l with
  | nil => intro a r h; simp [pure, Except.pure] at h; simp [h]
  | cons b l ih =>
    intro a r h
    rw [List.foldlM_cons] at h
    obtain ⟨a1, h1, h⟩ := bind_ok h
    rw [ih a1 r h, hF a b a1 h1]; simp [add_assoc]

/-- energy charged into the own stationary batteries, kWh -/
def batEnergySpec (R : RunData α) : α :=
  (R.steps.map (fun s => ((myBatteries R).map (fun b =>
    max ((s.fixedLoads.lookup b.1).getD 0) 0 / R.stepsPerHour)).sum)).sum

theorem fBatEnergy_ok {R : RunData α} {e : α} (h : fBatEnergy R = .ok e) : e = batEnergySpec R := by
  unfold fBatEnergy at h
  have := foldlM_acc_ok (β := StepData α)
    (fun (acc : α) s => (myBatteries R).foldlM (fun (acc : α) b => do
      let q ← pydiv (pymax ((s.fixedLoads.lookup b.1).getD 0) 0) R.stepsPerHour
      pure (acc + q)) acc)
    (fun s => ((myBatteries R).map (fun b =>
      max ((s.fixedLoads.lookup b.1).getD 0) 0 / R.stepsPerHour)).sum)
    (by
      intro acc s r hr
      exact foldlM_acc_ok (β := String × String × α) _
        (fun b => max ((s.fixedLoads.lookup b.1).getD 0) 0 / R.stepsPerHour)
        (by
          intro acc b r hr
          obtain ⟨q, hq, hr⟩ := bind_ok hr
          simp [pure, Except.pure] at hr
          rw [← hr, (pydiv_ok_inv hq).2, pymax_eq]) _ _ _ hr)
    R.steps 0 e h
  rw [this]; simp [batEnergySpec]

theorem fTotalCap_ok {R : RunData α} {c : α}
    (hfin : ∀ b ∈ myBatteries R, b.2.2 ≤ ((2 ^ 63 : Nat) : α)) (h : fTotalCap R = .ok c) :
    c = ((myBatteries R).map (·.2.2)).sum := by
  unfold fTotalCap at h
  suffices H : ∀ (l : List (String × String × α)) (a r : α),
      (∀ b ∈ l, b.2.2 ≤ ((2 ^ 63 : Nat) : α)) →
      l.foldlM (fun (acc : α) b =>
        if ((2 ^ 63 : Nat) : α) < b.2.2 then do
          let lv ← match R.batteryLevels.lookup b.1 with
            | some l => pure l | none => Except.error PyErr.keyError
          let m ← pymaxList lv
          pure (acc + m)
        else pure (acc + b.2.2)) a = .ok r → r = a + (l.map (·.2.2)).sum by
    have := H _ 0 c hfin h; simpa using this
  intro l
  induction l with
  | nil => intro a r _ h; simp [pure, Except.pure] at h; simp [h]
  | cons b l ih =>
    intro a r hb h
    rw [List.foldlM_cons] at h
    obtain ⟨a1, h1, h⟩ := bind_ok h
    have hb1 : ¬ ((2 ^ 63 : Nat) : α) < b.2.2 := not_lt.mpr (hb b List.mem_cons_self)
    rw [if_neg hb1] at h1
    simp [pure, Except.pure] at h1
    rw [ih a1 r (fun x hx => hb x (List.mem_cons_of_mem _ hx)) h, ← h1]; simp [add_assoc]

theorem fBatCycles_ok {R : RunData α} {c : Option α}
    (hfin : ∀ b ∈ myBatteries R, b.2.2 ≤ ((2 ^ 63 : Nat) : α)) (h : fBatCycles R = .ok c) :
    c = if ((myBatteries R).map (·.2.2)).sum = 0 then none
        else some (batEnergySpec R / ((myBatteries R).map (·.2.2)).sum) := by
  unfold fBatCycles at h
  obtain ⟨cap, hcap, h⟩ := bind_ok h
  have hc := fTotalCap_ok hfin hcap
  by_cases hz : cap = 0
  · have : truthy cap = false := by
      rcases ht : truthy cap with _ | _
      · rfl
      · exact absurd hz ((truthy_iff cap).mp ht)
    simp [this, pure, Except.pure] at h
    rw [← hc, if_pos hz]; exact h.symm
  · have : truthy cap = true := (truthy_iff cap).mpr hz
    simp only [this, if_true] at h
    obtain ⟨e, he, h⟩ := bind_ok h
    obtain ⟨q, hq, h⟩ := bind_ok h
    simp [pure, Except.pure] at h
    rw [← hc, if_neg hz, ← h, (pydiv_ok_inv hq).2, fBatEnergy_ok he]

theorem fPeaks_ok {R : RunData α} {st : AggState α} {pk : Option (α × α × α)}
    (h : fPeaks R st = .ok pk) :
    (pk = none ∧ ∀ x ∈ loadsOf R, x = 0) ∨
    (∃ m, pk = some (st.maxFixed, st.maxVariable, m) ∧ m ∈ loadsOf R ∧ ∀ x ∈ loadsOf R, x ≤ m) := by
  unfold fPeaks at h
  by_cases ha : (loadsOf R).any truthy = true
  · right
    simp only [ha, if_true] at h
    obtain ⟨m, hm, h⟩ := bind_ok h
    simp [pure, Except.pure] at h
    exact ⟨m, h.symm, pymaxList_ok hm⟩
  · left
    simp only [ha] at h
    simp [pure, Except.pure] at h
    refine ⟨h.symm, ?_⟩
    intro x hx
    by_contra hne
    exact ha (List.any_eq_true.mpr ⟨x, hx, (truthy_iff x).mpr hne⟩)

theorem fPlw_ok {R : RunData α} {t : Option α} (h : fPlw R = .ok t) :
    (R.isPlw = false ∧ t = none) ∨
    (R.isPlw = true ∧ ∃ m, m ∈ loadsOf R ∧ (∀ x ∈ loadsOf R, x ≤ m) ∧
      t = some (if m = 0 then 0 else (m - R.peakPower) / m * 100)) := by
  unfold fPlw at h
  cases hp : R.isPlw with
  | false => left; simp [hp, pure, Except.pure] at h; exact ⟨rfl, h.symm⟩
  | true =>
    right
    simp only [hp, if_true] at h
    obtain ⟨m, hm, h⟩ := bind_ok h
    obtain ⟨h1, h2⟩ := pymaxList_ok hm
    refine ⟨rfl, m, h1, h2, ?_⟩
    by_cases hz : m = 0
    · have : isZero m = true := (isZero_iff m).mpr hz
      simp [this, pure, Except.pure] at h
      rw [if_pos hz]; exact h.symm
    · have : isZero m = false := by
        rcases hi : isZero m with _ | _
        · rfl
        · exact absurd ((isZero_iff m).mp hi) hz
      simp only [this] at h
      obtain ⟨q, hq, h⟩ := bind_ok h
      simp [pure, Except.pure] at h
      rw [if_neg hz, ← h, (pydiv_ok_inv hq).2]
      try norm_num

theorem fSumPerWindow_ok {R : RunData α} {st : AggState α} {l : List α}
    (hst : aggLoop R = .ok st) (h : fSumPerWindow R st = .ok l) :
    l.length = 4 ∧ ∀ w, w < 4 → l[w]? = some
      (((R.steps.zipIdx.filter (fun p => windowIndex R.startLocal R.interval p.2 = w)).map
        (·.1.totalLoad)).sum / R.stepsPerHour) := by
  unfold aggLoop at hst
  obtain ⟨hlen, hb, _, _⟩ := aggFold_ok R _ _ _ hst
  have h4 : (aggInit (α := α) R.vehicles.length).loadWindow.length = 4 := by simp [aggInit]
  rw [h4] at hlen hb
  unfold fSumPerWindow at h
  have hf := mapM_ok_forall₂ _ _ _ h
  have hl : st.loadWindow.length = l.length := hf.length_eq
  refine ⟨by omega, ?_⟩
  intro w hw
  have hw1 : w < st.loadWindow.length := by omega
  have hw2 : w < l.length := by omega
  have := (List.forall₂_iff_get.mp hf).2 w hw1 hw2
  simp only [List.get_eq_getElem] at this
  rw [List.getElem?_eq_getElem hw2, (pydiv_ok_inv this).2, pysum_eq_sum]
  have hbw := hb w hw
  unfold bucketLoads at hbw
  rw [List.getElem?_eq_getElem hw1] at hbw
  simp only [Option.getD_some] at hbw
  rw [hbw]
  have : ((aggInit (α := α) R.vehicles.length).loadWindow[w]?.getD []) = [] := by
    have : w = 0 ∨ w = 1 ∨ w = 2 ∨ w = 3 := by omega
    rcases this with rfl | rfl | rfl | rfl <;> simp [aggInit]
  rw [this]; simp

theorem mapM_ok_of_forall {β γ : Type} (f : β → Py γ) :
    ∀ (l : List β), (∀ x ∈ l, ∃ y, f x = .ok y) → ∃ r, l.mapM f = .ok r := by
  intro l
  induction l with
  | nil => intro _; exact ⟨[], rfl⟩
  | cons a l ih =>
    intro h
    obtain ⟨y, hy⟩ := h a List.mem_cons_self
    obtain ⟨r, hr⟩ := ih (fun x hx => h x (List.mem_cons_of_mem _ hx))
    exact ⟨y :: r, by rw [List.mapM_cons, hy, hr]; rfl⟩

theorem filter_window_partition (W : (StepData α × Nat) → Nat) (hW : ∀ p, W p < 4)
    (l : List (StepData α × Nat)) :
    ((l.filter (fun p => W p = 0)).map (·.1.totalLoad)).sum
    + ((l.filter (fun p => W p = 1)).map (·.1.totalLoad)).sum
    + ((l.filter (fun p => W p = 2)).map (·.1.totalLoad)).sum
    + ((l.filter (fun p => W p = 3)).map (·.1.totalLoad)).sum
    = (l.map (·.1.totalLoad)).sum := by
  induction l with
  | nil => simp
  | cons p l ih =>
    have := hW p
    have h : W p = 0 ∨ W p = 1 ∨ W p = 2 ∨ W p = 3 := by omega
    rw [List.map_cons, List.sum_cons, ← ih]
    rcases h with h | h | h | h <;> simp [List.filter_cons, h] <;> ring

theorem zipIdx_map_fst {β : Type} (l : List β) (n : Nat) : (l.zipIdx n).map (·.1) = l := by
  induction l generalizing n with
  | nil => rfl
  | cons a l ih => simp [List.zipIdx_cons, ih]

end field

/-! ### example data for the non-vacuity statements of Properties/C18.lean -/

/-- `x` returned a value and the value satisfies `p` -/
def okAnd {β : Type} (x : Py β) (p : β → Bool) : Bool :=
  match x with
  | .ok v => p v
  | .error _ => false

/-- one step of the example run: station `home_1` (use case "home") with command `cmd`, connector
power `load`, a building load, local generation `gen` and a stationary battery load `batp` -/
def exStep (t : Int) (cmd load fl gen batp : ℚ) (soc : Option ℚ) : StepData ℚ :=
  { time := t, commands := [("home_1", cmd)], price := 3 / 10, totalLoad := load,
    fixedLoads := [("building", fl), ("pv", -gen), ("BAT", batp)], localGen := gen,
    schedule := some 5, window := some true, connCharge := [("home_1", cmd)],
    socs := [soc], disconnect := [none], connected := [("car", "home_1")] }

/-- a two-step run at 15-minute resolution: the vehicle is connected at SoC exactly 0 in the first
step; in the second step the connector feeds in 6 kW (5 kW generation, 4 kW V2G, battery -2 kW) -/
def exRun : RunData ℚ :=
  { gcId := "GC1", gcIds := ["GC1"],
    steps := [exStep 0 11 12 3 2 0 (some 0), exStep 900000000 (-4) (-6) 1 5 (-2) (some (1 / 4))],
    stations := [("home_1", "GC1")], vehicles := [("car", 50, true)],
    batteries := [("BAT", "GC1", 10)], batteryLevels := [("BAT", [5, 5])],
    fixedLoadKeys := ["building"], localGenKeys := ["pv"], flex := .skipped,
    stepsPerHour := 4, startLocal := 0, interval := 900000000, isPlw := true, peakPower := 0 }

end SpiceEv.Report
