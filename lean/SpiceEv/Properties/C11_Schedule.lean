/-
C11 (signal-driven strategies follow their signal) for the charging strategy `schedule`, individual
sub-strategy: "a vehicle's station power is never below its scheduled power as far as station
rating, vehicle curve and remaining connector headroom allow".
-/
import SpiceEv.Properties.C11
import SpiceEv.Proofs.StratSchedule
set_option linter.unusedSectionVars false
namespace SpiceEv
open SpiceEv.Sched
variable {α B : Type} [Field α] [LinearOrder α] [IsStrictOrderedRing α]

/-- **Individual-schedule floor, tied to the model of the whole loop body.**
One pass of the vehicle loop of `charge_individually` (look-ahead over future schedule-change and
departure events, simulation of the known schedule on the vehicle's battery, bisection for the
additional power, real charge) either does nothing (vehicle not connected) or requests from the
vehicle's battery — in ONE real call on the battery as it was before the step — the power
`P = min (clamp_power (schedule + add_power)) (cur_max_power − current load)` with `add_power ≥ 0`,
hence `P ≥ min (clamp_power schedule) headroom`: the scheduled power as far as station limits
(`clamp_power`) and the remaining connector headroom allow.  What the battery then takes of `P` is
the vehicle-curve part (C01).  The statement carries the loop invariant "the Python local
`add_power` left by the previous vehicle is non-negative", so it composes over all vehicles. -/
theorem C11_schedule_individual_floor (ops : Ops α B) (env : Env α)
    (st st' : SWorld α B × List (String × α) × Option α) (v0 : VehicleS α B)
    (hmx : ∀ s ∈ st.1.stations, 0 ≤ s.maxPower) (hprev : ∀ p, st.2.2 = some p → 0 ≤ p)
    (h : indVehicle ops env st v0 = .ok st') :
    (∀ p, st'.2.2 = some p → 0 ≤ p) ∧
    (st' = st ∨
     ∃ v csId cs gc sched addP r, st.1.vehicle? v0.id = some v ∧ v.cs = some csId ∧
      getStation st.1 csId = .ok cs ∧ getGc st.1 cs.parent = .ok gc ∧
      (∃ x, getVx env v.id = .ok x ∧ x.schedule = some sched) ∧ 0 ≤ addP ∧
      ops.load v.bat env.interval none none (some (individualPower sched addP
        (gc.curMax - gc.currentLoad) cs.currentPower cs.maxPower cs.minPower v.minChargingPower)) = .ok r ∧
      min (clampPower sched cs.currentPower cs.maxPower cs.minPower v.minChargingPower)
          (gc.curMax - gc.currentLoad) ≤
        individualPower sched addP (gc.curMax - gc.currentLoad) cs.currentPower cs.maxPower cs.minPower
          v.minChargingPower ∧
      st'.1 = (commit st.1 st.2.1 v r.1 cs gc csId r.2.1).1) := by
  rcases indVehicle_inv ops env st st' v0 h with h | ⟨v, csId, cs, gc, x, sched, addP, r, h1, h2, h3, h4,
    h5, h6, h7, h8, h9⟩
  · subst h; exact ⟨hprev, Or.inl rfl⟩
  · have hadd : 0 ≤ addP :=
      indAdd_nonneg ops env st.2.2 cs gc v sched addP (hmx cs (getStation_ok _ _ _ h3).1) hprev h7
    refine ⟨?_, Or.inr ⟨v, csId, cs, gc, sched, addP, r, h1, h2, h3, h4, ⟨x, h5, h6⟩, hadd, h8,
      C11_individual_floor sched addP _ _ _ _ _ hadd, by rw [h9]⟩⟩
    rw [h9]
    intro p hp
    simp only [Option.some.injEq] at hp
    rw [← hp]; exact hadd

/-- **The look-ahead loop terminates** within the fuel the model supplies
(`⌈(departure − now) / interval⌉` iterations) for every positive step length: the model's `FUEL`
error is never produced by the look-ahead of `charge_individually`. -/
theorem C11_schedule_lookahead_terminates (env : Env α) (hi : 0 < env.interval) (v : VehicleS α B)
    (sched : α) : indSchedule env v sched ≠ .error .fuel :=
  indSchedule_no_fuel env hi v sched

/-- **The additional-power bisection terminates** within `fuel` iterations whenever
`station maximum ≤ ε · 2^fuel` (ordered fields; with ε = 1e-5 and fuel = 1100 that is every finite
double), unless the simulated battery itself runs out of fuel. -/
theorem C11_schedule_bisection_terminates (ok : α → Py Bool) (eps : α) (heps : 0 < eps) (fuel : Nat)
    (csMax : α) (hw : csMax ≤ eps * 2 ^ fuel) :
    bisectM ok eps fuel 0 csMax none ≠ .error .fuel ∨ ∃ a, ok a = .error .fuel :=
  bisectM_no_fuel_error ok eps heps fuel 0 csMax none (by simpa using hw)

/-- **The power search of `sim_balanced_charging` (collective sub-strategy) terminates** within `fuel`
iterations whenever the initial bracket is at most `ε · 2^fuel`, unless the battery call itself reports
exhausted fuel: the `ITERATIONS`/`safe` condition can only end the loop earlier, and every iteration
halves `max_power − min_power`. -/
theorem C11_schedule_balanced_search_terminates (ops : Ops α B) (env : Env α) (heps : 0 < env.eps)
    (bat : B) (dt : Int) (delta : α) (fuel : Nat) (mn mx : α) (hw : mx - mn ≤ env.eps * 2 ^ fuel) :
    sbLoop ops env bat dt delta fuel 0 false mn mx 0 ≠ .error .fuel ∨
    ∃ p, ops.load bat dt none none (some p) = .error .fuel :=
  sbLoop_no_fuel ops env heps bat dt delta fuel 0 false mn mx 0 hw

/-- Non-vacuity: in the example world the loop body runs for `v1` (schedule 3 kW, headroom 6 kW,
11 kW station): the look-ahead sees the departure event, the bisection finds about 3 kW of
additional power, and the station ends above the scheduled 3 kW. -/
example :
    (match indVehicle toyOps exEnv (resetStations exWorld, [], none) exVehicle with
     | .ok r => r.2.1.all (fun kv => decide (3 ≤ kv.2)) && !r.2.1.isEmpty &&
         (match r.2.2 with | some a => decide (3 - 1/1000 ≤ a ∧ a ≤ 3) | none => false)
     | .error _ => false) = true := by decide +kernel

end SpiceEv
