"""Replay for notes/LOOPFUEL_FW.md, finding 1: the bisection `while max - min > EPS` of the REAL flex_window code does not
terminate in double arithmetic when it converges to a point of magnitude >= 2**36 kW (ulp > EPS = 1e-5).
Scenario: one connector of 1e11 kW in a charging window, a fixed load of 9.3e10 kW, one stationary battery (SoC 0.5),
LOAD_STRAT greedy -> `distribute_peak_shaving_batteries` searches total power ~ 9.3e10 + a few kW and spins for ever.
Usage:  VERIF_REPO=<repo> /venv/bin/python LOOPFUEL_FW_hang_replay.py      (from anywhere; harness = ../harness)
Observed (pinned commit): rating/load 1e10/9.3e9 ok 0.1 s, 3e10/2.9e10 ok 0.0 s, 1e11/9.3e10 TIMEOUT (40 s watchdog);
loads 9.3e10, 9.31e10, 8.7e10, 7.77e10, 9.5e10 all TIMEOUT with greedy, all ok with balanced (no battery bisection
near that magnitude: the balanced battery bracket converges near 0)."""
import os, sys, time
sys.path.insert(0, os.path.join(os.path.dirname(os.path.abspath(__file__)), "..", "harness"))
import engine, scen
engine.use_repo()


def mk(load, rating=1e11, strat="greedy", window=True):
    interval, n_steps, start = 60, 3, scen.T0
    comp = {"vehicle_types": {}, "vehicles": {}, "charging_stations": {},
            "batteries": {"BAT": {"parent": "GC1", "charging_curve": [[0, 10], [1, 10]], "capacity": 50,
                                  "soc": 0.5, "min_charging_power": 0, "efficiency": 0.95}},
            "grid_connectors": {"GC1": {"max_power": rating, "voltage_level": "MV", "window": window,
                                        "cost": {"type": "fixed", "value": 0.3}}}}
    ev = {"fixed_load": {"load_GC1": {"start_time": scen.iso(start), "step_duration_s": interval * 60,
                                      "grid_connector_id": "GC1", "values": [load] * (n_steps + 30)}},
          "local_generation": {}, "grid_operator_signals": [], "vehicle_events": []}
    scn = {"scenario": {"start_time": scen.iso(start), "interval": interval, "n_intervals": n_steps},
           "components": comp, "events": ev}
    return {"scenario": scn, "strategy": "flex_window", "options": {"LOAD_STRAT": strat, "HORIZON": 3},
            "meta": {"interval": interval, "n_steps": n_steps, "family": "hang"}, "pid": "X"}


if __name__ == "__main__":
    for rating, load in [(1e10, 9.3e9), (3e10, 2.9e10), (1e11, 9.3e10)]:
        t = time.time()
        res = scen.run_real(mk(load, rating=rating), timeout_s=40, collect_ops=False)
        print(rating, load, "TIMEOUT" if res.get("timeout") else "ok", round(time.time() - t, 1))
