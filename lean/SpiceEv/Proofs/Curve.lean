/-
Helper lemmas for C03: the executable curve model equals a pure piecewise-linear function.
-/
import SpiceEv.Proofs.Basic
import Mathlib.Tactic.Positivity
import Mathlib.Tactic.NormNum
set_option linter.unusedSectionVars false
set_option linter.unusedSimpArgs false
namespace SpiceEv
variable {α : Type} [Field α] [LinearOrder α] [IsStrictOrderedRing α]

/-- linear interpolation between two points (the `lerp` of `power_from_soc`) -/
def lerp (a b : α × α) (s : α) : α := a.2 + (b.2 - a.2) * ((s - a.1) / (b.1 - a.1))

/-- Reference semantics of a curve given by its sorted point list: left of / at the first point its
power, inside a section the affine piece through the two bracketing points. -/
def interp : List (α × α) → α → α
  | [], _ => 0
  | [p], _ => p.2
  | p :: q :: rest, s =>
    if s ≤ p.1 then p.2 else if s ≤ q.1 then lerp p q s else interp (q :: rest) s

/-- strictly increasing SoCs -/
def StrictSoc (pts : List (α × α)) : Prop := pts.Pairwise (fun a b => a.1 < b.1)

/-- well-formed curve points: strictly increasing SoC from 0 to 1, non-negative powers -/
structure WF (pts : List (α × α)) : Prop where
  sorted : StrictSoc pts
  first : ∃ p, pts.head? = some p ∧ p.1 = 0
  last : ∃ p, pts.getLast? = some p ∧ p.1 = 1
  nonneg : ∀ p ∈ pts, 0 ≤ p.2

theorem powerFromSocAux_some (s : α) (p : α × α) (rest : List (α × α))
    (hs : StrictSoc (p :: rest)) (hp : p.1 < s)
    (hl : ∃ l, (p :: rest).getLast? = some l ∧ s ≤ l.1) :
    powerFromSocAux s (some p) rest = .ok (interp (p :: rest) s) := by
  induction rest generalizing p with
  | nil =>
    obtain ⟨l, hl1, hl2⟩ := hl
    simp at hl1; subst hl1; exact absurd hp (not_lt.mpr hl2)
  | cons q rest ih =>
    have hpq : p.1 < q.1 := by
      have := hs; unfold StrictSoc at this; simp at this; exact this.1.1
    unfold powerFromSocAux
    by_cases hsq : s ≤ q.1
    · simp only [hsq, if_true]
      rw [pydiv_ok _ (sub_ne_zero.mpr (ne_of_gt hpq))]
      simp [interp, not_le.mpr hp, hsq, lerp, bind, Except.bind]
    · simp only [hsq, if_false]
      have hs' : StrictSoc (q :: rest) := by
        unfold StrictSoc at hs ⊢; exact (List.pairwise_cons.mp hs).2
      rw [ih q hs' (not_le.mp hsq)]
      · simp [interp, not_le.mpr hp, hsq]
      · obtain ⟨l, hl1, hl2⟩ := hl
        exact ⟨l, by simpa [List.getLast?_cons_cons] using hl1, hl2⟩

theorem powerFromSoc_eq (c : Curve α) (s : α) (hs : StrictSoc c.points)
    (hl : ∃ l, c.points.getLast? = some l ∧ l.1 = 1) (h1 : s ≤ 1) :
    c.powerFromSoc s = .ok (interp c.points s) := by
  unfold Curve.powerFromSoc pyassert
  simp only [h1, decide_true, if_true]
  obtain ⟨l, hl1, hl2⟩ := hl
  cases hpts : c.points with
  | nil => simp [hpts] at hl1
  | cons p rest =>
    show (do let _ ← (Except.ok () : Py Unit); powerFromSocAux s none (p :: rest)) = _
    simp only [bind, Except.bind]
    unfold powerFromSocAux
    by_cases hp : s ≤ p.1
    · simp only [hp, if_true]
      cases rest <;> simp [interp, hp]
    · simp only [hp, if_false]
      rw [hpts] at hs hl1
      exact powerFromSocAux_some s p rest hs (not_le.mp hp) ⟨l, hl1, hl2 ▸ h1⟩

end SpiceEv

namespace SpiceEv
variable {α : Type} [Field α] [LinearOrder α] [IsStrictOrderedRing α]

/-- the intersection point `clamped` inserts when a section crosses the limit strictly -/
def crossX (L : α) (p q : α × α) : α := p.1 + (q.1 - p.1) * ((L - p.2) / (q.2 - p.2))

def Crosses (L : α) (p q : α × α) : Prop := (p.2 < L ∧ L < q.2) ∨ (L < p.2 ∧ q.2 < L)

instance (L : α) (p q : α × α) : Decidable (Crosses L p q) := by unfold Crosses; infer_instance

def crossing (L : α) (p q : α × α) : List (α × α) :=
  if Crosses L p q then [(crossX L p q, L)] else []

/-- pure reading of the point list built by `clamped` (before post-scaling) -/
def clampPts (L : α) : List (α × α) → List (α × α)
  | [] => []
  | [q] => [(q.1, min q.2 L)]
  | p :: q :: rest => (p.1, min p.2 L) :: (crossing L p q ++ clampPts L (q :: rest))

theorem clampSection_eq (L : α) (p q : α × α) :
    clampSection L p q = .ok ((p.1, min p.2 L) :: crossing L p q) := by
  unfold clampSection crossing Crosses crossX
  by_cases h1 : p.2 ≤ L <;> by_cases h2 : q.2 ≤ L
  · -- both below
    have hc : ¬((p.2 < L ∧ L < q.2) ∨ (L < p.2 ∧ q.2 < L)) := by
      rintro (⟨_, h⟩ | ⟨h, _⟩)
      · exact absurd h2 (not_le.mpr h)
      · exact absurd h1 (not_le.mpr h)
    simp [h1, h2, hc, min_eq_left h1]
  · -- p below, q above: up-crossing unless p.2 = L
    have h2' : L < q.2 := not_le.mp h2
    by_cases h3 : L ≤ p.2
    · have hpL : p.2 = L := le_antisymm h1 h3
      have hc : ¬((p.2 < L ∧ L < q.2) ∨ (L < p.2 ∧ q.2 < L)) := by
        rintro (⟨h, _⟩ | ⟨h, _⟩)
        · exact absurd hpL (ne_of_lt h)
        · exact absurd hpL.symm (ne_of_lt h)
      simp [h1, h2, h3, h2'.le, hc, hpL]
    · have h3' : p.2 < L := not_le.mp h3
      have hc : (p.2 < L ∧ L < q.2) ∨ (L < p.2 ∧ q.2 < L) := Or.inl ⟨h3', h2'⟩
      have hne : q.2 - p.2 ≠ 0 := sub_ne_zero.mpr (ne_of_gt (lt_trans h3' h2'))
      simp [h1, h2, h3, h2'.le, hc, pydiv_ok _ hne, min_eq_left h1, bind, Except.bind]
  · -- p above, q below
    have h1' : L < p.2 := not_le.mp h1
    by_cases h3 : L ≤ q.2
    · have hqL : q.2 = L := le_antisymm h2 h3
      have hc : ¬((p.2 < L ∧ L < q.2) ∨ (L < p.2 ∧ q.2 < L)) := by
        rintro (⟨_, h⟩ | ⟨_, h⟩)
        · exact absurd hqL.symm (ne_of_lt h)
        · exact absurd hqL (ne_of_lt h)
      simp [h1, h2, h3, h1'.le, hc, min_eq_right h1'.le]
    · have h3' : q.2 < L := not_le.mp h3
      have hc : (p.2 < L ∧ L < q.2) ∨ (L < p.2 ∧ q.2 < L) := Or.inr ⟨h1', h3'⟩
      have hne : q.2 - p.2 ≠ 0 := sub_ne_zero.mpr (ne_of_lt (lt_trans h3' h1'))
      simp [h1, h2, h3, h1'.le, hc, pydiv_ok _ hne, min_eq_right h1'.le, bind, Except.bind]
  · -- both above
    have h1' : L < p.2 := not_le.mp h1
    have h2' : L < q.2 := not_le.mp h2
    have hc : ¬((p.2 < L ∧ L < q.2) ∨ (L < p.2 ∧ q.2 < L)) := by
      rintro (⟨h, _⟩ | ⟨_, h⟩)
      · exact absurd h (not_lt.mpr h1'.le)
      · exact absurd h (not_lt.mpr h2'.le)
    simp [h1, h2, h1'.le, h2'.le, hc, min_eq_right h1'.le]

theorem clampSections_eq (L : α) (p : α × α) (rest : List (α × α)) (hne : rest ≠ [])
    (hl : ∃ l, (p :: rest).getLast? = some l ∧ l.1 = 1) :
    clampSections L (p :: rest) = .ok (clampPts L (p :: rest)) := by
  induction rest generalizing p with
  | nil => exact absurd rfl hne
  | cons q rest ih =>
    cases rest with
    | nil =>
      obtain ⟨l, hl1, hl2⟩ := hl
      simp at hl1; subst hl1
      simp [clampSections, clampSection_eq, clampPts, bind, Except.bind, hl2, min_comm]
    | cons r rest =>
      have hl' : ∃ l, (q :: r :: rest).getLast? = some l ∧ l.1 = 1 := by
        obtain ⟨l, hl1, hl2⟩ := hl
        exact ⟨l, by simpa [List.getLast?_cons_cons] using hl1, hl2⟩
      have := ih q (by simp) hl'
      simp [clampSections, clampSection_eq, this, clampPts, bind, Except.bind]

end SpiceEv

namespace SpiceEv
variable {α : Type} [Field α] [LinearOrder α] [IsStrictOrderedRing α]

theorem lerp_left (a b : α × α) : lerp a b a.1 = a.2 := by simp [lerp]

theorem lerp_right (a b : α × α) (h : a.1 ≠ b.1) : lerp a b b.1 = b.2 := by
  unfold lerp
  have : b.1 - a.1 ≠ 0 := sub_ne_zero.mpr (Ne.symm h)
  rw [div_self this]; ring

theorem lerp_mono (a b : α × α) (hab : a.1 < b.1) (hy : a.2 ≤ b.2) {s s' : α} (h : s ≤ s') :
    lerp a b s ≤ lerp a b s' := by
  unfold lerp
  have hd : 0 < b.1 - a.1 := sub_pos.mpr hab
  have : (s - a.1) / (b.1 - a.1) ≤ (s' - a.1) / (b.1 - a.1) :=
    div_le_div_of_nonneg_right (by linarith) hd.le
  have h2 : 0 ≤ b.2 - a.2 := sub_nonneg.mpr hy
  nlinarith [mul_le_mul_of_nonneg_left this h2]

theorem lerp_anti (a b : α × α) (hab : a.1 < b.1) (hy : b.2 ≤ a.2) {s s' : α} (h : s ≤ s') :
    lerp a b s' ≤ lerp a b s := by
  unfold lerp
  have hd : 0 < b.1 - a.1 := sub_pos.mpr hab
  have : (s - a.1) / (b.1 - a.1) ≤ (s' - a.1) / (b.1 - a.1) :=
    div_le_div_of_nonneg_right (by linarith) hd.le
  have h2 : 0 ≤ a.2 - b.2 := sub_nonneg.mpr hy
  nlinarith [mul_le_mul_of_nonneg_left this h2]

/-- a convex combination stays below a common upper bound -/
theorem lerp_le (a b : α × α) (hab : a.1 < b.1) {s M : α} (h1 : a.1 ≤ s) (h2 : s ≤ b.1)
    (ha : a.2 ≤ M) (hb : b.2 ≤ M) : lerp a b s ≤ M := by
  rcases le_total a.2 b.2 with h | h
  · calc lerp a b s ≤ lerp a b b.1 := lerp_mono a b hab h h2
      _ = b.2 := lerp_right a b (ne_of_lt hab)
      _ ≤ M := hb
  · calc lerp a b s ≤ lerp a b a.1 := lerp_anti a b hab h h1
      _ = a.2 := lerp_left a b
      _ ≤ M := ha

theorem le_lerp (a b : α × α) (hab : a.1 < b.1) {s M : α} (h1 : a.1 ≤ s) (h2 : s ≤ b.1)
    (ha : M ≤ a.2) (hb : M ≤ b.2) : M ≤ lerp a b s := by
  rcases le_total a.2 b.2 with h | h
  · calc M ≤ a.2 := ha
      _ = lerp a b a.1 := (lerp_left a b).symm
      _ ≤ lerp a b s := lerp_mono a b hab h h1
  · calc M ≤ b.2 := hb
      _ = lerp a b b.1 := (lerp_right a b (ne_of_lt hab)).symm
      _ ≤ lerp a b s := lerp_anti a b hab h h2

theorem lerp_crossX (L : α) (p q : α × α) (hx : p.1 ≠ q.1) (hy : p.2 ≠ q.2) :
    lerp p q (crossX L p q) = L := by
  unfold lerp crossX
  have h1 : q.1 - p.1 ≠ 0 := sub_ne_zero.mpr (Ne.symm hx)
  have h2 : q.2 - p.2 ≠ 0 := sub_ne_zero.mpr (Ne.symm hy)
  field_simp
  ring

/-- replacing the left end of a segment by another point of the same line keeps the line -/
theorem lerp_same_line_left (p q : α × α) (x s : α) (hpq : p.1 ≠ q.1) (hxq : x ≠ q.1) :
    lerp (x, lerp p q x) q s = lerp p q s := by
  unfold lerp
  have h1 : q.1 - p.1 ≠ 0 := sub_ne_zero.mpr (Ne.symm hpq)
  have h2 : q.1 - x ≠ 0 := sub_ne_zero.mpr (Ne.symm hxq)
  simp only
  field_simp
  ring

theorem lerp_same_line_right (p q : α × α) (x s : α) (hpq : p.1 ≠ q.1) (hxp : x ≠ p.1) :
    lerp p (x, lerp p q x) s = lerp p q s := by
  unfold lerp
  have h1 : q.1 - p.1 ≠ 0 := sub_ne_zero.mpr (Ne.symm hpq)
  have h2 : x - p.1 ≠ 0 := sub_ne_zero.mpr hxp
  simp only
  field_simp
  ring

theorem crossX_between (L : α) (p q : α × α) (hpq : p.1 < q.1) (hc : Crosses L p q) :
    p.1 < crossX L p q ∧ crossX L p q < q.1 := by
  unfold crossX
  have hd : 0 < q.1 - p.1 := sub_pos.mpr hpq
  have ht : 0 < (L - p.2) / (q.2 - p.2) ∧ (L - p.2) / (q.2 - p.2) < 1 := by
    rcases hc with ⟨h1, h2⟩ | ⟨h1, h2⟩
    · have : 0 < q.2 - p.2 := by linarith
      exact ⟨div_pos (by linarith) this, by rw [div_lt_one this]; linarith⟩
    · have : q.2 - p.2 < 0 := by linarith
      exact ⟨div_pos_of_neg_of_neg (by linarith) this, by rw [div_lt_one_of_neg this]; linarith⟩
  constructor <;> nlinarith [ht.1, ht.2]

end SpiceEv

namespace SpiceEv
variable {α : Type} [Field α] [LinearOrder α] [IsStrictOrderedRing α]

theorem clampPts_head (L : α) (q : α × α) (rest : List (α × α)) :
    ∃ tl, clampPts L (q :: rest) = (q.1, min q.2 L) :: tl := by
  cases rest with
  | nil => exact ⟨[], rfl⟩
  | cons r rest => exact ⟨_, rfl⟩

/-- one section of the clamped curve equals `min (section) L` -/
theorem interp_section (L : α) (p q : α × α) (tl : List (α × α)) (hpq : p.1 < q.1) (s : α)
    (hs1 : p.1 < s) (hs2 : s ≤ q.1) :
    interp ((p.1, min p.2 L) :: (crossing L p q ++ (q.1, min q.2 L) :: tl)) s
      = min (lerp p q s) L := by
  unfold crossing
  by_cases hc : Crosses L p q
  · obtain ⟨hx1, hx2⟩ := crossX_between L p q hpq hc
    have hyne : p.2 ≠ q.2 := by
      rcases hc with ⟨h1, h2⟩ | ⟨h1, h2⟩
      · exact ne_of_lt (lt_trans h1 h2)
      · exact ne_of_gt (lt_trans h2 h1)
    have hLx : lerp p q (crossX L p q) = L := lerp_crossX L p q (ne_of_lt hpq) hyne
    simp only [hc, if_true, List.singleton_append, interp, not_le.mpr hs1, if_false]
    by_cases hsx : s ≤ crossX L p q
    · simp only [hsx, if_true]
      rcases hc with ⟨h1, h2⟩ | ⟨h1, h2⟩
      · -- rising: left part is the original line, below L
        have e : lerp (p.1, min p.2 L) (crossX L p q, L) s = lerp p q s := by
          rw [min_eq_left h1.le]
          have := lerp_same_line_right p q (crossX L p q) s (ne_of_lt hpq) (ne_of_gt hx1)
          rw [hLx] at this; exact this
        rw [e]
        have : lerp p q s ≤ L := by
          calc lerp p q s ≤ lerp p q (crossX L p q) := lerp_mono p q hpq (lt_trans h1 h2).le hsx
            _ = L := hLx
        exact (min_eq_left this).symm
      · -- falling: left part is flat at L, original above L
        have e : lerp (p.1, min p.2 L) (crossX L p q, L) s = L := by
          rw [min_eq_right h1.le]; simp [lerp]
        rw [e]
        have : L ≤ lerp p q s := by
          calc L = lerp p q (crossX L p q) := hLx.symm
            _ ≤ lerp p q s := lerp_anti p q hpq (lt_trans h2 h1).le hsx
        exact (min_eq_right this).symm
    · have hsx' : crossX L p q < s := not_le.mp hsx
      simp only [hsx, if_false, hs2, if_true]
      rcases hc with ⟨h1, h2⟩ | ⟨h1, h2⟩
      · have e : lerp (crossX L p q, L) (q.1, min q.2 L) s = L := by
          rw [min_eq_right h2.le]; simp [lerp]
        rw [e]
        have : L ≤ lerp p q s := by
          calc L = lerp p q (crossX L p q) := hLx.symm
            _ ≤ lerp p q s := lerp_mono p q hpq (lt_trans h1 h2).le hsx'.le
        exact (min_eq_right this).symm
      · have e : lerp (crossX L p q, L) (q.1, min q.2 L) s = lerp p q s := by
          rw [min_eq_left h2.le]
          have := lerp_same_line_left p q (crossX L p q) s (ne_of_lt hpq) (ne_of_lt hx2)
          rw [hLx] at this; exact this
        rw [e]
        have : lerp p q s ≤ L := by
          calc lerp p q s ≤ lerp p q (crossX L p q) := lerp_anti p q hpq (lt_trans h2 h1).le hsx'.le
            _ = L := hLx
        exact (min_eq_left this).symm
  · simp only [hc, if_false, List.nil_append, interp, not_le.mpr hs1, hs2, if_true]
    have hcases : (p.2 ≤ L ∧ q.2 ≤ L) ∨ (L ≤ p.2 ∧ L ≤ q.2) := by
      unfold Crosses at hc
      rcases le_total p.2 L with hp | hp <;> rcases le_total q.2 L with hq | hq
      · exact Or.inl ⟨hp, hq⟩
      · rcases eq_or_lt_of_le hp with h | h
        · exact Or.inr ⟨h ▸ le_refl _, hq⟩
        · rcases eq_or_lt_of_le hq with h' | h'
          · exact Or.inl ⟨hp, h' ▸ le_refl _⟩
          · exact absurd (Or.inl ⟨h, h'⟩) hc
      · rcases eq_or_lt_of_le hp with h | h
        · exact Or.inl ⟨h ▸ le_refl _, hq⟩
        · rcases eq_or_lt_of_le hq with h' | h'
          · exact Or.inr ⟨hp, h' ▸ le_refl _⟩
          · exact absurd (Or.inr ⟨h, h'⟩) hc
      · exact Or.inr ⟨hp, hq⟩
    rcases hcases with ⟨hp, hq⟩ | ⟨hp, hq⟩
    · rw [min_eq_left hp, min_eq_left hq]
      have : lerp p q s ≤ L := lerp_le p q hpq hs1.le hs2 hp hq
      exact (min_eq_left this).symm
    · rw [min_eq_right hp, min_eq_right hq]
      have : L ≤ lerp p q s := le_lerp p q hpq hs1.le hs2 hp hq
      rw [min_eq_right this]; simp [lerp]

/-- **the clamped point list denotes `min (curve) L`** -/
theorem interp_clampPts (L : α) (pts : List (α × α)) (hs : StrictSoc pts) (hne : pts ≠ []) (s : α) :
    interp (clampPts L pts) s = min (interp pts s) L := by
  induction pts with
  | nil => exact absurd rfl hne
  | cons p rest ih =>
    cases rest with
    | nil => simp [clampPts, interp]
    | cons q rest =>
      have hpq : p.1 < q.1 := by
        unfold StrictSoc at hs; simp at hs; exact hs.1.1
      have hs' : StrictSoc (q :: rest) := by
        unfold StrictSoc at hs ⊢; exact (List.pairwise_cons.mp hs).2
      have ih' := ih hs' (by simp)
      obtain ⟨tl, htl⟩ := clampPts_head L q rest
      show interp ((p.1, min p.2 L) :: (crossing L p q ++ clampPts L (q :: rest))) s = _
      by_cases h1 : s ≤ p.1
      · simp [interp, h1]
        cases hcr : crossing L p q ++ clampPts L (q :: rest) with
        | nil => simp [interp]
        | cons x xs => simp [interp, h1]
      · have h1' : p.1 < s := not_le.mp h1
        by_cases h2 : s ≤ q.1
        · rw [htl, interp_section L p q tl hpq s h1' h2]
          simp [interp, h1, h2]
        · have h2' : q.1 < s := not_le.mp h2
          have hR : interp (p :: q :: rest) s = interp (q :: rest) s := by
            simp [interp, h1, h2]
          rw [hR, ← ih']
          -- skip the points of the first section
          unfold crossing
          by_cases hc : Crosses L p q
          · obtain ⟨hx1, hx2⟩ := crossX_between L p q hpq hc
            have hx : ¬ s ≤ crossX L p q := not_le.mpr (lt_trans hx2 h2')
            simp only [hc, if_true, List.singleton_append]
            rw [htl]
            simp [interp, h1, hx, h2]
          · simp only [hc, if_false, List.nil_append]
            rw [htl]
            simp [interp, h1, h2]

end SpiceEv

namespace SpiceEv
variable {α : Type} [Field α] [LinearOrder α] [IsStrictOrderedRing α]

/-- all SoCs of `clampPts L pts` lie in `[head SoC, last SoC]` and are strictly increasing -/
theorem clampPts_strict (L : α) (pts : List (α × α)) (hs : StrictSoc pts) :
    StrictSoc (clampPts L pts) ∧
    (∀ p rest, pts = p :: rest → ∀ x ∈ clampPts L pts, p.1 ≤ x.1) := by
  induction pts with
  | nil => exact ⟨by simp [clampPts, StrictSoc], by intro p rest h; cases h⟩
  | cons p rest ih =>
    cases rest with
    | nil =>
      refine ⟨by simp [clampPts, StrictSoc], ?_⟩
      intro p' rest' h x hx
      cases h
      simp [clampPts] at hx; subst hx; exact le_refl _
    | cons q rest =>
      have hpq : p.1 < q.1 := by
        unfold StrictSoc at hs; simp at hs; exact hs.1.1
      have hs' : StrictSoc (q :: rest) := by
        unfold StrictSoc at hs ⊢; exact (List.pairwise_cons.mp hs).2
      obtain ⟨ih1, ih2⟩ := ih hs'
      have ih2' := ih2 q rest rfl
      have hmem : ∀ x ∈ crossing L p q ++ clampPts L (q :: rest), p.1 < x.1 := by
        intro x hx
        rcases List.mem_append.mp hx with h | h
        · unfold crossing at h
          by_cases hc : Crosses L p q
          · simp [hc] at h; subst h; exact (crossX_between L p q hpq hc).1
          · simp [hc] at h
        · exact lt_of_lt_of_le hpq (ih2' x h)
      constructor
      · show StrictSoc ((p.1, min p.2 L) :: (crossing L p q ++ clampPts L (q :: rest)))
        unfold StrictSoc
        rw [List.pairwise_cons]
        refine ⟨fun x hx => hmem x hx, ?_⟩
        rw [List.pairwise_append]
        refine ⟨?_, ih1, ?_⟩
        · unfold crossing; split <;> simp
        · intro a ha b hb
          unfold crossing at ha
          by_cases hc : Crosses L p q
          · simp [hc] at ha; subst ha
            exact lt_of_lt_of_le (crossX_between L p q hpq hc).2 (ih2' b hb)
          · simp [hc] at ha
      · intro p' rest' h x hx
        cases h
        change x ∈ (p.1, min p.2 L) :: (crossing L p q ++ clampPts L (q :: rest)) at hx
        rcases List.mem_cons.mp hx with h | h
        · subst h; exact le_refl _
        · exact (hmem x h).le

theorem clampPts_getLast (L : α) (pts : List (α × α)) (l : α × α) (h : pts.getLast? = some l) :
    (clampPts L pts).getLast? = some (l.1, min l.2 L) := by
  induction pts with
  | nil => simp at h
  | cons p rest ih =>
    cases rest with
    | nil => simp at h; subst h; simp [clampPts]
    | cons q rest =>
      have h' : (q :: rest).getLast? = some l := by simpa [List.getLast?_cons_cons] using h
      have := ih h'
      obtain ⟨tl, htl⟩ := clampPts_head L q rest
      show ((p.1, min p.2 L) :: (crossing L p q ++ clampPts L (q :: rest))).getLast? = _
      rw [show ((p.1, min p.2 L) :: (crossing L p q ++ clampPts L (q :: rest)))
            = ((p.1, min p.2 L) :: crossing L p q) ++ clampPts L (q :: rest) from rfl,
          List.getLast?_append, this]
      rfl

theorem clampPts_nonneg (L : α) (hL : 0 ≤ L) (pts : List (α × α)) (h : ∀ p ∈ pts, 0 ≤ p.2) :
    ∀ x ∈ clampPts L pts, 0 ≤ x.2 := by
  induction pts with
  | nil => simp [clampPts]
  | cons p rest ih =>
    cases rest with
    | nil =>
      intro x hx; simp [clampPts] at hx; subst hx
      exact le_min (h p (by simp)) hL
    | cons q rest =>
      intro x hx
      change x ∈ (p.1, min p.2 L) :: (crossing L p q ++ clampPts L (q :: rest)) at hx
      rcases List.mem_cons.mp hx with h' | h'
      · subst h'; exact le_min (h p (by simp)) hL
      · rcases List.mem_append.mp h' with h'' | h''
        · unfold crossing at h''
          by_cases hc : Crosses L p q
          · simp [hc] at h''; subst h''; exact hL
          · simp [hc] at h''
        · exact ih (fun y hy => h y (List.mem_cons_of_mem _ hy)) x h''

end SpiceEv

namespace SpiceEv
variable {α : Type} [Field α] [LinearOrder α] [IsStrictOrderedRing α]

def scalePts (k : α) (pts : List (α × α)) : List (α × α) := pts.map (fun p => (p.1, k * p.2))

theorem interp_scalePts (k : α) (pts : List (α × α)) (s : α) :
    interp (scalePts k pts) s = k * interp pts s := by
  induction pts with
  | nil => simp [scalePts, interp]
  | cons p rest ih =>
    cases rest with
    | nil => simp [scalePts, interp]
    | cons q rest =>
      have ih' : interp (scalePts k (q :: rest)) s = k * interp (q :: rest) s := ih
      show interp ((p.1, k * p.2) :: (q.1, k * q.2) :: scalePts k rest) s = _
      have e : (q.1, k * q.2) :: scalePts k rest = scalePts k (q :: rest) := rfl
      simp only [interp]
      split_ifs
      · rfl
      · simp only [lerp]; ring
      · rw [e, ih']

theorem strictSoc_scalePts (k : α) (pts : List (α × α)) (h : StrictSoc pts) :
    StrictSoc (scalePts k pts) := by
  unfold StrictSoc scalePts at *
  rw [List.pairwise_map]; exact h

theorem scalePts_head (k : α) (pts : List (α × α)) :
    (scalePts k pts).head? = pts.head?.map (fun p => (p.1, k * p.2)) := by
  cases pts <;> simp [scalePts]

theorem scalePts_getLast (k : α) (pts : List (α × α)) :
    (scalePts k pts).getLast? = pts.getLast?.map (fun p => (p.1, k * p.2)) := by
  simp [scalePts, List.getLast?_map]

theorem scalePts_ne_nil (k : α) (pts : List (α × α)) (h : pts ≠ []) : scalePts k pts ≠ [] := by
  cases pts <;> simp_all [scalePts]

/-- `LoadingCurve.__init__` on an already strictly sorted list with end points 0 and 1 keeps it -/
theorem Curve.new_of_strict (pts : List (α × α)) (hs : StrictSoc pts)
    (hf : ∃ p, pts.head? = some p ∧ p.1 = 0) (hl : ∃ p, pts.getLast? = some p ∧ p.1 = 1) :
    Curve.new pts = .ok ⟨pts, curveMaxPower pts⟩ := by
  unfold Curve.new
  have hsort : pts.mergeSort (fun a b => decide (a.1 ≤ b.1)) = pts := by
    apply List.mergeSort_of_pairwise
    unfold StrictSoc at hs
    exact hs.imp (fun h => by simpa using h.le)
  obtain ⟨f, hf1, hf2⟩ := hf
  obtain ⟨l, hl1, hl2⟩ := hl
  simp only [hsort, hf1, hl1]
  have e1 : numEq f.1 0 = true := (numEq_iff _ _).mpr hf2
  have e2 : numEq l.1 1 = true := (numEq_iff _ _).mpr hl2
  simp [e1, e2]

theorem curveMaxPower_foldl (pts : List (α × α)) (m : α) :
    pts.foldl (fun m p => pymax p.2 m) m = pts.foldl (fun m p => max m p.2) m := by
  induction pts generalizing m with
  | nil => rfl
  | cons p rest ih => simp [List.foldl, ih, max_comm]

theorem foldl_max_ge (pts : List (α × α)) (m : α) :
    m ≤ pts.foldl (fun m p => max m p.2) m ∧ ∀ p ∈ pts, p.2 ≤ pts.foldl (fun m p => max m p.2) m := by
  induction pts generalizing m with
  | nil => simp
  | cons p rest ih =>
    obtain ⟨h1, h2⟩ := ih (max m p.2)
    refine ⟨le_trans (le_max_left _ _) h1, ?_⟩
    intro x hx
    rcases List.mem_cons.mp hx with h | h
    · subst h; exact le_trans (le_max_right _ _) h1
    · exact h2 x h

theorem foldl_max_mem (pts : List (α × α)) (m : α) :
    pts.foldl (fun m p => max m p.2) m = m ∨ ∃ p ∈ pts, pts.foldl (fun m p => max m p.2) m = p.2 := by
  induction pts generalizing m with
  | nil => simp
  | cons p rest ih =>
    rcases ih (max m p.2) with h | ⟨x, hx, h⟩
    · rcases max_choice m p.2 with h' | h'
      · left; rw [List.foldl_cons, h, h']
      · right; exact ⟨p, by simp, by rw [List.foldl_cons, h, h']⟩
    · right; exact ⟨x, List.mem_cons_of_mem _ hx, by simpa [List.foldl] using h⟩

/-- a curve lookup never exceeds the largest point power -/
theorem interp_le_of_points (pts : List (α × α)) (hs : StrictSoc pts) (M : α)
    (hM : ∀ p ∈ pts, p.2 ≤ M) (hne : pts ≠ []) (s : α) : interp pts s ≤ M := by
  induction pts with
  | nil => exact absurd rfl hne
  | cons p rest ih =>
    cases rest with
    | nil => simpa [interp] using hM p (by simp)
    | cons q rest =>
      have hpq : p.1 < q.1 := by
        unfold StrictSoc at hs; simp at hs; exact hs.1.1
      have hs' : StrictSoc (q :: rest) := by
        unfold StrictSoc at hs ⊢; exact (List.pairwise_cons.mp hs).2
      simp only [interp]
      split_ifs with h1 h2
      · exact hM p (by simp)
      · exact lerp_le p q hpq (not_le.mp h1).le h2 (hM p (by simp)) (hM q (by simp))
      · exact ih hs' (fun x hx => hM x (List.mem_cons_of_mem _ hx)) (by simp)

theorem interp_nonneg (pts : List (α × α)) (hs : StrictSoc pts)
    (h0 : ∀ p ∈ pts, 0 ≤ p.2) (s : α) : 0 ≤ interp pts s := by
  induction pts with
  | nil => simp [interp]
  | cons p rest ih =>
    cases rest with
    | nil => simpa [interp] using h0 p (by simp)
    | cons q rest =>
      have hpq : p.1 < q.1 := by
        unfold StrictSoc at hs; simp at hs; exact hs.1.1
      have hs' : StrictSoc (q :: rest) := by
        unfold StrictSoc at hs ⊢; exact (List.pairwise_cons.mp hs).2
      simp only [interp]
      split_ifs with h1 h2
      · exact h0 p (by simp)
      · exact le_lerp p q hpq (not_le.mp h1).le h2 (h0 p (by simp)) (h0 q (by simp))
      · exact ih hs' (fun x hx => h0 x (List.mem_cons_of_mem _ hx))

end SpiceEv
