/-
Draw side of the connector limit with V2G-capable vehicles and stationary batteries: the entries of
the discharging stations / batteries in `current_loads` are ≤ 0 (fresh, unique load keys).
-/
import SpiceEv.Proofs.StratBalancedMarketV2gStep
import SpiceEv.Proofs.StratBalancedMarketBookStep
set_option linter.unusedSectionVars false
set_option linter.unusedSimpArgs false
set_option linter.unusedVariables false
namespace SpiceEv.BalancedMarket
open SpiceEv
variable {α B : Type} [Field α] [LinearOrder α] [IsStrictOrderedRing α]

/-! ### entries of `current_loads` -/

theorem mem_sdSet {β : Type} (l : List (String × β)) (k : String) (x : β) (kv : String × β)
    (h : kv ∈ sdSet l k x) : kv ∈ l ∨ kv.1 = k := by
  induction l with
  | nil => simp only [sdSet, List.mem_singleton] at h; right; rw [h]
  | cons a rest ih =>
    obtain ⟨k', v'⟩ := a
    unfold sdSet at h
    by_cases hk : (k' == k) = true
    · simp only [hk, if_true, List.mem_cons] at h
      rcases h with rfl | h
      · right; simpa using hk
      · left; exact List.mem_cons_of_mem _ h
    · simp only [hk, Bool.false_eq_true, if_false, List.mem_cons] at h
      rcases h with rfl | h
      · left; exact List.mem_cons_self ..
      · rcases ih h with h | h
        · left; exact List.mem_cons_of_mem _ h
        · right; exact h

theorem mem_addLoad (g : GcS α) (k : String) (x : α) (kv : String × α)
    (h : kv ∈ (g.addLoad k x).1.loads) : kv ∈ g.loads ∨ kv.1 = k := by
  unfold GcS.addLoad at h
  split at h
  · exact mem_sdSet _ _ _ _ h
  · simp only [List.mem_append, List.mem_singleton] at h
    rcases h with h | rfl
    · left; exact h
    · right; rfl

theorem sdGet_none_of_fresh {β : Type} (l : List (String × β)) (k : String)
    (h : ∀ kv ∈ l, kv.1 ≠ k) : sdGet l k = none := by
  induction l with
  | nil => rfl
  | cons a rest ih =>
    obtain ⟨k', v'⟩ := a
    have hne : (k' == k) = false := by simpa using h (k', v') (List.mem_cons_self ..)
    simp only [sdGet, hne, Bool.false_eq_true, if_false]
    exact ih (fun kv hkv => h kv (List.mem_cons_of_mem _ hkv))

theorem addLoad_fresh (g : GcS α) (k : String) (x : α) (h : ∀ kv ∈ g.loads, kv.1 ≠ k) :
    (g.addLoad k x).1.loads = g.loads ++ [(k, x)] := by
  unfold GcS.addLoad
  rw [sdGet_none_of_fresh g.loads k h]

/-- entries of excluded keys are all ≤ 0 -/
def PInvD (gc : GcS α) (dis : List String) : Prop := ∀ kv ∈ gc.loads, kv.1 ∈ dis → kv.2 ≤ 0

theorem excl_ge_aux (dis : List String) : ∀ (l : List (String × α)) (a a' : α),
    (∀ kv ∈ l, kv.1 ∈ dis → kv.2 ≤ 0) → a ≤ a' →
    l.foldl (fun a kv => a + kv.2) a ≤ l.foldl (fun a kv => if dis.contains kv.1 then a else a + kv.2) a' := by
  intro l
  induction l with
  | nil => intro a a' _ h; simpa using h
  | cons x rest ih =>
    intro a a' hP h
    simp only [List.foldl_cons]
    apply ih _ _ (fun kv hkv => hP kv (List.mem_cons_of_mem _ hkv))
    by_cases hc : dis.contains x.1 = true
    · rw [if_pos hc]
      have := hP x (List.mem_cons_self ..) (by simpa using hc)
      linarith
    · rw [if_neg hc]; linarith

/-- the real load is at most the load without the discharging stations -/
theorem excl_ge (gc : GcS α) (dis : List String) (h : PInvD gc dis) :
    gc.currentLoad ≤ currentLoadExcl gc dis := by
  unfold GcS.currentLoad currentLoadExcl
  exact excl_ge_aux dis gc.loads 0 0 h (le_refl _)

theorem PInvD_addLoad_other (gc : GcS α) (dis : List String) (k : String) (x : α) (h : PInvD gc dis)
    (hk : k ∉ dis) : PInvD (gc.addLoad k x).1 dis := by
  intro kv hkv hd
  rcases mem_addLoad gc k x kv hkv with hm | hm
  · exact h kv hm hd
  · exact absurd (hm ▸ hd) hk

theorem PInvD_addLoad_fresh (gc : GcS α) (dis : List String) (k : String) (x : α) (h : PInvD gc dis)
    (hfresh : ∀ kv ∈ gc.loads, kv.1 ≠ k) (hx : x ≤ 0) : PInvD (gc.addLoad k x).1 (dis ++ [k]) := by
  intro kv hkv hd
  rw [addLoad_fresh gc k x hfresh] at hkv
  simp only [List.mem_append, List.mem_singleton] at hkv hd
  rcases hkv with hm | rfl
  · rcases hd with hd | hd
    · exact h kv hm hd
    · exact absurd hd (hfresh kv hm)
  · exact hx

/-! ### what one vehicle of the vehicle loop does to the connector, exactly -/

theorem applyV2g_exact (ops : Ops α B) (v : VehicleS α B) (st st' : VSt α B) (sp : α)
    (h : applyV2g ops v st sp = .ok st') :
    (0 < sp ∧ ∃ bat' avg, ops.load st.bat none none (some sp) = .ok (bat', avg) ∧
        st'.gc = (st.gc.addLoad st.cs.id avg).1 ∧ st'.dis = st.dis) ∨
    (¬ 0 < sp ∧ sp < 0 ∧ ∃ bat' out, ops.unload st.bat (some (-sp)) (some v.dischargeLimit) none = .ok (bat', out) ∧
        st'.gc = (st.gc.addLoad st.cs.id (-out)).1 ∧ st'.dis = st.dis ++ [st.cs.id]) ∨
    (¬ 0 < sp ∧ ¬ sp < 0 ∧ st'.gc = (st.gc.addLoad st.cs.id 0).1 ∧ st'.dis = st.dis) := by
  unfold applyV2g at h
  split at h
  · rename_i hpos
    simp only [bind, Except.bind] at h
    split at h
    · cases h
    · rename_i r hr
      obtain ⟨bat', avg⟩ := r
      simp only [Except.ok.injEq] at h; subst h
      exact Or.inl ⟨hpos, bat', avg, hr, rfl, rfl⟩
  · rename_i hpos
    split at h
    · rename_i hneg
      simp only [bind, Except.bind] at h
      split at h
      · cases h
      · rename_i r hr
        obtain ⟨bat', out⟩ := r
        simp only [Except.ok.injEq] at h; subst h
        exact Or.inr (Or.inl ⟨hpos, hneg, bat', out, hr, rfl, rfl⟩)
    · rename_i hneg
      simp only [Except.ok.injEq] at h; subst h
      exact Or.inr (Or.inr ⟨hpos, hneg, rfl, rfl⟩)

/-- exact form of the forecast update -/
theorem fore_update_eq (ops : Ops α B) (dl a : α) (pw : List α) (ts ts' : List (TS α)) (bat : B)
    (hF : (pw = [] ∧ a = 0) ∨ ∃ q rest, pw = q :: rest ∧
      ((q = 0 ∧ a = 0) ∨ (0 < q ∧ ∃ s, ops.load bat none none (some q) = .ok (s, a)) ∨
       (q < 0 ∧ ∃ s out, ops.unload bat (some (-q)) (some dl) none = .ok (s, out) ∧ a = -out)))
    (h : updateTimesteps ops dl pw ts bat = .ok ts') :
    ∀ t0', ts'[0]? = some t0' → ∃ t0, ts[0]? = some t0 ∧ t0'.power = t0.power - a ∧
      t0'.maxPower = t0.maxPower := by
  rcases hF with ⟨rfl, rfl⟩ | ⟨q, rest, rfl, hq⟩
  · rw [updateTimesteps_nil] at h
    simp only [Except.ok.injEq] at h
    subst h
    intro t0' ht0'
    exact ⟨t0', ht0', by ring, rfl⟩
  · obtain ⟨t0, tss, t0', tss', hts, hts', hmx, hcase⟩ := updateTimesteps_head ops dl q rest ts ts' bat h
    intro t1 ht1
    rw [hts'] at ht1
    simp only [List.getElem?_cons_zero, Option.some.injEq] at ht1
    subst ht1
    refine ⟨t0, by rw [hts]; simp, ?_, hmx⟩
    rcases hq with ⟨rfl, rfl⟩ | ⟨hpos, s, hl⟩ | ⟨hneg, s, out, hu, rfl⟩
    · rcases hcase with ⟨hp, _⟩ | ⟨_, hn, _⟩ | ⟨_, _, he⟩
      · exact absurd hp (lt_irrefl _)
      · exact absurd hn (lt_irrefl _)
      · rw [he]; ring
    · rcases hcase with ⟨_, s', a', hl', hp⟩ | ⟨hnp, _, _⟩ | ⟨hnp, _, _⟩
      · rw [hl] at hl'
        simp only [Except.ok.injEq, Prod.mk.injEq] at hl'
        rw [hp, ← hl'.2]
      · exact absurd hpos hnp
      · exact absurd hpos hnp
    · rcases hcase with ⟨hp, _⟩ | ⟨_, _, s', a', hu', hp⟩ | ⟨_, hnn, _⟩
      · exact absurd (lt_trans hneg hp) (lt_irrefl _)
      · rw [hu] at hu'
        simp only [Except.ok.injEq, Prod.mk.injEq] at hu'
        rw [hp, ← hu'.2]; ring
      · exact absurd hneg hnn

/-- the outcome of one vehicle for connector and `discharging_stations` -/
inductive VOut (gc gc' : GcS α) (dis dis' : List String) (csid : String) (a : α) : Prop
  | none (h1 : gc' = gc) (h2 : dis' = dis) (h3 : a = 0)
  | charge (h1 : gc' = (gc.addLoad csid a).1) (h2 : dis' = dis) (h3 : 0 ≤ a)
  | discharge (h1 : gc' = (gc.addLoad csid a).1) (h2 : dis' = dis ++ [csid]) (h3 : a ≤ 0)

theorem sliceTo_nil {β : Type} (n : Int) : sliceTo ([] : List β) n = [] := by
  unfold sliceTo; split <;> simp

theorem vehicleBody_out (ops : Ops α B) (law : BatLaw ops.toBatOps) (R : B → B → Prop)
    (sl : SimLaw ops R) (env : Env α) (g g' : GSt α B) (vid : String)
    (h : vehicleBody ops env g vid = .ok g') :
    ∃ v cs a, g.w.vehicle? vid = some v ∧ v.cs = some cs.id ∧ g.w.station? cs.id = some cs ∧
      VOut g.gc g'.gc g.dis g'.dis cs.id a ∧
      (∀ t0', g'.ts[0]? = some t0' → ∃ t0, g.ts[0]? = some t0 ∧ t0'.power = t0.power - a ∧
        t0'.maxPower = t0.maxPower) ∧
      (0 < a → ∃ t0, g.ts[0]? = some t0 ∧ a ≤ max 0 t0.power) := by
  unfold vehicleBody at h
  split at h
  · cases h
  · rename_i v hv
    split at h
    · cases h
    · rename_i csId hcs
      split at h
      · cases h
      · rename_i cs hst
        obtain ⟨_, hcsid⟩ := station?_some _ _ cs hst
        subst hcsid
        split at h
        · cases h
        · rename_i etd hetd
          simp only [bind, Except.bind] at h
          split at h
          · cases h
          · rename_i sorted hsorted
            obtain ⟨hnd, hne⟩ := sortedTs_nodup _ sorted hsorted
            have hts0 : sorted ≠ [] → ∃ t0, g.ts[0]? = some t0 := by
              intro hs
              have := hne hs
              cases hg : g.ts with
              | nil => rw [hg, sliceTo_nil] at this; exact absurd rfl this
              | cons t0 rest => exact ⟨t0, by simp⟩
            split at h
            · cases h
            · rename_i st1 hch
              obtain ⟨hR1, _, _⟩ := chargeLoop_spec ops R sl env v g.ts sorted v.bat _ _ st1 (sl.refl v.bat) hch
              have hz0 : Z (List.replicate sorted.length (0 : α)) := by
                intro q hq
                have := List.mem_of_getElem? hq
                exact List.eq_of_mem_replicate this
              obtain ⟨hlen1, _, hcase⟩ := chargeLoop_Z ops env v g.ts sorted sorted.length _ _ st1 hz0
                (by simp) hch
              have hco := chargeLoop_clampOrOld ops env v g.ts sorted cs (List.replicate sorted.length 0)
                _ _ st1 rfl (ClampOrOld.refl _ _ _) hch
              have hnonneg : ∀ x ∈ st1.power, 0 ≤ x := by
                intro x hx
                rcases hco x hx with hx0 | ⟨p, rfl⟩
                · rw [List.eq_of_mem_replicate hx0]
                · exact (clampPower_bounds _ _ _ _ _).1
              split at h
              · cases h
              · rename_i st2 hst2
                have hR2 : R v.bat st2.sim := by
                  split at hst2
                  · exact v2gLoop_R ops R sl v.bat env v g.ts sorted _ st1 st2 hR1 hst2
                  · simp only [pure, Except.pure, Except.ok.injEq] at hst2
                    subst hst2; exact hR1
                rw [sl.restore _ _ hR2] at h
                split at h
                · cases h
                · rename_i ts' hts
                  simp only [Except.ok.injEq] at h
                  subst h
                  suffices hkey : ∃ a, VOut g.gc st2.gc g.dis st2.dis cs.id a ∧
                      (0 < a → ∃ t0, g.ts[0]? = some t0 ∧ a ≤ max 0 t0.power) ∧
                      ((st2.power = [] ∧ a = 0) ∨ ∃ q rest, st2.power = q :: rest ∧
                        ((q = 0 ∧ a = 0) ∨ (0 < q ∧ ∃ s, ops.load v.bat none none (some q) = .ok (s, a)) ∨
                         (q < 0 ∧ ∃ s out, ops.unload v.bat (some (-q)) (some v.dischargeLimit) none = .ok (s, out) ∧
                            a = -out))) by
                    obtain ⟨a, k1, k2, k5⟩ := hkey
                    exact ⟨v, cs, a, hv, hcs, hst, k1,
                      fore_update_eq ops v.dischargeLimit a st2.power g.ts ts' v.bat k5 hts, k2⟩
                  have hZlist : ∀ pw : List α, Z pw → (pw = [] ∧ (0 : α) = 0) ∨ ∃ q rest, pw = q :: rest ∧
                      ((q = 0 ∧ (0 : α) = 0) ∨ (0 < q ∧ ∃ s, ops.load v.bat none none (some q) = .ok (s, (0 : α))) ∨
                       (q < 0 ∧ ∃ s out, ops.unload v.bat (some (-q)) (some v.dischargeLimit) none = .ok (s, out) ∧
                          (0 : α) = -out)) := by
                    intro pw hz
                    cases pw with
                    | nil => exact Or.inl ⟨rfl, rfl⟩
                    | cons q rest => exact Or.inr ⟨q, rest, rfl, Or.inl ⟨hz q (by simp), rfl⟩⟩
                  have hno : ∀ x : α, ¬ (0 : α) < 0 := fun _ => lt_irrefl _
                  rcases hcase with ⟨hu, hz1⟩ | ⟨p0, bat', avg, j, c, hp0, hne0, hload, hb, hgc, hcs', hdis, hj, hsj⟩
                  · obtain ⟨ub, ugc, ucs, ucm, udis⟩ := hu
                    by_cases hv2g : v.v2g = true
                    · rw [if_pos hv2g] at hst2
                      rcases v2gLoop_Zspec ops env v g.ts sorted hnd _ st1 st2 hz1 hlen1 hst2 with
                        ⟨⟨_, vgc, _, _, vdis⟩, hz2⟩ | ⟨stx, sp, happ, xb, xgc, xcs, _, xdis, xp, xup, hsne⟩
                      · exact ⟨0, .none (by rw [vgc, ugc]) (by rw [vdis, udis]) rfl,
                          fun h => absurd h (lt_irrefl _), hZlist _ hz2⟩
                      · have hpw : st2.power = stx.power := applyV2g_power ops v stx st2 sp happ
                        have hlist : ∃ rest, st2.power = sp :: rest := by
                          rw [hpw]
                          cases hsx : stx.power with
                          | nil => rw [hsx] at xp; simp at xp
                          | cons q rest =>
                            rw [hsx] at xp
                            simp only [List.getElem?_cons_zero, Option.some.injEq] at xp
                            exact ⟨rest, by rw [xp]⟩
                        obtain ⟨rest, hrest⟩ := hlist
                        obtain ⟨t0, ht0⟩ := hts0 hsne
                        have hcs2 : stx.cs.id = cs.id := by rw [xcs, ucs]
                        rcases applyV2g_exact ops v stx st2 sp happ with
                          ⟨hpos, b2, avg, hl, hg2, hd2⟩ | ⟨hnp, hneg, b2, out, hu2, hg2, hd2⟩ | ⟨hnp, hnn, hg2, hd2⟩
                        · rw [xb, ub] at hl
                          rw [xgc, ugc, hcs2] at hg2
                          rw [xdis, udis] at hd2
                          have hav := law.load_target _ _ _ _ hl
                          rw [max_eq_left hpos.le] at hav
                          exact ⟨avg, .charge hg2 hd2 hav.1,
                            fun _ => ⟨t0, ht0, le_trans hav.2 (xup t0 ht0)⟩,
                            Or.inr ⟨sp, rest, hrest, Or.inr (Or.inl ⟨hpos, b2, hl⟩)⟩⟩
                        · rw [xb, ub] at hu2
                          rw [xgc, ugc, hcs2] at hg2
                          rw [xdis, udis, hcs2] at hd2
                          have hout := (law.unload_max _ _ _ _ _ hu2).1
                          exact ⟨-out, .discharge hg2 hd2 (by linarith),
                            fun h => absurd h (by linarith),
                            Or.inr ⟨sp, rest, hrest, Or.inr (Or.inr ⟨hneg, b2, out, hu2, rfl⟩)⟩⟩
                        · rw [xgc, ugc, hcs2] at hg2
                          rw [xdis, udis] at hd2
                          have hsp0 : sp = 0 := le_antisymm (not_lt.mp hnp) (not_lt.mp hnn)
                          exact ⟨0, .charge hg2 hd2 (le_refl _), fun h => absurd h (lt_irrefl _),
                            Or.inr ⟨sp, rest, hrest, Or.inl ⟨hsp0, rfl⟩⟩⟩
                    · rw [if_neg hv2g] at hst2
                      simp only [pure, Except.pure, Except.ok.injEq] at hst2
                      subst hst2
                      exact ⟨0, .none ugc udis rfl, fun h => absurd h (lt_irrefl _), hZlist _ hz1⟩
                  · have hmem : p0 ∈ st1.power := List.mem_of_getElem? hp0
                    have hpos : 0 < p0 := lt_of_le_of_ne (hnonneg p0 hmem) (Ne.symm hne0)
                    have hav := law.load_target _ _ _ _ hload
                    rw [max_eq_left hpos.le] at hav
                    have hsne : sorted ≠ [] := by
                      intro hs; rw [hs] at hsj; simp at hsj
                    obtain ⟨t0, ht0⟩ := hts0 hsne
                    have hnz : NZ sorted st1.sortedIdx := by
                      intro k c' t hk hsk h0
                      subst h0
                      have := nodup_pos sorted j k c c' 0 hnd hsj hsk
                      omega
                    have h2 : st2.gc = st1.gc ∧ st2.dis = st1.dis ∧ st2.power[0]? = some p0 := by
                      by_cases hv2g : v.v2g = true
                      · rw [if_pos hv2g] at hst2
                        obtain ⟨⟨_, vgc, _, _, vdis⟩, vp⟩ := v2gLoop_NZ ops env v g.ts sorted _ st1 st2 hnz hst2
                        exact ⟨vgc, vdis, by rw [vp]; exact hp0⟩
                      · rw [if_neg hv2g] at hst2
                        simp only [pure, Except.pure, Except.ok.injEq] at hst2
                        subst hst2
                        exact ⟨rfl, rfl, hp0⟩
                    have hlist : ∃ rest, st2.power = p0 :: rest := by
                      cases hsx : st2.power with
                      | nil => rw [hsx] at h2; simp at h2
                      | cons q rest =>
                        rw [hsx] at h2
                        simp only [List.getElem?_cons_zero, Option.some.injEq] at h2
                        exact ⟨rest, by rw [h2.2.2]⟩
                    obtain ⟨rest, hrest⟩ := hlist
                    -- the booked power is within the forecast headroom
                    have hhd := chargeLoop_headroom ops law env v g.ts t0 ht0 sorted _ _ st1
                      (by intro p hp; cases hn : sorted.length with
                          | zero => simp [hn] at hp
                          | succ n =>
                            simp only [hn, List.replicate_succ, List.getElem?_cons_zero, Option.some.injEq] at hp
                            subst hp; exact le_max_left _ _) hch
                    have hc1 := (addLoad_currentLoad g.gc cs.id avg).1
                    have hle : avg ≤ max 0 t0.power := by
                      have := hhd.2.1
                      simp only at this
                      rw [hgc, hc1] at this
                      linarith
                    exact ⟨avg, .charge (by rw [h2.1, hgc]) (by rw [h2.2.1, hdis]) hav.1,
                      fun _ => ⟨t0, ht0, hle⟩,
                      Or.inr ⟨p0, rest, hrest, Or.inr (Or.inl ⟨hpos, bat', hload⟩)⟩⟩

/-! ### folds that process every id once -/

theorem foldlM_done {σ : Type} (f : σ → String → Py σ) (I : List String → σ → Prop) (Pm : String → Prop)
    (hstep : ∀ done s id s', Pm id → id ∉ done → I done s → f s id = .ok s' → I (done ++ [id]) s') :
    ∀ (rest done : List String) (s s' : σ), rest.Nodup → (∀ id ∈ rest, Pm id) → (∀ id ∈ rest, id ∉ done) →
      I done s → rest.foldlM f s = .ok s' → I (done ++ rest) s' := by
  intro rest
  induction rest with
  | nil =>
    intro done s s' _ _ _ hI h
    simp only [List.foldlM_nil, pure, Except.pure, Except.ok.injEq] at h
    subst h; simpa using hI
  | cons id rest ih =>
    intro done s s' hnd hpm hnew hI h
    simp only [List.foldlM_cons, bind, Except.bind] at h
    split at h
    · cases h
    · rename_i s1 h1
      have := ih (done ++ [id]) s1 s' (List.nodup_cons.mp hnd).2
        (fun id' hid' => hpm id' (List.mem_cons_of_mem _ hid'))
        (by
          intro id' hid' hmem
          rcases List.mem_append.mp hmem with hm | hm
          · exact hnew id' (List.mem_cons_of_mem _ hid') hm
          · simp only [List.mem_singleton] at hm
            subst hm
            exact (List.nodup_cons.mp hnd).1 hid')
        (hstep done s id s1 (hpm id (List.mem_cons_self ..)) (hnew id (List.mem_cons_self ..)) hI h1) h
      simpa [List.append_assoc] using this

theorem vehicle?_setVehicle (w : SWorld α B) (v' : VehicleS α B) (k : String) :
    (w.setVehicle v').vehicle? k = (w.vehicle? k).map (fun x => if x.id == v'.id then v' else x) := by
  unfold SWorld.setVehicle SWorld.vehicle?
  simp only
  rw [List.find?_map]
  congr 1
  congr 1
  funext x
  simp only [Function.comp]
  by_cases h : (x.id == v'.id) = true
  · have : x.id = v'.id := by simpa using h
    simp [h, this]
  · simp [h]

theorem vehicle?_id (w : SWorld α B) (k : String) (v : VehicleS α B) (h : w.vehicle? k = some v) :
    v.id = k := by
  unfold SWorld.vehicle? at h
  simpa using List.find?_some h

/-- the (id, station) data of the vehicles never change -/
def VMeta (wv : List (VehicleS α B)) (w : SWorld α B) : Prop :=
  ∀ vid v, w.vehicle? vid = some v → ∃ u ∈ wv, u.id = vid ∧ u.cs = v.cs

theorem VMeta_update (wv : List (VehicleS α B)) (w : SWorld α B) (vid : String) (v : VehicleS α B)
    (hv : w.vehicle? vid = some v) (bat : B) (cs' : StationS α) (h : VMeta wv w) :
    VMeta wv ((w.setVehicle { v with bat := bat }).setStation cs') := by
  intro k x hx
  have hx' : (w.setVehicle { v with bat := bat }).vehicle? k = some x := hx
  rw [vehicle?_setVehicle] at hx'
  cases hk : w.vehicle? k with
  | none => rw [hk] at hx'; cases hx'
  | some y =>
    rw [hk] at hx'
    simp only [Option.map_some, Option.some.injEq] at hx'
    obtain ⟨u, hu, hu1, hu2⟩ := h k y hk
    refine ⟨u, hu, hu1, ?_⟩
    by_cases hid : (y.id == v.id) = true
    · simp only [hid, if_true] at hx'
      have hyk := vehicle?_id w k y hk
      have hvk := vehicle?_id w vid v hv
      have : k = vid := by rw [← hyk, ← hvk]; simpa using hid
      subst this
      rw [hv] at hk
      simp only [Option.some.injEq] at hk
      rw [hu2, ← hk, ← hx']
    · simp only [hid, Bool.false_eq_true, if_false] at hx'
      rw [hu2, hx']

/-! ### the vehicle loop, draw side -/

structure UInv (M : α) (gid : String) (K0 : List String) (wv : List (VehicleS α B))
    (done : List String) (g : GSt α B) : Prop where
  curMax : g.gc.curMax = M
  gcid : g.gc.id = gid
  hi : g.gc.currentLoad ≤ M
  fore : ∀ t0, g.ts[0]? = some t0 → t0.power ≤ M - g.gc.currentLoad
  pd : PInvD g.gc g.dis
  keys : ∀ kv ∈ g.gc.loads, kv.1 ∈ K0 ∨ ∃ u ∈ wv, u.id ∈ done ∧ u.cs = some kv.1
  dkeys : ∀ k ∈ g.dis, ∃ u ∈ wv, u.id ∈ done ∧ u.cs = some k
  vmeta : VMeta wv g.w

theorem vehicleBody_UInv (ops : Ops α B) (law : BatLaw ops.toBatOps) (R : B → B → Prop)
    (sl : SimLaw ops R) (env : Env α) (M : α) (hM : 0 ≤ M) (gid : String) (K0 : List String)
    (wv : List (VehicleS α B))
    (H2 : ∀ u1 ∈ wv, ∀ u2 ∈ wv, ∀ c, u1.cs = some c → u2.cs = some c → u1.id = u2.id)
    (H3 : ∀ u ∈ wv, ∀ c, u.cs = some c → c ∉ K0)
    (done : List String) (g g' : GSt α B) (vid : String) (hvid : vid ∉ done)
    (hinv : UInv M gid K0 wv done g)
    (h : vehicleBody ops env g vid = .ok g') : UInv M gid K0 wv (done ++ [vid]) g' := by
  obtain ⟨v, cs, a, hv, hcs, hst, hout, hfore, hup⟩ := vehicleBody_out ops law R sl env g g' vid h
  obtain ⟨v', cs', bat1, bat2, a1, a2, hv', _, _, _, _, hw, _, _, _, _, _⟩ := vehicleBody_book ops env g g' vid h
  rw [hv] at hv'
  simp only [Option.some.injEq] at hv'
  subst hv'
  have hvm : VMeta wv g'.w := by rw [hw]; exact VMeta_update wv g.w vid v hv bat2 _ hinv.vmeta
  obtain ⟨u0, hu0, hu0id, hu0cs⟩ := hinv.vmeta vid v hv
  rw [hcs] at hu0cs
  -- the station's key is fresh and not among the discharging stations
  have hfresh : ∀ kv ∈ g.gc.loads, kv.1 ≠ cs.id := by
    intro kv hkv hk
    rcases hinv.keys kv hkv with hK | ⟨u, hu, hud, huc⟩
    · exact H3 u0 hu0 cs.id hu0cs (hk ▸ hK)
    · have := H2 u hu u0 hu0 cs.id (by rw [huc, hk]) hu0cs
      rw [hu0id] at this
      exact hvid (this ▸ hud)
  have hnd : cs.id ∉ g.dis := by
    intro hk
    obtain ⟨u, hu, hud, huc⟩ := hinv.dkeys cs.id hk
    have := H2 u hu u0 hu0 cs.id huc hu0cs
    rw [hu0id] at this
    exact hvid (this ▸ hud)
  have hmono : ∀ k, (∃ u ∈ wv, u.id ∈ done ∧ u.cs = some k) → ∃ u ∈ wv, u.id ∈ done ++ [vid] ∧ u.cs = some k :=
    fun k ⟨u, hu, hud, huc⟩ => ⟨u, hu, List.mem_append_left _ hud, huc⟩
  have hnew : ∃ u ∈ wv, u.id ∈ done ++ [vid] ∧ u.cs = some cs.id :=
    ⟨u0, hu0, by rw [hu0id]; simp, hu0cs⟩
  have hforeA : ∀ (L' : α), L' = g.gc.currentLoad + a → ∀ t0', g'.ts[0]? = some t0' → t0'.power ≤ M - L' := by
    intro L' hL t0' ht0'
    obtain ⟨t0, ht0, hp, _⟩ := hfore t0' ht0'
    have := hinv.fore t0 ht0
    rw [hp, hL]; linarith
  obtain ⟨c1, c2, c3, _⟩ := addLoad_currentLoad g.gc cs.id a
  rcases hout with ⟨h1, h2, h3⟩ | ⟨h1, h2, h3⟩ | ⟨h1, h2, h3⟩
  · refine ⟨by rw [h1]; exact hinv.curMax, by rw [h1]; exact hinv.gcid, by rw [h1]; exact hinv.hi, ?_,
      by rw [h1, h2]; exact hinv.pd, ?_, ?_, hvm⟩
    · intro t0' ht0'
      rw [h1]
      exact hforeA _ (by rw [h3, add_zero]) t0' ht0'
    · intro kv hkv
      rw [h1] at hkv
      rcases hinv.keys kv hkv with hK | hU
      · exact Or.inl hK
      · exact Or.inr (hmono _ hU)
    · intro k hk
      rw [h2] at hk
      exact hmono _ (hinv.dkeys k hk)
  · have hhi : g.gc.currentLoad + a ≤ M := by
      rcases lt_or_eq_of_le h3 with hpos | hz
      · obtain ⟨t0, ht0, hle⟩ := hup hpos
        have := hinv.fore t0 ht0
        rcases le_total 0 t0.power with h0 | h0
        · rw [max_eq_right h0] at hle; linarith
        · rw [max_eq_left h0] at hle; linarith [hinv.hi]
      · rw [← hz, add_zero]; exact hinv.hi
    refine ⟨by rw [h1, c2]; exact hinv.curMax, by rw [h1, c3]; exact hinv.gcid, by rw [h1, c1]; exact hhi, ?_,
      by rw [h1, h2]; exact PInvD_addLoad_other _ _ _ _ hinv.pd hnd, ?_, ?_, hvm⟩
    · intro t0' ht0'
      rw [h1, c1]
      exact hforeA _ rfl t0' ht0'
    · intro kv hkv
      rw [h1] at hkv
      rcases mem_addLoad _ _ _ _ hkv with hm | hm
      · rcases hinv.keys kv hm with hK | hU
        · exact Or.inl hK
        · exact Or.inr (hmono _ hU)
      · exact Or.inr (hm ▸ hnew)
    · intro k hk
      rw [h2] at hk
      exact hmono _ (hinv.dkeys k hk)
  · refine ⟨by rw [h1, c2]; exact hinv.curMax, by rw [h1, c3]; exact hinv.gcid,
      by rw [h1, c1]; linarith [hinv.hi], ?_,
      by rw [h1, h2]; exact PInvD_addLoad_fresh _ _ _ _ hinv.pd hfresh h3, ?_, ?_, hvm⟩
    · intro t0' ht0'
      rw [h1, c1]
      exact hforeA _ rfl t0' ht0'
    · intro kv hkv
      rw [h1] at hkv
      rcases mem_addLoad _ _ _ _ hkv with hm | hm
      · rcases hinv.keys kv hm with hK | hU
        · exact Or.inl hK
        · exact Or.inr (hmono _ hU)
      · exact Or.inr (hm ▸ hnew)
    · intro k hk
      rw [h2] at hk
      rcases List.mem_append.mp hk with hk | hk
      · exact hmono _ (hinv.dkeys k hk)
      · simp only [List.mem_singleton] at hk
        exact hk ▸ hnew

/-! ### the vehicles of a connector are processed once each -/

theorem vehiclesAt_sublist_aux (w : SWorld α B) (gcId : String) :
    ∀ (l vs : List (VehicleS α B)),
      l.filterMapM (fun v =>
        match v.cs with
        | none => (.ok none : Py (Option (VehicleS α B)))
        | some csId =>
          match w.station? csId with
          | none => .error .keyError
          | some cs => .ok (if cs.parent == gcId then some v else none)) = .ok vs → vs.Sublist l := by
  intro l
  induction l with
  | nil =>
    intro vs h
    rw [List.filterMapM_nil] at h
    simp only [pure, Except.pure, Except.ok.injEq] at h
    subst h; exact List.Sublist.refl _
  | cons a rest ih =>
    intro vs h
    rw [List.filterMapM_cons] at h
    simp only [bind, Except.bind] at h
    split at h
    · cases h
    · rename_i r hr
      cases r with
      | none =>
        simp only at h
        exact List.Sublist.cons _ (ih vs h)
      | some b =>
        simp only at h
        split at h
        · cases h
        · rename_i r2 hr2
          simp only [pure, Except.pure, Except.ok.injEq] at h
          subst h
          have hb : b = a := by
            split at hr
            · cases hr
            · split at hr
              · cases hr
              · simp only [Except.ok.injEq] at hr
                split at hr
                · simp only [Option.some.injEq] at hr; exact hr.symm
                · cases hr
          subst hb
          exact List.Sublist.cons_cons _ (ih r2 hr2)

theorem stepGc_vids_nodup (w : SWorld α B) (gcId : String) (vs : List (VehicleS α B)) (vids : List String)
    (hnd : (w.vehicles.map (·.id)).Nodup) (hvs : vehiclesAt w gcId = .ok vs)
    (hvids : sortVehicles vs = .ok vids) : vids.Nodup := by
  unfold vehiclesAt at hvs
  have hsub := vehiclesAt_sublist_aux w gcId w.vehicles vs hvs
  have hnd' : (vs.map (·.id)).Nodup := List.Nodup.sublist (List.Sublist.map _ hsub) hnd
  unfold sortVehicles at hvids
  split at hvids
  · cases hvids
  · simp only [Except.ok.injEq] at hvids
    subst hvids
    have hperm := isort_perm (fun (a b : Int × String) => decide (a.1 < b.1) || (decide (a.1 = b.1) && decide (a.2 ≤ b.2)))
      (vs.map (fun v => (v.etd.getD 0, v.id)))
    have : ((vs.map (fun v => (v.etd.getD 0, v.id))).map (·.2)) = vs.map (·.id) := by
      simp [List.map_map, Function.comp]
    rw [(List.Perm.map _ hperm).nodup_iff, this]
    exact hnd'

/-! ### surplus pass and battery block, draw side -/

structure UInv2 (M : α) (gid : String) (K0 : List String) (wv : List (VehicleS α B))
    (wbids : List String) (doneB : List String) (g : GSt α B) : Prop where
  curMax : g.gc.curMax = M
  gcid : g.gc.id = gid
  hi : g.gc.currentLoad ≤ M
  pd : PInvD g.gc g.dis
  keys : ∀ kv ∈ g.gc.loads, kv.1 ∈ K0 ∨ (∃ u ∈ wv, u.cs = some kv.1) ∨ kv.1 ∈ doneB
  dkeys : ∀ k ∈ g.dis, (∃ u ∈ wv, u.cs = some k) ∨ k ∈ doneB
  vmeta : VMeta wv g.w
  bmin : ∀ b ∈ g.w.batteries, 0 ≤ b.minChargingPower

theorem surplusBody_UInv2 (ops : Ops α B) (law : BatLaw ops.toBatOps) (env : Env α) (M : α)
    (hM : 0 ≤ M) (heps : 0 ≤ env.eps) (gid : String) (K0 : List String) (wv : List (VehicleS α B))
    (wbids : List String) (g g' : GSt α B) (vid : String) (hinv : UInv2 M gid K0 wv wbids [] g)
    (h : surplusBody ops env g vid = .ok g') : UInv2 M gid K0 wv wbids [] g' := by
  have hbat := surplusBody_batteries ops env g g' vid h
  unfold surplusBody at h
  split at h
  · cases h
  · rename_i v hv
    split at h
    · cases h
    · rename_i csId hcs
      split at h
      · cases h
      · rename_i cs hst
        simp only at h
        split at h
        · rename_i hcond
          simp only [bind, Except.bind] at h
          split at h
          · cases h
          · rename_i r hr
            obtain ⟨bat', avg⟩ := r
            simp only [Except.ok.injEq] at h
            subst h
            obtain ⟨c1, c2, c3, _⟩ := addLoad_currentLoad g.gc csId avg
            have hE := excl_ge g.gc g.dis hinv.pd
            have hneg : currentLoadExcl g.gc g.dis < 0 := by linarith [hcond.1]
            have hcl := clampV_le cs v.minChargingPower (-currentLoadExcl g.gc g.dis)
            rw [max_eq_right (by linarith)] at hcl
            have hl := law.load_max _ _ _ _ hr
            have hpw : 0 ≤ clampV cs v.minChargingPower (-currentLoadExcl g.gc g.dis) :=
              (clampPower_bounds _ _ _ _ _).1
            rw [max_eq_left hpw] at hl
            have hnd : csId ∉ g.dis := by
              have := hcond.2
              simpa using this
            obtain ⟨u0, hu0, _, hu0cs⟩ := hinv.vmeta _ v hv
            rw [hcs] at hu0cs
            refine ⟨by show (g.gc.addLoad csId avg).1.curMax = M; rw [c2]; exact hinv.curMax,
              by show (g.gc.addLoad csId avg).1.id = gid; rw [c3]; exact hinv.gcid,
              by show (g.gc.addLoad csId avg).1.currentLoad ≤ M; rw [c1]; linarith [hl.2],
              PInvD_addLoad_other _ _ _ _ hinv.pd hnd, ?_, hinv.dkeys,
              VMeta_update wv g.w _ v hv bat' _ hinv.vmeta, hinv.bmin⟩
            intro kv hkv
            rcases mem_addLoad _ _ _ _ hkv with hm | hm
            · exact hinv.keys kv hm
            · exact Or.inr (Or.inl ⟨u0, hu0, by rw [hm]; exact hu0cs⟩)
        · simp only [Except.ok.injEq] at h
          subst h; exact hinv

theorem sdGet_append_fresh {β : Type} (l : List (String × β)) (k : String) (x : β)
    (h : ∀ kv ∈ l, kv.1 ≠ k) : sdGet (l ++ [(k, x)]) k = some x := by
  rw [sdGet_append', sdGet_none_of_fresh l k h]
  simp

theorem sdSet_append_fresh {β : Type} (l : List (String × β)) (k : String) (x y : β)
    (h : ∀ kv ∈ l, kv.1 ≠ k) : sdSet (l ++ [(k, x)]) k y = l ++ [(k, y)] := by
  induction l with
  | nil => simp [sdSet]
  | cons a rest ih =>
    obtain ⟨k', v'⟩ := a
    have hne : (k' == k) = false := by simpa using h (k', v') (List.mem_cons_self ..)
    simp only [List.cons_append, sdSet, hne, Bool.false_eq_true, if_false]
    rw [ih (fun kv hkv => h kv (List.mem_cons_of_mem _ hkv))]

theorem addLoad_second (gc1 : GcS α) (L : List (String × α)) (k : String) (x y : α)
    (hl : gc1.loads = L ++ [(k, x)]) (h : ∀ kv ∈ L, kv.1 ≠ k) :
    (gc1.addLoad k y).1.loads = L ++ [(k, x + y)] := by
  unfold GcS.addLoad
  rw [hl, sdGet_append_fresh L k x h]
  simp only
  rw [sdSet_append_fresh L k x _ h]

theorem batteryBody_UInv2 (ops : Ops α B) (law : BatLaw ops.toBatOps) (env : Env α) (M : α)
    (hM : 0 ≤ M) (gid : String) (K0 : List String) (wv : List (VehicleS α B)) (wbids : List String)
    (H4a : ∀ id ∈ wbids, id ∉ K0) (H4c : ∀ id ∈ wbids, ∀ u ∈ wv, u.cs ≠ some id)
    (nCheap : Option Nat) (doneB : List String) (g g' : GSt α B) (bid : String) (hbid : bid ∈ wbids)
    (hnew : bid ∉ doneB) (hinv : UInv2 M gid K0 wv wbids doneB g)
    (h : batteryBody ops env nCheap g bid = .ok g') : UInv2 M gid K0 wv wbids (doneB ++ [bid]) g' := by
  have hmonoK : ∀ kv : String × α, (kv.1 ∈ K0 ∨ (∃ u ∈ wv, u.cs = some kv.1) ∨ kv.1 ∈ doneB) →
      (kv.1 ∈ K0 ∨ (∃ u ∈ wv, u.cs = some kv.1) ∨ kv.1 ∈ doneB ++ [bid]) := by
    intro kv hk
    rcases hk with hk | hk | hk
    · exact Or.inl hk
    · exact Or.inr (Or.inl hk)
    · exact Or.inr (Or.inr (List.mem_append_left _ hk))
  have hmonoD : ∀ k, ((∃ u ∈ wv, u.cs = some k) ∨ k ∈ doneB) → ((∃ u ∈ wv, u.cs = some k) ∨ k ∈ doneB ++ [bid]) := by
    intro k hk
    rcases hk with hk | hk
    · exact Or.inl hk
    · exact Or.inr (List.mem_append_left _ hk)
  have hfresh : ∀ kv ∈ g.gc.loads, kv.1 ≠ bid := by
    intro kv hkv hk
    rcases hinv.keys kv hkv with h1 | ⟨u, hu, huc⟩ | h1
    · exact H4a bid hbid (hk ▸ h1)
    · exact H4c bid hbid u hu (by rw [huc, hk])
    · exact hnew (hk ▸ h1)
  have hnd : bid ∉ g.dis := by
    intro hk
    rcases hinv.dkeys bid hk with ⟨u, hu, huc⟩ | h1
    · exact H4c bid hbid u hu huc
    · exact hnew h1
  have hE := excl_ge g.gc g.dis hinv.pd
  unfold batteryBody at h
  split at h
  · cases h
  · rename_i b hb
    have hbm : b ∈ g.w.batteries := List.mem_of_find?_eq_some hb
    have hmc := hinv.bmin b hbm
    split at h
    · simp only [Except.ok.injEq] at h; subst h
      exact ⟨hinv.curMax, hinv.gcid, hinv.hi, hinv.pd, fun kv hkv => hmonoK kv (hinv.keys kv hkv),
        fun k hk => hmonoD k (hinv.dkeys k hk), hinv.vmeta, hinv.bmin⟩
    · split at h
      · cases h
      · rename_i n
        simp only [bind, Except.bind] at h
        have hset : ∀ bt : B, ∀ b' ∈ (g.w.setBattery { b with bat := bt }).batteries, 0 ≤ b'.minChargingPower := by
          intro bt b' hb'
          unfold SWorld.setBattery at hb'
          simp only [List.mem_map] at hb'
          obtain ⟨x, hx, rfl⟩ := hb'
          split
          · exact hmc
          · exact hinv.bmin x hx
        have hvm : ∀ bt : B, VMeta wv (g.w.setBattery { b with bat := bt }) := fun bt => hinv.vmeta
        set A : α := currentLoadExcl g.gc g.dis with hA
        set X : α := if 0 < n then M - g.gc.currentLoad else -A with hX
        have hcheap : ∀ t0 rest, (capTs n g.ts (g.gc.curMax - g.gc.currentLoad)).take n = t0 :: rest →
            t0.power ≤ X := by
          intro t0 rest ht
          by_cases hn : 0 < n
          · rw [hX, if_pos hn, ← hinv.curMax]
            exact capTs_head n g.ts _ hn t0 rest ht
          · have : n = 0 := by omega
            subst this
            simp at ht
        have hbp0 : BpOK X (pymax (-A) 0) := by
          simp only [pymax_eq]
          refine ⟨le_max_right _ _, ?_⟩
          by_cases hn : 0 < n
          · rw [hX, if_pos hn]
            apply max_le
            · exact le_trans (by linarith [hinv.hi]) (le_max_right _ _)
            · exact le_max_left _ _
          · rw [hX, if_neg hn, max_comm]
        split at h
        · cases h
        · rename_i r1 hr1
          obtain ⟨bat1, bp1⟩ := r1
          have h1 := batNaive_bp ops b.minChargingPower hmc X _ hcheap _ bat1 _ bp1 hbp0 hr1
          simp only at h
          split at h
          · cases h
          · rename_i r2 hr2
            obtain ⟨bat2, bp2⟩ := r2
            have h2 : BpOK X bp2 := by
              split at hr2
              · exact batBisect_bp ops env.eps b.minChargingPower hmc X _ hcheap _ _ _ _ _ bat2 _ bp2
                  ⟨le_refl _, le_max_left _ _⟩ hr2
              · simp only [pure, Except.pure, Except.ok.injEq, Prod.mk.injEq] at hr2
                rw [← hr2.2]; exact h1
            simp only at h
            split at h
            · cases h
            · rename_i r3 hr3
              obtain ⟨bat3, avg⟩ := r3
              have hl := law.load_target _ _ _ _ hr3
              rw [max_eq_left h2.1] at hl
              obtain ⟨hc1, hc2, hc3, _⟩ := addLoad_currentLoad g.gc bid avg
              have hav : avg ≤ max 0 X := le_trans hl.2 h2.2
              have hload1 : (g.gc.addLoad bid avg).1.currentLoad ≤ M := by
                rw [hc1]
                by_cases hn : 0 < n
                · rw [hX, if_pos hn] at hav
                  rcases le_total 0 (M - g.gc.currentLoad) with h0 | h0
                  · rw [max_eq_right h0] at hav; linarith
                  · rw [max_eq_left h0] at hav; linarith [hinv.hi]
                · rw [hX, if_neg hn] at hav
                  rcases le_total 0 (-A) with h0 | h0
                  · rw [max_eq_right h0] at hav; linarith
                  · rw [max_eq_left h0] at hav; linarith [hinv.hi]
              have hloads1 : (g.gc.addLoad bid avg).1.loads = g.gc.loads ++ [(bid, avg)] :=
                addLoad_fresh g.gc bid avg hfresh
              simp only at h
              split at h
              · rename_i hcond
                split at h
                · cases h
                · rename_i r4 hr4
                  obtain ⟨bat4, out⟩ := r4
                  simp only [Except.ok.injEq] at h
                  subst h
                  have hu := law.unload_target _ _ _ _ hr4
                  obtain ⟨hd1, hd2, hd3, _⟩ := addLoad_currentLoad (g.gc.addLoad bid avg).1 bid (-out)
                  have hn0 : n = 0 := by simpa using hcond.2.1
                  -- in this branch nothing was charged
                  have havg0 : avg = 0 := by
                    have hApos : 0 < A := hcond.1
                    rw [hX, if_neg (by omega), max_eq_left (by linarith)] at hav
                    exact le_antisymm hav hl.1
                  have hloads2 : ((g.gc.addLoad bid avg).1.addLoad bid (-out)).1.loads =
                      g.gc.loads ++ [(bid, avg + -out)] := by
                    exact addLoad_second _ g.gc.loads bid avg (-out) hloads1 hfresh
                  refine ⟨by show ((g.gc.addLoad bid avg).1.addLoad bid (-out)).1.curMax = M; rw [hd2, hc2]; exact hinv.curMax,
                    by show ((g.gc.addLoad bid avg).1.addLoad bid (-out)).1.id = gid; rw [hd3, hc3]; exact hinv.gcid,
                    by show ((g.gc.addLoad bid avg).1.addLoad bid (-out)).1.currentLoad ≤ M; rw [hd1]; linarith [hu.1],
                    ?_, ?_, ?_, hvm bat4, hset bat4⟩
                  · intro kv hkv hd
                    have hkv' : kv ∈ g.gc.loads ++ [(bid, avg + -out)] := by rw [← hloads2]; exact hkv
                    have hd' : kv.1 ∈ g.dis ++ [bid] := hd
                    simp only [List.mem_append, List.mem_singleton] at hkv' hd'
                    rcases hkv' with hm | rfl
                    · rcases hd' with hd' | hd'
                      · exact hinv.pd kv hm hd'
                      · exact absurd hd' (hfresh kv hm)
                    · show avg + -out ≤ 0
                      rw [havg0]; linarith [hu.1]
                  · intro kv hkv
                    have hkv' : kv ∈ g.gc.loads ++ [(bid, avg + -out)] := by rw [← hloads2]; exact hkv
                    simp only [List.mem_append, List.mem_singleton] at hkv'
                    rcases hkv' with hm | rfl
                    · exact hmonoK kv (hinv.keys kv hm)
                    · exact Or.inr (Or.inr (by simp))
                  · intro k hk
                    have hk' : k ∈ g.dis ++ [bid] := hk
                    rcases List.mem_append.mp hk' with hk' | hk'
                    · exact hmonoD k (hinv.dkeys k hk')
                    · simp only [List.mem_singleton] at hk'
                      exact Or.inr (by rw [hk']; simp)
              · simp only [Except.ok.injEq] at h
                subst h
                refine ⟨by show (g.gc.addLoad bid avg).1.curMax = M; rw [hc2]; exact hinv.curMax,
                  by show (g.gc.addLoad bid avg).1.id = gid; rw [hc3]; exact hinv.gcid, hload1,
                  PInvD_addLoad_other _ _ _ _ hinv.pd hnd, ?_, fun k hk => hmonoD k (hinv.dkeys k hk),
                  hvm bat3, hset bat3⟩
                intro kv hkv
                rcases mem_addLoad _ _ _ _ hkv with hm | hm
                · exact hmonoK kv (hinv.keys kv hm)
                · exact Or.inr (Or.inr (by rw [hm]; simp))

/-! ### `step_gc`, draw side, with V2G-capable vehicles and stationary batteries -/

theorem vehicleBody_vids (ops : Ops α B) (env : Env α) (g g' : GSt α B) (vid : String)
    (h : vehicleBody ops env g vid = .ok g') : g'.w.vehicles.map (·.id) = g.w.vehicles.map (·.id) := by
  obtain ⟨v, cs, bat1, bat2, a1, a2, _, _, _, _, _, hw, _⟩ := vehicleBody_book ops env g g' vid h
  rw [hw]
  show (g.w.setVehicle { v with bat := bat2 }).vehicles.map (·.id) = _
  exact setVehicle_ids _ _

theorem surplusBody_vids (ops : Ops α B) (env : Env α) (g g' : GSt α B) (vid : String)
    (h : surplusBody ops env g vid = .ok g') : g'.w.vehicles.map (·.id) = g.w.vehicles.map (·.id) := by
  rcases surplusBody_book ops env g g' vid h with rfl | ⟨v, cs, bat', a, _, _, _, _, hw, _⟩
  · rfl
  · rw [hw]
    show (g.w.setVehicle { v with bat := bat' }).vehicles.map (·.id) = _
    exact setVehicle_ids _ _

theorem VMeta_init (w : SWorld α B) : VMeta w.vehicles w := by
  intro vid v hv
  exact ⟨v, vehicle?_mem w vid v hv, vehicle?_id w vid v hv, rfl⟩

theorem stepGc_upper (ops : Ops α B) (law : BatLaw ops.toBatOps) (R : B → B → Prop)
    (sl : SimLaw ops R) (env : Env α) (w w' : SWorld α B) (gcId : String)
    (cmds : List (String × α)) (gc : GcS α) (hgc : w.gc? gcId = some gc)
    (heps : 0 ≤ env.eps) (hM : 0 ≤ gc.curMax) (hbase : gc.currentLoad ≤ gc.curMax)
    (hfut : ∀ e ∈ env.events, env.now < e.start)
    (wv : List (VehicleS α B)) (hvm : VMeta wv w) (hvnd : (w.vehicles.map (·.id)).Nodup)
    (H2 : ∀ u1 ∈ wv, ∀ u2 ∈ wv, ∀ c, u1.cs = some c → u2.cs = some c → u1.id = u2.id)
    (H3 : ∀ u ∈ wv, ∀ c, u.cs = some c → c ∉ gc.loads.map (·.1))
    (hbnd : (w.batteries.map (·.id)).Nodup)
    (H4a : ∀ id ∈ w.batteries.map (·.id), id ∉ gc.loads.map (·.1))
    (H4c : ∀ id ∈ w.batteries.map (·.id), ∀ u ∈ wv, u.cs ≠ some id)
    (hmin : ∀ b ∈ w.batteries, 0 ≤ b.minChargingPower)
    (h : stepGc ops env w gcId = .ok (w', cmds)) :
    (∀ g' ∈ w'.gcs, g'.id = gcId → g'.currentLoad ≤ gc.curMax) ∧ VMeta wv w' ∧
      w'.vehicles.map (·.id) = w.vehicles.map (·.id) ∧
      w'.batteries.map (·.id) = w.batteries.map (·.id) ∧
      (∀ b ∈ w'.batteries, 0 ≤ b.minChargingPower) := by
  obtain ⟨_, hgid⟩ := gc?_some w gcId gc hgc
  obtain ⟨K0, hK0⟩ : ∃ K0 : List String, K0 = gc.loads.map (·.1) := ⟨_, rfl⟩
  obtain ⟨wb, hwb⟩ : ∃ wb : List String, wb = w.batteries.map (·.id) := ⟨_, rfl⟩
  rw [← hK0] at H3 H4a
  rw [← hwb] at H4a H4c hbnd
  rw [← hwb]
  unfold stepGc at h
  rw [hgc] at h
  simp only [bind, Except.bind] at h
  split at h
  · cases h
  · rename_i vs hvs
    split at h
    · cases h
    · rename_i vids hvids
      have hvidsnd := stepGc_vids_nodup w gcId vs vids hvnd hvs hvids
      split at h
      · cases h
      · rename_i ts hts
        split at h
        · cases h
        · rename_i g1 hg1
          split at h
          · cases h
          · rename_i g2 hg2
            split at h
            · cases h
            · rename_i nCheap hn
              split at h
              · cases h
              · rename_i g3 hg3
                simp only [Except.ok.injEq, Prod.mk.injEq] at h
                obtain ⟨rfl, _⟩ := h
                have hhead := timestepsOf_head ops env gc ts hfut hts
                have h0 : UInv gc.curMax gcId K0 wv [] (⟨w, gc, ts, [], []⟩ : GSt α B) ∧
                    (⟨w, gc, ts, [], []⟩ : GSt α B).w.vehicles.map (·.id) = w.vehicles.map (·.id) ∧
                    (⟨w, gc, ts, [], []⟩ : GSt α B).w.batteries = w.batteries :=
                  ⟨⟨rfl, hgid, hbase, fun t0 ht0 => by rw [hhead t0 ht0],
                    fun kv _ hd => by simp at hd,
                    fun kv hkv => Or.inl (by rw [hK0]; exact List.mem_map_of_mem hkv),
                    fun k hk => by simp at hk, hvm⟩, rfl, rfl⟩
                have h1 := foldlM_done (vehicleBody ops env)
                  (fun done g => UInv gc.curMax gcId K0 wv done g ∧
                    g.w.vehicles.map (·.id) = w.vehicles.map (·.id) ∧ g.w.batteries = w.batteries)
                  (fun _ => True)
                  (fun done g vid g' _ hvid hg hstep =>
                    ⟨vehicleBody_UInv ops law R sl env _ hM gcId _ wv H2 H3 done g g' vid hvid hg.1 hstep,
                     by rw [vehicleBody_vids ops env g g' vid hstep]; exact hg.2.1,
                     by rw [vehicleBody_batteries ops env g g' vid hstep]; exact hg.2.2⟩)
                  vids [] _ g1 hvidsnd (fun _ _ => trivial) (fun _ _ hm => by simp at hm) h0 hg1
                obtain ⟨u1, hv1, hb1⟩ := h1
                have h20 : UInv2 gc.curMax gcId K0 wv wb [] g1 :=
                  ⟨u1.curMax, u1.gcid, u1.hi, u1.pd,
                    fun kv hkv => by
                      rcases u1.keys kv hkv with hk | ⟨u, hu, _, huc⟩
                      · exact Or.inl hk
                      · exact Or.inr (Or.inl ⟨u, hu, huc⟩),
                    fun k hk => by
                      obtain ⟨u, hu, _, huc⟩ := u1.dkeys k hk
                      exact Or.inl ⟨u, hu, huc⟩,
                    u1.vmeta, by rw [hb1]; exact hmin⟩
                have h2 := foldlM_inv _
                  (fun g => UInv2 gc.curMax gcId K0 wv wb [] g ∧
                    g.w.vehicles.map (·.id) = w.vehicles.map (·.id) ∧ g.w.batteries = w.batteries)
                  (fun g vid g' hg hstep =>
                    ⟨surplusBody_UInv2 ops law env _ hM heps gcId _ wv _ g g' vid hg.1 hstep,
                     by rw [surplusBody_vids ops env g g' vid hstep]; exact hg.2.1,
                     by rw [surplusBody_batteries ops env g g' vid hstep]; exact hg.2.2⟩)
                  vids _ g2 ⟨h20, hv1, hb1⟩ hg2
                have h3 := foldlM_done (batteryBody ops env nCheap)
                  (fun doneB g => UInv2 gc.curMax gcId K0 wv wb doneB g ∧
                    g.w.vehicles.map (·.id) = w.vehicles.map (·.id) ∧
                    g.w.batteries.map (·.id) = wb)
                  (fun id => id ∈ wb)
                  (fun doneB g bid g' hbid hnew hg hstep =>
                    ⟨batteryBody_UInv2 ops law env _ hM gcId _ wv _ H4a H4c nCheap doneB g g' bid hbid hnew hg.1 hstep,
                     by rw [batteryBody_vehicles ops env nCheap g g' bid hstep]; exact hg.2.1,
                     by rw [(batteryBody_others ops env nCheap g g' bid hstep).2.2]; exact hg.2.2⟩)
                  wb [] _ g3 hbnd (fun _ h => h) (fun _ _ hm => by simp at hm)
                  ⟨h2.1, h2.2.1, by rw [h2.2.2, hwb]⟩ (by rw [hwb]; exact hg3)
                obtain ⟨u3, hv3, hb3⟩ := h3
                refine ⟨?_, u3.vmeta, hv3, hb3, u3.bmin⟩
                intro g' hg' hid
                rcases mem_setGc _ _ g' hg' with rfl | ⟨_, hne⟩
                · exact u3.hi
                · exact absurd (by rw [hid, u3.gcid]) hne

/-! ### the whole step, both sides -/

/-- well-formedness of the world before the strategy step: the load keys are fresh and unique.  This is
what the run loop guarantees — `Strategy.step` deletes the entries of all charging stations and
stationary batteries from every connector's `current_loads` before the strategy runs (C07 model:
`resetLoads`), ids of stations, batteries, fixed loads and generators are distinct names — plus: no two
vehicles stand at the same charging station. -/
structure FreshKeys (w : SWorld α B) : Prop where
  gcids : (w.gcs.map (·.id)).Nodup
  vids : (w.vehicles.map (·.id)).Nodup
  oneVehiclePerStation : ∀ u1 ∈ w.vehicles, ∀ u2 ∈ w.vehicles, ∀ c, u1.cs = some c → u2.cs = some c → u1.id = u2.id
  stationKeysFresh : ∀ g ∈ w.gcs, ∀ u ∈ w.vehicles, ∀ c, u.cs = some c → c ∉ g.loads.map (·.1)
  bids : (w.batteries.map (·.id)).Nodup
  batteryKeysFresh : ∀ g ∈ w.gcs, ∀ id ∈ w.batteries.map (·.id), id ∉ g.loads.map (·.1)
  batteryNotStation : ∀ id ∈ w.batteries.map (·.id), ∀ u ∈ w.vehicles, u.cs ≠ some id
  minCharging : ∀ b ∈ w.batteries, 0 ≤ b.minChargingPower

theorem stepFold_both (ops : Ops α B) (law : BatLaw ops.toBatOps) (R : B → B → Prop)
    (sl : SimLaw ops R) (env : Env α) (w0 : SWorld α B) (heps : 0 ≤ env.eps)
    (hfut : ∀ e ∈ env.events, env.now < e.start) (wf : FreshKeys w0)
    (hbase : ∀ g ∈ w0.gcs, 0 ≤ g.curMax ∧ -g.curMax ≤ g.currentLoad ∧ g.currentLoad ≤ g.curMax) :
    ∀ (rest done : List String) (st st' : SWorld α B × List (String × α)),
      (∀ id ∈ rest, id ∉ done) → rest.Nodup →
      st.1.gcs.map (·.id) = w0.gcs.map (·.id) → VMeta w0.vehicles st.1 →
      st.1.vehicles.map (·.id) = w0.vehicles.map (·.id) →
      st.1.batteries.map (·.id) = w0.batteries.map (·.id) →
      (∀ b ∈ st.1.batteries, 0 ≤ b.minChargingPower) →
      (∀ g' ∈ st.1.gcs, (g'.id ∈ done → ∃ g ∈ w0.gcs, g.id = g'.id ∧ -g.curMax ≤ g'.currentLoad ∧
          g'.currentLoad ≤ g.curMax ∧ g'.curMax = g.curMax) ∧ (g'.id ∉ done → g' ∈ w0.gcs)) →
      rest.foldlM (fun (st : SWorld α B × List (String × α)) gid => do
        let (w', c) ← stepGc ops env st.1 gid
        pure (w', sdUpdate st.2 c)) st = .ok st' →
      st'.1.gcs.map (·.id) = w0.gcs.map (·.id) ∧
      ∀ g' ∈ st'.1.gcs, (g'.id ∈ done ++ rest → ∃ g ∈ w0.gcs, g.id = g'.id ∧
          -g.curMax ≤ g'.currentLoad ∧ g'.currentLoad ≤ g.curMax ∧ g'.curMax = g.curMax) ∧
        (g'.id ∉ done ++ rest → g' ∈ w0.gcs) := by
  intro rest
  induction rest with
  | nil =>
    intro done st st' _ _ hids _ _ _ _ hI h
    simp only [List.foldlM_nil, pure, Except.pure, Except.ok.injEq] at h
    subst h
    exact ⟨hids, by simpa using hI⟩
  | cons gid rest ih =>
    intro done st st' hnew hnd hids hvm hvids hbids hmin hI h
    simp only [List.foldlM_cons, bind, Except.bind] at h
    split at h
    · cases h
    · rename_i st1 hst1
      split at hst1
      · cases hst1
      · rename_i r hr
        obtain ⟨w1, c1⟩ := r
        simp only [pure, Except.pure, Except.ok.injEq] at hst1
        subst hst1
        have hgidnew : gid ∉ done := hnew gid (List.mem_cons_self ..)
        cases hgc : st.1.gc? gid with
        | none => unfold stepGc at hr; rw [hgc] at hr; cases hr
        | some gc =>
          obtain ⟨hgm, hgid⟩ := gc?_some st.1 gid gc hgc
          have hg0 : gc ∈ w0.gcs := (hI gc hgm).2 (by rw [hgid]; exact hgidnew)
          obtain ⟨hM, hlo, hhi⟩ := hbase gc hg0
          obtain ⟨hlim, hfr, hids1⟩ := stepGc_lower ops law R sl env st.1 w1 gid c1 gc hgc hM hlo hfut hr
          obtain ⟨hup, hvm1, hvids1, hbids1, hmin1⟩ := stepGc_upper ops law R sl env st.1 w1 gid c1 gc hgc
            heps hM hhi hfut w0.vehicles hvm (by rw [hvids]; exact wf.vids) wf.oneVehiclePerStation
            (wf.stationKeysFresh gc hg0) (by rw [hbids]; exact wf.bids)
            (by rw [hbids]; exact wf.batteryKeysFresh gc hg0) (by rw [hbids]; exact wf.batteryNotStation)
            hmin hr
          have hres := ih (done ++ [gid]) (w1, sdUpdate st.2 c1) st'
            (by
              intro id hid hmem
              rcases List.mem_append.mp hmem with hm | hm
              · exact hnew id (List.mem_cons_of_mem _ hid) hm
              · simp only [List.mem_singleton] at hm
                subst hm
                exact (List.nodup_cons.mp hnd).1 hid)
            (List.nodup_cons.mp hnd).2 (by rw [hids1]; exact hids) hvm1
            (by rw [hvids1]; exact hvids) (by rw [hbids1]; exact hbids) hmin1
            (by
              intro g' hg'
              by_cases hid : g'.id = gid
              · constructor
                · intro _
                  obtain ⟨l1, l3⟩ := hlim g' hg' hid
                  exact ⟨gc, hg0, by rw [hgid, hid], l1, hup g' hg' hid, l3⟩
                · intro hnot
                  exfalso; apply hnot
                  rw [hid]; simp
              · have hold := hfr g' hg' hid
                constructor
                · intro hmem
                  rcases List.mem_append.mp hmem with hm | hm
                  · exact (hI g' hold).1 hm
                  · simp only [List.mem_singleton] at hm
                    exact absurd hm hid
                · intro hnot
                  apply (hI g' hold).2
                  intro hm
                  exact hnot (List.mem_append_left _ hm))
            h
          simpa [List.append_assoc] using hres

/-- **the whole step keeps every connector within ±limit — V2G-capable vehicles and stationary batteries
included** -/
theorem step_both (ops : Ops α B) (law : BatLaw ops.toBatOps) (R : B → B → Prop)
    (sl : SimLaw ops R) (env : Env α) (w w' : SWorld α B) (cmds : List (String × α))
    (heps : 0 ≤ env.eps) (hfut : ∀ e ∈ env.events, env.now < e.start) (wf : FreshKeys w)
    (hbase : ∀ g ∈ w.gcs, 0 ≤ g.curMax ∧ -g.curMax ≤ g.currentLoad ∧ g.currentLoad ≤ g.curMax)
    (h : step ops env w = .ok (w', cmds)) :
    ∀ g' ∈ w'.gcs, ∃ g ∈ w.gcs, g.id = g'.id ∧ -g.curMax ≤ g'.currentLoad ∧
      g'.currentLoad ≤ g.curMax ∧ g'.curMax = g.curMax := by
  unfold step at h
  have hres := stepFold_both ops law R sl env w heps hfut wf hbase (w.gcs.map (·.id)) []
    (resetStations w, []) (w', cmds)
    (by intro id _ hm; simp at hm) wf.gcids rfl
    (by
      intro vid v hv
      have hv' : w.vehicle? vid = some v := hv
      exact VMeta_init w vid v hv')
    rfl rfl (by intro b hb; exact wf.minCharging b hb)
    (by intro g' hg'; exact ⟨by intro hm; simp at hm, fun _ => hg'⟩) h
  intro g' hg'
  apply (hres.2 g' hg').1
  simp only [List.nil_append]
  rw [← hres.1]
  exact List.mem_map_of_mem hg'

end SpiceEv.BalancedMarket
