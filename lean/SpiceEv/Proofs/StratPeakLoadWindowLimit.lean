/-
Connector-limit lemmas for the model of `peak_load_window`: the planned power of the current step
(`vehicle.schedule`) and the level the prognosis accounts for it (`power_levels[0]`) stay in sync, so that —
when the connector has no surplus — the loads added by the final charging loop are exactly what the prognosis of
the current step accounted, which was clamped to the headroom vehicle by vehicle.
-/
import SpiceEv.Proofs.StratPeakLoadWindow
set_option linter.unusedSectionVars false
set_option linter.unusedSimpArgs false
set_option linter.unusedVariables false
namespace SpiceEv.PeakLoadWindow
open SpiceEv
variable {α B : Type} [Field α] [LinearOrder α] [IsStrictOrderedRing α]

/-- **exact target-power delivery** (idempotence form): what a battery delivered for a target power it delivers
again when asked for exactly that power from the same state.  True of the ideal battery (`avg = min(target,
feasible)`); for `battery.py` it holds up to the EPS slack of C02. -/
def LoadIdem (ops : BatOps α B) : Prop :=
  ∀ b p b' a, ops.load b none none (some p) = .ok (b', a) → ∃ b'', ops.load b none none (some a) = .ok (b'', a)

/-- the planned power of the current step and the level accounted for it agree: `levels[0] = a` is what
`Battery.load(target_power=schedule)` delivers from the vehicle's real state `bat0`, and the planned power
respects the headroom of the current step `t0` -/
def Sync (ops : BatOps α B) (bat0 : B) (t0 : Ts α) (pl : Plan α B) : Prop :=
  ∃ a, pl.levels[0]? = some a ∧ 0 ≤ a ∧
    ((pl.schedule = 0 ∧ a = 0) ∨
     (∃ b', ops.load bat0 none none (some pl.schedule) = .ok (b', a) ∧ pl.schedule ≤ t0.maxPower - t0.power))

theorem Sync.bat {ops : BatOps α B} {bat0 : B} {t0 : Ts α} {pl : Plan α B} (h : Sync ops bat0 t0 pl) (b : B) :
    Sync ops bat0 t0 { pl with bat := b } := h

theorem getElem?_setAt_zero {β : Type} (l : List β) (v x : β) (h : l[0]? = some x) :
    (setAt l 0 v)[0]? = some v := by
  unfold setAt
  cases l with
  | nil => simp at h
  | cons y ys => simp

/-- a charge simulated from the real state at index 0 establishes the sync -/
theorem Sync.charge {ops : BatOps α B} (law : BatLaw ops) {bat0 : B} {t0 : Ts α} {cs : StationS α} {vmin : α}
    {pl : Plan α B} (h : Sync ops bat0 t0 pl) (power : α) (b' : B) (p avg : α)
    (hc : chargeVehicle ops cs vmin bat0 power t0 = .ok (b', p, avg)) :
    Sync ops bat0 t0 { bat := b', levels := setAt pl.levels 0 avg, schedule := if (0 : Nat) == 0 then p else pl.schedule } := by
  obtain ⟨a, ha, _⟩ := h
  obtain ⟨h1, _, _, h4, h5⟩ := chargeVehicle_spec ops law _ _ _ _ _ _ _ _ hc
  exact ⟨avg, getElem?_setAt_zero _ _ _ ha, h1, Or.inr ⟨b', by simpa using h5, by simpa using h4⟩⟩

/-- re-applying the accounted level at index 0 from the real state changes nothing (exact delivery) -/
theorem Sync.reload {ops : BatOps α B} (law : BatLaw ops) (idem : LoadIdem ops) {bat0 : B} {t0 : Ts α}
    {pl : Plan α B} (h : Sync ops bat0 t0 pl) (lvl : α) (hl : pl.levels[0]? = some lvl) (b' : B) (avg : α)
    (hc : ops.load bat0 none none (some lvl) = .ok (b', avg)) :
    avg = lvl ∧ Sync ops bat0 t0 { pl with bat := b', levels := setAt pl.levels 0 avg } := by
  obtain ⟨a, ha, h0, hd⟩ := h
  rw [ha] at hl
  have e : a = lvl := Option.some.inj hl
  subst e
  have havg : avg = a := by
    rcases hd with ⟨_, rfl⟩ | ⟨b1, hb1, _⟩
    · have := law.load_target _ _ _ _ hc
      simp only [max_self] at this
      exact le_antisymm this.2 this.1
    · obtain ⟨b2, hb2⟩ := idem _ _ _ _ hb1
      rw [hb2] at hc
      simp only [Except.ok.injEq, Prod.mk.injEq] at hc
      exact hc.2.symm
  subst havg
  exact ⟨rfl, avg, getElem?_setAt_zero _ _ _ ha, h0, hd⟩

/-! ### beyond index 0 the passes leave `levels[0]` and the schedule alone -/

theorem free_zero (l : List (Ts α)) (i : Nat) (hi : i ≠ 0) : Free l i 0 := by
  intro t h _; omega

theorem shavePass_tail (ops : BatOps α B) (tsPerHour : α) (cs : StationS α) (vmin desired peak : α) :
    ∀ (l : List (Ts α)) (i : Nat) (st st' : Plan α B), i ≠ 0 →
      shavePass ops tsPerHour cs vmin desired peak l i st = .ok st' →
      st'.levels[0]? = st.levels[0]? ∧ st'.schedule = st.schedule := by
  intro l
  induction l with
  | nil => intro i st st' _ h; simp only [shavePass, Except.ok.injEq] at h; subst h; exact ⟨rfl, rfl⟩
  | cons ts rest ih =>
    intro i st st' hi h
    unfold shavePass at h
    have hb : (i == 0) = false := by simpa using hi
    split at h
    · obtain ⟨lvl, _, h⟩ := bind_ok h
      obtain ⟨x, hx, h⟩ := bind_ok h
      obtain ⟨b', avg⟩ := x
      obtain ⟨h1, h2⟩ := ih _ _ _ (by omega) h
      exact ⟨h1.trans (getElem?_setAt_ne _ _ hi), h2⟩
    · obtain ⟨need, _, h⟩ := bind_ok h
      obtain ⟨x, hx, h⟩ := bind_ok h
      obtain ⟨b', p, avg⟩ := x
      obtain ⟨h1, h2⟩ := ih _ _ _ (by omega) h
      exact ⟨h1.trans (getElem?_setAt_ne _ _ hi), by rw [h2]; simp [hb]⟩

theorem bisectPass_tail (ops : BatOps α B) (cs : StationS α) (vmin target : α) (copy : List α) :
    ∀ (l : List (Ts α)) (i : Nat) (st st' : Plan α B), i ≠ 0 →
      bisectPass ops cs vmin target copy l i st = .ok st' →
      st'.levels[0]? = st.levels[0]? ∧ st'.schedule = st.schedule := by
  intro l
  induction l with
  | nil => intro i st st' _ h; simp only [bisectPass, Except.ok.injEq] at h; subst h; exact ⟨rfl, rfl⟩
  | cons ts rest ih =>
    intro i st st' hi h
    unfold bisectPass at h
    have hb : (i == 0) = false := by simpa using hi
    split at h
    · obtain ⟨lvl, _, h⟩ := bind_ok h
      obtain ⟨x, hx, h⟩ := bind_ok h
      obtain ⟨b', avg⟩ := x
      obtain ⟨h1, h2⟩ := ih _ _ _ (by omega) h
      exact ⟨h1.trans (getElem?_setAt_ne _ _ hi), h2⟩
    · obtain ⟨x, hx, h⟩ := bind_ok h
      obtain ⟨b', p, avg⟩ := x
      obtain ⟨h1, h2⟩ := ih _ _ _ (by omega) h
      exact ⟨h1.trans (getElem?_setAt_ne _ _ hi), by rw [h2]; simp [hb]⟩

theorem Sync.congr {ops : BatOps α B} {bat0 : B} {t0 : Ts α} {pl pl' : Plan α B} (h : Sync ops bat0 t0 pl)
    (h1 : pl'.levels[0]? = pl.levels[0]?) (h2 : pl'.schedule = pl.schedule) : Sync ops bat0 t0 pl' := by
  obtain ⟨a, ha, h0, hd⟩ := h
  exact ⟨a, h1.trans ha, h0, by rw [h2]; exact hd⟩

/-! ### the passes from index 0 keep the sync -/

theorem searchPass_sync (ops : BatOps α B) (law : BatLaw ops) (cs : StationS α) (vmin bp maxCv : α)
    (bat0 : B) (t0 : Ts α) (rest : List (Ts α)) (st st' : Plan α B × Bool) (hb : st.1.bat = bat0)
    (hs : Sync ops bat0 t0 st.1) (h : searchPass ops cs vmin bp maxCv (t0 :: rest) 0 st = .ok st') :
    Sync ops bat0 t0 st'.1 := by
  unfold searchPass at h
  split at h
  · obtain ⟨h1, h2⟩ := searchPass_untouched ops cs vmin bp maxCv rest 1 _ _ h
    exact hs.congr (h1 0 (free_zero _ _ (by omega))) (h2 (Or.inl (by omega)))
  · obtain ⟨x, hx, h⟩ := bind_ok h
    obtain ⟨b', p, avg⟩ := x
    rw [hb] at hx
    obtain ⟨h1, h2⟩ := searchPass_untouched ops cs vmin bp maxCv rest 1 _ _ h
    exact (hs.charge law bp b' p avg hx).congr (h1 0 (free_zero _ _ (by omega))) (h2 (Or.inl (by omega)))

theorem constPass_sync (ops : BatOps α B) (law : BatLaw ops) (tsPerHour : α) (cs : StationS α)
    (vmin desired : α) (bat0 : B) (t0 : Ts α) (rest : List (Ts α)) (st st' : Plan α B × Int)
    (hb : st.1.bat = bat0) (hs : Sync ops bat0 t0 st.1)
    (h : constPass ops tsPerHour cs vmin desired (t0 :: rest) 0 st = .ok st') :
    Sync ops bat0 t0 st'.1 := by
  unfold constPass at h
  split at h
  · obtain ⟨h1, h2⟩ := constPass_untouched ops tsPerHour cs vmin desired rest 1 _ _ h
    exact hs.congr (h1 0 (free_zero _ _ (by omega))) (h2 (Or.inl (by omega)))
  · obtain ⟨power, _, h⟩ := bind_ok h
    obtain ⟨pe, _, h⟩ := bind_ok h
    obtain ⟨x, hx, h⟩ := bind_ok h
    obtain ⟨b', p, avg⟩ := x
    rw [hb] at hx
    obtain ⟨h1, h2⟩ := constPass_untouched ops tsPerHour cs vmin desired rest 1 _ _ h
    exact (hs.charge law pe b' p avg hx).congr (h1 0 (free_zero _ _ (by omega))) (h2 (Or.inl (by omega)))

theorem shavePass_sync (ops : BatOps α B) (law : BatLaw ops) (idem : LoadIdem ops) (tsPerHour : α)
    (cs : StationS α) (vmin desired peak : α) (bat0 : B) (t0 : Ts α) (rest : List (Ts α))
    (st st' : Plan α B) (hb : st.bat = bat0) (hs : Sync ops bat0 t0 st)
    (h : shavePass ops tsPerHour cs vmin desired peak (t0 :: rest) 0 st = .ok st') :
    Sync ops bat0 t0 st' := by
  unfold shavePass at h
  split at h
  · obtain ⟨lvl, hlvl, h⟩ := bind_ok h
    obtain ⟨x, hx, h⟩ := bind_ok h
    obtain ⟨b', avg⟩ := x
    rw [hb] at hx
    have hl : st.levels[0]? = some lvl := by
      unfold getAt at hlvl
      split at hlvl
      · rename_i v hv; cases hlvl; exact hv
      · cases hlvl
    obtain ⟨_, hs'⟩ := hs.reload law idem lvl hl b' avg hx
    obtain ⟨h1, h2⟩ := shavePass_tail ops tsPerHour cs vmin desired peak rest 1 _ _ (by omega) h
    exact hs'.congr h1 h2
  · obtain ⟨need, _, h⟩ := bind_ok h
    obtain ⟨x, hx, h⟩ := bind_ok h
    obtain ⟨b', p, avg⟩ := x
    rw [hb] at hx
    obtain ⟨h1, h2⟩ := shavePass_tail ops tsPerHour cs vmin desired peak rest 1 _ _ (by omega) h
    exact (hs.charge law _ b' p avg hx).congr h1 h2

theorem bisectPass_sync (ops : BatOps α B) (law : BatLaw ops) (idem : LoadIdem ops) (cs : StationS α)
    (vmin target : α) (copy : List α) (bat0 : B) (t0 : Ts α) (rest : List (Ts α)) (st st' : Plan α B)
    (hb : st.bat = bat0) (hs : Sync ops bat0 t0 st) (hcopy : t0.window = false → copy[0]? = st.levels[0]?)
    (h : bisectPass ops cs vmin target copy (t0 :: rest) 0 st = .ok st') :
    Sync ops bat0 t0 st' ∧ (t0.window = false → copy[0]? = st'.levels[0]?) := by
  unfold bisectPass at h
  split at h
  · rename_i hw
    have hw' : t0.window = false := by simpa using hw
    obtain ⟨lvl, hlvl, h⟩ := bind_ok h
    obtain ⟨x, hx, h⟩ := bind_ok h
    obtain ⟨b', avg⟩ := x
    rw [hb] at hx
    have hl : copy[0]? = some lvl := by
      unfold getAt at hlvl
      split at hlvl
      · rename_i v hv; cases hlvl; exact hv
      · cases hlvl
    have hl' : st.levels[0]? = some lvl := by rw [← hcopy hw']; exact hl
    obtain ⟨e, hs'⟩ := hs.reload law idem lvl hl' b' avg hx
    obtain ⟨h1, h2⟩ := bisectPass_tail ops cs vmin target copy rest 1 _ _ (by omega) h
    refine ⟨hs'.congr h1 h2, fun _ => ?_⟩
    rw [h1, hl, e]
    exact (getElem?_setAt_zero _ _ _ hl').symm
  · rename_i hw
    obtain ⟨x, hx, h⟩ := bind_ok h
    obtain ⟨b', p, avg⟩ := x
    rw [hb] at hx
    obtain ⟨h1, h2⟩ := bisectPass_tail ops cs vmin target copy rest 1 _ _ (by omega) h
    refine ⟨(hs.charge law _ b' p avg hx).congr h1 h2, fun hf => ?_⟩
    rw [hf] at hw
    simp at hw

/-! ### loops and stages -/

theorem searchLoop_sync (ops : BatOps α B) (law : BatLaw ops) (eps : α) (cs : StationS α)
    (vmin desired maxCv step : α) (bat0 : B) (t0 : Ts α) (rest : List (Ts α)) :
    ∀ (fuel : Nat) (bp : α) (first : Bool) (pl pl' : Plan α B), Sync ops bat0 t0 pl →
      searchLoop ops eps cs vmin desired maxCv step bat0 (t0 :: rest) fuel bp first pl = .ok pl' →
      Sync ops bat0 t0 pl' := by
  intro fuel
  induction fuel with
  | zero => intro bp first pl pl' _ h; simp [searchLoop] at h
  | succ f ih =>
    intro bp first pl pl' hs h
    unfold searchLoop at h
    split at h
    · obtain ⟨x, hx, h⟩ := bind_ok h
      obtain ⟨pl1, pot⟩ := x
      have h1 := searchPass_sync ops law cs vmin bp maxCv bat0 t0 rest _ _ rfl (hs.bat bat0) hx
      simp only at h
      split at h
      · simp only [Except.ok.injEq] at h; subst h; exact h1
      · exact ih _ _ _ _ h1 h
    · simp only [Except.ok.injEq] at h; subst h; exact hs

theorem bisectLoop_sync (ops : BatOps α B) (law : BatLaw ops) (idem : LoadIdem ops) (eps : α)
    (cs : StationS α) (vmin desired : α) (bat0 : B) (copy : List α) (t0 : Ts α) (rest : List (Ts α)) :
    ∀ (fuel : Nat) (lo hi : α) (pl pl' : Plan α B), Sync ops bat0 t0 pl →
      (t0.window = false → copy[0]? = pl.levels[0]?) →
      bisectLoop ops eps cs vmin desired bat0 copy (t0 :: rest) fuel lo hi pl = .ok pl' →
      Sync ops bat0 t0 pl' := by
  intro fuel
  induction fuel with
  | zero =>
    intro lo hi pl pl' hs _ h
    unfold bisectLoop at h
    split at h
    · cases h
    · simp only [Except.ok.injEq] at h; subst h; exact hs
  | succ f ih =>
    intro lo hi pl pl' hs hc h
    unfold bisectLoop at h
    split at h
    · obtain ⟨pl1, hx, h⟩ := bind_ok h
      obtain ⟨h1, h2⟩ := bisectPass_sync ops law idem cs vmin _ copy bat0 t0 rest _ _ rfl (hs.bat bat0) hc hx
      split at h
      · exact ih _ _ _ _ h1 h2 h
      · exact ih _ _ _ _ h1 h2 h
    · simp only [Except.ok.injEq] at h; subst h; exact hs

theorem planOutside_sync (ops : BatOps α B) (law : BatLaw ops) (env : PEnv α) (cs : StationS α)
    (pv : PVeh α B) (t0 : Ts α) (rest : List (Ts α)) (n : Nat) (pl1 : Plan α B)
    (h : planOutside ops env cs pv (t0 :: rest) (n + 1) = .ok pl1) : Sync ops pv.v.bat t0 pl1 := by
  have h0 : Sync ops pv.v.bat t0
      ({ bat := pv.v.bat, levels := List.replicate (n + 1) 0, schedule := 0 } : Plan α B) :=
    ⟨0, by simp [List.replicate_succ], le_refl _, Or.inl ⟨rfl, rfl⟩⟩
  unfold planOutside at h
  obtain ⟨balanced, _, h⟩ := bind_ok h
  split at h
  · split at h
    · obtain ⟨mx, _, h⟩ := bind_ok h
      exact searchLoop_sync ops law _ cs _ _ _ _ _ t0 rest _ _ _ _ _ h0 h
    · obtain ⟨r, hr, h⟩ := bind_ok h
      simp only [Except.ok.injEq] at h
      subst h
      exact constPass_sync ops law _ cs _ _ _ t0 rest _ _ rfl h0 hr
  · simp only [Except.ok.injEq] at h
    subst h
    exact h0

theorem planInside_sync (ops : BatOps α B) (law : BatLaw ops) (idem : LoadIdem ops) (env : PEnv α)
    (cs : StationS α) (pv : PVeh α B) (t0 : Ts α) (rest : List (Ts α)) (peak : α) (pl1 pl3 : Plan α B)
    (h1 : Sync ops pv.v.bat t0 pl1)
    (h : planInside ops env cs pv (t0 :: rest) peak pl1 = .ok pl3) : Sync ops pv.v.bat t0 pl3 := by
  unfold planInside at h
  simp only at h
  split at h
  · obtain ⟨pl2, h2, h⟩ := bind_ok h
    have hp2 := shavePass_sync ops law idem _ cs _ _ _ pv.v.bat t0 rest _ _ rfl (h1.bat pv.v.bat) h2
    split at h
    · obtain ⟨lo, _, h⟩ := bind_ok h
      obtain ⟨hi, _, h⟩ := bind_ok h
      exact bisectLoop_sync ops law idem _ cs _ _ _ _ t0 rest _ _ _ _ _ hp2 (fun _ => rfl) h
    · simp only [Except.ok.injEq] at h; subst h; exact hp2
  · simp only [Except.ok.injEq] at h; subst h; exact h1

/-- `depart_idx ≥ 1` -/
theorem departIdx_pos (env : PEnv α) (v : VehicleS α B) (hi : 0 < env.interval) : 1 ≤ departIdx env v := by
  unfold departIdx
  simp only
  have key : ∀ d : Int, 0 < d → 1 ≤ (ceilDiv d env.interval).toNat := by
    intro d hd
    have h1 : 1 ≤ ceilDiv d env.interval := by
      unfold ceilDiv
      rw [Int.fdiv_neg (ne_of_gt hi), Int.fdiv_eq_ediv_of_nonneg d hi.le]
      have h1 := Int.emod_add_mul_ediv d env.interval
      have h2 := Int.emod_nonneg d (ne_of_gt hi)
      have h3 := Int.emod_lt_of_pos d hi
      by_cases hdv : env.interval ∣ d
      · have h4 : d % env.interval = 0 := Int.emod_eq_zero_of_dvd hdv
        simp only [hdv, if_true]
        by_contra hc
        have : d / env.interval ≤ 0 := by omega
        nlinarith
      · simp only [hdv, if_false]
        have : 0 ≤ d / env.interval := Int.ediv_nonneg hd.le hi.le
        omega
    omega
  split
  · apply key; omega
  · split
    · apply key; omega
    · apply key; omega

/-- the plan of one vehicle: the prognosis of the current step grows by exactly the level `a` that the real
`Battery.load(target_power=schedule)` will deliver, and that planned power respects the headroom -/
theorem planVehicle_sync (ops : BatOps α B) (law : BatLaw ops) (idem : LoadIdem ops) (env : PEnv α)
    (hi : 0 < env.interval) (cs : StationS α) (pv : PVeh α B) (t0 : Ts α) (r : List (Ts α)) (peak sched : α)
    (ts' : List (Ts α)) (peak' : α)
    (h : planVehicle ops env cs pv (t0 :: r) peak = .ok (sched, ts', peak')) :
    ∃ a, ts'.head? = some { t0 with power := t0.power + a } ∧ 0 ≤ a ∧
      ((sched = 0 ∧ a = 0) ∨
       (∃ b', ops.load pv.v.bat none none (some sched) = .ok (b', a) ∧ sched ≤ t0.maxPower - t0.power)) := by
  unfold planVehicle at h
  simp only at h
  obtain ⟨m, hm⟩ : ∃ m, departIdx env pv.v = m + 1 := ⟨departIdx env pv.v - 1, by
    have := departIdx_pos env pv.v hi; omega⟩
  rw [hm] at h
  simp only [List.take_succ_cons] at h
  obtain ⟨pl1, h1, ha⟩ := bind_ok h
  obtain ⟨pl3, h3, hb⟩ := bind_ok ha
  obtain ⟨x, hr, hc⟩ := bind_ok hb
  obtain ⟨conn', pk⟩ := x
  simp only [Except.ok.injEq, Prod.mk.injEq] at hc
  obtain ⟨rfl, rfl, rfl⟩ := hc
  have s1 := planOutside_sync ops law env cs pv t0 _ m pl1 h1
  have s3 := planInside_sync ops law idem env cs pv t0 _ peak pl1 pl3 s1 h3
  obtain ⟨a, ha0, hnn, hd⟩ := s3
  obtain ⟨hlen, hget⟩ := addLevels_get _ _ _ _ _ _ _ hr
  obtain ⟨lvl, hl1, hl2⟩ := hget 0 t0 (by simp)
  simp only [Nat.add_zero] at hl1
  rw [ha0] at hl1
  have e : a = lvl := Option.some.inj hl1
  subst e
  refine ⟨a, ?_, hnn, hd⟩
  have hlt : 0 < conn'.length := by rw [hlen]; simp
  rw [List.head?_eq_getElem?, List.getElem?_append_left hlt]
  exact hl2

/-! ### all vehicles of the connector -/

/-- `a` is what the final charging loop will add for the plan `q` when the step has no surplus -/
def Actual (ops : BatOps α B) (q : PVeh α B × α) (a : α) : Prop :=
  0 ≤ a ∧ ((q.2 = 0 ∧ a = 0) ∨ ∃ b', ops.load q.1.v.bat none none (some q.2) = .ok (b', a))

/-- the sum of what the final charging loop adds for the plans -/
def PlansSum (ops : BatOps α B) : List (PVeh α B × α) → α → Prop
  | [], s => s = 0
  | q :: rest, s => ∃ a s', Actual ops q a ∧ PlansSum ops rest s' ∧ s = a + s'

theorem planVehicles_sum (ops : BatOps α B) (law : BatLaw ops) (idem : LoadIdem ops) (env : PEnv α)
    (hi : 0 < env.interval) (w : PWorld α B) :
    ∀ (l : List (PVeh α B)) (t0 : Ts α) (r : List (Ts α)) (peak : α) (plans : List (PVeh α B × α))
      (ts' : List (Ts α)) (peak' : α), t0.power ≤ t0.maxPower →
      planVehicles ops env w l (t0 :: r) peak = .ok (plans, ts', peak') →
      ∃ s, PlansSum ops plans s ∧ 0 ≤ s ∧ t0.power + s ≤ t0.maxPower ∧
        ts'.head? = some { t0 with power := t0.power + s } := by
  intro l
  induction l with
  | nil =>
    intro t0 r peak plans ts' peak' hle h
    simp only [planVehicles, Except.ok.injEq, Prod.mk.injEq] at h
    obtain ⟨rfl, rfl, rfl⟩ := h
    exact ⟨0, rfl, le_refl _, by simpa using hle, by simp⟩
  | cons pv rest ih =>
    intro t0 r peak plans ts' peak' hle h
    unfold planVehicles at h
    split at h
    · cases h
    · rename_i csId hcs
      split at h
      · cases h
      · rename_i cs hst
        obtain ⟨x, hx, ha⟩ := bind_ok h
        obtain ⟨sched, ts1, peak1⟩ := x
        obtain ⟨x2, hx2, hb⟩ := bind_ok ha
        obtain ⟨more, ts2, peak2⟩ := x2
        simp only [Except.ok.injEq, Prod.mk.injEq] at hb
        obtain ⟨rfl, rfl, rfl⟩ := hb
        obtain ⟨a, hhead, hnn, hd⟩ := planVehicle_sync ops law idem env hi cs pv t0 r peak sched ts1 peak1 hx
        have hale : t0.power + a ≤ t0.maxPower := by
          rcases hd with ⟨_, rfl⟩ | ⟨b', hb', hs⟩
          · simpa using hle
          · have := (law.load_target _ _ _ _ hb').2
            rcases le_total sched 0 with h0 | h0
            · rw [max_eq_right h0] at this; linarith
            · rw [max_eq_left h0] at this; linarith
        cases ts1 with
        | nil => simp at hhead
        | cons t1 r1 =>
          simp only [List.head?_cons, Option.some.injEq] at hhead
          subst hhead
          obtain ⟨s', hps, hs0, hsle, hh⟩ := ih _ r1 peak1 more ts2 peak2 (by simpa using hale) hx2
          refine ⟨a + s', ⟨a, s', ⟨hnn, ?_⟩, hps, rfl⟩, by linarith, by simp only at hsle; linarith, ?_⟩
          · rcases hd with hd | ⟨b', hb', _⟩
            · exact Or.inl hd
            · exact Or.inr ⟨b', hb'⟩
          · rw [hh]; simp only [Option.some.injEq]; congr 1; ring

/-- **a battery delivers `min(target, feasible)`**: asked for less than before (from the same state) it delivers the
smaller of the new target and what it delivered before.  True of the ideal battery; implies that the part of a
command beyond the plan is exactly what the vehicle took of the surplus. -/
def LoadMin (ops : BatOps α B) : Prop :=
  ∀ b s s' b' p, 0 ≤ s → s ≤ s' → ops.load b none none (some s') = .ok (b', p) →
    ∃ b'', ops.load b none none (some s) = .ok (b'', min s p)

/-- the repaired final loop adds the accounted levels plus at most the surplus to the connector -/
theorem chargeVehicles_sum (ops : BatOps α B) (law : BatLaw ops) :
    ∀ (plans : List (PVeh α B × α)) (s surplus : α) (st st' : PWorld α B × GcS α × List (String × α)),
      0 ≤ surplus → (0 < surplus → LoadMin ops) → PlansSum ops plans s →
      chargeVehicles ops plans surplus st = .ok st' →
      ∃ c, 0 ≤ c ∧ c ≤ surplus ∧ st'.2.1.currentLoad = st.2.1.currentLoad + s + c ∧
        st'.2.1.curMax = st.2.1.curMax ∧ st'.2.1.id = st.2.1.id := by
  intro plans
  induction plans with
  | nil =>
    intro s surplus st st' hs0 _ hs h
    simp only [chargeVehicles, Except.ok.injEq] at h
    subst h
    simp only [PlansSum] at hs
    subst hs
    exact ⟨0, le_refl _, hs0, by ring, rfl, rfl⟩
  | cons q rest ih =>
    intro s surplus st st' hs0 hlm hs h
    obtain ⟨pv, planned⟩ := q
    obtain ⟨w, gc, cmds⟩ := st
    obtain ⟨a, s', ⟨hnn, hd⟩, hrest, rfl⟩ := hs
    simp only at hd
    obtain ⟨csId, sched, hcs, hso, hcase⟩ := chargeVehicles_cons ops pv planned rest surplus w gc cmds st' h
    have hge : planned ≤ sched := by
      rcases hso with ⟨_, e⟩ | ⟨_, cs, _, e⟩
      · rw [e]
      · rw [e]; exact le_max_right _ _
    have hub : sched - max planned 0 ≤ surplus := by
      rcases hso with ⟨_, e⟩ | ⟨_, cs, _, e⟩
      · rw [e]
        have := le_max_left planned 0
        linarith
      · have hc := (clampPower_bounds (planned + surplus) cs.currentPower cs.maxPower cs.minPower
          pv.v.minChargingPower).2
        rw [e]
        rcases le_total planned 0 with hp | hp
        · rw [max_eq_right hp]
          have : max (clampPower (planned + surplus) cs.currentPower cs.maxPower cs.minPower pv.v.minChargingPower)
              planned ≤ surplus := by
            apply max_le
            · exact le_trans hc (max_le hs0 (by linarith))
            · linarith
          linarith
        · rw [max_eq_left hp]
          have : max (clampPower (planned + surplus) cs.currentPower cs.maxPower cs.minPower pv.v.minChargingPower)
              planned ≤ planned + surplus := by
            apply max_le
            · exact le_trans hc (max_le (by linarith) (le_refl _))
            · linarith
          linarith
    rcases hcase with ⟨hpos, bat', p, hload, hrec⟩ | ⟨hnpos, hrec⟩
    · have hlp := law.load_target _ _ _ _ hload
      rw [max_eq_left hpos.le] at hlp
      set cons := max (p - max planned 0) 0 with hcons
      have hc0 : 0 ≤ cons := le_max_right _ _
      have hcle : cons ≤ surplus := by
        apply max_le _ hs0
        linarith [hlp.2]
      have hpa : p = a + cons := by
        rcases hd with ⟨h0, ha0⟩ | ⟨b1, hb1⟩
        · rw [hcons, h0, ha0, max_self, sub_zero, max_eq_left hlp.1]; ring
        · rcases le_or_gt planned 0 with hp | hp
          · have ha := law.load_target _ _ _ _ hb1
            rw [max_eq_right hp] at ha
            have ha0 : a = 0 := le_antisymm ha.2 ha.1
            rw [hcons, ha0, max_eq_right hp, sub_zero, max_eq_left hlp.1]; ring
          · rw [hcons, max_eq_left hp.le]
            rcases hso with ⟨_, e⟩ | ⟨hsp, _⟩
            · rw [e] at hload
              rw [hload] at hb1
              simp only [Except.ok.injEq, Prod.mk.injEq] at hb1
              have hap : p = a := hb1.2
              have ha := hlp.2
              rw [e] at ha
              rw [hap, max_eq_right (by linarith)]; ring
            · obtain ⟨b2, hb2⟩ := hlm hsp _ _ _ _ _ hp.le hge hload
              rw [hb2] at hb1
              simp only [Except.ok.injEq, Prod.mk.injEq] at hb1
              rw [← hb1.2]
              rcases le_total planned p with hpp | hpp
              · rw [min_eq_left hpp, max_eq_left (by linarith)]; ring
              · rw [min_eq_right hpp, max_eq_right (by linarith)]; ring
      obtain ⟨c', hc'0, hc'le, e1, e2, e3⟩ := ih s' (surplus - cons) _ _ (by linarith)
        (fun hp => hlm (by linarith)) hrest hrec
      obtain ⟨a1, a2, a3, _⟩ := addLoad_currentLoad gc csId p
      simp only at e1 e2 e3 ⊢
      refine ⟨cons + c', by linarith, by linarith, ?_, by rw [e2, a2], by rw [e3, a3]⟩
      rw [e1, a1, hpa]; ring
    · have hle : sched ≤ 0 := not_lt.mp hnpos
      have ha0 : a = 0 := by
        rcases hd with ⟨_, h0⟩ | ⟨b', hb'⟩
        · exact h0
        · have := law.load_target _ _ _ _ hb'
          rw [max_eq_right (le_trans hge hle)] at this
          exact le_antisymm this.2 this.1
      obtain ⟨c', hc'0, hc'le, e1, e2, e3⟩ := ih s' surplus _ _ hs0 hlm hrest hrec
      simp only at e1 e2 e3 ⊢
      exact ⟨c', hc'0, hc'le, by rw [e1, ha0]; ring, e2, e3⟩

theorem currentLoad_eq_sum (g : GcS α) : g.currentLoad = (g.loads.map (·.2)).sum := by
  unfold GcS.currentLoad
  have : ∀ (l : List (String × α)) (a : α), l.foldl (fun a kv => a + kv.2) a = a + (l.map (·.2)).sum := by
    intro l
    induction l with
    | nil => intro a; simp
    | cons x xs ih => intro a; simp only [List.foldl_cons, List.map_cons, List.sum_cons]; rw [ih]; ring
  rw [this]; ring

/-- one `step_gc` call on a connector without stationary batteries (repaired final loop): the connector's load after
the call is the prognosis of the current step plus what the vehicles took of a surplus; it never exceeds the
currently valid limit and never falls below what it was -/
theorem stepGc_limit_nobat (ops : BatOps α B) (law : BatLaw ops) (idem : LoadIdem ops) (lmin : LoadMin ops)
    (env : PEnv α) (hi : 0 < env.interval) (hsum : ∀ l, env.sum l = l.sum) (w : PWorld α B) (g : PGc α)
    (level : String) (w' : PWorld α B) (cmds : List (String × α))
    (hb : ∀ b ∈ w.batteries, (b.parent == g.gc.id) = false)
    (hcm : 0 ≤ g.gc.curMax) (hlim : g.gc.currentLoad ≤ g.gc.curMax)
    (h : stepGc ops env w g level = .ok (w', cmds)) :
    ∀ g' ∈ w'.gcs, g'.gc.id = g.gc.id →
      g'.gc.curMax = g.gc.curMax ∧ g.gc.currentLoad ≤ g'.gc.currentLoad ∧ g'.gc.currentLoad ≤ g.gc.curMax := by
  have hbats : w.batteries.filter (fun b => b.parent == g.gc.id) = [] := by
    rw [List.filter_eq_nil_iff]
    intro b hbm
    rw [hb b hbm]; simp
  have hbase : sumLoads env g.gc.loads = g.gc.currentLoad := by
    unfold sumLoads; rw [hsum, currentLoad_eq_sum]
  unfold stepGc at h
  simp only at h
  rw [hbats] at h
  simp only [List.isEmpty_nil, if_true, List.foldlM_nil, pure, Except.pure] at h
  obtain ⟨r1, hg, h⟩ := bind_ok h
  obtain ⟨vehicles, maxStanding⟩ := r1
  obtain ⟨seasons, _, h⟩ := bind_ok h
  obtain ⟨r2, _, h⟩ := bind_ok h
  obtain ⟨ahead, untilChange⟩ := r2
  simp only [buildTimesteps, List.foldl_nil] at h
  obtain ⟨r3, hp, h⟩ := bind_ok h
  obtain ⟨plans, timesteps, pk⟩ := r3
  obtain ⟨ts0, ht0, h⟩ := bind_ok h
  obtain ⟨r4, hc, h⟩ := bind_ok h
  obtain ⟨w1, gc1, cmds1⟩ := r4
  obtain ⟨r5, h5, h⟩ := bind_ok h
  obtain ⟨gcLoads, info⟩ := r5
  obtain ⟨r6, h6, h⟩ := bind_ok h
  obtain ⟨gc2, gl2, done⟩ := r6
  simp only [Except.ok.injEq, Prod.mk.injEq] at h5 h6 h
  obtain ⟨rfl, rfl⟩ := h5
  obtain ⟨rfl, rfl, rfl⟩ := h6
  obtain ⟨rfl, rfl⟩ := h
  obtain ⟨s, hps, hs0, hsle, hhead⟩ := planVehicles_sum ops law idem env hi w _ _ _ _ _ _ _
    (by simp only; rw [hbase]; exact hlim) hp
  have hts0 := getAt_zero_head ht0
  rw [hhead] at hts0
  have hp0 : ts0.power = sumLoads env g.gc.loads + s := by rw [← Option.some.inj hts0]
  have hsur0 : 0 ≤ -(pymin ts0.power 0) := by
    rw [pymin_eq]; have := min_le_right ts0.power 0; linarith
  obtain ⟨c, hc0, hcle, c1, c2, c3⟩ := chargeVehicles_sum ops law plans s _ _ _ hsur0 (fun _ => lmin) hps hc
  simp only at c1 c2 c3 hsle
  rw [hbase] at hsle hp0
  rw [pymin_eq] at hcle
  intro g' hg' hid
  simp only [PWorld.setGc, List.foldl_nil, List.mem_map] at hg'
  obtain ⟨x, _, hx⟩ := hg'
  split at hx
  · subst hx
    simp only
    rw [c1, c2]
    refine ⟨rfl, by linarith, ?_⟩
    rcases le_total 0 ts0.power with hpos | hneg
    · rw [min_eq_right hpos] at hcle
      have : c = 0 := le_antisymm (by linarith) hc0
      rw [this]; linarith
    · rw [min_eq_left hneg] at hcle
      linarith
  · rename_i hne
    subst hx
    rw [hid] at hne
    simp only [c3, beq_self_eq_true, not_true_eq_false] at hne

/-- the example battery delivers exactly -/
theorem toyOps_idem (cap pmax : ℚ) : LoadIdem (toyOps cap pmax) := by
  intro b p b' a h
  simp only [toyOps, Option.getD_some, Option.getD_none, Except.ok.injEq, Prod.mk.injEq] at h
  obtain ⟨_, rfl⟩ := h
  set m := min pmax ((1 - b) * cap) with hm
  set a := max 0 (min (min p pmax) m) with ha
  have key : max 0 (min (min a pmax) m) = a := by
    rcases le_total (min (min p pmax) m) 0 with h0 | h0
    · have ha0 : a = 0 := max_eq_left h0
      rw [ha0]
      rcases le_total m 0 with hm0 | hm0
      · exact max_eq_left (le_trans (min_le_right _ _) hm0)
      · exact max_eq_left (le_trans (min_le_left _ _) (min_le_left _ _))
    · have ha1 : a = min (min p pmax) m := max_eq_right h0
      have h1 : a ≤ pmax := by rw [ha1]; exact le_trans (min_le_left _ _) (min_le_right _ _)
      have h2 : a ≤ m := by rw [ha1]; exact min_le_right _ _
      rw [min_eq_left h1, min_eq_left h2]
      exact max_eq_right (by rw [ha1]; exact h0)
  refine ⟨b + a / cap, ?_⟩
  simp only [toyOps, Option.getD_some, Option.getD_none, Except.ok.injEq, Prod.mk.injEq]
  rw [← hm, key]
  exact ⟨rfl, rfl⟩

theorem toy_aux (s s' m : ℚ) (hs0 : 0 ≤ s) (hss : s ≤ s') : max 0 (min s m) = min s (max 0 (min s' m)) := by
  rcases le_total m 0 with hm0 | hm0
  · rw [max_eq_left (le_trans (min_le_right s m) hm0), max_eq_left (le_trans (min_le_right s' m) hm0),
      min_eq_right hs0]
  · have h1 : 0 ≤ min s m := le_min hs0 hm0
    have h2 : 0 ≤ min s' m := le_min (le_trans hs0 hss) hm0
    rw [max_eq_right h1, max_eq_right h2, ← min_assoc, min_eq_left hss]

theorem toy_min (x pmax y : ℚ) : min (min x pmax) (min pmax y) = min x (min pmax y) := by
  rw [min_assoc, min_eq_right (min_le_left pmax y)]

/-- the example battery delivers `min(target, feasible)` -/
theorem toyOps_lmin (cap pmax : ℚ) : LoadMin (toyOps cap pmax) := by
  intro b s s' b' p hs0 hss h
  simp only [toyOps, Option.getD_some, Option.getD_none, Except.ok.injEq, Prod.mk.injEq] at h
  obtain ⟨_, rfl⟩ := h
  refine ⟨b + min s (max 0 (min (min s' pmax) (min pmax ((1 - b) * cap)))) / cap, ?_⟩
  simp only [toyOps, Option.getD_some, Option.getD_none, Except.ok.injEq, Prod.mk.injEq]
  rw [toy_min, toy_min, toy_aux s s' _ hs0 hss]
  exact ⟨rfl, rfl⟩

/-- a battery that obeys `BatLaw` but does NOT deliver exactly: asked for ≥ 8 kW it delivers 6 kW, asked for less it
delivers half (capacity 100 kWh, hourly steps) — a caricature of `battery.py` at negative SoC (finding B14) -/
def oddOps : BatOps ℚ ℚ where
  soc b := b
  capacity _ := 100
  efficiency _ := 1
  unloadMaxPower _ := 0
  load b _ _ tp :=
    let p := tp.getD 0
    let a := if 8 ≤ p then 6 else max 0 (p / 2)
    .ok (b + a / 100, a)
  unload b _ _ _ := .ok (b, 0)
  available _ := .ok 0

theorem oddOps_avg (p : ℚ) : 0 ≤ (if 8 ≤ p then (6 : ℚ) else max 0 (p / 2)) ∧
    (if 8 ≤ p then (6 : ℚ) else max 0 (p / 2)) ≤ max p 0 := by
  split
  · rename_i h
    exact ⟨by norm_num, le_trans (by linarith) (le_max_left _ _)⟩
  · refine ⟨le_max_left _ _, max_le (le_max_right _ _) ?_⟩
    rcases le_total p 0 with h0 | h0
    · exact le_trans (by linarith) (le_max_right _ _)
    · exact le_trans (by linarith) (le_max_left _ _)

theorem oddOps_law : BatLaw oddOps := by
  constructor
  · intro b p b' avg h
    simp only [oddOps, Option.getD_none, Except.ok.injEq, Prod.mk.injEq] at h
    obtain ⟨_, rfl⟩ := h
    have := oddOps_avg 0
    simp only [max_self] at this
    exact ⟨this.1, le_trans this.2 (le_max_right _ _)⟩
  · intro b p b' avg h
    simp only [oddOps, Option.getD_some, Except.ok.injEq, Prod.mk.injEq] at h
    obtain ⟨_, rfl⟩ := h
    exact oddOps_avg p
  · intro b p ts b' avg h
    simp only [oddOps, Except.ok.injEq, Prod.mk.injEq] at h
    obtain ⟨_, rfl⟩ := h
    exact ⟨le_refl _, le_max_right _ _⟩
  · intro b x b' avg h
    simp only [oddOps, Except.ok.injEq, Prod.mk.injEq] at h
    obtain ⟨_, rfl⟩ := h
    exact ⟨le_refl _, le_max_right _ _⟩
  · intro b a h
    simp only [oddOps, Except.ok.injEq] at h
    subst h
    exact le_refl _

theorem oddOps_not_idem : ¬ LoadIdem oddOps := by
  intro h
  obtain ⟨b'', hb⟩ := h (0 : ℚ) 10 (0 + 6 / 100) 6 (by simp only [oddOps, Option.getD_some]; norm_num)
  simp only [oddOps, Option.getD_some, Except.ok.injEq, Prod.mk.injEq] at hb
  norm_num at hb

/-- the loads of the example connector after a `step_gc` result (empty on error) -/
def loadOf (r : Py (PWorld ℚ ℚ × List (String × ℚ))) : List ℚ :=
  match r with
  | .ok (w, _) => w.gcs.map (fun g => g.gc.currentLoad)
  | .error _ => []

end SpiceEv.PeakLoadWindow
