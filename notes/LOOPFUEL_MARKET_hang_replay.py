import sys, json, signal, copy
sys.path.insert(0, '/tmp/w3/loopfuel/repo')
from spice_ev.scenario import Scenario
vt = lambda v2g: {"name": "x", "capacity": 10, "mileage": 20, "charging_curve": [[0, 5], [1, 5]],
                  "min_charging_power": 0, "battery_efficiency": 1.0, "v2g": v2g, "v2g_power_factor": 1.0,
                  "discharge_limit": 0.5}
T0 = "2020-01-06T00:00:00+02:00"; T1 = "2020-01-06T01:00:00+02:00"; T2 = "2020-01-06T02:00:00+02:00"
def scen(shared):
    return {
     "scenario": {"start_time": T0, "interval": 60, "n_intervals": 1},
     "components": {
      "vehicle_types": {"plain": vt(False), "v2g": vt(True)},
      "vehicles": {
        "a": {"vehicle_type": "v2g", "soc": 1.0, "desired_soc": 0.5, "connected_charging_station": "CS1",
              "estimated_time_of_departure": T2},
        "b": {"vehicle_type": "plain", "soc": 0.2, "desired_soc": 0.6,
              "connected_charging_station": "CS1" if shared else "CS2", "estimated_time_of_departure": T2}},
      "grid_connectors": {"GC": {"max_power": 20, "cost": {"type": "fixed", "value": 0.5}}},
      "charging_stations": {"CS1": {"max_power": 3, "min_power": 0, "parent": "GC"},
                            "CS2": {"max_power": 3, "min_power": 0, "parent": "GC"}},
      "batteries": {}},
     "events": {"fixed_load": {}, "local_generation": {},
      "grid_operator_signals": [{"signal_time": T0, "start_time": T1, "grid_connector_id": "GC",
                                 "cost": {"type": "fixed", "value": 0.3}}],
      "vehicle_events": []}}
def run(shared):
    s = Scenario(scen(shared))
    def handler(signum, frame):
        import traceback
        print("TIMEOUT after 20 s; stack at interruption:")
        traceback.print_stack(frame, limit=4)
        raise SystemExit(3)
    signal.signal(signal.SIGALRM, handler); signal.alarm(20)
    s.run('balanced_market', {"HORIZON": 4, "PRICE_THRESHOLD": 0})
    signal.alarm(0)
    print("shared" if shared else "separate", "-> finished; loads", [dict((k, round(v, 4)) for k, v in d.items()) for d in s.connChargeByTS["GC"]] if hasattr(s, "connChargeByTS") else "")
json.dump(scen(True), open('/tmp/w3/loopfuel/s4/scratch/hang_scenario.json', 'w'), indent=1)
run(False)
run(True)
