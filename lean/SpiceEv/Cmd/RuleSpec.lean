/- driver command for Model/RuleSpec.lean: the documented greedy / balanced rule (specification) evaluated on the
same world lines as `rulestep`, same Float battery model, same output format -/
import SpiceEv.Cmd.Strategies
import SpiceEv.Model.RuleSpec
namespace SpiceEv.Cmd.RuleSpec
open SpiceEv SpiceEv.Cmd.Strategies

/-- `specstep <g|b> eps threshold tsPerHour now interval <gcs> <stations> <vehicles> <batteries>` →
`commands | loads per connector | station power | vehicle SoCs | battery SoCs` or the exception -/
def cmdSpecStep : P String := do
  let r ← P.tok
  let rule ← (if r == "g" then pure Rule.greedy else if r == "b" then pure Rule.balanced else failure)
  let eps ← P.num Float; let thr ← P.num Float; let tsph ← P.num Float
  let now ← P.int; let interval ← P.int
  let gcs ← P.list pGc; let css ← P.list pCs; let vs ← P.list pVeh; let bs ← P.list pBat
  let env : StratEnv Float := ⟨eps, thr, tsph, now, interval⟩
  let ops := floatOps (Cmd.Battery.hoursOfMicros interval)
  match SpiceEv.RuleSpec.specStep rule ops env ⟨gcs, css, vs, bs⟩ with
  | .error e => pure (renderErr e)
  | .ok (w, cmds) =>
    pure (renderList rKV cmds ++ " | " ++
      " ; ".intercalate (w.gcs.map (fun g => g.id ++ " " ++ renderList rKV g.loads)) ++ " | " ++
      " ".intercalate (w.stations.map (fun s => rNum s.currentPower)) ++ " | " ++
      " ".intercalate (w.vehicles.map (fun v => rNum v.bat.soc)) ++ " | " ++
      " ".intercalate (w.batteries.map (fun b => rNum b.bat.soc)))

def handlers : List (String × Handler) := [("specstep", runP cmdSpecStep)]

end SpiceEv.Cmd.RuleSpec
