"""Loop-iteration oracle for C17: iterations of every inner `while` loop of a strategy step <= proved bound.

Model-independent.  Nothing in the code under test is edited: the `while` statements of
`spice_ev/strategies/{flex_window,schedule}.py` are found at run time with `ast` on the source of the IMPORTED module
(line numbers are never written down here), and their iterations are counted with `sys.monitoring` LINE events that
are switched on only for the code objects of the functions that contain a `while` (every other line of those
functions answers `DISABLE` on its first event and costs nothing afterwards).

site  = (strategy, qualified function name, index of the `while` inside that function in source order)
B     = a line of the loop body that executes exactly once per iteration (the first statement of the body; leading
        inner loops / multi-line simple statements are skipped because their first line fires more than once)
P     = entry marker: a line that executes before every entry of the loop and never while the loop runs (first line of
        the previous sibling statement; for the first statement of a block the header of the owning statement - a
        `for`/`while` header fires once per iteration of the owner, which is once per entry of the inner loop)
count of one ENTRY = number of B events since the last P event (a step boundary closes all entries too).

`counting(strategy)` is a context manager around a whole real run (`runcheck.eval_run`): it wraps `<Class>.step`
(innermost wrapper: it is installed first, the step ties and scen.run_real wrap around it and are removed before it)
and, per step and per site, compares every entry's count with the bound of SPEC below, which is computed in Python
from the strategy object / the loop's own bracket at entry - never from the Lean model.  An excess is a violation
`C17:loop_iterations_exceed_bound:<strategy>:<function>:<n-th while>`; it is also recorded when the step is cut off
by the watchdog (the wrapper's `finally` closes the entry that was running).

Bounds (EPS = strat.EPS):
 * bisect  `while hi - lo > EPS` (also sim_balanced_charging's `(idx < ITERATIONS or not safe) and hi - lo > EPS`):
           the bracket halves, so iterations <= n, n the least natural with W <= EPS * 2**n, W = hi - lo read from the
           frame's locals at the entry's first iteration (coarse per-step W if the locals are not found: renamed);
           + SLACK (2) iterations for the IEEE rounding of the midpoints.
 * events  `while True` peeking into world_state.future_events with a running index: <= len(future_events) + 1.
 * etd     charge_individually's look-ahead `while charging and cur_time < etd`: <= max over vehicles
           ceil((etd - current_time) / interval).
 * core    dt_to_end_of_time_window's minute scan: <= 8 * 1440 (repair H4: `while duration < 8 days and ...`,
           C17_schedule_end_of_window_scan_terminates; before the repair the scan did not end at all when every minute of
           the week was inside: C15_end_of_window_never).
 * retry   collective retry queue `while len(vehicles) > 0`: with n = len(queue) and R = max(remaining power, 0) at
           entry, A = ceil(R/EPS), M = ceil((R+1)/EPS): <= (n+1)*((n*M+1)*A + n*M) + n + 1.
A `while` that is not in SPEC (or whose shape no longer matches its SPEC entry) is counted, never judged, and listed
in the stats as `unbounded_sites:…`.
"""
import ast
import contextlib
import datetime
import importlib
import inspect
import math
import sys

import engine

engine.use_repo()

SLACK = 2
MINUTES_PER_WEEK = 7 * 24 * 60
KEY = "C17:loop_iterations_exceed_bound"

# (strategy, function, n-th while) -> (kind, shape, args)   shape: "true" = `while True`, "cond" = anything else
_B = "bisect"
SPEC = {
    ("schedule", "Schedule.dt_to_end_of_time_window", 0): ("core", "cond", ()),
    ("schedule", "Schedule.sim_balanced_charging", 0): (_B, "cond", ("max_power", "min_power", "power")),
    ("schedule", "Schedule.collect_future_gc_info", 0): ("events", "true", ()),
    ("schedule", "Schedule.charge_vehicles_during_core_standing_time", 0):
        ("retry", "cond", ("vehicles", "remaining_power_on_schedule")),
    ("schedule", "Schedule.charge_vehicles_during_core_standing_time_v2g", 0): (_B, "cond", ("max_soc", "min_soc", "soc")),
    ("schedule", "Schedule.charge_vehicles_during_core_standing_time_v2g", 1):
        (_B, "cond", ("max_power", "min_power", "power")),
    ("schedule", "Schedule.charge_individually", 0): ("etd", "cond", ()),
    ("schedule", "Schedule.charge_individually", 1): ("events", "true", ()),
    ("schedule", "Schedule.charge_individually", 2): (_B, "cond", ("max_power", "min_power", "power")),
    ("flex_window", "FlexWindow.step", 0): ("events", "true", ()),
    ("flex_window", "FlexWindow.distribute_balanced_vehicles", 0): (_B, "cond", ("max_power", "min_power", "power")),
    ("flex_window", "FlexWindow.distribute_balanced_batteries", 0): (_B, "cond", ("max_power", "min_power", "power")),
    ("flex_window", "FlexWindow.distribute_balanced_v2g", 0): (_B, "cond", ("max_soc", "min_soc", "soc")),
    ("flex_window", "FlexWindow.distribute_balanced_v2g", 1): (_B, "cond", ("max_power", "min_power", "power")),
    ("flex_window", "FlexWindow.distribute_peak_shaving_vehicles", 0):
        (_B, "cond", ("max_total_power", "min_total_power", "power")),
    ("flex_window", "FlexWindow.distribute_peak_shaving_batteries", 0):
        (_B, "cond", ("max_total_power", "min_total_power", "power")),
    ("flex_window", "FlexWindow.distribute_peak_shaving_batteries", 1):
        (_B, "cond", ("max_total_power", "min_total_power", "power")),
    ("flex_window", "FlexWindow.distribute_peak_shaving_v2g", 0): (_B, "cond", ("max_soc", "min_soc", "soc")),
    ("flex_window", "FlexWindow.distribute_peak_shaving_v2g", 1):
        (_B, "cond", ("max_total_power", "min_total_power", "power")),
    ("flex_window", "FlexWindow.distribute_peak_shaving_v2g", 2):
        (_B, "cond", ("max_total_power", "min_total_power", "power")),
}
STRATEGIES = sorted({k[0] for k in SPEC})


# ------------------------------------------------------------------------------------------------------------------
# discovery of the loops in the imported module

class Site:
    __slots__ = ("strategy", "func", "idx", "code", "B", "P", "spec", "shape",
                 "cur", "cur_bound", "cur_note", "max", "entries", "total", "worst", "headroom")

    def __init__(self, strategy, func, idx, code, B, P, shape):
        self.strategy, self.func, self.idx, self.code, self.B, self.P, self.shape = strategy, func, idx, code, B, P, shape
        sp = SPEC.get((strategy, func, idx))
        self.spec = sp if sp is not None and sp[1] == shape else None
        self.max = self.entries = self.total = 0      # over the whole run
        self.worst = None                             # (excess, count, bound, note, time) of the run
        self.headroom = None                          # min over the run's entries of bound - count
        self.reset()

    def reset(self):
        self.cur = 0
        self.cur_bound = None
        self.cur_note = ""

    @property
    def name(self):
        return "%s:%s:%d" % (self.strategy, self.func, self.idx)


def _is_loop(s):
    return isinstance(s, (ast.While, ast.For, ast.AsyncFor))


def _single_line_header(s):
    if isinstance(s, (ast.If, ast.While)):
        return (s.test.end_lineno or s.lineno) == s.lineno
    if isinstance(s, (ast.For, ast.AsyncFor)):
        return (s.iter.end_lineno or s.lineno) == s.lineno
    if isinstance(s, (ast.With, ast.AsyncWith)):
        return all((i.context_expr.end_lineno or s.lineno) == s.lineno for i in s.items)
    if isinstance(s, (ast.Try, ast.Match)) or (hasattr(ast, "TryStar") and isinstance(s, ast.TryStar)):
        return True
    return (s.end_lineno or s.lineno) == s.lineno


def _body_line(w):
    """a line that runs exactly once per iteration: the first body statement unless its first line can fire more
    than once per iteration (an inner loop header, a statement spread over several lines); statements skipped that
    way cannot `continue`/`break` this loop, except an inner loop's body returning/raising - which ends the entry"""
    for s in w.body:
        if _is_loop(s):
            continue
        if _single_line_header(s):
            return s.lineno
        if isinstance(s, (ast.If, ast.With, ast.AsyncWith)):
            break
    return w.body[0].lineno


def _whiles(fn):
    """[(While node, entry-marker line or None)] of one function, in source order; nested defs/classes excluded"""
    found = []

    def block(stmts, owner):
        for i, s in enumerate(stmts):
            if isinstance(s, (ast.FunctionDef, ast.AsyncFunctionDef, ast.ClassDef)):
                continue
            if isinstance(s, ast.While):
                if i > 0:
                    marker = stmts[i - 1].lineno
                elif isinstance(owner, (ast.FunctionDef, ast.AsyncFunctionDef)):
                    marker = None        # no LINE event for a `def` line: entries = calls are not separated
                else:
                    marker = owner.lineno
                found.append((s, marker))
            for attr in ("body", "orelse", "finalbody"):
                sub = getattr(s, attr, None)
                if isinstance(sub, list) and sub:
                    block(sub, s)
            for h in getattr(s, "handlers", []) or []:
                block(h.body, h)
            for c in getattr(s, "cases", []) or []:
                block(c.body, c)
    block(fn.body, fn)
    found.sort(key=lambda t: (t[0].lineno, t[0].col_offset))
    return found


_CACHE = {}


def discover(strategy):
    """(class, [Site], [problems]) for the imported strategy module - computed from the module as it is imported now"""
    mod = importlib.import_module("spice_ev.strategies." + strategy)
    hit = _CACHE.get(strategy)
    if hit is not None and hit[0] is mod:
        return hit[1]
    tree = ast.parse(inspect.getsource(mod))
    cls_name = "".join(s.capitalize() for s in strategy.split("_"))
    cls = getattr(mod, cls_name)
    sites, problems = [], []
    for c in tree.body:
        if not isinstance(c, ast.ClassDef):
            continue
        pycls = getattr(mod, c.name, None)
        for fn in c.body:
            if not isinstance(fn, (ast.FunctionDef, ast.AsyncFunctionDef)):
                continue
            ws = _whiles(fn)
            if not ws:
                continue
            qual = "%s.%s" % (c.name, fn.name)
            obj = pycls.__dict__.get(fn.name) if pycls is not None else None
            obj = getattr(obj, "__func__", obj)
            obj = inspect.unwrap(obj) if callable(obj) else obj
            code = getattr(obj, "__code__", None)
            first = min([fn.lineno] + [d.lineno for d in fn.decorator_list])
            if code is None or code.co_name != fn.name or code.co_firstlineno != first:
                problems.append("loop_site_code_not_found:%s:%s" % (strategy, qual))
                continue
            for idx, (w, marker) in enumerate(ws):
                shape = "true" if isinstance(w.test, ast.Constant) and w.test.value is True else "cond"
                sites.append(Site(strategy, qual, idx, code, _body_line(w), marker, shape))
    have = {(s.strategy, s.func, s.idx) for s in sites if s.spec is not None}
    for k in SPEC:
        if k[0] == strategy and k not in have:
            problems.append("loop_site_of_spec_missing:%s:%s:%d" % k)
    out = (cls, sites, problems)
    _CACHE[strategy] = (mod, out)
    return out


# ------------------------------------------------------------------------------------------------------------------
# bounds

def bisect_n(width, eps):
    """least natural n with width <= eps * 2**n (None if there is none: infinite width, eps <= 0)"""
    if not (eps > 0) or width != width or width == math.inf:
        return None
    n = 0
    while width > eps * (2 ** n):
        n += 1
        if n > 2200:
            return None
    return n


def retry_bound(n, R, eps):
    R = max(R, 0.0)
    A = math.ceil(R / eps)
    M = math.ceil((R + 1.0) / eps)
    return (n + 1) * ((n * M + 1) * A + n * M) + n + 1


class StepCtx:
    """quantities of the step that the bounds use, read from the strategy object on first use within the step
    (current_time, interval, future events, departure estimates and the core standing time do not change in a step)"""

    def __init__(self, strat):
        self.s = strat
        self.eps = float(strat.EPS)
        self._c = {}

    def get(self, name):
        if name not in self._c:
            try:
                self._c[name] = getattr(self, "_" + name)()
            except Exception:            # odd world (directed malformed variants): no bound rather than a crash
                self._c[name] = None
        return self._c[name]

    def _n_future(self):
        return len(self.s.world_state.future_events)

    def _etd(self):
        s, b = self.s, 0
        for v in s.world_state.vehicles.values():
            etd = v.estimated_time_of_departure
            if etd is not None:
                b = max(b, -((s.current_time - etd) // s.interval))
        return b

    def _core(self):
        # repaired scan (fixes/H4.diff, C17_schedule_end_of_window_scan_terminates): at most eight days of minutes
        return 8 * 1440

    def _core_pinned(self):
        """bound of the PINNED scan (before repair H4): the model's dtToEndFuel; kept for reference"""
        s = self.s
        cst = s.core_standing_time
        if cst is None:
            return None                  # the scan never ends without a core standing time (never reached: asserted)
        today = s.current_time.date()
        last = today
        for h in cst.get("holidays", []) or []:
            try:
                d = datetime.date.fromisoformat(h)
            except Exception:
                continue
            if d.isoformat() == h and d > last:
                last = d
        return ((last - today).days + 2) * MINUTES_PER_WEEK

    def _w_power(self):
        ws = self.s.world_state
        w = 1.0
        for gc in ws.grid_connectors.values():
            w = max(w, 2.0 * abs(gc.cur_max_power) + sum(abs(x) for x in gc.current_loads.values()))
        for cs in ws.charging_stations.values():
            w = max(w, cs.max_power)
        for v in ws.vehicles.values():
            w = max(w, v.vehicle_type.charging_curve.max_power)
        return w

    def _retry_coarse(self):
        ws = self.s.world_state
        gc = list(ws.grid_connectors.values())[0]
        n = max(len(ws.vehicles), len(getattr(self.s, "energy_needed_per_vehicle", {}) or {}))
        return retry_bound(n, max(gc.cur_max_power - gc.get_current_load(), 0.0), self.eps)


def entry_bound(site, ctx, frame):
    """(bound or None, note) for the entry of `site` that starts now; `frame` is the frame executing the loop"""
    kind, _, args = site.spec
    if kind == _B:
        hi, lo, cls = args
        w, src = None, "bracket at entry"
        try:
            loc = frame.f_locals
            w = float(loc[hi]) - float(loc[lo])
        except Exception:
            w = None
        if w is None:
            w, src = (1.0 if cls == "soc" else ctx.get("w_power")), "coarse width of the step"
        if w is None:
            return None, "no width"
        n = bisect_n(w, ctx.eps)
        return (None if n is None else n + SLACK), "W=%r (%s), EPS=%r, n=%s, +%d for rounding" % (w, src, ctx.eps, n, SLACK)
    if kind == "events":
        n = ctx.get("n_future")
        return (None if n is None else n + 1), "future events visible in the step: %s" % n
    if kind == "etd":
        n = ctx.get("etd")
        return n, "max over vehicles of ceil((departure - now)/interval) = %s" % n
    if kind == "core":
        n = ctx.get("core")
        return n, "eight days of minutes (repair H4) = %s" % n
    if kind == "retry":
        try:
            loc = frame.f_locals
            n, r = len(loc[args[0]]), float(loc[args[1]])
            return retry_bound(n, r, ctx.eps), "queue %d, remaining power %r" % (n, r)
        except Exception:
            return ctx.get("retry_coarse"), "coarse: vehicles of the world, connector headroom at first use"
    return None, "unknown kind"


# ------------------------------------------------------------------------------------------------------------------
# counting

class Result:
    """what `counting` yields: violations [(clause, key, detail)], stats [..], num {..}, sites {name: {...}}"""

    def __init__(self):
        self.violations, self.stats, self.num, self.sites = [], [], {}, {}
        self.active = False


def _tool_id():
    mon = sys.monitoring
    for t in (4, 3, mon.PROFILER_ID):
        if mon.get_tool(t) is None:
            mon.use_tool_id(t, "verif-loopcount")
            return t
    return None


@contextlib.contextmanager
def counting(strategy, enabled=True):
    res = Result()
    if not enabled or strategy not in STRATEGIES:
        yield res
        return
    if not hasattr(sys, "monitoring"):           # Python < 3.12: the clause is not evaluated, and says so
        res.stats.append("loopcount_unavailable_no_sys_monitoring")
        yield res
        return
    cls, sites, problems = discover(strategy)
    tool = _tool_id()
    if tool is None:
        res.stats.append("loopcount_no_free_tool_id")
        yield res
        return
    mon = sys.monitoring
    DISABLE = mon.DISABLE
    table = {}                         # code -> {line: [(is_body, site)]}
    for st in sites:
        st.max = st.entries = st.total = 0
        st.worst = st.headroom = None
        st.reset()
        lines = table.setdefault(st.code, {})
        lines.setdefault(st.B, []).append((True, st))
        if st.P is not None:
            lines.setdefault(st.P, []).insert(0, (False, st))
    state = {"ctx": None, "depth": 0}

    def close(st):
        n = st.cur
        if n:
            st.entries += 1
            st.total += n
            if n > st.max:
                st.max = n
            b = st.cur_bound
            if b is not None and (st.headroom is None or b - n < st.headroom):
                st.headroom = b - n
            if b is not None and n > b and (st.worst is None or n - b > st.worst[0]):
                st.worst = (n - b, n, b, st.cur_note, str(getattr(state["ctx"].s, "current_time", "?")))
        st.cur = 0
        st.cur_bound = None

    def on_line(code, line):
        ctx = state["ctx"]
        if ctx is None:
            return None if line in table.get(code, ()) else DISABLE
        acts = table.get(code)
        if acts is None:
            return DISABLE
        a = acts.get(line)
        if a is None:
            return DISABLE
        for is_body, st in a:
            if is_body:
                st.cur += 1
                if st.cur == 1 and st.spec is not None:
                    try:
                        st.cur_bound, st.cur_note = entry_bound(st, ctx, sys._getframe(1))
                    except Exception as e:          # never let the oracle's arithmetic disturb the run
                        st.cur_bound, st.cur_note = None, "bound failed: %r" % (e,)
            elif st.cur:
                close(st)
        return None

    orig = cls.__dict__["step"]

    def step(self, *a, **k):
        if state["depth"] or type(self) is not cls:
            return orig(self, *a, **k)
        state["depth"] += 1
        for st in sites:
            st.reset()
        try:
            state["ctx"] = StepCtx(self)
        except Exception:
            state["ctx"] = None
        try:
            return orig(self, *a, **k)
        finally:
            if state["ctx"] is not None:
                for st in sites:
                    close(st)
            state["ctx"] = None
            state["depth"] -= 1

    mon.register_callback(tool, mon.events.LINE, on_line)
    for code in table:
        mon.set_local_events(tool, code, mon.events.LINE)
    cls.step = step
    res.active = True
    try:
        yield res
    finally:
        cls.step = orig
        for code in table:
            mon.set_local_events(tool, code, 0)
        mon.register_callback(tool, mon.events.LINE, None)
        mon.free_tool_id(tool)
        res.stats += problems
        for st in sites:
            if st.entries:
                res.stats.append("loop:" + st.name)
                res.num["loop_max_iterations:" + st.name] = st.max
                res.sites[st.name] = {"max": st.max, "entries": st.entries, "total": st.total,
                                      "kind": st.spec[0] if st.spec else None, "headroom": st.headroom}
                if st.spec is not None and st.spec[0] == _B and st.headroom is not None:
                    # smallest distance to the bound in this run (SLACK = the count equals the exact-arithmetic bound)
                    res.stats.append("loop_headroom:%s:%s" % (st.name, st.headroom if st.headroom < 5 else ">=5"))
            if st.spec is None:
                res.stats.append("unbounded_sites:" + st.name)
            if st.worst is not None:
                _, n, b, note, t = st.worst
                res.violations.append((
                    "bounded", "%s:%s" % (KEY, st.name),
                    "%s step at %s: %d iterations in one entry of the %s loop (line %d of the imported module), "
                    "proved bound %d [%s]" % (strategy, t, n, st.spec[0], st.B, b, note)))
