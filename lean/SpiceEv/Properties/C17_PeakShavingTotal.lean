/-
C17 (every strategy step finishes in bounded time) for the WHOLE step of the charging strategy `peak_shaving`
(Model/StratPeakShaving.lean): `PeakShaving.step` / `stepGc` answer `.ok` or a Python exception value, never the
model's own `FUEL` marker.

Fuel of the three data-dependent loops in the model:
* the `while` loop of `fast_charge` (`fcLoop`) runs on `2 * len(power_levels) + 2`, computed by the model — enough for
  every input once `0 < EPS` (C17_peak_shaving_fast_charge_loop_terminates);
* the two bisections per stationary battery (`bisect1`, `bisect2`) run on `env.fuel` — enough when the levels of the
  predicted power curve are at most `EPS · 2^env.fuel` (C17_peak_shaving_battery_bisections_terminate).
Every other loop of `step_gc` is a `for` over a finite list (vehicles, visible events, timesteps of the horizon,
batteries) and is structurally recursive in the model.
-/
import SpiceEv.Proofs.StratPeakShavingTotal
set_option linter.unusedSectionVars false
set_option linter.unusedVariables false
namespace SpiceEv
open PeakShaving PeakShaving.Total
variable {α B : Type} [Field α] [LinearOrder α] [IsStrictOrderedRing α]

/-- **The whole step of `peak_shaving` never answers `FUEL`** — hypotheses on the ops record, the environment, the
event list and the INITIAL world only:
* the battery never answers `FUEL` itself (`NoFuelErr`, C01) and obeys the abstract battery law (`BatLaw`: average
  power between 0 and the request); the builtin `sum` adds up (`SumExact`); `0 < EPS`;
* `WorldBelowCount events w L H` with `L = EPS · 2^env.fuel` — the bracket hypothesis of the battery bisections on
  the initial world: connector ids are unique; `0 ≤ H` bounds the headroom `max_power − current_power` of every
  charging station; for every connector the limit `cur_max_power`, the sum of the positive parts of its current
  loads and of the values of its fixed-load / generation events in the list, every limit a grid-operator signal of
  the list sets for it, and its present load plus `H` per vehicle of the world and event of the list are at most `L`
  (with `EPS = 1e-5` and the driver's fuel 1200, `L` exceeds every double).
Fuel per loop: `fcLoop` gets `2·len + 2` from the model itself (enough for `0 < EPS`); both bisections of every
battery get `env.fuel`.  The proof carries "every entry of the predicted curve ≤ L" through the look-ahead and the
vehicle planning (a planning step raises a predicted power at most to `max(power, limit)` of that timestep), bounds
the connector's load after the surplus pass by counting (≤ `H` per planned vehicle), and uses that the repaired
battery pass keeps the load below `max(load, limit)` from battery to battery. -/
theorem C17_peak_shaving_step_total (ops : PeakShaving.Ops α B) (law : BatLaw ops.bat)
    (hsum : SumExact ops) (hn : NoFuelErr ops) (env : PeakShaving.Env α) (heps : 0 < env.eps)
    (events : List (PeakShaving.Ev α)) (w : SWorld α B) (H : α)
    (hw : WorldBelowCount events w (env.eps * 2 ^ env.fuel) H) :
    PeakShaving.step ops env events w ≠ .error .fuel :=
  step_nf_of_curve ops law hn env heps events w
    (stepCurveBelow_of_count ops law hsum env events w _ H hw)

/-- **`step_gc` (one connector) never answers `FUEL`** — the connector-wise content of `WorldBelowCount`. -/
theorem C17_peak_shaving_stepGc_total (ops : PeakShaving.Ops α B) (law : BatLaw ops.bat)
    (hsum : SumExact ops) (hn : NoFuelErr ops) (env : PeakShaving.Env α) (heps : 0 < env.eps)
    (events : List (PeakShaving.Ev α)) (w : SWorld α B) (gc : GcS α) (H : α) (hH : 0 ≤ H)
    (hcs : ∀ cs ∈ w.stations, cs.maxPower - cs.currentPower ≤ H)
    (hcm : gc.curMax ≤ env.eps * 2 ^ env.fuel)
    (hfix : loadPos gc.loads + (events.map (evPos gc.id)).sum ≤ env.eps * 2 ^ env.fuel)
    (hsig : ∀ s p, Ev.signal s gc.id (some p) ∈ events → p ≤ env.eps * 2 ^ env.fuel)
    (hload : gc.currentLoad + ((w.vehicles.length + events.length : Nat) : α) * H ≤ env.eps * 2 ^ env.fuel) :
    PeakShaving.stepGc ops env events w gc ≠ .error .fuel :=
  stepGc_nf_of_curve ops law hn env heps events w gc
    (curveBelow_of_count ops law hsum env events w gc _ H hH hcs hcm hfix hsig hload)

/-- **The same with the C05 limit theorem instead of counting**: no bound on the charging stations and no term per
vehicle, but the connectors must be within their non-negative limits at the start of the step, vehicle ids unique,
no visible event at or before the present step (`EventsAhead`, C04_peak_shaving_events_ahead) and the battery must
deliver a requested target power exactly or be saturated (`LoadSat`, C02) — `WorldBelow events w L`: vehicle and
connector ids unique; every connector has `0 ≤ cur_max_power`, `load ≤ cur_max_power`, and its limit, summed positive
loads (plus positive parts of its fixed-load / generation events) and future limits (signals) are at most `L`. -/
theorem C17_peak_shaving_step_total_within_limit (ops : PeakShaving.Ops α B) (law : BatLaw ops.bat)
    (hsat : LoadSat ops) (hsum : SumExact ops) (hn : NoFuelErr ops) (env : PeakShaving.Env α) (heps : 0 < env.eps)
    (events : List (PeakShaving.Ev α)) (hev : EventsAhead env events) (w : SWorld α B)
    (hw : WorldBelow events w (env.eps * 2 ^ env.fuel)) :
    PeakShaving.step ops env events w ≠ .error .fuel :=
  step_nf_of_curve ops law hn env heps events w
    (stepCurveBelow_of_world ops law hsat hsum env events hev w _ hw)

/-- one connector, with the C05 limit theorem instead of counting -/
theorem C17_peak_shaving_stepGc_total_within_limit (ops : PeakShaving.Ops α B) (law : BatLaw ops.bat)
    (hsat : LoadSat ops) (hsum : SumExact ops) (hn : NoFuelErr ops) (env : PeakShaving.Env α) (heps : 0 < env.eps)
    (events : List (PeakShaving.Ev α)) (hev : EventsAhead env events) (w : SWorld α B) (hu : UniqueVehicles w)
    (gc : GcS α) (hm0 : 0 ≤ gc.curMax) (hmax : gc.currentLoad ≤ gc.curMax)
    (hcm : gc.curMax ≤ env.eps * 2 ^ env.fuel)
    (hfix : loadPos gc.loads + (events.map (evPos gc.id)).sum ≤ env.eps * 2 ^ env.fuel)
    (hsig : ∀ s p, Ev.signal s gc.id (some p) ∈ events → p ≤ env.eps * 2 ^ env.fuel) :
    PeakShaving.stepGc ops env events w gc ≠ .error .fuel :=
  stepGc_nf_of_curve ops law hn env heps events w gc
    (curveBelow_of_world ops law hsat hsum env events hev w hu gc _ hm0 hmax hcm hfix hsig)

/-- **`step` never answers `FUEL` when no stationary battery hangs on a connector** (only hypotheses: the battery
operations never answer `FUEL` themselves, `0 < EPS`).  The only fuel-guarded loop that runs is the `while` of
`fast_charge`, whose fuel `2·len + 2` the model computes itself. -/
theorem C17_peak_shaving_step_total_no_battery (ops : PeakShaving.Ops α B) (hn : NoFuelErr ops)
    (env : PeakShaving.Env α) (heps : 0 < env.eps) (events : List (PeakShaving.Ev α)) (w : SWorld α B)
    (hnb : ∀ b ∈ w.batteries, ∀ g ∈ w.gcs, b.parent ≠ g.id) :
    PeakShaving.step ops env events w ≠ .error .fuel :=
  step_nf_nobat ops hn env heps events w hnb

/-- the same for one connector (`step_gc`) -/
theorem C17_peak_shaving_stepGc_total_no_battery (ops : PeakShaving.Ops α B) (hn : NoFuelErr ops)
    (env : PeakShaving.Env α) (heps : 0 < env.eps) (events : List (PeakShaving.Ev α)) (w : SWorld α B)
    (gc : GcS α) (hnb : ∀ b ∈ w.batteries, b.parent ≠ gc.id) :
    PeakShaving.stepGc ops env events w gc ≠ .error .fuel :=
  stepGc_nf_nobat ops hn env heps events w gc hnb

/-- **`step_gc` never answers `FUEL`** — PARTIAL: the bracket hypothesis of the two battery bisections is stated on
an INTERMEDIATE state, not on the initial world.  Assumed (`CurveBelow … L` with `L = EPS · 2^env.fuel`): whenever
the look-ahead (`forecast`), the vehicle planning (`adjustAll`) and the surplus pass (`applyPass`) of this connector
succeed with the curve `ts` and the connector state `acc.gc`, then every level `powerLevels nAhead ts` from the
second timestep on, the connector's load `acc.gc.currentLoad` and its limit `acc.gc.curMax` are at most `L`.
Proved from that: the level bound holds for the curve every battery of the connector plans on (the first level is
the connector's load, which stays below `max(load, limit)` from battery to battery; the later levels are not
changed by the battery pass), hence `env.fuel` passes suffice for both bisections of every battery; everything
else propagates structurally. -/
theorem C17_peak_shaving_stepGc_total_partial (ops : PeakShaving.Ops α B) (law : BatLaw ops.bat)
    (hn : NoFuelErr ops) (env : PeakShaving.Env α) (heps : 0 < env.eps) (events : List (PeakShaving.Ev α))
    (w : SWorld α B) (gc : GcS α)
    (hcurve : CurveBelow ops env events w gc (env.eps * 2 ^ env.fuel)) :
    PeakShaving.stepGc ops env events w gc ≠ .error .fuel :=
  stepGc_nf_of_curve ops law hn env heps events w gc hcurve

/-- **`step` never answers `FUEL`** — PARTIAL in the same way: `StepCurveBelow … L` assumes `CurveBelow … L` (see
`C17_peak_shaving_stepGc_total_partial`) for every connector `g0` of the world, in the world reached after the
connectors before it (`pre.foldlM stepBody (w, [], []) = .ok st`, connector `st.1.gc? g0.id`). -/
theorem C17_peak_shaving_step_total_partial (ops : PeakShaving.Ops α B) (law : BatLaw ops.bat)
    (hn : NoFuelErr ops) (env : PeakShaving.Env α) (heps : 0 < env.eps) (events : List (PeakShaving.Ev α))
    (w : SWorld α B) (hcurve : StepCurveBelow ops env events w (env.eps * 2 ^ env.fuel)) :
    PeakShaving.step ops env events w ≠ .error .fuel :=
  step_nf_of_curve ops law hn env heps events w hcurve

/-! Non-vacuity of `C17_peak_shaving_step_total`: its hypotheses hold together for the toy battery, `EPS = 1e-5`,
60 passes, station headroom `H = 3.7 kW`, a connector ABOVE its limit (limit 2 kW, 3 kW fixed load now, 8 kW after the
next event, a signal setting the limit to 15 kW), a vehicle and a stationary battery. -/
example :
    PeakShaving.step toyOps ⟨1/100000, 4, 0, 900000000, 4 * 900000000, true, 60⟩
        [.load 900000000 "GC" "load" 8, .signal 1800000000 "GC" (some 15)]
        ⟨[⟨"GC", 2, none, [("load", 3)]⟩], [⟨"CS", "GC", 37/10, 0, 0⟩],
         [⟨"v", some "CS", 1, some (2 * 900000000), 0, false, 0, 1/2⟩], [⟨"B", "GC", 0, 1/2⟩]⟩ ≠ .error .fuel := by
  refine C17_peak_shaving_step_total toyOps toyLaw toySum toyNoFuel _ (by norm_num) _ _ (37/10) ?_
  refine ⟨by simp, by norm_num, ?_, ?_, ?_, ?_, ?_⟩
  · intro cs hcs
    simp only [List.mem_singleton] at hcs
    subst hcs
    norm_num
  · intro g hg
    simp only [List.mem_singleton] at hg
    subst hg
    norm_num
  · intro g hg
    simp only [List.mem_singleton] at hg
    subst hg
    norm_num [loadPos, evPos]
  · intro g hg s p hm
    simp only [List.mem_singleton] at hg
    subst hg
    simp only [List.mem_cons, List.not_mem_nil, or_false, reduceCtorEq, false_or, Ev.signal.injEq,
      Option.some.injEq] at hm
    obtain ⟨_, _, rfl⟩ := hm
    norm_num
  · intro g hg
    simp only [List.mem_singleton] at hg
    subst hg
    norm_num [GcS.currentLoad]

/-! Non-vacuity of `C17_peak_shaving_step_total_within_limit`: its hypotheses hold together for the toy battery, `EPS = 1e-5`,
60 passes, a connector (limit 20 kW, 3 kW fixed load now, 8 kW after the next event, a signal lowering the limit to
15 kW), a vehicle and a stationary battery. -/
example :
    PeakShaving.step toyOps ⟨1/100000, 4, 0, 900000000, 4 * 900000000, true, 60⟩
        [.load 900000000 "GC" "load" 8, .signal 1800000000 "GC" (some 15)]
        ⟨[⟨"GC", 20, none, [("load", 3)]⟩], [⟨"CS", "GC", 37/10, 0, 0⟩],
         [⟨"v", some "CS", 1, some (2 * 900000000), 0, false, 0, 1/2⟩], [⟨"B", "GC", 0, 1/2⟩]⟩ ≠ .error .fuel := by
  refine C17_peak_shaving_step_total_within_limit toyOps toyLaw toyLoadSat toySum toyNoFuel _ (by norm_num) _ ?_ _ ?_
  · intro e he
    have : e = .load 900000000 "GC" "load" 8 ∨ e = .signal 1800000000 "GC" (some 15) := by
      simpa [visibleEvents, isort, insertBy, Ev.start] using he
    rcases this with rfl | rfl <;> simp [Ev.start]
  · refine ⟨by simp [UniqueVehicles], by simp, ?_, ?_, ?_, ?_, ?_⟩
    · intro g hg
      simp only [List.mem_singleton] at hg
      subst hg
      norm_num
    · intro g hg
      simp only [List.mem_singleton] at hg
      subst hg
      norm_num [GcS.currentLoad]
    · intro g hg
      simp only [List.mem_singleton] at hg
      subst hg
      norm_num
    · intro g hg
      simp only [List.mem_singleton] at hg
      subst hg
      norm_num [loadPos, evPos]
    · intro g hg s p hm
      simp only [List.mem_singleton] at hg
      subst hg
      simp only [List.mem_cons, List.not_mem_nil, or_false, reduceCtorEq, false_or, Ev.signal.injEq,
        Option.some.injEq] at hm
      obtain ⟨_, _, rfl⟩ := hm
      norm_num

/-! Non-vacuity of the `no_battery` theorems (the battery of the world hangs on another connector), and of the
`_partial` theorems: their hypothesis `StepCurveBelow` / `CurveBelow` is what `C17_peak_shaving_step_total` derives
from `WorldBelowCount`, which holds in the example above. -/
example :
    PeakShaving.step toyOps ⟨1/100000, 4, 0, 900000000, 4 * 900000000, true, 0⟩ []
        ⟨[⟨"GC", 20, none, [("load", 3)]⟩], [⟨"CS", "GC", 37/10, 0, 0⟩],
         [⟨"v", some "CS", 1, some (2 * 900000000), 0, false, 0, 1/2⟩], [⟨"B", "GC2", 0, 1/2⟩]⟩ ≠ .error .fuel := by
  refine C17_peak_shaving_step_total_no_battery toyOps toyNoFuel _ (by norm_num) _ _ ?_
  intro b hb g hg
  simp only [List.mem_singleton] at hb hg
  subst hb; subst hg
  decide

example :
    PeakShaving.step toyOps ⟨1/100000, 4, 0, 900000000, 4 * 900000000, true, 60⟩
        [.load 900000000 "GC" "load" 8, .signal 1800000000 "GC" (some 15)]
        ⟨[⟨"GC", 2, none, [("load", 3)]⟩], [⟨"CS", "GC", 37/10, 0, 0⟩],
         [⟨"v", some "CS", 1, some (2 * 900000000), 0, false, 0, 1/2⟩], [⟨"B", "GC", 0, 1/2⟩]⟩ ≠ .error .fuel := by
  refine C17_peak_shaving_step_total_partial toyOps toyLaw toyNoFuel _ (by norm_num) _ _ ?_
  refine PeakShaving.Total.stepCurveBelow_of_count toyOps toyLaw toySum _ _ _ _ (37/10) ?_
  refine ⟨by simp, by norm_num, ?_, ?_, ?_, ?_, ?_⟩
  · intro cs hcs
    simp only [List.mem_singleton] at hcs
    subst hcs
    norm_num
  · intro g hg
    simp only [List.mem_singleton] at hg
    subst hg
    norm_num
  · intro g hg
    simp only [List.mem_singleton] at hg
    subst hg
    norm_num [loadPos, evPos]
  · intro g hg s p hm
    simp only [List.mem_singleton] at hg
    subst hg
    simp only [List.mem_cons, List.not_mem_nil, or_false, reduceCtorEq, false_or, Ev.signal.injEq,
      Option.some.injEq] at hm
    obtain ⟨_, _, rfl⟩ := hm
    norm_num
  · intro g hg
    simp only [List.mem_singleton] at hg
    subst hg
    norm_num [GcS.currentLoad]

/-! The same step evaluated: a connector with a fixed load of 3 kW now and 8 kW later (event), a vehicle that needs 5 kWh within
two steps and a stationary battery: the whole step (look-ahead, `fast_charge`, both bisections on 60 passes) ends
with commands, not with `FUEL`. -/
example :
    (match PeakShaving.step toyOps ⟨1/100000, 4, 0, 900000000, 4 * 900000000, true, 60⟩
        [.load 900000000 "GC" "load" 8]
        ⟨[⟨"GC", 20, none, [("load", 3)]⟩], [⟨"CS", "GC", 37/10, 0, 0⟩],
         [⟨"v", some "CS", 1, some (2 * 900000000), 0, false, 0, 1/2⟩], [⟨"B", "GC", 0, 1/2⟩]⟩ with
      | .ok (_, c, _) => c.map (·.1)
      | .error _ => []) = ["CS"] := by
  decide +kernel

/-! … and without a battery -/
example :
    (match PeakShaving.step toyOps ⟨1/100000, 4, 0, 900000000, 4 * 900000000, true, 60⟩ []
        ⟨[⟨"GC", 20, none, [("load", 3)]⟩], [⟨"CS", "GC", 37/10, 0, 0⟩],
         [⟨"v", some "CS", 1, some (2 * 900000000), 0, false, 0, 1/2⟩], []⟩ with
      | .ok (_, c, _) => c
      | .error _ => []) = [("CS", 37/10)] := by
  decide +kernel

end SpiceEv
