/-
Invariant of the SimBEV generator (Model/GenSimbev.lean), per vehicle file: the events of a file
are a list of stands (arrival, departure); every arrival announces the start of its departure;
every departure but the last announces the start of the next arrival (back-patched) and is not
later than it (the generator's own order assertion); the last departure announces nothing.
-/
import Mathlib.Algebra.Order.Field.Basic
import Mathlib.Tactic.Linarith
import SpiceEv.Proofs.Basic
import SpiceEv.Proofs.GenList
import SpiceEv.Proofs.GenStatistics
import SpiceEv.Proofs.GenCsvEvents
import SpiceEv.Model.GenSimbev

set_option linter.unusedSectionVars false
set_option linter.unusedSimpArgs false
set_option linter.unusedVariables false
namespace SpiceEv.Gen
variable {α : Type} [Field α] [LinearOrder α] [IsStrictOrderedRing α]

theorem patchAt_length_succ_append {β : Type} (f : β → β) (l1 : List β) (a x : β) (l2 : List β) :
    patchAt f (l1.length + 1) (l1 ++ a :: x :: l2) = l1 ++ a :: f x :: l2 := by
  induction l1 with
  | nil => rfl
  | cons b r ih => simp [patchAt, ih]

/-- one stand `(arrival, departure)` of a SimBEV vehicle -/
structure SimStandOK (Dur : Int → Prop) (vid : String) (s : Pair α) : Prop where
  ak : s.1.kind = .arrival
  dk : s.2.kind = .departure
  av : s.1.vehicle = vid
  dv : s.2.vehicle = vid
  etd : s.1.etd = some s.2.time
  cs : ∃ c, s.1.cs = some c
  dur : Dur (s.2.time - s.1.time)

/-- consecutive stands: announced arrival (back-patched) and the order assertion -/
def SLink (s s' : Pair α) : Prop := s.2.eta = some s'.1.time ∧ s.2.time ≤ s'.1.time

def SInv (Dur : Int → Prop) (vid : String) (L : SimLocal α) : Prop :=
  ∃ S : List (Pair α), L.events = flatPairs S ∧ (∀ s ∈ S, SimStandOK Dur vid s) ∧ ChainR SLink S ∧
    (L.lastArrivalIdx = none → S = []) ∧ (∀ i, L.lastArrivalIdx = some i → i + 2 = L.events.length) ∧
    (∀ s, S.getLast? = some s → s.2.eta = none ∧ s.2.time = L.departure)

/-- `SInv` after replacing the events by a desired-SoC patch of the last arrival -/
theorem SInv.patchDesired {Dur : Int → Prop} {vid : String} {L : SimLocal α} (h : SInv Dur vid L)
    (i : Nat) (hi : L.lastArrivalIdx = some i) (x : α) (L' : SimLocal α)
    (he : L'.events = patchAt (setDesired' x) i L.events) (hl : L'.lastArrivalIdx = L.lastArrivalIdx)
    (hd : L'.departure = L.departure) : SInv Dur vid L' := by
  obtain ⟨S, h1, h2, h3, h4, h5, h6⟩ := h
  have hlen := h5 i hi
  rcases List.eq_nil_or_concat S with hS | ⟨S0, s, hS⟩
  · subst hS; simp [h1, flatPairs] at hlen
  · rw [List.concat_eq_append] at hS
    subst hS
    have h2len : (flatPairs (S0 ++ [s])).length = (flatPairs S0).length + 2 := by simp
    have hidx : i = (flatPairs S0).length := by rw [h1, h2len] at hlen; omega
    have hev : L.events = flatPairs S0 ++ s.1 :: [s.2] := by rw [h1]; simp
    have hp : L'.events = flatPairs (S0 ++ [(setDesired' x s.1, s.2)]) := by
      rw [he, hidx, hev, patchAt_length_append]; simp
    have hs := h2 s (by simp)
    refine ⟨S0 ++ [(setDesired' x s.1, s.2)], hp, ?_, ?_, ?_, ?_, ?_⟩
    · intro y hy
      rcases List.mem_append.mp hy with hy | hy
      · exact h2 y (by simp [hy])
      · have : y = (setDesired' x s.1, s.2) := by simpa using hy
        subst this
        exact ⟨hs.ak, hs.dk, hs.av, hs.dv, hs.etd, hs.cs, hs.dur⟩
    · rw [chainR_snoc] at h3 ⊢
      exact ⟨h3.1, fun y hy => h3.2 y hy⟩
    · intro hn; rw [hl, hi] at hn; simp at hn
    · intro k hk
      rw [hl, hi] at hk
      have : i = k := Option.some.inj hk
      subst this
      rw [he, length_patchAt]; exact hlen
    · intro y hy
      have : y = (setDesired' x s.1, s.2) := by simpa using hy.symm
      subst this
      rw [hd]
      exact h6 s (by simp)

theorem simDecide_inv (P : SimParams α) (Dur : Int → Prop) (vid : String) (capacity : α)
    (L : SimLocal α) (row : SimRow α) (r : Option (α × α) × SimLocal α)
    (h : simDecide P capacity L row = .ok r) (hi : SInv Dur vid L) :
    SInv Dur vid r.2 ∧ r.2.departure = L.departure := by
  have hcongr : ∀ L' : SimLocal α, L'.events = L.events → L'.lastArrivalIdx = L.lastArrivalIdx →
      L'.departure = L.departure → SInv Dur vid L' := by
    intro L' he hl hd
    unfold SInv at hi ⊢
    rw [he, hl, hd]; exact hi
  unfold simDecide at h
  dsimp only at h
  split at h
  · split at h
    · simp only [Except.ok.injEq] at h; subst h
      exact ⟨hcongr _ rfl rfl rfl, rfl⟩
    · simp only [Except.ok.injEq] at h; subst h
      exact ⟨hi, rfl⟩
  · split at h
    · cases hd : pydiv (pyabs (pymin row.energy 0)) capacity with
      | error e => rw [hd] at h; simp only [bind, Except.bind] at h; exact absurd h (by simp)
      | ok inc =>
        rw [hd] at h
        simp only [bind, Except.bind] at h
        cases ha : pyassert (decide (L.socNeeded + inc ≤ 1 + L.vehicleSoc + P.tolerance)) with
        | error e => rw [ha] at h; exact absurd h (by simp)
        | ok u =>
          rw [ha] at h
          simp only [Except.ok.injEq] at h; subst h
          exact ⟨hcongr _ rfl rfl rfl, rfl⟩
    · split at h
      · rename_i hl
        cases ha : pyassert (decide (L.socNeeded - P.tolerance ≤ L.vehicleSoc)) with
        | error e => rw [ha] at h; simp only [bind, Except.bind] at h; exact absurd h (by simp)
        | ok u =>
          rw [ha] at h
          simp only [bind, Except.bind, Except.ok.injEq] at h; subst h
          exact ⟨hcongr _ rfl rfl rfl, rfl⟩
      · rename_i i hl
        simp only [Except.ok.injEq] at h; subst h
        exact ⟨hi.patchDesired i hl _ _ rfl rfl rfl, rfl⟩

theorem simCharge_inv (P : SimParams α) (Dur : Int → Prop) (vid : String) (G G' : SimState α)
    (L L' : SimLocal α) (idx : Nat) (row : SimRow α) (desired delta : α)
    (h : simCharge P vid G L idx row desired delta = .ok (G', L'))
    (hdur : Dur (P.interval * row.eventTime)) (hi : SInv Dur vid L) :
    SInv Dur vid L' ∧ G'.events = G.events := by
  unfold simCharge at h
  dsimp only at h
  cases ha : pyassert (decide (L.departure ≤ P.start + P.interval * row.eventStart)) with
  | error e => simp [ha, bind, Except.bind] at h
  | ok u =>
    have hle : L.departure ≤ P.start + P.interval * row.eventStart := by
      unfold pyassert at ha
      split at ha
      · rename_i hc; simpa using hc
      · simp at ha
    simp only [ha, bind, Except.bind, Except.ok.injEq, Prod.mk.injEq] at h
    obtain ⟨rfl, rfl⟩ := h
    refine ⟨?_, rfl⟩
    obtain ⟨S, h1, h2, h3, h4, h5, h6⟩ := hi
    set arrival := P.start + P.interval * row.eventStart with harr
    set departure := P.start + P.interval * (row.eventStart + row.eventTime) with hdep
    set A := simArrEvent vid (simStation G.stations vid row.location idx row.stationPower).1
      arrival departure desired delta with hA
    set D : VEvent α := simDepEvent vid departure with hD
    have hAD : SimStandOK Dur vid (A, D) :=
      ⟨rfl, rfl, rfl, rfl, rfl, ⟨_, rfl⟩, by
        show Dur (departure - arrival)
        have : departure - arrival = P.interval * row.eventTime := by rw [hdep, harr]; ring
        rw [this]; exact hdur⟩
    cases hl : L.lastArrivalIdx with
    | none =>
      have hS : S = [] := h4 hl
      subst hS
      dsimp only
      refine ⟨[(A, D)], ?_, ?_, ?_, ?_, ?_, ?_⟩
      · show L.events ++ [A] ++ [D] = _
        rw [h1]; simp [flatPairs]
      · intro s hs
        have : s = (A, D) := by simpa using hs
        subst this; exact hAD
      · simp [ChainR]
      · intro hn; simp at hn
      · intro k hk
        have hk' : some ((L.events ++ [A]).length - 1) = some k := hk
        have := Option.some.inj hk'
        show k + 2 = (L.events ++ [A] ++ [D]).length
        simp at this ⊢; omega
      · intro s hs
        have : s = (A, D) := by simpa using hs.symm
        subst this; exact ⟨rfl, rfl⟩
    | some i =>
      have hlen := h5 i hl
      rcases List.eq_nil_or_concat S with hS | ⟨S0, s, hS⟩
      · subst hS; simp [h1, flatPairs] at hlen
      · rw [List.concat_eq_append] at hS
        subst hS
        have h2len : (flatPairs (S0 ++ [s])).length = (flatPairs S0).length + 2 := by simp
        have hidx : i = (flatPairs S0).length := by rw [h1, h2len] at hlen; omega
        have hev : L.events ++ [A] = flatPairs S0 ++ s.1 :: s.2 :: [A] := by rw [h1]; simp
        have hp : patchAt (setEta arrival) (i + 1) (L.events ++ [A])
            = flatPairs S0 ++ s.1 :: setEta arrival s.2 :: [A] := by
          rw [hidx, hev, patchAt_length_succ_append]
        have hs := h2 s (by simp)
        have hs6 := h6 s (by simp)
        dsimp only
        rw [hp]
        refine ⟨S0 ++ [(s.1, setEta arrival s.2)] ++ [(A, D)], ?_, ?_, ?_, ?_, ?_, ?_⟩
        · simp [flatPairs]
        · intro y hy
          rcases List.mem_append.mp hy with hy | hy
          · rcases List.mem_append.mp hy with hy | hy
            · exact h2 y (by simp [hy])
            · have : y = (s.1, setEta arrival s.2) := by simpa using hy
              subst this
              exact ⟨hs.ak, hs.dk, hs.av, hs.dv, hs.etd, hs.cs, hs.dur⟩
          · have : y = (A, D) := by simpa using hy
            subst this; exact hAD
        · rw [chainR_snoc]
          refine ⟨?_, ?_⟩
          · rw [chainR_snoc] at h3 ⊢
            exact ⟨h3.1, fun y hy => h3.2 y hy⟩
          · intro y hy
            have : y = (s.1, setEta arrival s.2) := by simpa using hy.symm
            subst this
            refine ⟨rfl, ?_⟩
            show s.2.time ≤ arrival
            rw [hs6.2]; exact hle
        · intro hn; simp at hn
        · intro k hk
          have hk' : some ((flatPairs S0 ++ s.1 :: setEta arrival s.2 :: [A]).length - 1) = some k := hk
          have := Option.some.inj hk'
          show k + 2 = (flatPairs S0 ++ s.1 :: setEta arrival s.2 :: [A] ++ [D]).length
          simp at this ⊢; omega
        · intro y hy
          have : y = (A, D) := by simpa using hy.symm
          subst this; exact ⟨rfl, rfl⟩

theorem simRowStep_inv (P : SimParams α) (Dur : Int → Prop) (vid vtype : String) (capacity : α)
    (G G' : SimState α) (L L' : SimLocal α) (idx : Nat) (row : SimRow α)
    (h : simRowStep P vid vtype capacity G L idx row = .ok (G', L'))
    (hdur : Dur (P.interval * row.eventTime)) (hi : SInv Dur vid L) :
    SInv Dur vid L' ∧ G'.events = G.events := by
  unfold simRowStep at h
  have hinit : SInv Dur vid (simInit vid vtype G L idx row).2 ∧
      (simInit vid vtype G L idx row).1.events = G.events := by
    unfold simInit
    dsimp only
    split
    · refine ⟨?_, rfl⟩
      unfold SInv at hi ⊢
      exact hi
    · exact ⟨hi, rfl⟩
  cases hc : simChecks row with
  | error e => simp [hc, bind, Except.bind] at h
  | ok u =>
    simp only [hc, bind, Except.bind] at h
    cases hd : simDecide P capacity (simInit vid vtype G L idx row).2 row with
    | error e => simp [hd] at h
    | ok r =>
      simp only [hd] at h
      obtain ⟨hr, _⟩ := simDecide_inv P Dur vid capacity _ row r hd hinit.1
      split at h
      · simp only [Except.ok.injEq, Prod.mk.injEq] at h
        obtain ⟨rfl, rfl⟩ := h
        exact ⟨hr, hinit.2⟩
      · rename_i desired delta _
        obtain ⟨h1, h2⟩ := simCharge_inv P Dur vid _ G' r.2 L' idx row desired delta h hdur hr
        exact ⟨h1, by rw [h2]; exact hinit.2⟩

theorem simRows_inv (P : SimParams α) (Dur : Int → Prop) (vid vtype : String) (capacity : α) :
    ∀ (rows : List (SimRow α)) (G G' : SimState α) (L L' : SimLocal α) (idx : Nat),
      simRows P vid vtype capacity G L idx rows = .ok (G', L') →
      (∀ r ∈ rows, Dur (P.interval * r.eventTime)) → SInv Dur vid L →
      SInv Dur vid L' ∧ G'.events = G.events
  | [], G, G', L, L', idx, h, _, hi => by
    simp only [simRows, Except.ok.injEq, Prod.mk.injEq] at h
    obtain ⟨rfl, rfl⟩ := h
    exact ⟨hi, rfl⟩
  | row :: rest, G, G', L, L', idx, h, hd, hi => by
    simp only [simRows] at h
    cases h1 : simRowStep P vid vtype capacity G L idx row with
    | error e => simp [h1, bind, Except.bind] at h
    | ok GL =>
      obtain ⟨G1, L1⟩ := GL
      simp only [h1, bind, Except.bind] at h
      obtain ⟨i1, i2⟩ := simRowStep_inv P Dur vid vtype capacity G G1 L L1 idx row h1 (hd row (by simp)) hi
      obtain ⟨j1, j2⟩ := simRows_inv P Dur vid vtype capacity rest G1 G' L1 L' (idx + 1) h
        (fun r hr => hd r (by simp [hr])) i1
      exact ⟨j1, by rw [j2, i2]⟩

/-- the block of events a vehicle file contributes -/
def SimBlock (Dur : Int → Prop) (b : List (VEvent α)) : Prop :=
  ∃ (vid : String) (S : List (Pair α)), b = flatPairs S ∧ (∀ s ∈ S, SimStandOK Dur vid s) ∧
    ChainR SLink S ∧ ∀ s, S.getLast? = some s → s.2.eta = none

theorem simFile_inv (P : SimParams α) (Dur : Int → Prop) (G G' : SimState α) (f : SimFile α)
    (h : simFile P G f = .ok G') (hd : ∀ r ∈ f.rows, Dur (P.interval * r.eventTime)) :
    ∃ b, G'.events = G.events ++ b ∧ SimBlock Dur b := by
  unfold simFile at h
  split at h
  · simp at h
  · rename_i nm typeCap hfind
    dsimp only at h
    set L0 : SimLocal α :=
      { events := [], lastArrivalIdx := none, socNeeded := 0, vehicleSoc := 0, departure := P.start }
    have hL0 : SInv Dur (simVid G f) L0 :=
      ⟨[], rfl, by simp, trivial, fun _ => rfl, fun i hi => by simp [L0] at hi, by simp⟩
    generalize hct : (if (!numEq' typeCap f.fileCapacity && P.verbose) = true then
        (f.fileCapacity, List.map (fun t => if (t.1 == f.vtype) = true then (t.1, f.fileCapacity) else t) G.types)
      else (typeCap, G.types)) = ct at h
    cases hr : simRows P (simVid G f) f.vtype ct.1 { G with types := ct.2 } L0 0 f.rows with
    | error e => simp [hr, bind, Except.bind] at h
    | ok GL =>
      obtain ⟨G1, L1⟩ := GL
      simp only [hr, bind, Except.bind, Except.ok.injEq] at h
      subst h
      obtain ⟨⟨S, s1, s2, s3, _, _, s6⟩, hev⟩ := simRows_inv P Dur _ _ _ f.rows _ G1 L0 L1 0 hr hd hL0
      exact ⟨L1.events, by simp [hev], simVid G f, S, s1, s2, s3, fun s hs => (s6 s hs).1⟩

theorem simFiles_inv (P : SimParams α) (Dur : Int → Prop) :
    ∀ (files : List (SimFile α)) (G G' : SimState α),
      files.foldlM (simFile P) G = .ok G' →
      (∀ f ∈ files, ∀ r ∈ f.rows, Dur (P.interval * r.eventTime)) →
      ∃ blocks : List (List (VEvent α)), G'.events = G.events ++ blocks.flatten ∧
        blocks.length = files.length ∧ ∀ b ∈ blocks, SimBlock Dur b
  | [], G, G', h, _ => by
    simp [pure, Except.pure] at h
    subst h
    exact ⟨[], by simp, rfl, by simp⟩
  | f :: files, G, G', h, hd => by
    rw [List.foldlM_cons] at h
    cases h1 : simFile P G f with
    | error e => simp [h1, bind, Except.bind] at h
    | ok G1 =>
      simp only [h1, bind, Except.bind] at h
      obtain ⟨b, hb1, hb2⟩ := simFile_inv P Dur G G1 f h1 (hd f (by simp))
      obtain ⟨blocks, i1, i2, i3⟩ := simFiles_inv P Dur files G1 G' h (fun g hg => hd g (by simp [hg]))
      refine ⟨b :: blocks, by rw [i1, hb1]; simp, by simp [i2], ?_⟩
      intro x hx
      rcases List.mem_cons.mp hx with rfl | hx
      · exact hb2
      · exact i3 x hx

end SpiceEv.Gen
