/-
The DOCUMENTED rule of `greedy` and `balanced` (doc/source/charging_strategies_incentives.rst, class doc strings,
property C10) as a specification a reader can check in minutes.  It is NOT the transliteration (`ruleStep`,
Model/Strategies.lean, tied to the code bit for bit); `C10_ruleStep_refines_spec` proves `ruleStep = specStep` on
well-formed worlds.  Differences in form: the price class of a connector is fixed once per step, vehicles and batteries
are visited as RECORDS (sorted by id / fleet order) instead of being looked up by id again, the offered power is one
closed expression per case, all three vehicle passes book through `book`.  Same number type, `BatOps` and world as
the model; executable (driver command `specstep`).
-/
import SpiceEv.Model.Strategies
namespace SpiceEv.RuleSpec
open SpiceEv
section
variable {α B : Type} [Add α] [Sub α] [Mul α] [Div α] [Neg α] [LT α] [LE α]
  [DecidableLT α] [DecidableLE α] [OfNat α 0] [OfNat α 1] [NatCast α] [IntCast α]

/-- for every connector: is `get_cost(1, cost) ≤ PRICE_THRESHOLD`?  (a connector without price: KeyError) -/
def priceTable (env : StratEnv α) (w : SWorld α B) : Py (List (String × Bool)) :=
  w.gcs.mapM (fun g => do let c ← gcCheap env g; pure (g.id, c))
def cheapAt (t : List (String × Bool)) (gcId : String) : Bool := (sdGet t gcId).getD false

/-- connector headroom: present limit minus everything booked on the connector so far -/
def headroom (g : GcS α) : α := g.curMax - g.currentLoad

/-- "below its desired SoC" (by more than ε) -/
def needsCharge (ops : BatOps α B) (env : StratEnv α) (v : VehicleS α B) : Bool :=
  decide (env.eps < v.desiredSoc - ops.soc v.bat)

/-- the power [kW] that would reach the desired SoC within this one step: ΔSoC · capacity / η · steps per hour -/
def powerNeeded (ops : BatOps α B) (env : StratEnv α) (v : VehicleS α B) : α :=
  (v.desiredSoc - ops.soc v.bat) * ops.capacity v.bat / ops.efficiency v.bat * env.tsPerHour

/-- remaining steps until the announced departure, `⌈(etd − now)/Δ⌉` (no departure known: TypeError) -/
def remainingSteps (env : StratEnv α) (v : VehicleS α B) : Py Int :=
  match v.etd with
  | none => .error .typeError
  | some etd => .ok (ceilDiv (etd - env.now) env.interval)

/-- station/vehicle limits: nothing when the station total would stay below the station's or the vehicle's minimum
power (cut-off), otherwise at most what the station has left, never negative -/
def stationClamp (cs : StationS α) (v : VehicleS α B) (p : α) : α :=
  let total := pymin (cs.currentPower + p) cs.maxPower
  if total < cs.minPower ∨ total < v.minChargingPower then 0
  else pymax (pymin p (cs.maxPower - cs.currentPower)) 0

/-- **the offered power** of the allocation pass.
cheap price → the whole headroom; below desired SoC → greedy: what is needed now, at most headroom + battery support;
balanced: the constant power that reaches the desired SoC at departure, `needed / remaining steps`, at most the
headroom (no step left, i.e. past the announced departure: the whole headroom); otherwise nothing -/
def offered (rule : Rule) (ops : BatOps α B) (env : StratEnv α) (cheap : Bool) (head support : α)
    (cs : StationS α) (v : VehicleS α B) : Py α :=
  if cheap then .ok (stationClamp cs v head)
  else if needsCharge ops env v = false then .ok 0
  else match rule with
    | .greedy => .ok (stationClamp cs v (pymin (powerNeeded ops env v) (head + support)))
    | .balanced => do
      let n ← remainingSteps env v
      .ok (stationClamp cs v (if 0 < n then pymin (powerNeeded ops env v / ((n : Int) : α)) head else head))

/-- how the offer is handed to the vehicle battery: greedy at a cheap price charges with AT MOST `p` up to a full
battery and does not touch a satisfied vehicle otherwise; every other case asks for EXACTLY `p` (target power) -/
def charge (rule : Rule) (ops : BatOps α B) (cheap needs : Bool) (v : VehicleS α B) (p : α) : Py (B × α) :=
  match rule, cheap, needs with
  | .greedy, true, _ => ops.load v.bat (some p) none none
  | .greedy, false, false => .ok (v.bat, 0)
  | _, _, _ => ops.load v.bat none none (some p)

/-- the station a vehicle is connected to and that station's connector (`none`: not connected; dangling: KeyError) -/
def site (w : SWorld α B) (v : VehicleS α B) : Py (Option (String × StationS α × GcS α)) :=
  match v.cs with
  | none => .ok none
  | some csId =>
    match w.station? csId with
    | none => .error .keyError
    | some cs => match w.gc? cs.parent with
      | none => .error .keyError
      | some gc => .ok (some (csId, cs, gc))

/-- book the signed average power `p` that vehicle `v` (battery afterwards `bat'`) really took: the connector's load
under the station's key and the station's power move by `p`; the command of the station is the connector's entry -/
def book (st : SWorld α B × List (String × α)) (csId : String) (cs : StationS α) (gc : GcS α)
    (v : VehicleS α B) (bat' : B) (p : α) : SWorld α B × List (String × α) :=
  let (gc', entry) := gc.addLoad csId p
  ((((st.1.setVehicle { v with bat := bat' }).setGc gc').setStation { cs with currentPower := cs.currentPower + p }),
   sdSet st.2 csId entry)

/-- allocation pass, one vehicle; `support` = what the stationary batteries of each connector can still contribute -/
def allocate (rule : Rule) (ops : BatOps α B) (env : StratEnv α) (price : List (String × Bool))
    (st : SWorld α B × List (String × α) × List (String × α)) (v : VehicleS α B) :
    Py (SWorld α B × List (String × α) × List (String × α)) := do
  match ← site st.1 v with
  | none => .ok st
  | some (csId, cs, gc) =>
    let cheap := cheapAt price cs.parent
    let sup : α := (sdGet st.2.2 cs.parent).getD 0
    let p ← offered rule ops env cheap (headroom gc) sup cs v
    let (bat', avg) ← charge rule ops cheap (needsCharge ops env v) v p
    let (w, cmds) := book (st.1, st.2.1) csId cs gc v bat' avg
    let counts := !cheap && needsCharge ops env v      -- charging a needy vehicle uses up battery support
    .ok (w, cmds, if counts then sdSet st.2.2 cs.parent (pymax (sup - avg) 0) else st.2.2)

/-- surplus pass, one vehicle.  Connector feeds in (load < −ε): charge with at most the clamped surplus, up to a full
battery.  Connector draws (load > ε), vehicle above its desired SoC, V2G capable, station idle, price not cheap:
discharge with at most min(draw, discharge-curve maximum, station maximum), not below max(desired SoC, discharge limit) -/
def surplusOrSupport (ops : BatOps α B) (env : StratEnv α) (price : List (String × Bool))
    (st : SWorld α B × List (String × α)) (v : VehicleS α B) : Py (SWorld α B × List (String × α)) := do
  match ← site st.1 v with
  | none => .ok st
  | some (csId, cs, gc) =>
    let surplus := -gc.currentLoad
    if env.eps < surplus then do
      let (bat', avg) ← ops.load v.bat (some (stationClamp cs v surplus)) none none
      .ok (book st csId cs gc v bat' avg)
    else if surplus < -env.eps ∧ v.desiredSoc - ops.soc v.bat < -env.eps ∧ v.v2g = true
        ∧ pyabs ((sdGet gc.loads csId).getD 0) < env.eps ∧ cheapAt price cs.parent = false then do
      let (bat', avg) ← ops.unload v.bat (some (pymin (pymin (-surplus) (ops.unloadMaxPower v.bat)) cs.maxPower))
        (some (pymax v.desiredSoc v.dischargeLimit)) none
      .ok (book st csId cs gc v bat' (-avg))
    else .ok st

/-- stationary-battery policy, one battery: cheap price → charge with at most the headroom; surplus → absorb exactly
the surplus (both only from the battery's minimum charging power on); connector draws → cover exactly the draw -/
def batteryPolicy (ops : BatOps α B) (price : List (String × Bool)) (w : SWorld α B) (b : StatBatS α B) :
    Py (SWorld α B) :=
  match w.gc? b.parent with
  | none => .ok w
  | some gc => do
    let load := gc.currentLoad
    let fromMin (p : α) : α := if p < b.minChargingPower then 0 else p
    let (bat', delta) ←
      if cheapAt price b.parent then ops.load b.bat (some (fromMin (headroom gc))) none none
      else if load < 0 then ops.load b.bat none none (some (fromMin (-load)))
      else (fun r => (r.1, -r.2)) <$> ops.unload b.bat none none (some load)
    .ok ((w.setBattery { b with bat := bat' }).setGc (gc.addLoad b.id delta).1)

/-- the vehicles in ascending id order (stable) -/
def vehiclesById (w : SWorld α B) : List (VehicleS α B) := w.vehicles.mergeSort (fun a b => decide (a.id ≤ b.id))

/-- **one step of the documented rule** ↦ (world', commands) -/
def specStep (rule : Rule) (ops : BatOps α B) (env : StratEnv α) (w : SWorld α B) :
    Py (SWorld α B × List (String × α)) := do
  let price ← priceTable env w
  let support ← availBatPower ops w                    -- Σ available power of the batteries at each connector
  let w := resetStations w                             -- nothing charged yet in this step
  let (w, cmds, _) ← (vehiclesById w).foldlM (allocate rule ops env price) (w, [], support)
  let (w, cmds2) ← w.vehicles.foldlM (surplusOrSupport ops env price) (w, [])
  let w ← w.batteries.foldlM (batteryPolicy ops price) w
  .ok (w, sdUpdate cmds cmds2)
end
end SpiceEv.RuleSpec
