"""Scenario / grid-file generator and run-time capture for the C13 check (used by c13.py).

Everything derives from a `random.Random` handed in; the produced case is a plain JSON object that
contains the complete scenario, the grid CSV text and the argument namespace, so that a replay file
is self-contained.
"""
import copy
import datetime as dt
import io
import json
import sys
from pathlib import Path

TZS = ["+02:00", "+00:00", "", "+02:00", "-05:00"]


def _iso(t):
    return t.isoformat()


def gen_scenario(rnd, size="small"):
    """one-connector scenario (dict in the JSON layout of spice_ev) + human readable tags"""
    tags = []
    interval_min = rnd.choice([15, 15, 30, 60, 60, 20, 10])
    if size == "small":
        n = rnd.randint(4, 28)
    elif size == "long":
        n = rnd.randint(40, 110)
    else:
        n = rnd.randint(8, 60)
    tz = rnd.choice(TZS)
    day = rnd.randint(1, 9)
    hour = rnd.choice([0, 0, 5, 6, 9, 11, 12, 13, 21, 23])
    minute = rnd.choice([0, 0, 0, 15, 30, 7])
    start = dt.datetime.fromisoformat("2023-01-%02dT%02d:%02d:00%s" % (day, hour, minute, tz))
    interval = dt.timedelta(minutes=interval_min)
    gc_power = rnd.choice([20, 50, 100, 11, 3.7, 35.5])
    vtypes = {}
    for i in range(rnd.randint(1, 2)):
        p = rnd.choice([3.7, 11, 22, 50, 150])
        curve = rnd.choice([[[0, p], [1, p]], [[0, p], [0.8, p], [1, p / 4]]])
        vt = {"name": "t%d" % i, "capacity": rnd.choice([30, 50, 76, 200]), "mileage": 40,
              "charging_curve": curve, "min_charging_power": rnd.choice([0, 0, 0.5]),
              "battery_efficiency": rnd.choice([0.8, 0.95, 1.0, 0.9]),
              "v2g": rnd.random() < 0.4}
        if vt["v2g"]:
            vt["v2g_power_factor"] = rnd.choice([0.5, 1.0, 0.25])
            vt["discharge_limit"] = rnd.choice([0.5, 0.2, 0.0])
            tags.append("v2g")
        vtypes["t%d" % i] = vt
    n_v = rnd.choice([1, 1, 2, 2, 3])
    vehicles, stations, vevents = {}, {}, []
    stop = start + interval * n
    for v in range(n_v):
        vid = "v%d" % v
        cs = "CS_" + vid
        stations[cs] = {"max_power": rnd.choice([11, 22, 3.7, 50]), "min_power": rnd.choice([0, 0, 1]),
                        "parent": "GC1"}
        vt = rnd.choice(sorted(vtypes))
        connected = rnd.random() < 0.6
        veh = {"vehicle_type": vt, "soc": rnd.choice([0.2, 0.5, 0.8, 1.0, 0.35]),
               "desired_soc": rnd.choice([0.8, 1.0, 0.5, 1.0])}
        # alternating departure / arrival events
        t = start
        on_grid = rnd.random() < 0.6

        def adv(lo, hi):
            k = rnd.randint(lo, hi)
            d = interval * k
            if not on_grid:
                d += dt.timedelta(minutes=rnd.randint(0, interval_min - 1))
            return d
        state = connected
        first = True
        while True:
            t = t + adv(0 if first and not state else 1, max(2, n // 2))
            first = False
            if t >= stop + interval * 2:
                break
            if state:
                # departure
                if "estimated_time_of_departure" not in veh and connected:
                    veh["estimated_time_of_departure"] = _iso(t)
                vevents.append({"signal_time": _iso(t), "start_time": _iso(t), "vehicle_id": vid,
                                "event_type": "departure",
                                "update": {"estimated_time_of_arrival": _iso(t + interval * 3)}})
                state = False
            else:
                dep = t + adv(1, max(2, n // 2))
                sig = t - interval * rnd.choice([0, 0, 1, 4])
                vevents.append({"signal_time": _iso(sig), "start_time": _iso(t), "vehicle_id": vid,
                                "event_type": "arrival",
                                "update": {"connected_charging_station": cs,
                                           "estimated_time_of_departure": _iso(dep),
                                           "desired_soc": rnd.choice([0.8, 1.0, 1.0, 0.6]),
                                           "soc_delta": -rnd.choice([0.1, 0.3, 0.5, 0.05])}})
                state = True
        if connected:
            veh["connected_charging_station"] = cs
            if "estimated_time_of_departure" not in veh and rnd.random() < 0.7:
                veh["estimated_time_of_departure"] = _iso(stop + interval * rnd.randint(0, 3))
        vehicles[vid] = veh
    batteries = {}
    if rnd.random() < 0.35:
        bp = rnd.choice([10, 25, 50, 5.5])
        batteries["BAT1"] = {"parent": "GC1", "capacity": rnd.choice([50, 100, 20, 75.5]),
                             "charging_curve": [[0, bp], [1, bp]],
                             "soc": rnd.choice([0, 0, 0.5, 1.0, 0.25]),
                             "efficiency": rnd.choice([0.95, 0.9, 1.0])}
        tags.append("battery")
        if batteries["BAT1"]["soc"] > 0:
            tags.append("battery_stored")
    ev = {"grid_operator_signals": [], "fixed_load": {}, "local_generation": {},
          "vehicle_events": vevents}
    if rnd.random() < 0.5:
        k = rnd.choice([1, 1, 2])
        dur = interval_min * 60 * k
        m = -(-n // k) + rnd.randint(-2, 1)
        hi = rnd.choice([5, 20, gc_power, gc_power * 1.5])
        ev["fixed_load"]["L1"] = {"start_time": _iso(start + interval * rnd.choice([0, 0, 1, -1])),
                                  "step_duration_s": dur, "grid_connector_id": "GC1",
                                  "values": [round(rnd.uniform(0, hi), rnd.choice([0, 1, 3]))
                                             for _ in range(max(1, m))]}
        tags.append("fixed_load")
    if rnd.random() < 0.5:
        k = rnd.choice([1, 1, 2])
        dur = interval_min * 60 * k
        m = -(-n // k) + rnd.randint(-2, 1)
        hi = rnd.choice([5, 30, gc_power, gc_power * 2.5])
        ev["local_generation"]["PV1"] = {"start_time": _iso(start), "step_duration_s": dur,
                                         "grid_connector_id": "GC1",
                                         "values": [round(max(0, rnd.uniform(-hi / 2, hi)), rnd.choice([0, 1, 3]))
                                                    for _ in range(max(1, m))]}
        tags.append("generation")
    if rnd.random() < 0.25:
        for _ in range(rnd.randint(1, 3)):
            t = start + interval * rnd.randint(0, n)
            ev["grid_operator_signals"].append(
                {"signal_time": _iso(t - interval * rnd.choice([0, 2])), "start_time": _iso(t),
                 "grid_connector_id": "GC1",
                 "max_power": rnd.choice([gc_power / 2, gc_power, gc_power * 2, 5, None])})
        tags.append("gc_limit_events")
    csts = [None, None,
            {"times": [{"start": [22, 0], "end": [5, 0]}]},
            {"times": [{"start": [8, 0], "end": [16, 0]}], "no_drive_days": [6]},
            {"times": [{"start": [0, 0], "end": [23, 59]}]},
            {"times": [{"start": [12, 0], "end": [12, 0]}], "holidays": ["2023-01-%02d" % day]},
            {"times": [{"start": [18, 30], "end": [6, 15]}, {"start": [11, 0], "end": [13, 0]}],
             "no_drive_days": [5, 6]}]
    scen_cst = rnd.choice(csts) if rnd.random() < 0.4 else None
    sc = {"scenario": {"start_time": _iso(start), "interval": interval_min, "n_intervals": n,
                       "core_standing_time": scen_cst},
          "components": {"vehicle_types": vtypes, "vehicles": vehicles,
                         "grid_connectors": {"GC1": {"max_power": gc_power,
                                                     "cost": {"type": "fixed", "value": 0.3}}},
                         "charging_stations": stations, "batteries": batteries, "photovoltaics": {}},
          "events": ev}
    arg_cst = rnd.choice(csts) if rnd.random() < 0.6 else None
    return sc, arg_cst, tags


def gen_grid_csv(rnd, sc):
    """grid situation file text + tags"""
    tags = []
    n = sc["scenario"]["n_intervals"]
    interval = dt.timedelta(minutes=sc["scenario"]["interval"])
    start = dt.datetime.fromisoformat(sc["scenario"]["start_time"]).replace(tzinfo=None)
    mode = rnd.choice(["equal", "shorter", "longer", "longer", "equal"])
    m = {"equal": n, "shorter": rnd.randint(1, max(1, n - 1)), "longer": n + rnd.randint(1, 20)}[mode]
    tags.append("grid_" + mode)
    ts_mode = rnd.choice(["good", "good", "bad", "none"])
    off = 0
    if ts_mode == "good":
        off = rnd.choice([0, 0, -3, 2, 5, -m - 2, m, m + 3, 1])
        tags.append("grid_ts_offset_%s" % ("zero" if off == 0 else ("before" if off < 0 else "after")))
    else:
        tags.append("grid_ts_" + ts_mode)
    g0 = start + interval * off
    if ts_mode == "good" and rnd.random() < 0.2:
        g0 += dt.timedelta(minutes=rnd.choice([1, 7]))   # off-grid series
        tags.append("grid_ts_offgrid")
    sign = rnd.choice([1, 1, -1])
    tags.append("curt_" + ("pos" if sign > 0 else "neg"))
    amp = rnd.choice([10, 50, 100, 3])
    profile = rnd.choice(["noise", "flat", "zero", "steps"])
    rows = []
    level = rnd.uniform(-amp, amp)
    for i in range(m):
        if profile == "noise":
            r = round(rnd.uniform(-amp, amp), rnd.choice([0, 1, 3]))
        elif profile == "flat":
            r = round(level, 1)
        elif profile == "zero":
            r = 0
        else:
            if rnd.random() < 0.2:
                level = rnd.uniform(-amp, amp)
            r = round(level, 2)
        c = 0
        if rnd.random() < 0.3:
            c = rnd.choice([round(rnd.uniform(0, amp), 2), 1e-5, 2e-5, 5, 0.5])
        rs, cs = repr(r), repr(sign * c) if c else "0"
        if rnd.random() < 0.01:
            rs = "n/a"
        if rnd.random() < 0.01:
            cs = ""
        rows.append((g0 + interval * i, rs, cs))
    cols = rnd.choice([["timestamp", "curtailment", "residual load"],
                       ["timestep", "timestamp", "residual load", "curtailment"],
                       ["residual load", "curtailment"]])
    if ts_mode == "none":
        cols = [c for c in cols if c != "timestamp"]
    elif "timestamp" not in cols:
        cols = ["timestamp"] + cols
    out = io.StringIO()
    out.write(",".join(cols) + "\n")
    for i, (t, rs, cs) in enumerate(rows):
        f = {"timestep": str(i), "residual load": rs, "curtailment": cs,
             "timestamp": t.strftime("%Y-%m-%d %H:%M") if ts_mode == "good" else t.strftime("%d.%m.%Y %H:%M")}
        out.write(",".join(f[c] for c in cols) + "\n")
    return out.getvalue(), tags


# ------------------------------------------------------------------------------------------
# run-time capture

class Capture:
    """wraps generate_flex_band / generate_individual_flex_band (module attributes) and observes the
    nested distribute_energy_balanced and the frame of generate_schedule through sys.setprofile.
    The real functions run unchanged; only copies of their inputs/outputs are recorded."""

    def __init__(self, gs_module):
        self.gs = gs_module
        self.flex = None
        self.flex_kind = None
        self.calls = []
        self.final = None
        self.pre = None
        self._stack = []

    @staticmethod
    def _state(loc):
        return {"schedule": list(loc["schedule"]), "avail_min": list(loc["avail"]["min"]),
                "avail_max": list(loc["avail"]["max"]), "curtailment": list(loc["curtailment"]),
                "residual": list(loc["residual_load"]), "flex_min": list(loc["flex"]["min"]),
                "flex_max": list(loc["flex"]["max"]),
                "vsched": {k: list(v) for k, v in loc["vehicle_schedule"].items()}}

    def _prof(self, frame, event, arg):
        co = frame.f_code
        if co.co_name == "distribute_energy_balanced" and co.co_filename.endswith("generate_schedule.py"):
            if event == "call":
                loc = frame.f_locals
                rec = {"period": list(loc["period"]), "energy_needed": loc["energy_needed"],
                       "v2g": loc["v2g"], "ind_flex": [list(x) for x in loc["ind_flex"]],
                       "vid": loc["vid"], "ts_per_hour": loc["ts_per_hour"], "pre": self._state(loc)}
                self._stack.append(rec)
            elif event == "return" and self._stack:
                rec = self._stack.pop()
                rec["post"] = self._state(frame.f_locals)
                rec["ret"] = arg
                self.calls.append(rec)
        elif co.co_name == "generate_schedule" and event == "return" and \
                co.co_filename.endswith("generate_schedule.py"):
            loc = frame.f_locals
            keys = ["schedule", "curtailment", "residual_load", "original_curtailment",
                    "original_residual_load", "vehicle_ids", "vehicle_schedule", "avail", "flex",
                    "core_standing_time", "idx_start", "idx_end", "gcID"]
            self.final = {k: copy.deepcopy(loc[k]) for k in keys if k in loc}
            if "gc" in loc:
                self.final["gc_max_power"] = loc["gc"].max_power

    def run(self, args):
        gs = self.gs
        orig_c, orig_i = gs.generate_flex_band, gs.generate_individual_flex_band

        def wrap(orig, kind):
            def w(*a, **k):
                sys.setprofile(None)
                flex = orig(*a, **k)
                self.flex = copy.deepcopy(flex)
                self.flex_kind = kind
                sys.setprofile(self._prof)
                return flex
            return w
        gs.generate_flex_band = wrap(orig_c, "collective")
        gs.generate_individual_flex_band = wrap(orig_i, "individual")
        err = None
        try:
            sys.setprofile(self._prof)
            gs.generate_schedule(args)
        except (Exception, SystemExit) as e:  # the watchdog's BaseException passes through
            err = e
        finally:
            sys.setprofile(None)
            gs.generate_flex_band, gs.generate_individual_flex_band = orig_c, orig_i
        return err
